#!/venv/bin/python
"""Confirm behaviour-preserving refactorings (from a sub-agent) in a scratch worktree -- the 45 tests and the agent's own
demonstration of the property pass with each applied alone -- run every check against a scratch copy of HEAD with each applied, and file them under /verif/twins/<name>-<n>/.  Every check must stay
silent: a violation or an analysis error on a twin is a false alarm of the machinery.

usage: tools/twin_eval.py <dir containing twinN.diff demo.py meta.json> <name>"""
import glob, json, os, shutil, subprocess, sys, tempfile
from concurrent.futures import ThreadPoolExecutor

VERIF = os.path.dirname(os.path.dirname(os.path.abspath(__file__)))
PIDS = "C01 C02 C03 C04 C05 C06 C07 C08 C09 C10 C11 C13 C14 C15 C16 C17 C18 C19".split()


def sh(cmd, cwd=None, env=None, timeout=1800):
    p = subprocess.run(cmd, shell=True, cwd=cwd, env=env, capture_output=True, text=True, timeout=timeout)
    return p.returncode, (p.stdout + p.stderr)


def main():
    seed, name = sys.argv[1], sys.argv[2]
    demo = os.path.join(seed, "demo.py")
    meta = json.load(open(os.path.join(seed, "meta.json")))
    summaries = {t.get("file"): t.get("summary") for t in meta.get("twins", []) if isinstance(t, dict)}
    for patch in sorted(glob.glob(os.path.join(seed, "twin*.diff"))):
        n = os.path.basename(patch)[4:-5]
        wt = tempfile.mkdtemp(prefix="twincheck_")
        os.rmdir(wt)
        rc, out = sh("git -C /repo worktree add --detach %s HEAD" % wt)
        assert rc == 0, out
        result = {"property": meta.get("property"), "kind": "twin", "summary": summaries.get(os.path.basename(patch))}
        try:
            os.makedirs(os.path.join(wt, "SEED"))
            shutil.copy(demo, os.path.join(wt, "SEED", "demo.py"))
            env = dict(os.environ, PYTHONPATH=wt, PYTHONDONTWRITEBYTECODE="1")
            d0, o0 = sh("/venv/bin/python SEED/demo.py", cwd=wt, env=env)
            a, ao = sh("git apply %s" % patch, cwd=wt)
            t1, to1 = sh("/venv/bin/python -m pytest -q -p no:cacheprovider 2>&1 | tail -1", cwd=wt)
            d1, o1 = sh("/venv/bin/python SEED/demo.py", cwd=wt, env=env)
            result["confirmed"] = {"demo_unpatched_exit": d0, "patch_applies": a == 0, "tests_patched": to1.strip(), "demo_patched_exit": d1,
                                   "demo_patched_output": o1.strip()[-300:]}
            result["valid"] = d0 == 0 and a == 0 and "45 passed" in to1 and d1 == 0
        finally:
            sh("git -C /repo worktree remove --force %s" % wt)
        if not result["valid"]:
            print("twin%s NOT VALID: %s" % (n, json.dumps(result["confirmed"])[:300]))
            continue
        # the checks run against a scratch copy of /repo's HEAD with the refactoring applied (removed afterwards)
        copy = tempfile.mkdtemp(prefix="twincopy_")
        try:
            rc, out = sh("git -C /repo archive HEAD pyscsi tools examples | tar -x -C %s && git apply --unsafe-paths %s" % (copy, patch), cwd=copy)
            assert rc == 0, out

            def one(pid):
                r, o = sh("timeout -k 5 1200 ./check %s --tier quick --no-evidence --repo %s" % (pid, copy), cwd=VERIF)
                return pid, r, [l for l in o.splitlines() if l.startswith("  ") or l.startswith("ANALYSIS-ERROR")][:3]
            with ThreadPoolExecutor(max_workers=9) as ex:
                res = list(ex.map(one, PIDS))
        finally:
            shutil.rmtree(copy, ignore_errors=True)
        result["checks"] = {pid: {"exit": r, "first": first} for pid, r, first in res}
        noisy = [pid for pid, r, _ in res if r != 0]
        result["false_alarms"] = noisy
        result["ran"] = "scratch worktree: pytest and the agent's demo with the refactoring applied; then ./check <id> --tier quick --repo <scratch copy of HEAD with the refactoring applied> for all 18 properties"
        dest = os.path.join(VERIF, "twins", "%s-%s" % (name, n))
        os.makedirs(dest, exist_ok=True)
        first = set(noisy)
        if os.path.isfile(os.path.join(dest, "meta.json")):       # a re-evaluation after the machinery was corrected
            try:
                old = json.load(open(os.path.join(dest, "meta.json")))
                first |= set(old.get("false_alarms_at_first", [])) | set(old.get("false_alarms", []))
                if old.get("first_reports"):
                    result["first_reports"] = old["first_reports"]
            except ValueError:
                pass
        result["false_alarms_at_first"] = sorted(first)
        if noisy and "first_reports" not in result:
            result["first_reports"] = {pid: result["checks"][pid]["first"][:2] for pid in noisy}
        shutil.copy(patch, os.path.join(dest, "patch.diff"))
        shutil.copy(demo, os.path.join(dest, "demo.py"))
        json.dump(result, open(os.path.join(dest, "meta.json"), "w"), indent=1)
        print("twin%s: %s  (%s)" % (n, "silent" if not noisy else "FALSE ALARM in %s" % noisy, (result["summary"] or "")[:100]))
        for pid in noisy:
            print("   ", pid, result["checks"][pid]["exit"], [x[:260] for x in result["checks"][pid]["first"][:2]])


main()
