#!/venv/bin/python
"""Confirm a seeded change (from a sub-agent) in a scratch worktree, run every
check against it on /repo itself, and file it under /verif/seeded/<name>/.

usage: tools/seed_eval.py <seed dir containing patch.diff demo.py meta.json> <name>"""
import json, os, shutil, subprocess, sys, tempfile
from concurrent.futures import ThreadPoolExecutor

VERIF = os.path.dirname(os.path.dirname(os.path.abspath(__file__)))
PIDS = "C01 C02 C03 C04 C05 C06 C07 C08 C09 C10 C11 C13 C14 C15 C16 C17 C18 C19".split()


def sh(cmd, cwd=None, env=None, timeout=900):
    p = subprocess.run(cmd, shell=True, cwd=cwd, env=env, capture_output=True, text=True, timeout=timeout)
    return p.returncode, (p.stdout + p.stderr)


def main():
    seed, name = sys.argv[1], sys.argv[2]
    patch = os.path.join(seed, "patch.diff")
    demo = os.path.join(seed, "demo.py")
    meta = json.load(open(os.path.join(seed, "meta.json")))
    wt = tempfile.mkdtemp(prefix="seedcheck_")
    os.rmdir(wt)
    rc, out = sh("git -C /repo worktree add --detach %s HEAD" % wt)
    assert rc == 0, out
    result = {"property": meta.get("property"), "summary": meta.get("summary"), "needs_to_manifest": meta.get("needs_to_manifest"),
              "files_changed": meta.get("files_changed")}
    try:
        os.makedirs(os.path.join(wt, "SEED"))
        shutil.copy(demo, os.path.join(wt, "SEED", "demo.py"))
        env = dict(os.environ, PYTHONPATH=wt, PYTHONDONTWRITEBYTECODE="1")
        d0, o0 = sh("/venv/bin/python SEED/demo.py", cwd=wt, env=env)
        t0, to0 = sh("/venv/bin/python -m pytest -q -p no:cacheprovider 2>&1 | tail -1", cwd=wt)
        a, ao = sh("git apply %s" % patch, cwd=wt)
        t1, to1 = sh("/venv/bin/python -m pytest -q -p no:cacheprovider 2>&1 | tail -1", cwd=wt)
        c1, co1 = sh("/venv/bin/python -m compileall -q pyscsi", cwd=wt)
        d1, o1 = sh("/venv/bin/python SEED/demo.py", cwd=wt, env=env)
        result["confirmed"] = {"demo_unpatched_exit": d0, "tests_unpatched": to0.strip(), "patch_applies": a == 0, "tests_patched": to1.strip(),
                               "compiles": c1 == 0, "demo_patched_exit": d1, "demo_patched_output": o1.strip()[-400:]}
        ok = d0 == 0 and a == 0 and "45 passed" in to1 and "45 passed" in to0 and d1 != 0
        result["valid"] = ok
    finally:
        sh("git -C /repo worktree remove --force %s" % wt)
    print(json.dumps(result["confirmed"], indent=1))
    if not result["valid"]:
        print("SEED NOT VALID")
    # run every check against /repo with the patch applied
    rc, out = sh("git -C /repo status --porcelain")
    assert out.strip() == "", "repo not clean: " + out
    rc, out = sh("git -C /repo apply %s" % patch)
    assert rc == 0, out
    try:
        def one(pid):
            r, o = sh("./check %s --tier quick --no-evidence" % pid, cwd=VERIF)
            rules = sorted(set(l.strip().split(":")[0] for l in o.splitlines() if l.startswith("  ") and ":" in l))
            return pid, r, rules, [l for l in o.splitlines() if l.startswith("  ")][:2]
        with ThreadPoolExecutor(max_workers=16) as ex:
            res = list(ex.map(one, PIDS))
    finally:
        sh("git -C /repo checkout -- . && git -C /repo clean -fdq -- pyscsi tools examples")      # (new files of the change are untracked: removed too)
    rc, out = sh("git -C /repo status --porcelain")
    assert out.strip() == "", "repo not restored: " + out
    result["checks"] = {pid: {"exit": r, "rules": rules, "first": first} for pid, r, rules, first in res}
    caught = [pid for pid, r, _, _ in res if r == 1]
    errors = [pid for pid, r, _, _ in res if r == 2]
    result["caught_by"] = caught
    result["analysis_errors"] = errors
    result["own_property_catches"] = meta.get("property") in caught
    result["ran"] = "scratch worktree: demo/pytest before and after `git apply`; then `git -C /repo apply`, ./check <id> --tier quick for all 18 properties, `git -C /repo checkout -- .`"
    dest = os.path.join(VERIF, "seeded", name)
    os.makedirs(dest, exist_ok=True)
    shutil.copy(patch, os.path.join(dest, "patch.diff"))
    shutil.copy(demo, os.path.join(dest, "demo.py"))
    json.dump(result, open(os.path.join(dest, "meta.json"), "w"), indent=1)
    print("caught by:", caught, "errors:", errors)
    for pid in caught:
        print(" ", pid, result["checks"][pid]["rules"], result["checks"][pid]["first"][:1])


main()
