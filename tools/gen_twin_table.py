#!/venv/bin/python
"""Print the table of DESIGN.md section 11.1b (behaviour-preserving refactorings and what the checks say) from twins/*/meta.json."""
import glob, json, os
V = os.path.dirname(os.path.dirname(os.path.abspath(__file__)))
print("| twin | property | refactoring (one line) | reported at first by | now |")
print("|---|---|---|---|---|")
for d in sorted(glob.glob(os.path.join(V, "twins", "*"))):
    if not os.path.isdir(d):
        continue
    m = json.load(open(os.path.join(d, "meta.json")))
    def one(s, n):
        s = " ".join(str(s or "").split())
        return (s[:n] + "…") if len(s) > n else s
    now = []
    for pid, c in sorted(m.get("checks", {}).items()):
        if c["exit"] == 1:
            now.append("%s: **violation**" % pid)
        elif c["exit"] == 2:
            why = " ".join(c["first"][:1])
            reason = why.split("reason=")[1].split()[0] if "reason=" in why else "analysis error"
            now.append("%s: undecided (`%s`)" % (pid, reason))
    first = m.get("false_alarms_at_first", [])
    if len(now) > 4:
        now = now[:3] + ["… %d checks in all" % len(now)]
    if len(first) > 8:
        first = first[:7] + ["…"]
    print("| `%s` | %s | %s | %s | %s |" % (os.path.basename(d), m.get("property"), one(m.get("summary"), 200).replace("|", "\\|"),
                                         ", ".join(first) or "–", "; ".join(now) or "silent"))
