#!/venv/bin/python
"""Print the table of DESIGN.md section 11 (seeded changes and the checks that catch them) from seeded/*/meta.json."""
import glob, json, os
V = os.path.dirname(os.path.dirname(os.path.abspath(__file__)))
print("| seed | property | change (one line) | needs, to manifest | caught by (rules of the property's own check first) |")
print("|---|---|---|---|---|")
for d in sorted(glob.glob(os.path.join(V, "seeded", "*"))):
    m = json.load(open(os.path.join(d, "meta.json")))
    own = m.get("property")
    parts = []
    for pid in sorted(m.get("caught_by", []), key=lambda p: (p != own, p)):
        rules = m["checks"][pid]["rules"]
        parts.append("%s: %s" % (pid, ", ".join("`%s`" % r for r in rules[:4]) + (" …" if len(rules) > 4 else "")))
    def one(s, n):
        s = " ".join(str(s or "").split())
        return (s[:n] + "…") if len(s) > n else s
    print("| `%s` | %s | %s | %s | %s |" % (os.path.basename(d), own, one(m.get("summary"), 230).replace("|", "\\|"),
                                         one(m.get("needs_to_manifest"), 200).replace("|", "\\|"), "; ".join(parts) or "**missed**"))
