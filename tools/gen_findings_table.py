#!/venv/bin/python
"""Print the defect table of DESIGN.md section 10.3 from known_findings.json."""
import json, os
k = json.load(open(os.path.join(os.path.dirname(os.path.dirname(os.path.abspath(__file__))), "known_findings.json")))
print("| property | status | what failed |")
print("|---|---|---|")
for e in k:
    if e["status"] == "fixed":
        w = e["what_failed"].split(e["commit"], 1)[-1].strip()
        print("| %s | fixed `%s` | %s |" % (e["property"], e["commit"], w.replace("|", "\\|")))
    else:
        print("| %s | **known** (`%s`) | %s — *not repaired:* %s |" % (e["property"], e["rule"], e["what_fails"].replace("|", "\\|"),
                                                                     e.get("why_not_repaired", "").replace("|", "\\|")))
