#!/usr/bin/env python
# coding: utf-8
"""
Demo / regression check for property C10:

  Integer-to-bytes conversion is big-endian and inverse to bytes-to-integer
  for every width.  For any layout of non-overlapping fields (bit masks of any
  width at any byte offset, aligned or not, and byte/word/dword blobs),
  encoding writes a value into exactly the bits of its field and no others,
  decoding reads exactly those bits, decoding after encoding returns the value,
  and the result does not depend on the order in which fields are supplied.

Everything is exercised through the public API only:
    pyscsi.utils.converter.{scsi_int_to_ba, scsi_ba_to_int, decode_bits, encode_dict}
and a few command classes that sit on top of them.

Exit status 0 and "PASS" when the property holds.
"""
import random
import sys
import types

# The external transport bindings are optional; provide inert stand-ins so that
# importing the library never depends on them.
for _name in ("sgio", "iscsi"):
    if _name not in sys.modules:
        try:
            __import__(_name)
        except Exception:
            sys.modules[_name] = types.ModuleType(_name)

from pyscsi.utils import converter
from pyscsi.utils.converter import (
    decode_bits,
    encode_dict,
    scsi_ba_to_int,
    scsi_int_to_ba,
)

FAILURES = []
CHECKS = [0]


def check(cond, msg):
    CHECKS[0] += 1
    if not cond:
        FAILURES.append(msg)
        if len(FAILURES) > 25:
            finish()


def finish():
    if FAILURES:
        for f in FAILURES[:25]:
            print("FAIL:", f)
        print("FAILED (%d of %d checks)" % (len(FAILURES), CHECKS[0]))
        sys.exit(1)
    print("PASS (%d checks)" % CHECKS[0])
    sys.exit(0)


# --------------------------------------------------------------------------
# an independent, deliberately naive bit-level model
# --------------------------------------------------------------------------
def model_int_to_bytes(value, size):
    out = []
    for _ in range(size):
        out.insert(0, value % 256)
        value //= 256
    return out


def model_bytes_to_int(seq):
    value = 0
    for b in seq:
        value = value * 256 + b
    return value


def mask_nbytes(mask):
    n = 1
    while mask >= 256 ** n:
        n += 1
    return n


def mask_bit_positions(mask, byte_pos):
    """absolute (byte index, bit-in-byte) positions of a mask, LSB first"""
    n = mask_nbytes(mask)
    out = []
    for bit in range(8 * n):
        if (mask >> bit) & 1:
            byte = byte_pos + n - 1 - bit // 8
            out.append((byte, bit % 8))
    return out


def mask_shift(mask):
    s = 0
    while not (mask >> s) & 1:
        s += 1
    return s


def model_decode_mask(buf, mask, byte_pos):
    # gather the masked bits, keep their relative spacing, drop trailing zeros
    shift = mask_shift(mask)
    value = 0
    n = mask_nbytes(mask)
    for bit in range(8 * n):
        if (mask >> bit) & 1:
            byte = byte_pos + n - 1 - bit // 8
            if (buf[byte] >> (bit % 8)) & 1:
                value |= 1 << (bit - shift)
    return value


def model_encode_mask(buf, mask, byte_pos, value):
    # value only contains bits allowed by the (shifted) mask
    shift = mask_shift(mask)
    n = mask_nbytes(mask)
    for bit in range(8 * n):
        if (mask >> bit) & 1 and (value >> (bit - shift)) & 1:
            byte = byte_pos + n - 1 - bit // 8
            buf[byte] ^= 1 << (bit % 8)


UNIT = {"b": 1, "w": 2, "dw": 4}


# --------------------------------------------------------------------------
# 1. integer <-> bytes
# --------------------------------------------------------------------------
def test_int_conversion(rnd):
    check(scsi_int_to_ba(34, 4) == bytearray(b'\x00\x00\x00"'), "docstring example")
    check(scsi_int_to_ba() == bytearray(4), "defaults")
    check(scsi_int_to_ba(7) == bytearray(b"\x00\x00\x00\x07"), "default width")
    check(scsi_int_to_ba(array_size=2) == bytearray(2), "default value")
    check(
        scsi_int_to_ba(to_convert=0x0102, array_size=3) == bytearray(b"\x00\x01\x02"),
        "keywords",
    )
    check(scsi_int_to_ba(0x1234, 0) == bytearray(), "width 0")
    check(scsi_ba_to_int(bytearray()) == 0, "empty bytearray")
    check(scsi_ba_to_int(b"") == 0, "empty bytes")
    check(scsi_ba_to_int(b"\x01\x02\x03") == 0x010203, "bytes input")
    check(scsi_ba_to_int(bytearray(b"\xff" * 9)) == 2 ** 72 - 1, "9 x ff")
    check(scsi_ba_to_int(b"\x00\x00\x80\x00") == 0x8000, "leading zeros")
    check(scsi_ba_to_int(memoryview(b"\x12\x34\x56")) == 0x123456, "memoryview input")

    for width in range(0, 41):
        specials = [0, 1, 0xFF, 0x80, 2 ** (8 * width) - 1 if width else 0]
        if width:
            specials += [
                2 ** (8 * width - 1),
                2 ** (8 * (width - 1)),
                int("a5" * width, 16),
                int("5a" * width, 16),
            ]
        values = specials + [rnd.getrandbits(8 * width) if width else 0 for _ in range(25)]
        for v in values:
            v %= 256 ** width
            ba = scsi_int_to_ba(v, width)
            check(type(ba) is bytearray, "int_to_ba type w=%d" % width)
            check(len(ba) == width, "int_to_ba len w=%d v=%x" % (width, v))
            check(list(ba) == model_int_to_bytes(v, width), "big endian w=%d v=%x" % (width, v))
            check(scsi_ba_to_int(ba) == v, "inverse w=%d v=%x" % (width, v))
            check(scsi_ba_to_int(bytes(ba)) == v, "inverse (bytes) w=%d v=%x" % (width, v))
            # extra leading zero bytes never change the number
            check(
                scsi_ba_to_int(bytearray(3) + ba) == v,
                "leading zeros ignored w=%d v=%x" % (width, v),
            )
        # the other direction
        for _ in range(10):
            raw = bytearray(rnd.getrandbits(8) for _ in range(width))
            n = scsi_ba_to_int(raw)
            check(n == model_bytes_to_int(raw), "ba_to_int value w=%d" % width)
            check(scsi_int_to_ba(n, width) == raw, "inverse2 w=%d" % width)
            # slices as the library itself uses them
            for lo in range(0, width, max(1, width // 3)):
                check(
                    scsi_ba_to_int(raw[lo:]) == model_bytes_to_int(raw[lo:]),
                    "slice w=%d lo=%d" % (width, lo),
                )

    # values wider than the array keep only their low-order bytes
    for width in range(0, 10):
        for _ in range(20):
            v = rnd.getrandbits(8 * width + rnd.randint(1, 40))
            check(
                list(scsi_int_to_ba(v, width)) == model_int_to_bytes(v, width),
                "truncation w=%d v=%x" % (width, v),
            )
    check(scsi_int_to_ba(0x1FF, 1) == bytearray(b"\xff"), "truncate 0x1ff")
    check(scsi_int_to_ba(256, 1) == bytearray(b"\x00"), "truncate 256")
    # negative numbers come out in two's complement
    check(scsi_int_to_ba(-1, 2) == bytearray(b"\xff\xff"), "-1 / 2")
    check(scsi_int_to_ba(-2, 3) == bytearray(b"\xff\xff\xfe"), "-2 / 3")
    check(scsi_int_to_ba(-256, 2) == bytearray(b"\xff\x00"), "-256 / 2")
    # bools are ints
    check(scsi_int_to_ba(True, 2) == bytearray(b"\x00\x01"), "True")


# --------------------------------------------------------------------------
# 2. layouts
# --------------------------------------------------------------------------
def random_layout(rnd, size):
    """
    carve a buffer of `size` bytes into non-overlapping fields.
    returns (check_dict, owned) with owned[name] = set of (byte, bit) for mask
    fields or set of (byte, 0..7) for blob fields.
    """
    free = set((byte, bit) for byte in range(size) for bit in range(8))
    layout = {}
    owned = {}
    attempts = 0
    while attempts < 60 and len(layout) < 24:
        attempts += 1
        kind = rnd.choice(["mask", "mask", "mask", "widemask", "holes", "b", "w", "dw"])
        name = "f%d_%s" % (len(layout), kind)
        if kind in UNIT:
            count = rnd.randint(1, 3)
            length = count * UNIT[kind]
            if length > size:
                continue
            offset = rnd.randint(0, size - length)
            bits = set((offset + i, b) for i in range(length) for b in range(8))
            if not bits <= free:
                continue
            notation = (kind, offset, count)
        else:
            if kind == "mask":
                width = rnd.randint(1, 16)
            elif kind == "widemask":
                if size < 3:
                    continue
                width = rnd.randint(17, 8 * min(size, 20))
            else:
                width = rnd.randint(2, 24)
            # bit offset (from the LSB) of the mask inside its own bytes
            shift = rnd.randint(0, 7)
            mask = ((1 << width) - 1) << shift
            if kind == "holes":
                mask &= rnd.getrandbits(width + shift) | (1 << (width + shift - 1))
                if mask == 0:
                    continue
            n = mask_nbytes(mask)
            if n > size:
                continue
            offset = rnd.randint(0, size - n)
            bits = set(mask_bit_positions(mask, offset))
            if not bits <= free:
                continue
            notation = rnd.choice([list, tuple])([mask, offset])
        free -= bits
        layout[name] = notation
        owned[name] = bits
    return layout, owned


def random_values(rnd, layout):
    values = {}
    for name, notation in layout.items():
        if len(notation) == 2:
            mask = notation[0]
            values[name] = rnd.getrandbits(mask.bit_length()) & (mask >> mask_shift(mask))
        else:
            length = notation[2] * UNIT[notation[0]]
            raw = bytearray(rnd.getrandbits(8) for _ in range(length))
            values[name] = rnd.choice([bytes, bytearray])(raw)
    return values


def shuffled(rnd, d):
    keys = list(d)
    rnd.shuffle(keys)
    return dict((k, d[k]) for k in keys)


def model_encode(layout, values, size):
    buf = [0] * size
    for name, notation in layout.items():
        if name not in values:
            continue
        if len(notation) == 2:
            model_encode_mask(buf, notation[0], notation[1], values[name])
        else:
            length = notation[2] * UNIT[notation[0]]
            buf[notation[1] : notation[1] + length] = list(values[name])
    return buf


def test_layouts(rnd, rounds):
    for rnd_no in range(rounds):
        size = rnd.choice([1, 2, 3, 4, 6, 8, 10, 12, 16, 24, 32, 64])
        layout, owned = random_layout(rnd, size)
        if not layout:
            continue
        values = random_values(rnd, layout)
        tag = "round %d size %d" % (rnd_no, size)

        # ---- encode -----------------------------------------------------
        expected = model_encode(layout, values, size)
        result = bytearray(size)
        ret = encode_dict(values, layout, result)
        check(ret is None, tag + ": encode_dict returns None")
        check(type(result) is bytearray and len(result) == size, tag + ": buffer shape")
        check(list(result) == expected, tag + ": encoded image %r" % (layout,))

        # order of the values, order of the layout: irrelevant
        for _ in range(3):
            other = bytearray(size)
            encode_dict(shuffled(rnd, values), shuffled(rnd, layout), other)
            check(other == result, tag + ": encode order independence")

        # field by field in separate calls is the same as all at once
        piecewise = bytearray(size)
        for name in shuffled(rnd, values):
            encode_dict({name: values[name]}, layout, piecewise)
        check(piecewise == result, tag + ": piecewise encode")

        # keys that the layout does not know are ignored, missing ones are fine
        extra = dict(values)
        extra["not_in_layout"] = 0xFFFF
        extra["also_unknown"] = b"\xff\xff"
        other = bytearray(size)
        encode_dict(extra, layout, other)
        check(other == result, tag + ": unknown keys ignored")

        some = dict((k, values[k]) for k in list(values)[::2])
        other = bytearray(size)
        encode_dict(some, layout, other)
        check(list(other) == model_encode(layout, some, size), tag + ": subset encode")

        # the inputs are left alone
        check(values == dict(values) and "not_in_layout" not in layout, tag + ": inputs untouched")

        # each single field only touches its own bits
        for name, notation in layout.items():
            single = bytearray(size)
            if len(notation) == 2:
                full = notation[0] >> mask_shift(notation[0])
                encode_dict({name: full}, layout, single)
                lit = set(
                    (byte, bit)
                    for byte in range(size)
                    for bit in range(8)
                    if (single[byte] >> bit) & 1
                )
                check(lit == owned[name], tag + ": all-ones %s lights exactly its bits" % name)
                single = bytearray(size)
                encode_dict({name: 0}, layout, single)
                check(single == bytearray(size), tag + ": zero %s leaves buffer clear" % name)
            else:
                length = notation[2] * UNIT[notation[0]]
                encode_dict({name: b"\xff" * length}, layout, single)
                lit = set(
                    (byte, bit)
                    for byte in range(size)
                    for bit in range(8)
                    if (single[byte] >> bit) & 1
                )
                check(lit == owned[name], tag + ": blob %s fills exactly its bytes" % name)

        # ---- decode -----------------------------------------------------
        for datatype in (bytearray, bytes):
            decoded = {}
            ret = decode_bits(datatype(result), layout, decoded)
            check(ret is None, tag + ": decode_bits returns None")
            check(list(decoded) == list(layout), tag + ": decoded key order")
            for name, notation in layout.items():
                got = decoded.get(name)
                if len(notation) == 2:
                    check(
                        type(got) is int and got == values[name],
                        tag + ": roundtrip %s %r -> %r" % (name, values[name], got),
                    )
                else:
                    check(
                        type(got) is datatype and bytes(got) == bytes(values[name]),
                        tag + ": blob roundtrip %s" % name,
                    )

        decoded2 = {}
        decode_bits(bytearray(result), shuffled(rnd, layout), decoded2)
        check(decoded2 == decoded_as(bytearray, result, layout), tag + ": decode order independence")

        # decoding arbitrary data reads exactly the field's bits
        noise = bytearray(rnd.getrandbits(8) for _ in range(size))
        decoded = {}
        decode_bits(noise, layout, decoded)
        for name, notation in layout.items():
            if len(notation) == 2:
                check(
                    decoded[name] == model_decode_mask(noise, notation[0], notation[1]),
                    tag + ": decode noise %s" % name,
                )
                # flipping any bit outside the field does not change the value;
                # flipping one inside does
                flipped = bytearray(noise)
                candidates = [
                    (byte, bit)
                    for byte in range(size)
                    for bit in range(8)
                    if (byte, bit) not in owned[name]
                ]
                for byte, bit in rnd.sample(candidates, min(len(candidates), 6)):
                    flipped[byte] ^= 1 << bit
                d = {}
                decode_bits(flipped, {name: notation}, d)
                check(d[name] == decoded[name], tag + ": outside bits ignored %s" % name)
                byte, bit = rnd.choice(sorted(owned[name]))
                flipped[byte] ^= 1 << bit
                d = {}
                decode_bits(flipped, {name: notation}, d)
                check(d[name] != decoded[name], tag + ": inside bit observed %s" % name)
            else:
                length = notation[2] * UNIT[notation[0]]
                check(
                    decoded[name] == noise[notation[1] : notation[1] + length],
                    tag + ": decode noise blob %s" % name,
                )
        check(noise == noise[:], tag + ": decode leaves data alone")

        # result dict keeps unrelated entries and overwrites stale ones
        decoded = {"unrelated": 42, next(iter(layout)): "stale"}
        decode_bits(noise, layout, decoded)
        check(decoded["unrelated"] == 42, tag + ": unrelated result key kept")
        check(decoded[next(iter(layout))] != "stale", tag + ": stale result overwritten")

        # re-encoding what was decoded from noise reproduces the owned bits only
        back = bytearray(size)
        encode_dict(decoded, layout, back)
        all_owned = set().union(*owned.values())
        for byte in range(size):
            keep = sum(1 << bit for bit in range(8) if (byte, bit) in all_owned)
            check(back[byte] == noise[byte] & keep, tag + ": re-encode byte %d" % byte)

        # encoding on top of a pre-filled buffer leaves foreign bits untouched
        # (mask fields are merged with xor, blobs are stored)
        pre = bytearray(rnd.getrandbits(8) for _ in range(size))
        target = bytearray(pre)
        encode_dict(values, layout, target)
        exp = list(pre)
        for name, notation in layout.items():
            if len(notation) == 2:
                model_encode_mask(exp, notation[0], notation[1], values[name])
            else:
                length = notation[2] * UNIT[notation[0]]
                exp[notation[1] : notation[1] + length] = list(values[name])
        check(list(target) == exp, tag + ": encode onto pre-filled buffer")


def decoded_as(datatype, result, layout):
    d = {}
    decode_bits(datatype(result), layout, d)
    return d


# --------------------------------------------------------------------------
# 3. hand written cases
# --------------------------------------------------------------------------
def test_fixed_cases():
    layout = {
        "opcode": [0xFF, 0],
        "rdprotect": [0xE0, 1],
        "dpo": [0x10, 1],
        "fua": [0x08, 1],
        "rarc": [0x04, 1],
        "lba": [0xFFFFFFFFFFFFFFFF, 2],
        "tl": [0xFFFFFFFF, 10],
        "group": [0x1F, 14],
    }
    buf = bytearray(16)
    encode_dict(
        {"opcode": 0x88, "rdprotect": 2, "dpo": 1, "fua": 1, "rarc": 1, "lba": 1024, "tl": 27, "group": 19},
        layout,
        buf,
    )
    check(
        buf == bytearray.fromhex("88 5c 0000000000000400 0000001b 13 00"),
        "read16 style cdb: %s" % buf.hex(),
    )
    out = {}
    decode_bits(buf, layout, out)
    check(
        out == {"opcode": 0x88, "rdprotect": 2, "dpo": 1, "fua": 1, "rarc": 1, "lba": 1024, "tl": 27, "group": 19},
        "read16 style decode: %r" % out,
    )

    # unaligned multi byte masks
    layout = {
        "a": (0x0FFF, 0),  # low 12 bits of bytes 0..1
        "hi": (0xF0, 0),  # high nibble of byte 0
        "b": (0x3FFFC0, 2),  # 16 bits in the middle of bytes 2..4
        "c": (0x3F, 4),
        "d": (0xC00000, 2),
        "e": (0x7FFFFFFFFFFFFFFFFF, 5),  # 71 bits over 9 bytes
        "top": (0x80, 5),
        "one": (0x0100, 14),  # lowest bit of byte 14 addressed through a 2 byte mask
        "rest15": (0xFF, 15),
    }
    vals = {
        "a": 0xABC,
        "hi": 0x5,
        "b": 0xBEEF,
        "c": 0x2A,
        "d": 0x2,
        "e": 0x5A5A5A5A5A5A5A5A5A & (2 ** 71 - 1),
        "top": 1,
        "one": 1,
        "rest15": 0x77,
    }
    buf = bytearray(16)
    encode_dict(vals, layout, buf)
    whole = int(buf.hex(), 16)
    check(buf[0] == 0x5A and buf[1] == 0xBC, "unaligned a/hi: %s" % buf.hex())
    check(buf[2:5] == bytearray([0x80 | (0xBEEF >> 10), (0xBEEF >> 2) & 0xFF, ((0xBEEF & 3) << 6) | 0x2A]), "unaligned b/c/d: %s" % buf.hex())
    check(buf[5] & 0x80 == 0x80, "top bit")
    check(buf[14] == 0x01 and buf[15] == 0x77, "one / rest15: %s" % buf.hex())
    check(whole >> 120 == 0x5A, "first byte through big int")
    out = {}
    decode_bits(bytes(buf), layout, out)
    check(out == vals, "unaligned decode: %r" % out)

    # blobs of every unit
    layout = {
        "vendor": ("b", 8, 8),
        "words": ("w", 16, 3),
        "dwords": ("dw", 24, 2),
        "flag": [0x01, 0],
        "tail": ("b", 32, 1),
    }
    vals = {
        "vendor": b"PYSCSI  ",
        "words": bytearray(b"\x00\x01\x00\x02\x00\x03"),
        "dwords": b"\xde\xad\xbe\xef\xca\xfe\xba\xbe",
        "flag": 1,
        "tail": b"\x7f",
    }
    buf = bytearray(33)
    encode_dict(vals, layout, buf)
    check(len(buf) == 33, "blob buffer length")
    check(buf[8:16] == b"PYSCSI  ", "b blob")
    check(buf[16:22] == b"\x00\x01\x00\x02\x00\x03", "w blob")
    check(buf[24:32] == b"\xde\xad\xbe\xef\xca\xfe\xba\xbe", "dw blob")
    check(buf[0] == 1 and buf[1:8] == bytearray(7) and buf[22:24] == bytearray(2), "blob neighbours")
    check(buf[32] == 0x7F, "tail")
    out = {}
    decode_bits(buf, layout, out)
    check(out["vendor"] == b"PYSCSI  " and type(out["vendor"]) is bytearray, "b decode")
    check(out["words"] == b"\x00\x01\x00\x02\x00\x03", "w decode")
    check(out["dwords"] == b"\xde\xad\xbe\xef\xca\xfe\xba\xbe", "dw decode")
    check(out["flag"] == 1 and out["tail"] == b"\x7f", "flag/tail decode")
    # a blob is a slice: it is cut off at the end of the data
    out = {}
    decode_bits(buf[:20], {"words": ("w", 16, 3), "gone": ("dw", 24, 2)}, out)
    check(out == {"words": bytearray(b"\x00\x01\x00\x02"), "gone": bytearray()}, "short blobs %r" % out)

    # empty layouts and empty inputs
    buf = bytearray(b"\x12\x34")
    encode_dict({}, {"x": [0xFF, 0]}, buf)
    encode_dict({"x": 1}, {}, buf)
    check(buf == b"\x12\x34", "empty encode")
    out = {"keep": 1}
    decode_bits(buf, {}, out)
    check(out == {"keep": 1}, "empty decode")

    # xor merge: encoding the same value twice cancels
    buf = bytearray(4)
    encode_dict({"x": 0x155}, {"x": [0x3FE0, 1]}, buf)
    first = bytearray(buf)
    encode_dict({"x": 0x155}, {"x": [0x3FE0, 1]}, buf)
    check(first == bytearray([0, (0x155 << 5) >> 8, (0x155 << 5) & 0xFF, 0]), "xor first: %s" % first.hex())
    check(buf == bytearray(4), "xor second")

    # decoding data that ends inside a mask field uses the bytes that exist
    out = {}
    decode_bits(bytearray(b"\x12\x34\x56"), {"x": [0xFFFFFFFF, 1], "y": [0xFF00, 2], "z": [0xFF, 3]}, out)
    check(out == {"x": 0x3456, "y": 0, "z": 0}, "short data: %r" % out)

    # writing a mask field beyond the end of the buffer is an IndexError
    buf = bytearray(2)
    try:
        encode_dict({"x": 1}, {"x": [0xFFFF, 1]}, buf)
    except IndexError:
        check(len(buf) == 2, "buffer not resized on overflow")
    else:
        check(False, "overflowing mask write must raise IndexError")

    # bool values behave as 0 / 1
    buf = bytearray(1)
    encode_dict({"a": True, "b": False}, {"a": [0x80, 0], "b": [0x40, 0]}, buf)
    check(buf == b"\x80", "bool values")

    # Mapping types other than dict
    import collections

    buf = bytearray(2)
    encode_dict(
        collections.OrderedDict([("b", 3), ("a", 1)]),
        types.MappingProxyType({"a": (0x8000, 0), "b": (0x0300, 0)}),
        buf,
    )
    check(buf == b"\x83\x00", "mapping types: %s" % buf.hex())
    out = collections.OrderedDict()
    decode_bits(buf, collections.OrderedDict([("b", (0x0300, 0)), ("a", (0x8000, 0))]), out)
    check(list(out.items()) == [("b", 3), ("a", 1)], "ordered decode")


# --------------------------------------------------------------------------
# 4. through the command classes
# --------------------------------------------------------------------------
def test_commands(rnd):
    from pyscsi.pyscsi.scsi import SCSI
    from pyscsi.pyscsi.scsi_cdb_inquiry import Inquiry
    from pyscsi.pyscsi.scsi_cdb_read10 import Read10
    from pyscsi.pyscsi.scsi_cdb_read16 import Read16
    from pyscsi.pyscsi.scsi_cdb_write16 import Write16
    from pyscsi.pyscsi.scsi_enum_command import sbc

    class Dev(object):
        opcodes = sbc

        def execute(self, cmd, en_raw_sense=False):
            pass

        def open(self):
            pass

        def close(self):
            pass

    class S(SCSI):
        def __init__(self, dev):
            self.device = dev

    s = S(Dev())
    s.blocksize = 512
    for _ in range(40):
        lba = rnd.getrandbits(64)
        tl = rnd.getrandbits(5)
        kw = dict(rdprotect=rnd.getrandbits(3), dpo=rnd.getrandbits(1), fua=rnd.getrandbits(1), rarc=rnd.getrandbits(1), group=rnd.getrandbits(5))
        r = s.read16(lba, tl, **kw)
        cdb = r.cdb
        check(len(cdb) == 16 and cdb[0] == 0x88, "read16 opcode")
        check(cdb[1] == kw["rdprotect"] << 5 | kw["dpo"] << 4 | kw["fua"] << 3 | kw["rarc"] << 2, "read16 byte1")
        check(bytes(cdb[2:10]) == lba.to_bytes(8, "big"), "read16 lba")
        check(bytes(cdb[10:14]) == tl.to_bytes(4, "big"), "read16 tl")
        check(cdb[14] == kw["group"] and cdb[15] == 0, "read16 group")
        d = Read16.unmarshall_cdb(cdb)
        check(d["lba"] == lba and d["tl"] == tl and all(d[k] == v for k, v in kw.items()), "read16 unmarshall")
        check(Read16.marshall_cdb(d) == cdb, "read16 marshall")

        lba = rnd.getrandbits(32)
        tl = rnd.getrandbits(4)
        r = s.read10(lba, tl, group=rnd.getrandbits(5))
        d = Read10.unmarshall_cdb(r.cdb)
        check(d["lba"] == lba and d["tl"] == tl, "read10 roundtrip")
        check(bytes(r.cdb[2:6]) == lba.to_bytes(4, "big") and bytes(r.cdb[7:9]) == tl.to_bytes(2, "big"), "read10 bytes")
        check(Read10.marshall_cdb(d) == r.cdb, "read10 marshall")

        lba = rnd.getrandbits(64)
        data = bytearray(512 * 2)
        w = s.write16(lba, 2, data, wrprotect=rnd.getrandbits(3), dpo=1, group=rnd.getrandbits(5))
        d = Write16.unmarshall_cdb(w.cdb)
        check(d["lba"] == lba and d["tl"] == 2 and d["dpo"] == 1, "write16 roundtrip")
        check(Write16.marshall_cdb(d) == w.cdb, "write16 marshall")

    for alloc in (0, 1, 96, 255, 256, 300, 0xFFFF):
        for evpd, page in ((0, 0), (1, 0x80), (1, 0xB0)):
            i = s.inquiry(evpd=evpd, page_code=page, alloclen=alloc)
            cdb = i.cdb
            check(cdb[0] == 0x12 and cdb[1] == evpd and cdb[2] == page, "inquiry head")
            check(scsi_ba_to_int(cdb[3:5]) == alloc, "inquiry alloc")
            d = Inquiry.unmarshall_cdb(cdb)
            check(d["evpd"] == evpd and d["page_code"] == page and d["alloc_len"] == alloc, "inquiry unmarshall")
            check(Inquiry.marshall_cdb(d) == cdb, "inquiry marshall")

    # standard inquiry data: bit fields and 'b' blobs mixed in one layout
    raw = bytearray(96)
    raw[0] = 0x25  # qualifier 1, device type 5
    raw[1] = 0x80
    raw[2] = 0x06
    raw[3] = 0x32
    raw[4] = 91
    raw[5] = 0xB9
    raw[7] = 0x02
    raw[8:16] = b"VENDOR  "
    raw[16:32] = b"PRODUCT         "
    raw[32:36] = b"1.23"
    i = s.inquiry(alloclen=96)
    d = i.unmarshall_datain(raw)
    check(d["peripheral_qualifier"] == 1 and d["peripheral_device_type"] == 5, "inq byte0 %r" % d)
    check(d["rmb"] == 1 and d["version"] == 6, "inq rmb/version")
    check(d["t10_vendor_identification"] == b"VENDOR  ", "inq vendor")
    check(d["product_identification"] == b"PRODUCT         ", "inq product")
    check(d["product_revision_level"] == b"1.23", "inq revision")
    check(d["additional_length"] == 91, "inq additional length")
    back = Inquiry.marshall_datain(d)
    check(back[:36] == raw[:36], "inq marshall datain %s" % back.hex())


def main():
    check(
        all(callable(getattr(converter, n)) for n in ("scsi_int_to_ba", "scsi_ba_to_int", "decode_bits", "encode_dict", "print_data", "get_opcode")),
        "public names",
    )
    import inspect

    check(str(inspect.signature(converter.scsi_int_to_ba)) == "(to_convert=0, array_size=4)", "sig int_to_ba")
    check(str(inspect.signature(converter.scsi_ba_to_int)) == "(ba)", "sig ba_to_int")
    check(str(inspect.signature(converter.decode_bits)) == "(data, check_dict, result_dict)", "sig decode_bits")
    check(str(inspect.signature(converter.encode_dict)) == "(data_dict, check_dict, result)", "sig encode_dict")

    rnd = random.Random(0xC10)
    test_int_conversion(rnd)
    test_fixed_cases()
    test_layouts(rnd, 400)
    test_commands(rnd)
    finish()


if __name__ == "__main__":
    main()
