#!/usr/bin/env python
# Demo / oracle for property C03:
#
#   For every command, the data-in buffer the device will fill is exactly as
#   long as the transfer the CDB tells the device it may return, and the
#   data-out buffer is exactly the bytes whose length the CDB announces.
#   Commands without a data phase carry empty buffers, and both buffers are
#   always byte buffers a transport can take the length of.
#
# Run as:  cd /tmp/seed/C03u && PYTHONPATH=/tmp/seed/C03u /venv/bin/python SEED/demo.py
import hashlib
import itertools
import sys
import types

# --------------------------------------------------------------------------
# fake external bindings (sgio / iscsi are not installed)
# --------------------------------------------------------------------------
SGIO_CALLS = []
ISCSI_TASKS = []
ISCSI_COMMANDS = []


class _FakeCheckConditionError(Exception):
    def __init__(self, sense):
        Exception.__init__(self, "check condition")
        self.sense = sense


_sgio = types.ModuleType("sgio")
_sgio.CheckConditionError = _FakeCheckConditionError
_sgio.fail_with = None


def _sgio_execute(fobj, cdb, dataout, datain, *rest, **kw):
    assert not rest and not kw, "sgio.execute called with unexpected extra arguments"
    SGIO_CALLS.append((fobj, cdb, dataout, datain, len(cdb), len(dataout), len(datain)))
    if _sgio.fail_with is not None:
        raise _FakeCheckConditionError(_sgio.fail_with)
    # the device fills the data-in buffer completely
    for i in range(len(datain)):
        datain[i] = (i * 7 + 1) & 0xFF
    return 0


_sgio.execute = _sgio_execute
sys.modules["sgio"] = _sgio

_iscsi = types.ModuleType("iscsi")
_iscsi.SCSI_XFER_NONE = 0
_iscsi.SCSI_XFER_WRITE = 1
_iscsi.SCSI_XFER_READ = 2
_iscsi.ISCSI_SESSION_NORMAL = 2
_iscsi.ISCSI_HEADER_DIGEST_NONE_CRC32C = 1
_iscsi.next_status = 0
_iscsi.next_sense = None


class _Task:
    def __init__(self, cdb, direction, xferlen, *rest, **kw):
        assert not rest and not kw
        self.cdb = cdb
        self.dir = direction
        self.xferlen = xferlen
        self.status = _iscsi.next_status
        if _iscsi.next_sense is not None:
            self.raw_sense = _iscsi.next_sense
        ISCSI_TASKS.append(self)


class _Context:
    def __init__(self, name):
        self.name = name
        self.connected = False

    def set_targetname(self, t):
        pass

    def set_session_type(self, t):
        pass

    def set_header_digest(self, d):
        pass

    def connect(self, portal, lun):
        self.connected = True

    def disconnect(self):
        self.connected = False

    def command(self, lun, task, dataout, datain, *rest, **kw):
        assert not rest and not kw
        ISCSI_COMMANDS.append((lun, task, dataout, datain, len(dataout), len(datain)))


class _URL:
    def __init__(self, ctx, url):
        self.target = "iqn.fake:target"
        self.portal = "127.0.0.1:3260"
        self.lun = 3


_iscsi.Task = _Task
_iscsi.Context = _Context
_iscsi.URL = _URL
sys.modules["iscsi"] = _iscsi

# --------------------------------------------------------------------------
# library imports (public import paths only)
# --------------------------------------------------------------------------
from pyscsi.pyiscsi.iscsi_device import ISCSIDevice  # noqa: E402
from pyscsi.pyscsi import scsi as scsi_mod  # noqa: E402
from pyscsi.pyscsi.scsi import SCSI  # noqa: E402
from pyscsi.pyscsi.scsi_cdb_atapassthrough12 import ATAPassThrough12  # noqa: E402
from pyscsi.pyscsi.scsi_cdb_atapassthrough16 import ATAPassThrough16  # noqa: E402
from pyscsi.pyscsi.scsi_cdb_exchangemedium import ExchangeMedium  # noqa: E402
from pyscsi.pyscsi.scsi_cdb_extended_copy_spc4 import (  # noqa: E402
    ExtendedCopy as ExtendedCopy4,
)
from pyscsi.pyscsi.scsi_cdb_extended_copy_spc5 import (  # noqa: E402
    ExtendedCopy as ExtendedCopy5,
)
from pyscsi.pyscsi.scsi_cdb_getlbastatus import GetLBAStatus  # noqa: E402
from pyscsi.pyscsi.scsi_cdb_initelementstatus import (  # noqa: E402
    InitializeElementStatus,
)
from pyscsi.pyscsi.scsi_cdb_initelementstatuswithrange import (  # noqa: E402
    InitializeElementStatusWithRange,
)
from pyscsi.pyscsi.scsi_cdb_inquiry import Inquiry  # noqa: E402
from pyscsi.pyscsi.scsi_cdb_modesense6 import ModeSelect6, ModeSense6  # noqa: E402
from pyscsi.pyscsi.scsi_cdb_modesense10 import ModeSelect10, ModeSense10  # noqa: E402
from pyscsi.pyscsi.scsi_cdb_movemedium import MoveMedium  # noqa: E402
from pyscsi.pyscsi.scsi_cdb_openclose_exportimport_element import (  # noqa: E402
    OpenCloseImportExportElement,
)
from pyscsi.pyscsi.scsi_cdb_persistentreservein import (  # noqa: E402
    PersistentReserveIn,
    PersistentReserveInReadFullStatus,
    PersistentReserveInReadKeys,
    PersistentReserveInReadReservation,
    PersistentReserveInReportCapabilities,
)
from pyscsi.pyscsi.scsi_cdb_persistentreserveout import (  # noqa: E402
    PersistentReserveOut,
)
from pyscsi.pyscsi.scsi_cdb_positiontoelement import PositionToElement  # noqa: E402
from pyscsi.pyscsi.scsi_cdb_preventallow_mediumremoval import (  # noqa: E402
    PreventAllowMediumRemoval,
)
from pyscsi.pyscsi.scsi_cdb_read10 import Read10  # noqa: E402
from pyscsi.pyscsi.scsi_cdb_read12 import Read12  # noqa: E402
from pyscsi.pyscsi.scsi_cdb_read16 import Read16  # noqa: E402
from pyscsi.pyscsi.scsi_cdb_readcapacity10 import ReadCapacity10  # noqa: E402
from pyscsi.pyscsi.scsi_cdb_readcapacity16 import ReadCapacity16  # noqa: E402
from pyscsi.pyscsi.scsi_cdb_readcd import ReadCd  # noqa: E402
from pyscsi.pyscsi.scsi_cdb_readdiscinformation import (  # noqa: E402
    ReadDiscInformation,
)
from pyscsi.pyscsi.scsi_cdb_readelementstatus import ReadElementStatus  # noqa: E402
from pyscsi.pyscsi.scsi_cdb_report_luns import ReportLuns  # noqa: E402
from pyscsi.pyscsi.scsi_cdb_report_priority import ReportPriority  # noqa: E402
from pyscsi.pyscsi.scsi_cdb_report_target_port_groups import (  # noqa: E402
    ReportTargetPortGroups,
)
from pyscsi.pyscsi.scsi_cdb_synchronize_cache10 import SynchronizeCache10  # noqa: E402
from pyscsi.pyscsi.scsi_cdb_synchronize_cache16 import SynchronizeCache16  # noqa: E402
from pyscsi.pyscsi.scsi_cdb_testunitready import TestUnitReady  # noqa: E402
from pyscsi.pyscsi.scsi_cdb_write10 import Write10  # noqa: E402
from pyscsi.pyscsi.scsi_cdb_write12 import Write12  # noqa: E402
from pyscsi.pyscsi.scsi_cdb_write16 import Write16  # noqa: E402
from pyscsi.pyscsi.scsi_cdb_writesame10 import WriteSame10  # noqa: E402
from pyscsi.pyscsi.scsi_cdb_writesame16 import WriteSame16  # noqa: E402
from pyscsi.pyscsi.scsi_command import SCSICommand  # noqa: E402
from pyscsi.pyscsi.scsi_device import SCSIDevice  # noqa: E402
from pyscsi.pyscsi.scsi_enum_command import mmc, sbc, smc, spc  # noqa: E402
from pyscsi.pyscsi.scsi_enum_inquiry import DESIGNATOR  # noqa: E402
from pyscsi.pyscsi.scsi_enum_modesense import PAGE_CODE  # noqa: E402
from pyscsi.pyscsi.scsi_enum_persistentreserve import PROTOCOL_ID  # noqa: E402
from pyscsi.pyscsi.scsi_sense import SCSICheckCondition  # noqa: E402

FAILURES = []
CHECKS = [0]
DIGEST = hashlib.sha256()
BYTE_TYPES = (bytes, bytearray, memoryview)


def check(cond, msg):
    CHECKS[0] += 1
    if not cond:
        FAILURES.append(msg)
        if len(FAILURES) <= 40:
            print("FAIL:", msg)


def be(buf, off, n):
    """independent big endian decode of n bytes of buf at off"""
    v = 0
    for b in bytes(buf[off : off + n]):
        v = (v << 8) | b
    return v


def note(*items):
    """feed the exact observable outcome into the golden digest"""
    for it in items:
        if isinstance(it, BYTE_TYPES):
            DIGEST.update(type(it).__name__.encode() + b":" + bytes(it) + b";")
        else:
            DIGEST.update(repr(it).encode() + b";")


def is_lenable_bytes(buf):
    try:
        len(buf)
    except Exception:
        return False
    return isinstance(buf, BYTE_TYPES)


def build(label, factory):
    """build a command, return (cmd, exc)"""
    try:
        cmd = factory()
    except Exception as e:  # noqa
        note(label, "EXC", type(e).__name__)
        return None, e
    return cmd, None


def common(label, cmd, cdblen):
    check(isinstance(cmd, SCSICommand), "%s: not a SCSICommand" % label)
    check(type(cmd.cdb) is bytearray, "%s: cdb is not a bytearray" % label)
    check(len(cmd.cdb) == cdblen, "%s: cdb length %d != %d" % (label, len(cmd.cdb), cdblen))
    check(is_lenable_bytes(cmd.datain), "%s: datain not a byte buffer (%r)" % (label, type(cmd.datain)))
    check(is_lenable_bytes(cmd.dataout), "%s: dataout not a byte buffer (%r)" % (label, type(cmd.dataout)))
    check(cmd.cdb[0] == cmd.opcode.value, "%s: opcode byte" % label)
    note(label, cmd.cdb, cmd.datain, cmd.dataout)


def expect_nodata(label, cmd, cdblen):
    common(label, cmd, cdblen)
    check(type(cmd.datain) is bytearray and len(cmd.datain) == 0, "%s: datain must be empty bytearray" % label)
    check(type(cmd.dataout) is bytearray and len(cmd.dataout) == 0, "%s: dataout must be empty bytearray" % label)


def expect_datain(label, cmd, cdblen, n, off=None, width=None):
    common(label, cmd, cdblen)
    check(type(cmd.datain) is bytearray, "%s: datain type %r" % (label, type(cmd.datain)))
    check(len(cmd.datain) == n, "%s: datain len %d != %d" % (label, len(cmd.datain), n))
    check(not any(cmd.datain), "%s: fresh datain must be zero filled" % label)
    check(type(cmd.dataout) is bytearray and len(cmd.dataout) == 0, "%s: dataout must be empty" % label)
    if off is not None and n < (1 << (8 * width)):
        check(be(cmd.cdb, off, width) == n, "%s: CDB announces %d but datain is %d" % (label, be(cmd.cdb, off, width), n))


# --------------------------------------------------------------------------
# 1. commands without a data phase
# --------------------------------------------------------------------------
def test_nodata():
    expect_nodata("tur", TestUnitReady(spc.TEST_UNIT_READY), 6)
    expect_nodata("ies", InitializeElementStatus(smc.INITIALIZE_ELEMENT_STATUS), 6)
    for xfer, elements, rng, fast in [(0, 0, 0, 0), (7, 12, 1, 1), (0xFFFF, 0xFFFF, True, False)]:
        expect_nodata(
            "iesr",
            InitializeElementStatusWithRange(
                smc.INITIALIZE_ELEMENT_STATUS_WITH_RANGE, xfer, elements, rng=rng, fast=fast
            ),
            10,
        )
    for inv1, inv2 in itertools.product((0, 1, True), repeat=2):
        expect_nodata("xm", ExchangeMedium(smc.EXCHANGE_MEDIUM, 10, 11, 12, 13, inv1=inv1, inv2=inv2), 12)
    expect_nodata("xm-pos", ExchangeMedium(smc.EXCHANGE_MEDIUM, 10, 11, 12, 13, 1, 0), 12)
    for invert in (0, 1):
        expect_nodata("mm", MoveMedium(smc.MOVE_MEDIUM, 15, 32, 64, invert=invert), 12)
        expect_nodata("pte", PositionToElement(smc.POSITION_TO_ELEMENT, 15, 32, invert=invert), 10)
    expect_nodata("ocie", OpenCloseImportExportElement(smc.OPEN_CLOSE_IMPORT_EXPORT_ELEMENT, 32, 1), 6)
    expect_nodata("ocie-kw", OpenCloseImportExportElement(smc.OPEN_CLOSE_IMPORT_EXPORT_ELEMENT, xfer=3, acode=0, junk=9), 6)
    for prevent in (0, 1, 2, 3):
        expect_nodata("pamr", PreventAllowMediumRemoval(spc.PREVENT_ALLOW_MEDIUM_REMOVAL, prevent=prevent), 6)
    expect_nodata("pamr-default", PreventAllowMediumRemoval(sbc.PREVENT_ALLOW_MEDIUM_REMOVAL), 6)
    for lba, nb, immed, group in [(0, 0, 0, 0), (1234, 56, 1, 3), (0xFFFFFFFF, 0xFFFF, 1, 31), (5, 500, True, 0)]:
        expect_nodata("sc10", SynchronizeCache10(sbc.SYNCHRONIZE_CACHE_10, lba, nb, immed=immed, group=group), 10)
        expect_nodata("sc16", SynchronizeCache16(sbc.SYNCHRONIZE_CACHE_16, lba, nb, immed=immed, group=group), 16)
    # SYNCHRONIZE CACHE announces blocks to sync, never a data phase
    c = SynchronizeCache16(sbc.SYNCHRONIZE_CACHE_16, 2**40, 2**31, 1, 2)
    expect_nodata("sc16-big", c, 16)


# --------------------------------------------------------------------------
# 2. allocation length commands
# --------------------------------------------------------------------------
ALLOCS = [0, 1, 2, 4, 8, 12, 36, 95, 96, 97, 255]
ALLOCS16 = ALLOCS + [256, 512, 1024, 4096, 16384, 65535]
ALLOCS32 = ALLOCS16 + [65536, 100000]


def test_alloclen():
    for n in ALLOCS16:
        for evpd, pc in [(0, 0), (1, 0x80), (1, 0x83), (True, 0xB0)]:
            expect_datain("inq", Inquiry(spc.INQUIRY, evpd=evpd, page_code=pc, alloclen=n), 6, n, 3, 2)
        expect_datain("inq-pos", Inquiry(spc.INQUIRY, 0, 0, n), 6, n, 3, 2)
        expect_datain("ms10", ModeSense10(spc.MODE_SENSE_10, 0x0A, sub_page_code=1, llbaa=1, dbd=1, pc=2, alloclen=n), 10, n, 7, 2)
        expect_datain("ms10-pos", ModeSense10(spc.MODE_SENSE_10, 0x1D, 0, 0, 0, 0, n), 10, n, 7, 2)
        expect_datain("prin", PersistentReserveIn(spc.PERSISTENT_RESERVE_IN, 2, alloclen=n), 10, n, 7, 2)
        expect_datain("prin-pos", PersistentReserveIn(spc.PERSISTENT_RESERVE_IN, 1, n), 10, n, 7, 2)
        for cls, sa in [
            (PersistentReserveInReadKeys, 0),
            (PersistentReserveInReadReservation, 1),
            (PersistentReserveInReportCapabilities, 2),
            (PersistentReserveInReadFullStatus, 3),
        ]:
            c = cls(spc.PERSISTENT_RESERVE_IN, alloclen=n, ignored=1)
            expect_datain("prin-" + cls.__name__, c, 10, n, 7, 2)
            check(c.cdb[1] & 0x1F == sa, "prin service action")
            expect_datain("prin-pos-" + cls.__name__, cls(spc.PERSISTENT_RESERVE_IN, n), 10, n, 7, 2)
        expect_datain("rdi", ReadDiscInformation(mmc.READ_DISC_INFORMATION, 0, alloc_len=n), 10, n, 7, 2)
        expect_datain("rdi-pos", ReadDiscInformation(mmc.READ_DISC_INFORMATION, 1, n), 10, n, 7, 2)
    for n in ALLOCS:
        expect_datain("ms6", ModeSense6(spc.MODE_SENSE_6, 0x0A, sub_page_code=1, dbd=1, pc=3, alloclen=n), 6, n, 4, 1)
        expect_datain("ms6-pos", ModeSense6(spc.MODE_SENSE_6, 0x1D, 0, 0, 0, n), 6, n, 4, 1)
    for n in ALLOCS32:
        expect_datain("glba", GetLBAStatus(sbc.SBC_OPCODE_9E, 19, alloclen=n), 16, n, 10, 4)
        expect_datain("glba-pos", GetLBAStatus(sbc.SBC_OPCODE_9E, 2**40, n), 16, n, 10, 4)
        expect_datain("rc16", ReadCapacity16(sbc.SBC_OPCODE_9E, alloclen=n), 16, n, 10, 4)
        expect_datain("rc16-pos", ReadCapacity16(sbc.SBC_OPCODE_9E, n), 16, n, 10, 4)
        expect_datain("res", ReadElementStatus(smc.READ_ELEMENT_STATUS, 0, 10, element_type=2, voltag=1, curdata=0, dvcid=1, alloclen=n), 12, n, 7, 3)
        expect_datain("rluns", ReportLuns(spc.REPORT_LUNS, report=2, alloclen=n), 12, n, 6, 4)
        expect_datain("rluns-pos", ReportLuns(spc.REPORT_LUNS, 0, n), 12, n, 6, 4)
        expect_datain("rprio", ReportPriority(spc.SPC_OPCODE_A3, priority=1, alloclen=n), 12, n, 6, 4)
        expect_datain("rprio-pos", ReportPriority(spc.SPC_OPCODE_A3, 0, n), 12, n, 6, 4)
        expect_datain("rtpg", ReportTargetPortGroups(spc.SPC_OPCODE_A3, data_format=1, alloclen=n), 12, n, 6, 4)
        expect_datain("rtpg-pos", ReportTargetPortGroups(spc.SPC_OPCODE_A3, 0, n), 12, n, 6, 4)
        # READ CAPACITY(10) has no allocation length field; the response is what was asked for
        expect_datain("rc10", ReadCapacity10(sbc.READ_CAPACITY_10, alloclen=n), 10, n)
    # defaults
    expect_datain("inq-def", Inquiry(spc.INQUIRY), 6, 96, 3, 2)
    expect_datain("ms6-def", ModeSense6(spc.MODE_SENSE_6, 0x0A), 6, 96, 4, 1)
    expect_datain("ms10-def", ModeSense10(spc.MODE_SENSE_10, 0x0A), 10, 96, 7, 2)
    expect_datain("glba-def", GetLBAStatus(sbc.SBC_OPCODE_9E, 0), 16, 16384, 10, 4)
    expect_datain("rc10-def", ReadCapacity10(sbc.READ_CAPACITY_10), 10, 8)
    expect_datain("rc16-def", ReadCapacity16(sbc.SBC_OPCODE_9E), 16, 32, 10, 4)
    expect_datain("rdi-def", ReadDiscInformation(mmc.READ_DISC_INFORMATION, 0), 10, 4096, 7, 2)
    expect_datain("res-def", ReadElementStatus(smc.READ_ELEMENT_STATUS, 0, 1), 12, 16384, 7, 3)
    expect_datain("rluns-def", ReportLuns(spc.REPORT_LUNS), 12, 96, 6, 4)
    expect_datain("rprio-def", ReportPriority(spc.SPC_OPCODE_A3), 12, 16384, 6, 4)
    expect_datain("rtpg-def", ReportTargetPortGroups(spc.SPC_OPCODE_A3), 12, 16384, 6, 4)
    expect_datain("prin-def", PersistentReserveInReadKeys(spc.PERSISTENT_RESERVE_IN), 10, 1024, 7, 2)
    # bool allocation length behaves as the int it is
    expect_datain("inq-bool", Inquiry(spc.INQUIRY, alloclen=True), 6, 1, 3, 2)
    # unusual / invalid allocation lengths: same exception types as ever
    for bad in (-1, -96, "96", None, 1.5, [4]):
        for name, f in [
            ("inq", lambda: Inquiry(spc.INQUIRY, alloclen=bad)),
            ("ms6", lambda: ModeSense6(spc.MODE_SENSE_6, 1, alloclen=bad)),
            ("rc10", lambda: ReadCapacity10(sbc.READ_CAPACITY_10, alloclen=bad)),
            ("rluns", lambda: ReportLuns(spc.REPORT_LUNS, alloclen=bad)),
            ("prin", lambda: PersistentReserveInReadKeys(spc.PERSISTENT_RESERVE_IN, alloclen=bad)),
        ]:
            cmd, exc = build("bad-alloc-%s-%r" % (name, bad), f)
            if cmd is not None:
                # whatever was accepted must still satisfy the shape of the property
                check(is_lenable_bytes(cmd.datain) and is_lenable_bytes(cmd.dataout), "bad alloc %r accepted with non byte buffers" % (bad,))
                note(name, repr(bad), cmd.datain, cmd.dataout)
            else:
                check(isinstance(exc, (ValueError, TypeError)), "bad alloc %r: unexpected %r" % (bad, exc))


# --------------------------------------------------------------------------
# 3. block reads
# --------------------------------------------------------------------------
def test_reads():
    table = [(Read10, sbc.READ_10, 10, 7, 2), (Read12, sbc.READ_12, 12, 6, 4), (Read16, sbc.READ_16, 16, 10, 4)]
    for cls, op, cdblen, off, width in table:
        for bs in (1, 4, 512, 520, 4096):
            for tl in (0, 1, 2, 7, 64, 255, 256):
                for kw in ({}, dict(rdprotect=1, dpo=1, fua=1, rarc=1, group=19), dict(dpo=True, fua=False)):
                    c = cls(op, bs, 1000 + tl, tl, **kw)
                    expect_datain(cls.__name__, c, cdblen, bs * tl)
                    check(be(c.cdb, off, width) == tl, "%s: tl field" % cls.__name__)
                    check(be(c.cdb, off, width) * bs == len(c.datain), "%s: tl*bs != datain" % cls.__name__)
        c = cls(op, 512, 5, 3, 1, 1, 1, 1, 5)
        expect_datain(cls.__name__ + "-pos", c, cdblen, 1536)
        c = cls(opcode=op, blocksize=512, lba=5, tl=3)
        expect_datain(cls.__name__ + "-kw", c, cdblen, 1536)
        # blocksize 0 is refused with the command exception
        for tl in (0, 1, 9):
            try:
                cls(op, 0, 0, tl)
                check(False, "%s: blocksize 0 accepted" % cls.__name__)
            except SCSICommand.MissingBlocksizeException:
                check(True, "")
            except Exception as e:  # noqa
                check(False, "%s: blocksize 0 raised %r" % (cls.__name__, e))
        cmd, exc = build("read-false-bs", lambda: cls(op, False, 0, 1))
        check(cmd is None and type(exc) is SCSICommand.MissingBlocksizeException, "%s: blocksize False" % cls.__name__)
        cmd, exc = build("read-neg", lambda: cls(op, 512, 0, -1))
        check(cmd is None and isinstance(exc, ValueError), "%s: negative tl must raise ValueError" % cls.__name__)
        cmd, exc = build("read-str", lambda: cls(op, "512", 0, 1))
        check(cmd is None, "%s: str blocksize accepted" % cls.__name__)
        cmd, exc = build("read-none", lambda: cls(op, None, 0, 1))
        check(cmd is None and isinstance(exc, TypeError), "%s: None blocksize" % cls.__name__)
    # READ CD: 3072 bytes per requested sector
    for tl in (0, 1, 2, 5, 75):
        for kw in ({}, dict(est=1, dap=1, mcsb=0x1F, c2ei=1, scsb=2)):
            c = ReadCd(mmc.READ_CD, lba=16, tl=tl, **kw)
            expect_datain("readcd", c, 12, tl * 3072)
            check(be(c.cdb, 6, 3) == tl, "readcd tl field")
    expect_datain("readcd-def", ReadCd(mmc.READ_CD), 12, 0)
    expect_datain("readcd-pos", ReadCd(mmc.READ_CD, 1, 2, 0, 0, 2, 0, 0), 12, 6144)
    cmd, exc = build("readcd-neg", lambda: ReadCd(mmc.READ_CD, 0, -2))
    check(cmd is None and isinstance(exc, ValueError), "readcd negative tl")


# --------------------------------------------------------------------------
# 4. block writes
# --------------------------------------------------------------------------
def expect_dataout(label, cmd, cdblen, data, same_object=True):
    common(label, cmd, cdblen)
    check(type(cmd.datain) is bytearray and len(cmd.datain) == 0, "%s: datain must be empty" % label)
    if same_object:
        check(cmd.dataout is data, "%s: dataout is not the caller's data" % label)
    check(len(cmd.dataout) == len(data), "%s: dataout len" % label)
    check(bytes(cmd.dataout) == bytes(data), "%s: dataout content" % label)


def test_writes():
    table = [(Write10, sbc.WRITE_10, 10, 7, 2), (Write12, sbc.WRITE_12, 12, 6, 4), (Write16, sbc.WRITE_16, 16, 10, 4)]
    for cls, op, cdblen, off, width in table:
        for bs in (1, 8, 512, 4096):
            for tl in (0, 1, 3, 16):
                for mk in (bytearray, bytes, lambda b: memoryview(bytearray(b))):
                    data = mk(bytes((i * 3 + tl) & 0xFF for i in range(bs * tl)))
                    for kw in ({}, dict(wrprotect=2, dpo=1, fua=1, group=4), dict(dpo=True)):
                        c = cls(op, bs, 77, tl, data, **kw)
                        expect_dataout(cls.__name__, c, cdblen, data)
                        check(be(c.cdb, off, width) == tl, "%s tl field" % cls.__name__)
                        check(be(c.cdb, off, width) * bs == len(c.dataout), "%s: CDB announces %d blocks, dataout %d" % (cls.__name__, tl, len(c.dataout)))
        data = bytearray(1024)
        expect_dataout(cls.__name__ + "-pos", cls(op, 512, 0, 2, data, 1, 1, 1, 1), cdblen, data)
        expect_dataout(cls.__name__ + "-kw", cls(opcode=op, blocksize=512, lba=0, tl=2, data=data), cdblen, data)
        for tl in (0, 2):
            cmd, exc = build("write-bs0", lambda: cls(op, 0, 0, tl, bytearray(1024)))
            check(cmd is None and type(exc) is SCSICommand.MissingBlocksizeException, "%s: blocksize 0" % cls.__name__)
        cmd, exc = build("write-neg", lambda: cls(op, 512, 0, -1, bytearray(0)))
        check(cmd is None and isinstance(exc, ValueError), "%s: negative tl" % cls.__name__)
        cmd, exc = build("write-none-bs", lambda: cls(op, None, 0, 1, bytearray(1)))
        check(cmd is None and isinstance(exc, TypeError), "%s: None blocksize" % cls.__name__)

    # WRITE SAME: one logical block of data, NB announces the repetition
    for bs in (1, 512, 4096):
        for nb in (0, 1, 100, 65535):
            data = bytearray(b"\xa5" * bs)
            for kw in ({}, dict(wrprotect=1, anchor=1, unmap=1, group=3)):
                c = WriteSame10(sbc.WRITE_SAME_10, bs, 10, nb, data, **kw)
                expect_dataout("ws10", c, 10, data)
                check(be(c.cdb, 7, 2) == nb, "ws10 nb field")
                check(len(c.dataout) == bs, "ws10: one block of data")
                c = WriteSame16(sbc.WRITE_SAME_16, bs, 10, nb, data, **kw)
                expect_dataout("ws16", c, 16, data)
                check(be(c.cdb, 10, 4) == nb, "ws16 nb field")
                check(c.cdb[1] & 1 == 0, "ws16 ndob bit")
                # NDOB: no data-out buffer at all, whatever the caller passed
                for ndob in (1, True):
                    c = WriteSame16(sbc.WRITE_SAME_16, bs, 10, nb, data, ndob=ndob, **kw)
                    expect_nodata("ws16-ndob", c, 16)
                    check(c.cdb[1] & 1 == 1, "ws16 ndob bit set")
    c = WriteSame16(sbc.WRITE_SAME_16, 0, 10, 4, None, ndob=1)
    expect_nodata("ws16-ndob-bs0", c, 16)
    c = WriteSame16(sbc.WRITE_SAME_16, 512, 10, 4, bytes(512), 0, 0, 0, 0, 0)
    check(len(c.dataout) == 512, "ws16 positional")
    note("ws16-pos", c.cdb, c.dataout, c.datain)
    for f in (
        lambda: WriteSame10(sbc.WRITE_SAME_10, 0, 0, 1, bytearray(512)),
        lambda: WriteSame16(sbc.WRITE_SAME_16, 0, 0, 1, bytearray(512)),
        lambda: WriteSame16(sbc.WRITE_SAME_16, 0, 0, 1, bytearray(512), ndob=0),
    ):
        cmd, exc = build("ws-bs0", f)
        check(cmd is None and type(exc) is SCSICommand.MissingBlocksizeException, "write same: blocksize 0")
    cmd, exc = build("ws10-neg", lambda: WriteSame10(sbc.WRITE_SAME_10, -512, 0, 1, bytearray(512)))
    check(cmd is None and isinstance(exc, ValueError), "ws10 negative blocksize")


# --------------------------------------------------------------------------
# 5. parameter list commands
# --------------------------------------------------------------------------
def mode_data(spf=0):
    if spf:
        page = {"ps": 0, "spf": 1, "page_code": PAGE_CODE.CONTROL, "sub_page_code": 1, "tcmos": 1, "scsip": 1, "ialuae": 1, "initial_command_priority": 3, "maximum_sense_data_length": 100}
    else:
        page = {"ps": 1, "spf": 0, "page_code": PAGE_CODE.CONTROL, "tst": 1, "tmf_only": 0, "dpicz": 1, "d_sense": 1, "gltsd": 0, "rlec": 1, "queue_algorithm_modifier": 1, "nuar": 0, "qerr": 1, "vs": 0, "rac": 0, "ua_intlck_ctrl": 2, "swp": 1, "ato": 0, "tas": 1, "atmpe": 0, "rwwp": 0, "autoload_mode": 2, "busy_timeout_period": 500, "extended_self_test_completion_time": 700}
    return page


def test_paramlists():
    eaa = {"ps": 0, "spf": 0, "page_code": PAGE_CODE.ELEMENT_ADDRESS_ASSIGNMENT, "first_medium_transport_element_address": 1, "num_medium_transport_elements": 2, "first_storage_element_address": 3, "num_storage_elements": 4, "first_import_element_address": 5, "num_import_elements": 6, "first_data_transfer_element_address": 7, "num_data_transfer_elements": 8}
    dr = {"ps": 0, "spf": 0, "page_code": PAGE_CODE.DISCONNECT_RECONNECT, "buffer_full_ratio": 1, "buffer_empty_ratio": 2, "bus_inactivity_limit": 3, "disconnect_time_limit": 4, "connect_time_limit": 5, "maximum_burst_size": 6, "emdp": 1, "fair_arbitration": 3, "dimm": 1, "dtdc": 2, "first_burst_size": 9}
    pagesets = [[mode_data(0)], [mode_data(1)], [eaa], [dr], [mode_data(0), eaa], [eaa, dr, mode_data(1)], []]
    for pages in pagesets:
        hdr6 = {"medium_type": 1, "device_specific_parameter": 2, "block_descriptor_length": 0, "mode_pages": pages}
        for kw in ({}, dict(pf=0, sp=1), dict(pf=True, sp=True)):
            c = ModeSelect6(spc.MODE_SELECT_6, hdr6, **kw)
            common("msel6", c, 6)
            check(type(c.dataout) is bytearray, "msel6 dataout type")
            check(len(c.datain) == 0 and type(c.datain) is bytearray, "msel6 datain")
            check(c.cdb[4] == len(c.dataout), "msel6: CDB announces %d, dataout is %d" % (c.cdb[4], len(c.dataout)))
            check(bytes(c.dataout) == bytes(ModeSense6.marshall_datain(hdr6)), "msel6 dataout content")
            check(c.dataout[0] == len(c.dataout) - 1, "msel6 mode data length")
        hdr10 = {"medium_type": 1, "device_specific_parameter": 2, "longlba": 0, "block_descriptor_length": 0, "mode_pages": pages}
        for kw in ({}, dict(pf=0, sp=1)):
            c = ModeSelect10(spc.MODE_SELECT_10, hdr10, **kw)
            common("msel10", c, 10)
            check(type(c.dataout) is bytearray, "msel10 dataout type")
            check(len(c.datain) == 0 and type(c.datain) is bytearray, "msel10 datain")
            check(be(c.cdb, 7, 2) == len(c.dataout), "msel10: CDB announces %d, dataout is %d" % (be(c.cdb, 7, 2), len(c.dataout)))
            check(bytes(c.dataout) == bytes(ModeSense10.marshall_datain(hdr10)), "msel10 dataout content")
            check(be(c.dataout, 0, 2) == len(c.dataout) - 2, "msel10 mode data length")
    c = ModeSelect6(spc.MODE_SELECT_6, {"mode_pages": [eaa]}, 1, 0)
    check(c.cdb[4] == len(c.dataout) == 24, "msel6 positional")
    note("msel6-pos", c.cdb, c.dataout)
    cmd, exc = build("msel6-nopages", lambda: ModeSelect6(spc.MODE_SELECT_6, {}))
    check(cmd is None and isinstance(exc, KeyError), "msel6 without mode_pages")
    cmd, exc = build("msel10-nopages", lambda: ModeSelect10(spc.MODE_SELECT_10, {}))
    check(cmd is None and isinstance(exc, KeyError), "msel10 without mode_pages")

    # PERSISTENT RESERVE OUT
    op = spc.PERSISTENT_RESERVE_OUT
    iscsi_tid = {"protocol_id": PROTOCOL_ID.ISCSI, "tpid_format": 0, "iscsi_name": "iqn.1993-08.org.debian:01:90c27cf89279"}
    iscsi_tid2 = {"protocol_id": PROTOCOL_ID.ISCSI, "tpid_format": 0, "iscsi_name": "iqn.2000-01.com.example:x"}
    sas_tid = {"protocol_id": PROTOCOL_ID.SAS, "sas_address": bytearray(b"\x50\x00\xc5\x00\x12\x34\x56\x78")}
    fc_tid = {"protocol_id": PROTOCOL_ID.FIBRE_CHANNEL, "n_port_name": bytearray(range(8))}
    cases = [
        (0, {}, 24),
        (0, {"service_action_reservation_key": 0xABCDEF}, 24),
        (0, {"service_action_reservation_key": 1, "spec_i_pt": 1}, 28),
        (0, {"service_action_reservation_key": 1, "spec_i_pt": 1, "transport_ids": [iscsi_tid]}, None),
        (0, {"service_action_reservation_key": 1, "spec_i_pt": 1, "transport_ids": [iscsi_tid, sas_tid, iscsi_tid2, fc_tid]}, None),
        (0, {"spec_i_pt": 0, "transport_ids": [iscsi_tid]}, 24),
        (0, {"all_tg_pt": 1, "aptpl": 1}, 24),
        (1, {"reservation_key": 5}, 24),
        (2, {"reservation_key": 5}, 24),
        (3, {"reservation_key": 5}, 24),
        (4, {"reservation_key": 5, "service_action_reservation_key": 6}, 24),
        (5, {"reservation_key": 5, "service_action_reservation_key": 6}, 24),
        (6, {"service_action_reservation_key": 6, "spec_i_pt": 1}, 24),
        (7, {"reservation_key": 1, "service_action_reservation_key": 2, "unreg": 1, "aptpl": 1, "relative_target_port_id": 0xAABB}, 24),
        (7, {"reservation_key": 1, "service_action_reservation_key": 2, "transport_id": iscsi_tid}, 68),
        (7, {"reservation_key": 1, "transport_id": sas_tid}, 48),
        (7, {"reservation_key": 1, "transport_id": fc_tid}, 48),
        (7, {"reservation_key": 1, "transport_id": None}, 24),
        (7, {"reservation_key": 1, "transport_id": {}}, 24),
        (8, {"reservation_key": 5}, 24),
    ]
    for sa, kw, explen in cases:
        for scope, pr_type in ((0, 0), (1, 4), (0, 8)):
            cmd, exc = build("prout-%d" % sa, lambda: PersistentReserveOut(op, sa, scope=scope, pr_type=pr_type, **kw))
            check(cmd is not None, "prout sa=%d kw=%r raised %r" % (sa, kw, exc))
            if cmd is None:
                continue
            common("prout", cmd, 10)
            check(type(cmd.dataout) is bytearray, "prout dataout type %r" % type(cmd.dataout))
            check(type(cmd.datain) is bytearray and len(cmd.datain) == 0, "prout datain")
            check(be(cmd.cdb, 5, 4) == len(cmd.dataout), "prout: CDB announces %d, dataout %d" % (be(cmd.cdb, 5, 4), len(cmd.dataout)))
            if explen is not None:
                check(len(cmd.dataout) == explen, "prout sa=%d kw=%r len %d != %d" % (sa, kw, len(cmd.dataout), explen))
            check(bytes(cmd.dataout) == bytes(PersistentReserveOut.marshall_dataout(op, sa, kw)), "prout dataout == marshall_dataout")
            if sa == 0 and kw.get("spec_i_pt"):
                check(be(cmd.dataout, 24, 4) == len(cmd.dataout) - 28, "prout additional length")
            if sa == 7:
                check(be(cmd.dataout, 20, 4) == len(cmd.dataout) - 24, "prout transportid length")
    c = PersistentReserveOut(op, 0, 1, 4)
    check(be(c.cdb, 5, 4) == len(c.dataout) == 24, "prout positional")
    note("prout-pos", c.cdb, c.dataout)

    # EXTENDED COPY (SPC-4 and SPC-5)
    tgt4 = {
        "descriptor_type_code": "Identification descriptor target descriptor",
        "device_type_specific_parameters": {"disk_block_length": 512},
        "peripheral_device_type": 0,
        "target_descriptor_parameters": {
            "association": 0,
            "code_set": 1,
            "designator": {"ieee_company_id": 5807356, "naa": 6, "vendor_specific_identifier": 3140, "vendor_specific_identifier_extension": 14160104652988484981},
            "designator_length": 16,
            "designator_type": 3,
        },
    }
    seg4 = {
        "block_device_number_of_blocks": 4,
        "dc": 1,
        "descriptor_type_code": "Copy from block device to block device",
        "destination_block_device_logical_block_address": 10,
        "destination_target_descriptor_id": 1,
        "source_block_device_logical_block_address": 1,
        "source_target_descriptor_id": 0,
    }
    for tl, sl, inline in [
        ([], [], bytearray(0)),
        ([tgt4], [], bytearray(0)),
        ([tgt4, tgt4], [seg4], bytearray(0)),
        ([tgt4, tgt4], [seg4, seg4, seg4], bytearray(b"\xde\xad\xbe\xef")),
        ([], [seg4], bytes(7)),
        ([], [], bytes(range(33))),
    ]:
        for kw in ({}, dict(list_identifier=0x34, sequential_striped=1, nrcr=1, priority=3)):
            c = ExtendedCopy4(spc.EXTENDED_COPY, target_descriptor_list=tl, segment_descriptor_list=sl, inline_data=inline, **kw)
            common("xcopy4", c, 16)
            check(type(c.dataout) is bytearray, "xcopy4 dataout type %r" % type(c.dataout))
            check(type(c.datain) is bytearray and len(c.datain) == 0, "xcopy4 datain")
            check(be(c.cdb, 10, 4) == len(c.dataout), "xcopy4: CDB announces %d, dataout %d" % (be(c.cdb, 10, 4), len(c.dataout)))
            check(len(c.dataout) == 16 + 32 * len(tl) + 28 * len(sl) + len(inline), "xcopy4 length %d" % len(c.dataout))
            check(be(c.dataout, 2, 2) == 32 * len(tl), "xcopy4 target list length")
            check(be(c.dataout, 8, 4) == 28 * len(sl), "xcopy4 segment list length")
            check(be(c.dataout, 12, 4) == len(inline), "xcopy4 inline length")
            check(bytes(c.dataout[len(c.dataout) - len(inline):]) == bytes(inline), "xcopy4 inline data at the end")
    c = ExtendedCopy4(spc.EXTENDED_COPY)
    check(be(c.cdb, 10, 4) == len(c.dataout) == 16, "xcopy4 default")
    c = ExtendedCopy4(spc.EXTENDED_COPY, 1, 0, 0, 2, [tgt4], [seg4], bytearray(2))
    check(be(c.cdb, 10, 4) == len(c.dataout) == 16 + 32 + 28 + 2, "xcopy4 positional")
    note("xcopy4-pos", c.cdb, c.dataout)
    cmd, exc = build("xcopy4-badseg", lambda: ExtendedCopy4(spc.EXTENDED_COPY, segment_descriptor_list=[{"descriptor_type_code": "no such segment"}]))
    check(cmd is None, "xcopy4 bad segment accepted")
    cmd, exc = build("xcopy4-badtgt", lambda: ExtendedCopy4(spc.EXTENDED_COPY, target_descriptor_list=[{"descriptor_type_code": "nope"}], segment_descriptor_list=[{"descriptor_type_code": "no such segment"}]))
    check(cmd is None, "xcopy4 bad target accepted")

    cscd5 = {
        "descriptor_type_code": "Identification Descriptor CSCD descriptor",
        "peripheral_device_type": 0x00,
        "relative_initiator_port_identifier": 42,
        "cscd_descriptor_parameters": {"designator_type": DESIGNATOR.VENDOR_SPECIFIC, "designator": {"vendor_specific": bytearray.fromhex("deadbeef")}},
        "device_type_specific_parameters": {"pad": 1},
    }
    seg5 = {
        "descriptor_type_code": "Copy from block device to block device",
        "dc": 1,
        "source_cscd_descriptor_id": 1,
        "destination_cscd_descriptor_id": 2,
        "block_device_number_of_blocks": 1024,
        "source_block_device_logical_block_address": 2048,
        "destination_block_device_logical_block_address": 4096,
    }
    for cl, sl, inline in [
        ([], [], bytearray(0)),
        ([cscd5], [], bytearray(0)),
        ([cscd5, cscd5], [seg5], bytearray(0)),
        ([cscd5], [seg5, seg5], bytearray.fromhex("deadbeef")),
        ([], [seg5], bytes(5)),
    ]:
        for kw in ({}, dict(sequential_striped=1, list_id_usage=2, priority=5, g_sense=1, immed=1, list_identifier=257)):
            c = ExtendedCopy5(spc.EXTENDED_COPY, cscd_descriptor_list=cl, segment_descriptor_list=sl, inline_data=inline, **kw)
            common("xcopy5", c, 16)
            check(type(c.dataout) is bytearray, "xcopy5 dataout type %r" % type(c.dataout))
            check(type(c.datain) is bytearray and len(c.datain) == 0, "xcopy5 datain")
            check(c.cdb[1] & 0x1F == 1, "xcopy5 service action")
            check(be(c.cdb, 10, 4) == len(c.dataout), "xcopy5: CDB announces %d, dataout %d" % (be(c.cdb, 10, 4), len(c.dataout)))
            check(len(c.dataout) == 48 + 32 * len(cl) + 28 * len(sl) + len(inline), "xcopy5 length %d" % len(c.dataout))
            check(bytes(c.dataout[len(c.dataout) - len(inline):]) == bytes(inline), "xcopy5 inline data at the end")
    c = ExtendedCopy5(spc.EXTENDED_COPY)
    check(be(c.cdb, 10, 4) == len(c.dataout) == 48, "xcopy5 default")
    c = ExtendedCopy5(spc.EXTENDED_COPY, 0, 0, 0, 0, 0, 9, [cscd5], [seg5], bytearray(3))
    check(be(c.cdb, 10, 4) == len(c.dataout) == 48 + 32 + 28 + 3, "xcopy5 positional")
    note("xcopy5-pos", c.cdb, c.dataout)
    cmd, exc = build("xcopy5-badseg", lambda: ExtendedCopy5(spc.EXTENDED_COPY, segment_descriptor_list=[{"descriptor_type_code": "no such segment"}]))
    check(cmd is None, "xcopy5 bad segment accepted")


# --------------------------------------------------------------------------
# 6. ATA PASS-THROUGH transfer rules
# --------------------------------------------------------------------------
def ata_model(t_length, byte_block, t_dir, t_type, fetures, count, blocksize, extra_tl, data):
    """independent statement of the SAT transfer rules; returns (outlen, inlen) or 'missing'"""
    if t_length == 0:
        n = 0
    else:
        if t_length == 1:
            tl = fetures
        elif t_length == 2:
            tl = count
        elif t_length == 3 and extra_tl is not None:
            tl = extra_tl
        else:
            tl = 0
        if not byte_block:
            unit = 1
        elif not t_type:
            unit = 512
        else:
            if blocksize == 0:
                return "missing"
            unit = blocksize
        n = tl * unit
    return (n, 0) if t_dir == 0 else (0, n)


def test_ata():
    specs = [
        (ATAPassThrough12, sbc.ATA_PASS_THROUGH_12, 12, 1, 1, 3, 4),
        (ATAPassThrough16, sbc.ATA_PASS_THROUGH_16, 16, 2, 2, 3, 5),
    ]
    n_cmds = 0
    for cls, op, cdblen, fw, cw, foff, coff in specs:
        for t_length, byte_block, t_dir, t_type in itertools.product((0, 1, 2, 3), (0, 1), (0, 1), (0, 1)):
            for fetures, count in ((0, 0), (1, 2), (3, 1), (0xD0, 8)):
                for blocksize in (0, 512, 4096):
                    for extra_tl in (None, 0, 5):
                        kw = dict(blocksize=blocksize, extra_tl=extra_tl)
                        model = ata_model(t_length, byte_block, t_dir, t_type, fetures, count, blocksize, extra_tl, None)
                        label = "%s(%d,%d,%d,%d,f=%d,c=%d,bs=%d,x=%r)" % (cls.__name__, t_length, byte_block, t_dir, t_type, fetures, count, blocksize, extra_tl)
                        cmd, exc = build(label, lambda: cls(op, 4, t_length, byte_block, t_dir, t_type, 0, fetures, count, 0x123456, 0xEC, **kw))
                        if model == "missing":
                            check(cmd is None and type(exc) is SCSICommand.MissingBlocksizeException, label + ": expected MissingBlocksizeException, got %r" % (exc,))
                            continue
                        check(cmd is not None, label + ": raised %r" % (exc,))
                        if cmd is None:
                            continue
                        n_cmds += 1
                        common(label, cmd, cdblen)
                        check(type(cmd.dataout) is bytearray and type(cmd.datain) is bytearray, label + ": buffer types")
                        check((len(cmd.dataout), len(cmd.datain)) == model, label + ": buffers %r, rules say %r" % ((len(cmd.dataout), len(cmd.datain)), model))
                        # what the CDB says
                        b2 = cmd.cdb[2]
                        check(b2 & 3 == t_length and (b2 >> 2) & 1 == byte_block and (b2 >> 3) & 1 == t_dir and (b2 >> 4) & 1 == t_type, label + ": cdb byte 2")
                        check(be(cmd.cdb, foff, fw) == fetures and be(cmd.cdb, coff, cw) == count, label + ": features/count in cdb")
                        if t_length in (1, 2):
                            tl_cdb = be(cmd.cdb, foff, fw) if t_length == 1 else be(cmd.cdb, coff, cw)
                            unit = 1 if not byte_block else (512 if not t_type else blocksize)
                            check(len(cmd.datain) + len(cmd.dataout) == tl_cdb * unit, label + ": CDB transfer size")
                        if t_length == 0:
                            check(len(cmd.datain) == 0 and len(cmd.dataout) == 0, label + ": no data")

        # caller supplied buffers replace the allocated one in the transfer direction
        for t_dir in (0, 1):
            for mk in (bytearray, bytes, lambda b: memoryview(bytearray(b))):
                data = mk(bytes(range(256)) * 2)
                c = cls(op, 4, 2, 1, t_dir, 0, 0, 0, 1, 0, 0x30, data=data)
                common("ata-data", c, cdblen)
                if t_dir == 0:
                    check(c.dataout is data and len(c.dataout) == 512, "ata: caller's dataout kept")
                    check(type(c.datain) is bytearray and len(c.datain) == 0, "ata: datain empty for t_dir 0")
                else:
                    check(c.datain is data and len(c.datain) == 512, "ata: caller's datain kept")
                    check(type(c.dataout) is bytearray and len(c.dataout) == 0, "ata: dataout empty for t_dir 1")
            # empty / None data does not replace anything
            for data in (None, b"", bytearray(0)):
                c = cls(op, 4, 2, 1, t_dir, 0, 0, 0, 1, 0, 0x30, data=data)
                common("ata-nodata", c, cdblen)
                check(type(c.dataout) is bytearray and type(c.datain) is bytearray, "ata: empty data keeps allocated buffers")
                check((len(c.dataout), len(c.datain)) == ((512, 0) if t_dir == 0 else (0, 512)), "ata: empty data lens")
        # truthy non-canonical flags
        c = cls(op, 4, 2, True, True, False, 0, 0, 3, 0, 0x20)
        common("ata-bool", c, cdblen)
        check((len(c.dataout), len(c.datain)) == (0, 1536), "ata bool flags")
        c = cls(op, 4, 2, 1, 1, 1, 0, 0, 3, 0, 0x20, 4096)
        check((len(c.dataout), len(c.datain)) == (0, 12288), "ata positional blocksize")
        note("ata-posbs", c.cdb, c.datain, c.dataout)
        c = cls(op, 4, 3, 0, 1, 0, 0, 0, 0, 0, 0x20, 0, 17)
        check((len(c.dataout), len(c.datain)) == (0, 17), "ata positional extra_tl")
        note("ata-posx", c.cdb, c.datain, c.dataout)
        # t_dir other than 0/1 is "from device"
        c = cls(op, 4, 2, 0, 2, 0, 0, 0, 9, 0, 0x20)
        check((len(c.dataout), len(c.datain)) == (0, 9), "ata t_dir=2")
        cmd, exc = build("ata-neg", lambda: cls(op, 4, 2, 0, 1, 0, 0, 0, -9, 0, 0x20))
        check(cmd is None and isinstance(exc, ValueError), "ata negative count")
        cmd, exc = build("ata-neg2", lambda: cls(op, 4, 3, 1, 0, 1, 0, 0, 0, 0, 0x20, blocksize=8, extra_tl=-1))
        check(cmd is None and isinstance(exc, ValueError), "ata negative extra_tl")
    # extend is 16 only
    c = ATAPassThrough16(sbc.ATA_PASS_THROUGH_16, 4, 2, 1, 1, 0, 0, 0x1234, 0x0102, 0, 0x25, extend=0)
    check(len(c.datain) == 0x0102 * 512 and be(c.cdb, 5, 2) == 0x0102 and c.cdb[1] & 1 == 0, "ata16 16 bit count")
    note("ata16-ext", c.cdb, c.datain)
    c = ATAPassThrough16(sbc.ATA_PASS_THROUGH_16, 4, 1, 0, 0, 0, 0, 0x1234, 0x0102, 0, 0x25)
    check(len(c.dataout) == 0x1234 and be(c.cdb, 3, 2) == 0x1234 and c.cdb[1] & 1 == 1, "ata16 16 bit features")
    note("ata16-ext2", c.cdb, c.dataout)
    check(n_cmds > 2000, "ata grid too small (%d)" % n_cmds)


# --------------------------------------------------------------------------
# 7. the buffers on the base class and the transports
# --------------------------------------------------------------------------
def test_base_and_transports():
    for out_n, in_n in [(0, 0), (0, 5), (7, 0), (3, 4), (True, False)]:
        c = SCSICommand(spc.INQUIRY, out_n, in_n)
        check(type(c.dataout) is bytearray and len(c.dataout) == out_n, "base dataout")
        check(type(c.datain) is bytearray and len(c.datain) == in_n, "base datain")
        check(c.dataout is not c.datain, "base buffers are distinct")
        note("base", c.dataout, c.datain, c.cdb)
    c = SCSICommand(opcode=spc.INQUIRY, dataout_alloclen=2, datain_alloclen=3)
    check((len(c.dataout), len(c.datain)) == (2, 3), "base keywords")
    # buffers are per instance and assignable
    a, b = SCSICommand(spc.INQUIRY, 1, 2), SCSICommand(spc.INQUIRY, 1, 2)
    check(a.datain is not b.datain and a.dataout is not b.dataout, "per instance buffers")
    a.datain[0] = 9
    check(b.datain[0] == 0, "per instance buffers (content)")
    mine = bytearray(b"xyz")
    a.datain = mine
    check(a.datain is mine and b.datain is not mine and len(b.datain) == 2, "datain setter")
    a.dataout = mine
    check(a.dataout is mine and len(b.dataout) == 1, "dataout setter")
    for bad in (-1, "3", None, 2.0):
        cmd, exc = build("base-bad-out", lambda: SCSICommand(spc.INQUIRY, bad, 0))
        check(cmd is None and isinstance(exc, (TypeError, ValueError)), "base bad dataout len %r" % (bad,))
        cmd, exc = build("base-bad-in", lambda: SCSICommand(spc.INQUIRY, 0, bad))
        check(cmd is None and isinstance(exc, (TypeError, ValueError)), "base bad datain len %r" % (bad,))

    # sgio transport
    dev = SCSIDevice("/dev/null", detect_replugged=False)
    cmds = [
        TestUnitReady(spc.TEST_UNIT_READY),
        Inquiry(spc.INQUIRY, alloclen=36),
        Read16(sbc.READ_16, 512, 0, 2),
        Write10(sbc.WRITE_10, 512, 0, 1, bytearray(b"\x11" * 512)),
        Write10(sbc.WRITE_10, 512, 0, 1, bytes(512)),
        ModeSelect6(spc.MODE_SELECT_6, {"mode_pages": [mode_data(0)]}),
        PersistentReserveOut(spc.PERSISTENT_RESERVE_OUT, 0, service_action_reservation_key=3),
        ExtendedCopy5(spc.EXTENDED_COPY),
        ATAPassThrough16(sbc.ATA_PASS_THROUGH_16, 4, 2, 1, 1, 0, 0, 0, 1, 0, 0xEC),
        WriteSame16(sbc.WRITE_SAME_16, 512, 0, 4, None, ndob=1),
    ]
    for cmd in cmds:
        del SGIO_CALLS[:]
        dev.execute(cmd)
        check(len(SGIO_CALLS) == 1, "sgio called once")
        f, cdb, dout, din, lc, lo, li = SGIO_CALLS[0]
        check(f is dev._file or hasattr(f, "fileno"), "sgio gets the open file")
        check(cdb is cmd.cdb and dout is cmd.dataout and din is cmd.datain, "sgio gets the command's own buffers (%r)" % cmd)
        check(lo == len(cmd.dataout) and li == len(cmd.datain), "sgio lens")
        if type(din) is bytearray and li:
            check(din[li - 1] == ((li - 1) * 7 + 1) & 0xFF, "device filled the whole datain")
        note("sgio", cdb, dout, din)
    # check condition paths
    sense = bytearray(b"\x70\x00\x05\x00\x00\x00\x00\x0a\x00\x00\x00\x00\x24\x00\x00\x00\x00\x00")
    _sgio.fail_with = sense
    cmd = Inquiry(spc.INQUIRY)
    try:
        dev.execute(cmd)
        check(False, "check condition not raised")
    except SCSIDevice.CheckCondition as e:
        check(isinstance(e, SCSICheckCondition) and e.asc == 0x24, "check condition content")
        check(cmd.raw_sense_data is None, "raw sense untouched")
    cmd = Inquiry(spc.INQUIRY)
    dev.execute(cmd, en_raw_sense=True)
    check(cmd.raw_sense_data is sense, "raw sense stored")
    dev.execute(cmd, True)
    check(cmd.raw_sense_data is sense, "raw sense stored (positional)")
    _sgio.fail_with = None
    dev.close()
    # replug detection re-opens and still hands the same buffers
    with SCSIDevice("/dev/null", readwrite=True) as dev2:
        dev2._ino = -1
        del SGIO_CALLS[:]
        cmd = Read10(sbc.READ_10, 512, 0, 1)
        dev2.execute(cmd)
        check(len(SGIO_CALLS) == 1 and SGIO_CALLS[0][3] is cmd.datain and SGIO_CALLS[0][6] == 512, "replugged execute")
        check(SGIO_CALLS[0][0] is dev2._file, "replugged execute uses the new file")
    try:
        SCSIDevice("iscsi://x")
        check(False, "SCSIDevice took a non /dev name")
    except NotImplementedError:
        pass

    # iscsi transport: direction and length come from the buffers
    idev = ISCSIDevice("iscsi://127.0.0.1/iqn.fake:target/3")
    expectations = [
        (TestUnitReady(spc.TEST_UNIT_READY), 0, 0),
        (Inquiry(spc.INQUIRY, alloclen=36), 2, 36),
        (Inquiry(spc.INQUIRY, alloclen=0), 0, 0),
        (Read10(sbc.READ_10, 512, 0, 3), 2, 1536),
        (Read10(sbc.READ_10, 512, 0, 0), 0, 0),
        (Write16(sbc.WRITE_16, 512, 0, 2, bytearray(1024)), 1, 1024),
        (Write16(sbc.WRITE_16, 512, 0, 2, bytes(1024)), 1, 1024),
        (Write16(sbc.WRITE_16, 512, 0, 0, bytearray(0)), 0, 0),
        (WriteSame16(sbc.WRITE_SAME_16, 512, 0, 9, bytearray(512)), 1, 512),
        (WriteSame16(sbc.WRITE_SAME_16, 512, 0, 9, bytearray(512), ndob=1), 0, 0),
        (ModeSelect10(spc.MODE_SELECT_10, {"mode_pages": [mode_data(0)]}), 1, 20),
        (PersistentReserveOut(spc.PERSISTENT_RESERVE_OUT, 0), 1, 24),
        (ExtendedCopy4(spc.EXTENDED_COPY), 1, 16),
        (ReadCd(mmc.READ_CD, 0, 2), 2, 6144),
        (ATAPassThrough12(sbc.ATA_PASS_THROUGH_12, 4, 2, 1, 1, 0, 0, 0, 1, 0, 0xEC), 2, 512),
        (ATAPassThrough12(sbc.ATA_PASS_THROUGH_12, 5, 2, 1, 0, 0, 0, 0, 1, 0, 0x30, data=bytes(512)), 1, 512),
        (ATAPassThrough12(sbc.ATA_PASS_THROUGH_12, 3, 0, 0, 0, 0, 0, 0, 0, 0, 0xE0), 0, 0),
        (SCSICommand(spc.INQUIRY, 5, 9), 1, 5),  # both present: write wins, as ever
    ]
    for cmd, edir, elen in expectations:
        del ISCSI_TASKS[:]
        del ISCSI_COMMANDS[:]
        r = idev.execute(cmd)
        check(r is None, "iscsi execute returns None")
        check(len(ISCSI_TASKS) == 1 and len(ISCSI_COMMANDS) == 1, "iscsi one task")
        t = ISCSI_TASKS[0]
        check(t.cdb is cmd.cdb, "iscsi task cdb")
        check((t.dir, t.xferlen) == (edir, elen), "iscsi %r: dir/xferlen %r, expected %r" % (cmd, (t.dir, t.xferlen), (edir, elen)))
        lun, task, dout, din, lo, li = ISCSI_COMMANDS[0]
        check(lun == 3 and task is t and dout is cmd.dataout and din is cmd.datain, "iscsi command args")
        check(t.xferlen == max(lo, li) or (lo and t.xferlen == lo), "iscsi xferlen matches a buffer")
        note("iscsi", t.cdb, t.dir, t.xferlen, dout, din)
    # status handling still there
    cmd = Inquiry(spc.INQUIRY)
    _iscsi.next_status = 2
    _iscsi.next_sense = sense
    for raw in (False, True):
        cmd = Inquiry(spc.INQUIRY)
        try:
            idev.execute(cmd, en_raw_sense=raw)
            check(False, "iscsi check condition not raised")
        except ISCSIDevice.CheckCondition as e:
            check(e.asc == 0x24 and cmd.sense is sense, "iscsi sense")
            check(cmd.raw_sense_data is (sense if raw else None), "iscsi raw sense")
    _iscsi.next_sense = None
    cmd = Inquiry(spc.INQUIRY)
    try:
        idev.execute(cmd)
        check(False, "iscsi check condition (no sense) not raised")
    except ISCSIDevice.CheckCondition:
        check(cmd.sense is None, "iscsi missing sense is None")
    for status, exc in [(0x18, "ReservationConflict"), (0x40, "TaskAborted"), (0x08, "BusyStatus"), (0x28, "TaskSetFull"), (0x30, "ACAActive"), (0x04, "ConditionsMet"), (0x77, None)]:
        _iscsi.next_status = status
        try:
            idev.execute(Inquiry(spc.INQUIRY))
            check(False, "iscsi status %x did not raise" % status)
        except Exception as e:  # noqa
            if exc is None:
                check(type(e) is RuntimeError, "iscsi unknown status")
            else:
                check(type(e) is getattr(ISCSIDevice, exc), "iscsi status %x raised %r" % (status, e))
    _iscsi.next_status = 0
    idev.close()
    try:
        ISCSIDevice("/dev/sg0")
        check(False, "ISCSIDevice took a /dev name")
    except NotImplementedError:
        pass


# --------------------------------------------------------------------------
# 8. through the SCSI facade with a recording device
# --------------------------------------------------------------------------
class RecordingDevice:
    def __init__(self, opcodes):
        self.opcodes = opcodes
        self.devicetype = None
        self.seen = []

    def execute(self, cmd, en_raw_sense=False):
        # a transport takes len() of both buffers
        self.seen.append((cmd, len(cmd.cdb), len(cmd.dataout), len(cmd.datain)))

    def close(self):
        pass


def test_facade():
    dev = RecordingDevice(sbc)
    s = SCSI(dev, blocksize=512)
    check(len(dev.seen) == 1 and dev.seen[0][2:] == (0, 96), "facade probes with a 96 byte inquiry")
    dev.opcodes = sbc
    r = s.read10(0, 4)
    check(len(r.datain) == 2048 and dev.seen[-1][0] is r and dev.seen[-1][3] == 2048, "facade read10")
    r = s.read12(0, 4)
    check(len(r.datain) == 2048, "facade read12")
    r = s.read16(0, 4, fua=1)
    check(len(r.datain) == 2048, "facade read16")
    data = bytearray(1024)
    for w in (s.write10, s.write12, s.write16):
        r = w(8, 2, data)
        check(r.dataout is data and dev.seen[-1][2] == 1024 and dev.seen[-1][3] == 0, "facade write")
    r = s.writesame10(0, 7, bytearray(512))
    check(len(r.dataout) == 512, "facade writesame10")
    r = s.writesame16(0, 7, bytearray(512))
    check(len(r.dataout) == 512, "facade writesame16")
    r = s.writesame16(0, 7, None, ndob=1)
    check(len(r.dataout) == 0, "facade writesame16 ndob")
    r = s.testunitready()
    check(dev.seen[-1][2:] == (0, 0), "facade tur")
    r = s.synchronizecache10(0, 10)
    check(dev.seen[-1][2:] == (0, 0), "facade sync cache")
    r = s.readcapacity10()
    check(dev.seen[-1][2:] == (0, 8), "facade readcapacity10")
    r = s.readcapacity16(alloclen=40)
    check(dev.seen[-1][2:] == (0, 40) and be(r.cdb, 10, 4) == 40, "facade readcapacity16")
    r = s.inquiry(evpd=1, page_code=0x80, alloclen=200)
    check(dev.seen[-1][2:] == (0, 200) and be(r.cdb, 3, 2) == 200, "facade inquiry")
    r = s.modeselect6({"mode_pages": [mode_data(0)]})
    check(dev.seen[-1][2] == r.cdb[4] == 16, "facade modeselect6")
    r = s.modeselect10({"mode_pages": [mode_data(0)]}, sp=1)
    check(dev.seen[-1][2] == be(r.cdb, 7, 2) == 20, "facade modeselect10")
    s.blocksize = 0
    for f in (lambda: s.read10(0, 1), lambda: s.write16(0, 1, bytearray(512)), lambda: s.writesame10(0, 1, bytearray(512))):
        n = len(dev.seen)
        try:
            f()
            check(False, "facade: blocksize 0 accepted")
        except SCSICommand.MissingBlocksizeException:
            check(len(dev.seen) == n, "facade: nothing sent without a blocksize")
    s.blocksize = 4096
    r = s.read10(0, 2)
    check(len(r.datain) == 8192, "facade honours a changed blocksize")

    dev.opcodes = spc
    r = s.persistentreserveout(0, scope=1, pr_type=4, service_action_reservation_key=9)
    check(dev.seen[-1][2] == be(r.cdb, 5, 4) == 24, "facade prout")
    r = s.persistentreservein(0, alloclen=64)
    check(dev.seen[-1][2:] == (0, 64), "facade prin")
    r = s.extendedcopy4(inline_data=bytearray(5))
    check(dev.seen[-1][2] == be(r.cdb, 10, 4) == 21, "facade xcopy4")
    r = s.extendedcopy5(inline_data=bytearray(5))
    check(dev.seen[-1][2] == be(r.cdb, 10, 4) == 53, "facade xcopy5")
    dev.opcodes = sbc
    r = s.atapassthrough12(4, 2, 1, 1, 0, 0, 0, 1, 0, 0xEC)
    check(dev.seen[-1][2:] == (0, 512), "facade ata12")
    r = s.atapassthrough16(4, 2, 1, 1, 1, 0, 0, 2, 0, 0xEC, blocksize=4096)
    check(dev.seen[-1][2:] == (0, 8192), "facade ata16")
    r = s.atapassthrough16(5, 2, 1, 0, 0, 0, 0, 1, 0, 0x30, data=data[:512])
    check(dev.seen[-1][2:] == (512, 0), "facade ata16 out")
    dev.opcodes = spc
    r = s.reportluns(alloclen=48)
    check(dev.seen[-1][2:] == (0, 48), "facade reportluns")
    dev.opcodes = smc
    r = s.movemedium(1, 2, 3)
    check(dev.seen[-1][2:] == (0, 0), "facade movemedium")
    r = s.exchangemedium(1, 2, 3, 4)
    check(dev.seen[-1][2:] == (0, 0), "facade exchangemedium")
    r = s.initializeelementstatus()
    check(dev.seen[-1][2:] == (0, 0), "facade ies")
    r = s.positiontoelement(1, 2)
    check(dev.seen[-1][2:] == (0, 0), "facade pte")
    r = s.preventallowmediumremoval(prevent=1)
    check(dev.seen[-1][2:] == (0, 0), "facade pamr")
    dev.opcodes = mmc
    r = s.readcd(0, 2, est=1, mcsb=2)
    check(dev.seen[-1][2:] == (0, 6144), "facade readcd")
    for cmd, lc, lo, li in dev.seen:
        check(lc == len(cmd.cdb) and lo == len(cmd.dataout) and li == len(cmd.datain), "facade seen lens")
        note("facade", cmd.cdb, lo, li)
    # public names still in place
    for name in ("SCSI", "Read10", "Write10", "Inquiry", "ATAPassThrough12", "ATAPassThrough16", "ExtendedCopy4", "ExtendedCopy5", "ModeSelect6", "ModeSelect10", "PersistentReserveOut", "PersistentReserveInReadKeys", "TestUnitReady", "WriteSame16", "ReadCd"):
        check(hasattr(scsi_mod, name), "pyscsi.pyscsi.scsi lost %s" % name)


GOLDEN = "31c9b12f868f6a42cb71bc157abc9b368194db5cc050c98dd73cd69a4d240fdd"


def main():
    test_nodata()
    test_alloclen()
    test_reads()
    test_writes()
    test_paramlists()
    test_ata()
    test_base_and_transports()
    test_facade()
    digest = DIGEST.hexdigest()
    if "--digest" in sys.argv:
        print(digest)
    check(digest == GOLDEN, "golden digest of all cdbs/buffers/exception types changed: %s" % digest)
    if FAILURES:
        print("FAIL: %d of %d checks failed" % (len(FAILURES), CHECKS[0]))
        return 1
    print("PASS (%d checks)" % CHECKS[0])
    return 0


if __name__ == "__main__":
    sys.exit(main())
