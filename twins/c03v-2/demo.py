#!/usr/bin/env python
# coding: utf-8
"""
Demo / check for property C03:

  For every command, the data-in buffer the device will fill is exactly as long
  as the transfer the CDB tells the device it may return (allocation length, or
  transfer length times block size, or the ATA transfer rules), and the data-out
  buffer is exactly the bytes whose length the CDB announces (parameter list
  length, or the caller's write data).  Commands without a data phase carry
  empty buffers, and both buffers are always byte buffers a transport can take
  the length of.

Everything is exercised through the public API: the command classes, the SCSI
facade, and SCSIDevice / ISCSIDevice.execute() on top of small fake `sgio` and
`iscsi` bindings that record what reaches the transport.

Run as:  cd /tmp/seed/C03v && PYTHONPATH=/tmp/seed/C03v /venv/bin/python SEED/demo.py
"""
import itertools
import os
import sys
import tempfile
import types

# --------------------------------------------------------------------------
# fake transports (the real bindings are not installed)
# --------------------------------------------------------------------------
SGIO_CALLS = []
SGIO_FAIL = []


class _CheckConditionError(Exception):
    def __init__(self, sense):
        Exception.__init__(self, "check condition")
        self.sense = sense


def _sgio_execute(fobj, cdb, dataout, datain, *args, **kwargs):
    SGIO_CALLS.append((fobj, cdb, dataout, datain, len(dataout), len(datain)))
    if SGIO_FAIL:
        raise _CheckConditionError(SGIO_FAIL.pop())
    # a device "fills" datain
    for i in range(len(datain)):
        datain[i] = (i * 7 + 0x20) & 0xFF
    return 0


_sgio = types.ModuleType("sgio")
_sgio.execute = _sgio_execute
_sgio.CheckConditionError = _CheckConditionError
sys.modules["sgio"] = _sgio

ISCSI_TASKS = []
ISCSI_COMMANDS = []
ISCSI_STATUS = [0]


class _Task(object):
    def __init__(self, cdb, direction, xferlen):
        self.cdb = cdb
        self.direction = direction
        self.xferlen = xferlen
        self.status = ISCSI_STATUS[0]
        self.raw_sense = bytearray(b"\x70\x00\x05" + bytes(15))
        ISCSI_TASKS.append(self)


class _Context(object):
    def __init__(self, name):
        self.name = name
        self.connected = False

    def set_targetname(self, t):
        pass

    def set_session_type(self, t):
        pass

    def set_header_digest(self, t):
        pass

    def connect(self, portal, lun):
        self.connected = True

    def disconnect(self):
        self.connected = False

    def command(self, lun, task, dataout, datain):
        ISCSI_COMMANDS.append((lun, task, dataout, datain, len(dataout), len(datain)))


class _URL(object):
    def __init__(self, ctx, url):
        self.target = "iqn.fake:target"
        self.portal = "127.0.0.1:3260"
        self.lun = 3


_iscsi = types.ModuleType("iscsi")
_iscsi.Task = _Task
_iscsi.Context = _Context
_iscsi.URL = _URL
_iscsi.SCSI_XFER_NONE = 0
_iscsi.SCSI_XFER_READ = 1
_iscsi.SCSI_XFER_WRITE = 2
_iscsi.ISCSI_SESSION_NORMAL = 2
_iscsi.ISCSI_HEADER_DIGEST_NONE_CRC32C = 1
sys.modules["iscsi"] = _iscsi

# --------------------------------------------------------------------------
from pyscsi.pyiscsi.iscsi_device import ISCSIDevice  # noqa: E402
from pyscsi.pyscsi import scsi_enum_command  # noqa: E402
from pyscsi.pyscsi.scsi import SCSI  # noqa: E402
from pyscsi.pyscsi.scsi_cdb_atapassthrough12 import ATAPassThrough12  # noqa: E402
from pyscsi.pyscsi.scsi_cdb_atapassthrough16 import ATAPassThrough16  # noqa: E402
from pyscsi.pyscsi.scsi_cdb_exchangemedium import ExchangeMedium  # noqa: E402
from pyscsi.pyscsi.scsi_cdb_extended_copy_spc4 import (  # noqa: E402
    ExtendedCopy as ExtendedCopy4,
)
from pyscsi.pyscsi.scsi_cdb_extended_copy_spc5 import (  # noqa: E402
    ExtendedCopy as ExtendedCopy5,
)
from pyscsi.pyscsi.scsi_cdb_getlbastatus import GetLBAStatus  # noqa: E402
from pyscsi.pyscsi.scsi_cdb_initelementstatus import (  # noqa: E402
    InitializeElementStatus,
)
from pyscsi.pyscsi.scsi_cdb_initelementstatuswithrange import (  # noqa: E402
    InitializeElementStatusWithRange,
)
from pyscsi.pyscsi.scsi_cdb_inquiry import Inquiry  # noqa: E402
from pyscsi.pyscsi.scsi_cdb_modesense6 import ModeSelect6, ModeSense6  # noqa: E402
from pyscsi.pyscsi.scsi_cdb_modesense10 import ModeSelect10, ModeSense10  # noqa: E402
from pyscsi.pyscsi.scsi_cdb_movemedium import MoveMedium  # noqa: E402
from pyscsi.pyscsi.scsi_cdb_openclose_exportimport_element import (  # noqa: E402
    OpenCloseImportExportElement,
)
from pyscsi.pyscsi.scsi_cdb_persistentreservein import (  # noqa: E402
    PersistentReserveIn,
    PersistentReserveInReadFullStatus,
    PersistentReserveInReadKeys,
    PersistentReserveInReadReservation,
    PersistentReserveInReportCapabilities,
)
from pyscsi.pyscsi.scsi_cdb_persistentreserveout import (  # noqa: E402
    PersistentReserveOut,
)
from pyscsi.pyscsi.scsi_cdb_positiontoelement import PositionToElement  # noqa: E402
from pyscsi.pyscsi.scsi_cdb_preventallow_mediumremoval import (  # noqa: E402
    PreventAllowMediumRemoval,
)
from pyscsi.pyscsi.scsi_cdb_read10 import Read10  # noqa: E402
from pyscsi.pyscsi.scsi_cdb_read12 import Read12  # noqa: E402
from pyscsi.pyscsi.scsi_cdb_read16 import Read16  # noqa: E402
from pyscsi.pyscsi.scsi_cdb_readcapacity10 import ReadCapacity10  # noqa: E402
from pyscsi.pyscsi.scsi_cdb_readcapacity16 import ReadCapacity16  # noqa: E402
from pyscsi.pyscsi.scsi_cdb_readcd import ReadCd  # noqa: E402
from pyscsi.pyscsi.scsi_cdb_readdiscinformation import (  # noqa: E402
    ReadDiscInformation,
)
from pyscsi.pyscsi.scsi_cdb_readelementstatus import ReadElementStatus  # noqa: E402
from pyscsi.pyscsi.scsi_cdb_report_luns import ReportLuns  # noqa: E402
from pyscsi.pyscsi.scsi_cdb_report_priority import ReportPriority  # noqa: E402
from pyscsi.pyscsi.scsi_cdb_report_target_port_groups import (  # noqa: E402
    ReportTargetPortGroups,
)
from pyscsi.pyscsi.scsi_cdb_synchronize_cache10 import (  # noqa: E402
    SynchronizeCache10,
)
from pyscsi.pyscsi.scsi_cdb_synchronize_cache16 import (  # noqa: E402
    SynchronizeCache16,
)
from pyscsi.pyscsi.scsi_cdb_testunitready import TestUnitReady  # noqa: E402
from pyscsi.pyscsi.scsi_cdb_write10 import Write10  # noqa: E402
from pyscsi.pyscsi.scsi_cdb_write12 import Write12  # noqa: E402
from pyscsi.pyscsi.scsi_cdb_write16 import Write16  # noqa: E402
from pyscsi.pyscsi.scsi_cdb_writesame10 import WriteSame10  # noqa: E402
from pyscsi.pyscsi.scsi_cdb_writesame16 import WriteSame16  # noqa: E402
from pyscsi.pyscsi.scsi_command import SCSICommand  # noqa: E402
from pyscsi.pyscsi.scsi_device import SCSIDevice  # noqa: E402
from pyscsi.pyscsi.scsi_enum_command import mmc, sbc, smc, spc, ssc  # noqa: E402
from pyscsi.pyscsi.scsi_enum_modesense import MODESENSE6, MODESENSE10  # noqa: E402
from pyscsi.utils.converter import scsi_ba_to_int  # noqa: E402

CHECKS = [0]
FAILS = []


def check(cond, msg):
    CHECKS[0] += 1
    if not cond:
        FAILS.append(msg)
        if len(FAILS) < 40:
            print("FAIL: %s" % msg)


def be(ba, off, n):
    """big endian integer out of a cdb"""
    return scsi_ba_to_int(ba[off : off + n])


def is_buffer(b):
    """something a transport can take the length of, and a byte buffer"""
    if not isinstance(b, (bytes, bytearray, memoryview)):
        return False
    try:
        len(b)
    except Exception:
        return False
    return True


def check_buffers(cmd, din, dout, what, dout_bytes=None, dout_is=None):
    """the two buffers of cmd are byte buffers with the given lengths"""
    check(is_buffer(cmd.datain), "%s: datain is not a byte buffer (%r)" % (what, type(cmd.datain)))
    check(is_buffer(cmd.dataout), "%s: dataout is not a byte buffer (%r)" % (what, type(cmd.dataout)))
    if not (is_buffer(cmd.datain) and is_buffer(cmd.dataout)):
        return
    check(len(cmd.datain) == din, "%s: len(datain)=%d expected %d" % (what, len(cmd.datain), din))
    check(len(cmd.dataout) == dout, "%s: len(dataout)=%d expected %d" % (what, len(cmd.dataout), dout))
    if dout_bytes is not None:
        check(bytes(cmd.dataout) == bytes(dout_bytes), "%s: dataout content differs" % what)
    if dout_is is not None:
        check(cmd.dataout is dout_is, "%s: dataout is not the caller's write data" % what)
    # a fresh data-in buffer is a zero filled, writable bytearray
    if din and dout_is is None and dout_bytes is None:
        check(isinstance(cmd.datain, bytearray), "%s: datain not a bytearray" % what)
        check(not any(cmd.datain), "%s: datain not zero filled" % what)
    # the private storage and the public attribute agree
    check(cmd.datain is cmd._datain, "%s: datain/_datain disagree" % what)
    check(cmd.dataout is cmd._dataout, "%s: dataout/_dataout disagree" % what)
    # cdb is a byte buffer too
    check(isinstance(cmd.cdb, bytearray), "%s: cdb is not a bytearray" % what)


def raises(exc, fn, *a, **kw):
    try:
        fn(*a, **kw)
    except exc:
        return True
    except Exception as e:  # pragma: no cover
        print("unexpected %r" % (e,))
        return False
    return False


ALLOCLENS = [0, 1, 4, 5, 8, 32, 96, 255, 256, 1024, 4096, 16384, 65535]


# --------------------------------------------------------------------------
# 1. commands without a data phase
# --------------------------------------------------------------------------
def no_data_phase():
    cmds = [
        ("TestUnitReady", TestUnitReady(spc.TEST_UNIT_READY)),
        ("ExchangeMedium", ExchangeMedium(smc.EXCHANGE_MEDIUM, 1, 2, 3, 4)),
        ("ExchangeMedium inv", ExchangeMedium(smc.EXCHANGE_MEDIUM, 1, 2, 3, 4, inv1=1, inv2=1)),
        ("InitializeElementStatus", InitializeElementStatus(smc.INITIALIZE_ELEMENT_STATUS)),
        (
            "InitializeElementStatusWithRange",
            InitializeElementStatusWithRange(smc.INITIALIZE_ELEMENT_STATUS_WITH_RANGE, 7, 9),
        ),
        (
            "InitializeElementStatusWithRange kw",
            InitializeElementStatusWithRange(
                smc.INITIALIZE_ELEMENT_STATUS_WITH_RANGE, 7, 9, rng=1, fast=1
            ),
        ),
        ("MoveMedium", MoveMedium(smc.MOVE_MEDIUM, 1, 2, 3)),
        ("MoveMedium invert", MoveMedium(smc.MOVE_MEDIUM, 1, 2, 3, invert=1)),
        (
            "OpenCloseImportExportElement",
            OpenCloseImportExportElement(smc.OPEN_CLOSE_IMPORT_EXPORT_ELEMENT, 32, 1),
        ),
        ("PositionToElement", PositionToElement(smc.POSITION_TO_ELEMENT, 15, 32)),
        ("PositionToElement invert", PositionToElement(smc.POSITION_TO_ELEMENT, 15, 32, invert=1)),
        (
            "PreventAllowMediumRemoval",
            PreventAllowMediumRemoval(spc.PREVENT_ALLOW_MEDIUM_REMOVAL),
        ),
        (
            "PreventAllowMediumRemoval 3",
            PreventAllowMediumRemoval(spc.PREVENT_ALLOW_MEDIUM_REMOVAL, prevent=3),
        ),
        ("SynchronizeCache10", SynchronizeCache10(sbc.SYNCHRONIZE_CACHE_10, 1024, 27)),
        (
            "SynchronizeCache10 kw",
            SynchronizeCache10(sbc.SYNCHRONIZE_CACHE_10, 65536, 27, immed=1, group=19),
        ),
        ("SynchronizeCache16", SynchronizeCache16(sbc.SYNCHRONIZE_CACHE_16, 1024, 27)),
        (
            "SynchronizeCache16 kw",
            SynchronizeCache16(sbc.SYNCHRONIZE_CACHE_16, 1 << 40, 1 << 20, immed=1, group=19),
        ),
    ]
    for what, cmd in cmds:
        check_buffers(cmd, 0, 0, what)
        check(isinstance(cmd.datain, bytearray), "%s: empty datain is not a bytearray" % what)
        check(isinstance(cmd.dataout, bytearray), "%s: empty dataout is not a bytearray" % what)


# --------------------------------------------------------------------------
# 2. allocation-length commands
# --------------------------------------------------------------------------
def allocation_length():
    # Inquiry (6 byte cdb, 16 bit alloc_len at 3)
    check_buffers(Inquiry(spc.INQUIRY), 96, 0, "Inquiry default")
    check(be(Inquiry(spc.INQUIRY).cdb, 3, 2) == 96, "Inquiry default cdb")
    for n in ALLOCLENS:
        for evpd, page in ((0, 0), (1, 0x80), (1, 0x83), (1, 0xB0)):
            c = Inquiry(spc.INQUIRY, evpd=evpd, page_code=page, alloclen=n)
            what = "Inquiry(%d,%#x,%d)" % (evpd, page, n)
            check_buffers(c, n, 0, what)
            check(be(c.cdb, 3, 2) == n == len(c.datain), "%s: cdb alloc_len" % what)
    # ModeSense6 (8 bit alloc_len at 4)
    check_buffers(ModeSense6(spc.MODE_SENSE_6, 0x1D), 96, 0, "ModeSense6 default")
    for n in [0, 1, 4, 5, 8, 96, 128, 255]:
        c = ModeSense6(spc.MODE_SENSE_6, 0x0A, sub_page_code=1, dbd=1, pc=2, alloclen=n)
        check_buffers(c, n, 0, "ModeSense6(%d)" % n)
        check(c.cdb[4] == n == len(c.datain), "ModeSense6(%d): cdb alloc_len" % n)
    # ModeSense10 (16 bit at 7)
    check_buffers(ModeSense10(spc.MODE_SENSE_10, 0x1D), 96, 0, "ModeSense10 default")
    for n in ALLOCLENS:
        c = ModeSense10(spc.MODE_SENSE_10, 0x0A, sub_page_code=1, llbaa=1, dbd=1, pc=1, alloclen=n)
        check_buffers(c, n, 0, "ModeSense10(%d)" % n)
        check(be(c.cdb, 7, 2) == n == len(c.datain), "ModeSense10(%d): cdb alloc_len" % n)
    # GetLBAStatus (32 bit at 10)
    op9e = sbc.SBC_OPCODE_9E
    check_buffers(GetLBAStatus(op9e, 19), 16384, 0, "GetLBAStatus default")
    for n in ALLOCLENS + [70000, 1 << 20]:
        c = GetLBAStatus(op9e, 1 << 33, alloclen=n)
        check_buffers(c, n, 0, "GetLBAStatus(%d)" % n)
        check(be(c.cdb, 10, 4) == n == len(c.datain), "GetLBAStatus(%d): cdb" % n)
    # ReadCapacity16 (32 bit at 10)
    check_buffers(ReadCapacity16(op9e), 32, 0, "ReadCapacity16 default")
    for n in ALLOCLENS + [70000]:
        c = ReadCapacity16(op9e, alloclen=n)
        check_buffers(c, n, 0, "ReadCapacity16(%d)" % n)
        check(be(c.cdb, 10, 4) == n == len(c.datain), "ReadCapacity16(%d): cdb" % n)
    # ReadCapacity10: fixed 8 byte response, no field in the cdb
    check_buffers(ReadCapacity10(sbc.READ_CAPACITY_10), 8, 0, "ReadCapacity10 default")
    for n in [0, 1, 8, 9, 512]:
        check_buffers(ReadCapacity10(sbc.READ_CAPACITY_10, alloclen=n), n, 0, "ReadCapacity10(%d)" % n)
    # ReadDiscInformation (16 bit at 7)
    check_buffers(ReadDiscInformation(mmc.READ_DISC_INFORMATION, 0), 4096, 0, "ReadDiscInformation default")
    for n in ALLOCLENS:
        c = ReadDiscInformation(mmc.READ_DISC_INFORMATION, 1, alloc_len=n)
        check_buffers(c, n, 0, "ReadDiscInformation(%d)" % n)
        check(be(c.cdb, 7, 2) == n == len(c.datain), "ReadDiscInformation(%d): cdb" % n)
    # ReadElementStatus (24 bit at 7)
    check_buffers(ReadElementStatus(smc.READ_ELEMENT_STATUS, 0, 10), 16384, 0, "ReadElementStatus default")
    for n in ALLOCLENS + [70000, (1 << 24) - 1]:
        c = ReadElementStatus(
            smc.READ_ELEMENT_STATUS, 3, 999, element_type=2, voltag=1, curdata=0, dvcid=1, alloclen=n
        )
        check_buffers(c, n, 0, "ReadElementStatus(%d)" % n)
        check(be(c.cdb, 7, 3) == n == len(c.datain), "ReadElementStatus(%d): cdb" % n)
    # ReportLuns (32 bit at 6)
    check_buffers(ReportLuns(spc.REPORT_LUNS), 96, 0, "ReportLuns default")
    for n in ALLOCLENS + [70000]:
        c = ReportLuns(spc.REPORT_LUNS, report=2, alloclen=n)
        check_buffers(c, n, 0, "ReportLuns(%d)" % n)
        check(be(c.cdb, 6, 4) == n == len(c.datain), "ReportLuns(%d): cdb" % n)
    # ReportPriority / ReportTargetPortGroups (32 bit at 6)
    opa3 = spc.SPC_OPCODE_A3
    check_buffers(ReportPriority(opa3), 16384, 0, "ReportPriority default")
    check_buffers(ReportTargetPortGroups(opa3), 16384, 0, "ReportTargetPortGroups default")
    for n in ALLOCLENS + [70000]:
        c = ReportPriority(opa3, priority=2, alloclen=n)
        check_buffers(c, n, 0, "ReportPriority(%d)" % n)
        check(be(c.cdb, 6, 4) == n == len(c.datain), "ReportPriority(%d): cdb" % n)
        c = ReportTargetPortGroups(opa3, data_format=1, alloclen=n)
        check_buffers(c, n, 0, "ReportTargetPortGroups(%d)" % n)
        check(be(c.cdb, 6, 4) == n == len(c.datain), "ReportTargetPortGroups(%d): cdb" % n)
    # PersistentReserveIn (16 bit at 7)
    pri = spc.PERSISTENT_RESERVE_IN
    for cls in (
        PersistentReserveInReadKeys,
        PersistentReserveInReadReservation,
        PersistentReserveInReportCapabilities,
        PersistentReserveInReadFullStatus,
    ):
        check_buffers(cls(pri), 1024, 0, "%s default" % cls.__name__)
        for n in ALLOCLENS:
            c = cls(pri, alloclen=n)
            check_buffers(c, n, 0, "%s(%d)" % (cls.__name__, n))
            check(be(c.cdb, 7, 2) == n == len(c.datain), "%s(%d): cdb" % (cls.__name__, n))
    for n in ALLOCLENS:
        c = PersistentReserveIn(pri, 2, alloclen=n)
        check_buffers(c, n, 0, "PersistentReserveIn(%d)" % n)
        check(be(c.cdb, 7, 2) == n == len(c.datain), "PersistentReserveIn(%d): cdb" % n)
    check_buffers(PersistentReserveIn(pri, 1), 1024, 0, "PersistentReserveIn default")


# --------------------------------------------------------------------------
# 3. transfer length times block size (reads)
# --------------------------------------------------------------------------
def reads():
    for bs, tl in itertools.product([1, 2, 512, 520, 4096], [0, 1, 2, 27, 255, 256]):
        c = Read10(sbc.READ_10, bs, 1024, tl)
        check_buffers(c, bs * tl, 0, "Read10(%d,%d)" % (bs, tl))
        check(be(c.cdb, 7, 2) * bs == len(c.datain), "Read10(%d,%d): cdb tl" % (bs, tl))
        c = Read12(sbc.READ_12, bs, 1024, tl, rdprotect=2, dpo=1, fua=1, rarc=1, group=19)
        check_buffers(c, bs * tl, 0, "Read12(%d,%d)" % (bs, tl))
        check(be(c.cdb, 6, 4) * bs == len(c.datain), "Read12(%d,%d): cdb tl" % (bs, tl))
        c = Read16(sbc.READ_16, bs, 1 << 35, tl, rdprotect=2, dpo=1, fua=1, rarc=1, group=19)
        check_buffers(c, bs * tl, 0, "Read16(%d,%d)" % (bs, tl))
        check(be(c.cdb, 10, 4) * bs == len(c.datain), "Read16(%d,%d): cdb tl" % (bs, tl))
    # large transfer on the 32 bit variants
    c = Read12(sbc.READ_12, 512, 0, 70000)
    check_buffers(c, 512 * 70000, 0, "Read12 large")
    check(be(c.cdb, 6, 4) == 70000, "Read12 large cdb")
    c = Read16(sbc.READ_16, 512, 0, 70000)
    check_buffers(c, 512 * 70000, 0, "Read16 large")
    # a missing blocksize is refused
    for cls, op in ((Read10, sbc.READ_10), (Read12, sbc.READ_12), (Read16, sbc.READ_16)):
        check(
            raises(SCSICommand.MissingBlocksizeException, cls, op, 0, 0, 1),
            "%s: blocksize 0 accepted" % cls.__name__,
        )
    # ReadCd: 3kb per block
    for tl in [0, 1, 2, 7, 100]:
        c = ReadCd(mmc.READ_CD, lba=640, tl=tl, est=1, dap=1, mcsb=0x1F, c2ei=2, scsb=5)
        check_buffers(c, tl * 3072, 0, "ReadCd(%d)" % tl)
        check(be(c.cdb, 6, 3) * 3072 == len(c.datain), "ReadCd(%d): cdb tl" % tl)
    check_buffers(ReadCd(mmc.READ_CD), 0, 0, "ReadCd default")


# --------------------------------------------------------------------------
# 4. caller's write data
# --------------------------------------------------------------------------
def writes():
    for bs, tl in itertools.product([1, 512, 4096], [0, 1, 2, 27]):
        for kind in (bytearray, bytes):
            data = kind(b"\xa5" * (bs * tl))
            c = Write10(sbc.WRITE_10, bs, 1024, tl, data)
            check_buffers(c, 0, bs * tl, "Write10(%d,%d)" % (bs, tl), dout_is=data)
            check(be(c.cdb, 7, 2) * bs == len(c.dataout), "Write10(%d,%d): cdb" % (bs, tl))
            c = Write12(sbc.WRITE_12, bs, 1024, tl, data, wrprotect=2, dpo=1, fua=1, group=19)
            check_buffers(c, 0, bs * tl, "Write12(%d,%d)" % (bs, tl), dout_is=data)
            check(be(c.cdb, 6, 4) * bs == len(c.dataout), "Write12(%d,%d): cdb" % (bs, tl))
            c = Write16(sbc.WRITE_16, bs, 1 << 35, tl, data, wrprotect=2, dpo=1, fua=1, group=19)
            check_buffers(c, 0, bs * tl, "Write16(%d,%d)" % (bs, tl), dout_is=data)
            check(be(c.cdb, 10, 4) * bs == len(c.dataout), "Write16(%d,%d): cdb" % (bs, tl))
            check(isinstance(c.datain, bytearray), "Write16: datain not an (empty) bytearray")
    # the write data is what goes out, whatever its length
    odd = bytearray(b"xyz")
    c = Write10(sbc.WRITE_10, 512, 0, 1, odd)
    check(c.dataout is odd and len(c.datain) == 0, "Write10: odd sized data not kept")
    for cls, op in ((Write10, sbc.WRITE_10), (Write12, sbc.WRITE_12), (Write16, sbc.WRITE_16)):
        check(
            raises(SCSICommand.MissingBlocksizeException, cls, op, 0, 0, 1, bytearray(1)),
            "%s: blocksize 0 accepted" % cls.__name__,
        )
    # WriteSame: a single block of data out
    for bs in [1, 512, 4096]:
        for nb in [0, 1, 27, 65535]:
            data = bytearray(b"\x5a" * bs)
            c = WriteSame10(sbc.WRITE_SAME_10, bs, 1024, nb, data, wrprotect=4, anchor=1, unmap=1, group=19)
            check_buffers(c, 0, bs, "WriteSame10(%d,%d)" % (bs, nb), dout_is=data)
            check(be(c.cdb, 7, 2) == nb, "WriteSame10 cdb nb")
            c = WriteSame16(sbc.WRITE_SAME_16, bs, 1 << 35, nb, data, wrprotect=4, anchor=1, unmap=1, group=19)
            check_buffers(c, 0, bs, "WriteSame16(%d,%d)" % (bs, nb), dout_is=data)
            check(be(c.cdb, 10, 4) == nb, "WriteSame16 cdb nb")
            check(not (c.cdb[1] & 0x01), "WriteSame16: ndob set")
            # ndob: no data out buffer at all
            for d in (data, None, bytearray(0)):
                c = WriteSame16(sbc.WRITE_SAME_16, bs, 5, nb, d, ndob=1)
                check_buffers(c, 0, 0, "WriteSame16 ndob(%d,%d)" % (bs, nb))
                check(c.cdb[1] & 0x01, "WriteSame16: ndob not set")
                check(isinstance(c.dataout, bytearray), "WriteSame16 ndob: dataout not a bytearray")
    c = WriteSame16(sbc.WRITE_SAME_16, 0, 5, 7, None, ndob=1)
    check_buffers(c, 0, 0, "WriteSame16 ndob blocksize 0")
    check(
        raises(SCSICommand.MissingBlocksizeException, WriteSame16, sbc.WRITE_SAME_16, 0, 5, 7, bytearray(1)),
        "WriteSame16: blocksize 0 accepted",
    )
    check(
        raises(SCSICommand.MissingBlocksizeException, WriteSame10, sbc.WRITE_SAME_10, 0, 5, 7, bytearray(1)),
        "WriteSame10: blocksize 0 accepted",
    )


# --------------------------------------------------------------------------
# 5. parameter list length
# --------------------------------------------------------------------------
def _mode_pages():
    ctrl = {
        "page_code": 0x0A,
        "spf": 0,
        "ps": 1,
        "tst": 1,
        "tmf_only": 1,
        "dpicz": 1,
        "d_sense": 1,
        "gltsd": 1,
        "rlec": 1,
        "queue_algorithm_modifier": 1,
        "nuar": 1,
        "qerr": 1,
        "vs": 1,
        "rac": 1,
        "ua_intlck_ctrl": 1,
        "swp": 1,
        "ato": 1,
        "tas": 1,
        "atmpe": 1,
        "rwwp": 1,
        "autoload_mode": 1,
        "busy_timeout_period": 500,
        "extended_self_test_completion_time": 700,
    }
    ctrl_ext = {
        "page_code": 0x0A,
        "sub_page_code": 1,
        "spf": 1,
        "ps": 1,
        "tcmos": 1,
        "scsip": 1,
        "ialuae": 1,
        "initial_command_priority": 3,
        "maximum_sense_data_length": 29,
    }
    disc = {
        "page_code": 0x02,
        "spf": 0,
        "ps": 1,
        "buffer_full_ratio": 122,
        "buffer_empty_ratio": 123,
        "bus_inactivity_limit": 987,
        "disconnect_time_limit": 876,
        "connect_time_limit": 765,
        "maximum_burst_size": 654,
        "emdp": 1,
        "fair_arbitration": 4,
        "dimm": 1,
        "dtdc": 5,
        "first_burst_size": 543,
    }
    elem = {
        "page_code": 0x1D,
        "spf": 0,
        "ps": 1,
        "first_medium_transport_element_address": 111,
        "num_medium_transport_elements": 222,
        "first_storage_element_address": 333,
        "num_storage_elements": 444,
        "first_import_element_address": 555,
        "num_import_elements": 666,
        "first_data_transfer_element_address": 777,
        "num_data_transfer_elements": 888,
    }
    return ctrl, ctrl_ext, disc, elem


def parameter_lists():
    ctrl, ctrl_ext, disc, elem = _mode_pages()
    combos = [[ctrl], [ctrl_ext], [disc], [elem], [ctrl, disc], [elem, ctrl_ext, disc], []]
    for pages in combos:
        hdr6 = {
            "medium_type": 97,
            "device_specific_parameter": 98,
            "block_descriptor_length": 99,
            "mode_pages": pages,
        }
        exp6 = ModeSense6.marshall_datain(hdr6)
        for pf, sp in ((1, 0), (0, 1), (1, 1)):
            c = ModeSelect6(spc.MODE_SELECT_6, hdr6, pf=pf, sp=sp)
            what = "ModeSelect6(%d pages)" % len(pages)
            check_buffers(c, 0, len(exp6), what, dout_bytes=exp6)
            check(c.cdb[4] == len(c.dataout), "%s: parameter_list_length" % what)
            check(isinstance(c.dataout, bytearray), "%s: dataout not a bytearray" % what)
        hdr10 = {
            "medium_type": 97,
            "device_specific_parameter": 98,
            "block_descriptor_length": 99,
            "longlba": 0,
            "mode_pages": pages,
        }
        exp10 = ModeSense10.marshall_datain(hdr10)
        for pf, sp in ((1, 0), (0, 1)):
            c = ModeSelect10(spc.MODE_SELECT_10, hdr10, pf=pf, sp=sp)
            what = "ModeSelect10(%d pages)" % len(pages)
            check_buffers(c, 0, len(exp10), what, dout_bytes=exp10)
            check(be(c.cdb, 7, 2) == len(c.dataout), "%s: parameter_list_length" % what)
    # expected sizes, computed by hand: 4 byte header (8 for the 10 byte cdb)
    # + 2+10 control, 4+28 control extension, 2+14 disconnect, 2+18 element
    sizes = {0: 0, 1: 12, 2: 32, 3: 16, 4: 20}
    c = ModeSelect6(spc.MODE_SELECT_6, {"mode_pages": [ctrl, ctrl_ext, disc, elem]})
    check(len(c.dataout) == 4 + 12 + 32 + 16 + 20, "ModeSelect6: hand computed size (%d)" % len(c.dataout))
    c = ModeSelect10(spc.MODE_SELECT_10, {"mode_pages": [ctrl, ctrl_ext, disc, elem]})
    check(len(c.dataout) == 8 + 12 + 32 + 16 + 20, "ModeSelect10: hand computed size (%d)" % len(c.dataout))
    del sizes

    # PersistentReserveOut
    pro = spc.PERSISTENT_RESERVE_OUT
    sa = pro.serviceaction
    tid_fc = {"protocol_id": 0, "tpid_format": 0, "n_port_name": bytearray(b"\x01" * 8)}
    tid_sas = {"protocol_id": 6, "tpid_format": 0, "sas_address": bytearray(b"\x02" * 8)}
    tid_iscsi = {"protocol_id": 5, "tpid_format": 0, "iscsi_name": "iqn.1993-08.org.debian:01:abcdef"}
    tid_iscsi1 = {
        "protocol_id": 5,
        "tpid_format": 1,
        "iscsi_name": "iqn.1993-08.org.debian:01:abcdef",
        "iscsi_initiator_session_id": "00023d000001",
    }
    tid_len = {}
    for name, t in (("fc", tid_fc), ("sas", tid_sas), ("iscsi", tid_iscsi), ("iscsi1", tid_iscsi1)):
        tid_len[name] = len(PersistentReserveInReadFullStatus.marshall_transport_id(t))
    check(tid_len["fc"] == 24 and tid_len["sas"] == 24, "transport id sizes")
    cases = [
        ("REGISTER", dict(service_action=sa.REGISTER), 24),
        (
            "REGISTER key",
            dict(service_action=sa.REGISTER, service_action_reservation_key=0xABCDEF, aptpl=1, all_tg_pt=1),
            24,
        ),
        ("REGISTER spec_i_pt", dict(service_action=sa.REGISTER, spec_i_pt=1), 28),
        (
            "REGISTER spec_i_pt ids",
            dict(service_action=sa.REGISTER, spec_i_pt=1, transport_ids=[tid_fc, tid_sas]),
            28 + 48,
        ),
        (
            "REGISTER spec_i_pt iscsi",
            dict(service_action=sa.REGISTER, spec_i_pt=1, transport_ids=[tid_iscsi, tid_fc, tid_iscsi1]),
            28 + tid_len["iscsi"] + 24 + tid_len["iscsi1"],
        ),
        (
            "REGISTER ids no spec_i_pt",
            dict(service_action=sa.REGISTER, spec_i_pt=0, transport_ids=[tid_fc]),
            24,
        ),
        ("RESERVE", dict(service_action=sa.RESERVE, scope=0, pr_type=5, reservation_key=7), 24),
        ("RELEASE", dict(service_action=sa.RELEASE, pr_type=5, reservation_key=7), 24),
        ("CLEAR", dict(service_action=sa.CLEAR, reservation_key=7), 24),
        (
            "PREEMPT",
            dict(service_action=sa.PREEMPT, reservation_key=7, service_action_reservation_key=9),
            24,
        ),
        ("RESERVE spec_i_pt", dict(service_action=sa.RESERVE, spec_i_pt=1), 24),
        ("REGISTER_AND_MOVE", dict(service_action=sa.REGISTER_AND_MOVE, reservation_key=7), 24),
        (
            "REGISTER_AND_MOVE id",
            dict(
                service_action=sa.REGISTER_AND_MOVE,
                reservation_key=7,
                unreg=1,
                aptpl=1,
                relative_target_port_id=3,
                transport_id=tid_sas,
            ),
            48,
        ),
        (
            "REGISTER_AND_MOVE iscsi",
            dict(service_action=sa.REGISTER_AND_MOVE, transport_id=tid_iscsi1),
            24 + tid_len["iscsi1"],
        ),
    ]
    for what, kw, n in cases:
        kw = dict(kw)
        action = kw.pop("service_action")
        c = PersistentReserveOut(pro, action, **kw)
        check_buffers(c, 0, n, "PersistentReserveOut %s" % what)
        check(be(c.cdb, 5, 4) == len(c.dataout), "PersistentReserveOut %s: parameter_list_length" % what)
        kw.pop("scope", None)
        kw.pop("pr_type", None)
        exp = PersistentReserveOut.marshall_dataout(pro, action, kw)
        check(bytes(exp) == bytes(c.dataout), "PersistentReserveOut %s: dataout content" % what)
        if what.startswith("REGISTER spec_i_pt"):
            check(be(c.dataout, 24, 4) == n - 28, "PersistentReserveOut %s: additional length" % what)
        if what.startswith("REGISTER_AND_MOVE"):
            check(be(c.dataout, 20, 4) == n - 24, "PersistentReserveOut %s: transportid length" % what)

    # ExtendedCopy (SPC-4 and SPC-5)
    ident = {
        "descriptor_type_code": "Identification descriptor target descriptor",
        "device_type_specific_parameters": {"disk_block_length": 512},
        "peripheral_device_type": 0,
        "target_descriptor_parameters": {
            "association": 0,
            "code_set": 1,
            "designator": {
                "ieee_company_id": 5807356,
                "naa": 6,
                "vendor_specific_identifier": 3140,
                "vendor_specific_identifier_extension": 14160104652988484981,
            },
            "designator_length": 16,
            "designator_type": 3,
        },
    }
    seg = {
        "block_device_number_of_blocks": 4,
        "dc": 1,
        "descriptor_type_code": "Copy from block device to block device",
        "destination_block_device_logical_block_address": 10,
        "destination_target_descriptor_id": 1,
        "source_block_device_logical_block_address": 1,
        "source_target_descriptor_id": 0,
    }
    t4 = len(ExtendedCopy4.marshall_target(ident))
    s4 = len(ExtendedCopy4.marshall_segment(seg))
    check(t4 == 32 and s4 == 28, "ExtendedCopy4 descriptor sizes %d %d" % (t4, s4))
    for nt, ns, inline in itertools.product([0, 1, 2, 5], [0, 1, 3], [b"", b"abc", bytearray(100)]):
        c = ExtendedCopy4(
            spc.EXTENDED_COPY,
            list_identifier=0x34,
            sequential_striped=1,
            nrcr=1,
            priority=3,
            target_descriptor_list=[ident] * nt,
            segment_descriptor_list=[seg] * ns,
            inline_data=inline,
        )
        n = 16 + 32 * nt + 28 * ns + len(inline)
        what = "ExtendedCopy4(%d,%d,%d)" % (nt, ns, len(inline))
        check_buffers(c, 0, n, what)
        check(be(c.cdb, 10, 4) == len(c.dataout), "%s: parameter_list_length" % what)
        check(be(c.dataout, 2, 2) == 32 * nt, "%s: target list length" % what)
        check(be(c.dataout, 8, 4) == 28 * ns, "%s: segment list length" % what)
        check(be(c.dataout, 12, 4) == len(inline), "%s: inline length" % what)
        check(bytes(c.dataout[n - len(inline) :]) == bytes(inline) or not inline, "%s: inline data" % what)
        exp = ExtendedCopy4.marshall_parameter_list(0x34, 1, 1, 3, [ident] * nt, [seg] * ns, inline)
        check(bytes(exp) == bytes(c.dataout), "%s: dataout content" % what)
    c = ExtendedCopy4(spc.EXTENDED_COPY)
    check_buffers(c, 0, 16, "ExtendedCopy4 default")
    check(be(c.cdb, 10, 4) == 16, "ExtendedCopy4 default cdb")
    check(
        raises(
            NotImplementedError,
            ExtendedCopy4,
            spc.EXTENDED_COPY,
            segment_descriptor_list=[{"descriptor_type_code": 0x03}],
        ),
        "ExtendedCopy4: unsupported segment accepted",
    )

    ident5 = dict(ident)
    ident5["descriptor_type_code"] = "Identification Descriptor CSCD descriptor"
    ident5["cscd_descriptor_parameters"] = ident5.pop("target_descriptor_parameters")
    ident5["lu_id_type"] = 0
    ident5["relative_initiator_port_identifier"] = 0
    seg5 = dict(seg)
    seg5["destination_cscd_descriptor_id"] = seg5.pop("destination_target_descriptor_id")
    seg5["source_cscd_descriptor_id"] = seg5.pop("source_target_descriptor_id")
    t5 = len(ExtendedCopy5.marshall_cscd(ident5))
    s5 = len(ExtendedCopy5.marshall_segment(seg5))
    check(t5 == 32 and s5 == 28, "ExtendedCopy5 descriptor sizes %d %d" % (t5, s5))
    for nt, ns, inline in itertools.product([0, 1, 2, 5], [0, 1, 3], [b"", b"abc", bytearray(100)]):
        c = ExtendedCopy5(
            spc.EXTENDED_COPY,
            sequential_striped=1,
            list_id_usage=2,
            priority=3,
            g_sense=1,
            immed=1,
            list_identifier=0x34,
            cscd_descriptor_list=[ident5] * nt,
            segment_descriptor_list=[seg5] * ns,
            inline_data=inline,
        )
        n = 48 + 32 * nt + 28 * ns + len(inline)
        what = "ExtendedCopy5(%d,%d,%d)" % (nt, ns, len(inline))
        check_buffers(c, 0, n, what)
        check(be(c.cdb, 10, 4) == len(c.dataout), "%s: parameter_list_length" % what)
        check(c.cdb[1] & 0x1F == 1, "%s: service action" % what)
        exp = ExtendedCopy5.marshall_parameter_list(1, 2, 3, 1, 1, 0x34, [ident5] * nt, [seg5] * ns, inline)
        check(bytes(exp) == bytes(c.dataout), "%s: dataout content" % what)
        check(be(c.dataout, 44, 2) == 28 * ns, "%s: segment list length" % what)
        check(be(c.dataout, 46, 2) == len(inline), "%s: inline length" % what)
        check(be(c.dataout, 42, 2) == 32 * nt, "%s: cscd list length" % what)
    c = ExtendedCopy5(spc.EXTENDED_COPY)
    check_buffers(c, 0, 48, "ExtendedCopy5 default")
    check(be(c.cdb, 10, 4) == 48, "ExtendedCopy5 default cdb")
    check(
        raises(
            NotImplementedError,
            ExtendedCopy5,
            spc.EXTENDED_COPY,
            segment_descriptor_list=[{"descriptor_type_code": 0x03}],
        ),
        "ExtendedCopy5: unsupported segment accepted",
    )


# --------------------------------------------------------------------------
# 6. ATA pass through
# --------------------------------------------------------------------------
def ata_expected(t_length, byte_block, t_dir, t_type, fetures, count, blocksize, extra_tl):
    """independent statement of the SAT transfer rules; None means 'refused'"""
    if not t_length:
        return 0, 0
    if t_length == 1:
        units = fetures
    elif t_length == 2:
        units = count
    elif t_length == 3:
        units = 0 if extra_tl is None else extra_tl
    else:
        units = 0
    if not byte_block:
        size = 1
    elif not t_type:
        size = 512
    else:
        if blocksize == 0:
            return None
        size = blocksize
    total = units * size
    return (0, total) if t_dir == 0 else (total, 0)


def ata12_lba(lba):
    return ((lba & 0xFF) << 16) | (((lba >> 8) & 0xFF) << 8) | ((lba >> 16) & 0xFF)


def ata16_lba(lba):
    b = [(lba >> (8 * i)) & 0xFF for i in range(6)]
    return (b[3] << 40) | (b[0] << 32) | (b[4] << 24) | (b[1] << 16) | (b[5] << 8) | b[2]


def ata():
    op12 = sbc.ATA_PASS_THROUGH_12
    op16 = sbc.ATA_PASS_THROUGH_16
    n = 0
    for t_length, byte_block, t_dir, t_type in itertools.product(
        [0, 1, 2, 3], [0, 1], [0, 1], [0, 1]
    ):
        for fetures, count in ((0, 0), (1, 2), (3, 1), (0xD0, 0x10), (0, 5)):
            for blocksize in (0, 1, 512, 4096):
                for extra_tl in (None, 0, 1, 8):
                    exp = ata_expected(
                        t_length, byte_block, t_dir, t_type, fetures, count, blocksize, extra_tl
                    )
                    for cls, op in ((ATAPassThrough12, op12), (ATAPassThrough16, op16)):
                        what = "%s(tl=%d bb=%d dir=%d type=%d f=%d c=%d bs=%d x=%r)" % (
                            cls.__name__,
                            t_length,
                            byte_block,
                            t_dir,
                            t_type,
                            fetures,
                            count,
                            blocksize,
                            extra_tl,
                        )
                        args = (op, 4, t_length, byte_block, t_dir, t_type, 0, fetures, count, 0x123456, 0xEC)
                        kw = dict(blocksize=blocksize, extra_tl=extra_tl)
                        if exp is None:
                            check(
                                raises(SCSICommand.MissingBlocksizeException, cls, *args, **kw),
                                "%s: blocksize 0 accepted" % what,
                            )
                            continue
                        c = cls(*args, **kw)
                        n += 1
                        check_buffers(c, exp[0], exp[1], what)
                        check(isinstance(c.datain, bytearray), "%s: datain not a bytearray" % what)
                        check(isinstance(c.dataout, bytearray), "%s: dataout not a bytearray" % what)
                        # the cdb announces the same rule
                        check(c.cdb[2] & 0x03 == t_length, "%s: cdb t_length" % what)
                        check(bool(c.cdb[2] & 0x04) == bool(byte_block), "%s: cdb byte_block" % what)
                        check(bool(c.cdb[2] & 0x08) == bool(t_dir), "%s: cdb t_dir" % what)
                        check(bool(c.cdb[2] & 0x10) == bool(t_type), "%s: cdb t_type" % what)
                        if cls is ATAPassThrough12:
                            check(c.cdb[3] == fetures and c.cdb[4] == count, "%s: cdb fetures/count" % what)
                            check(be(c.cdb, 5, 3) == ata12_lba(0x123456), "%s: cdb lba" % what)
                        else:
                            check(
                                be(c.cdb, 3, 2) == fetures and be(c.cdb, 5, 2) == count,
                                "%s: cdb fetures/count" % what,
                            )
                            check(be(c.cdb, 7, 6) == ata16_lba(0x123456), "%s: cdb lba" % what)
    check(n > 2000, "ata: too few combinations (%d)" % n)

    # explicitly given data replaces the buffer of the transfer direction
    for cls, op in ((ATAPassThrough12, op12), (ATAPassThrough16, op16)):
        payload = bytearray(b"\x11" * 512)
        c = cls(op, 5, 2, 1, 0, 0, 0, 0, 1, 0, 0x30, data=payload)
        check_buffers(c, 0, 512, "%s data out" % cls.__name__, dout_is=payload)
        c = cls(op, 4, 2, 1, 1, 0, 0, 0, 1, 0, 0xEC, data=payload)
        check(c.datain is payload and len(c.dataout) == 0, "%s: data in not replaced" % cls.__name__)
        check(len(c.datain) == 512, "%s: data in length" % cls.__name__)
        # empty / missing data leaves the computed buffers alone
        for d in (None, bytearray(0), b""):
            c = cls(op, 4, 2, 1, 1, 0, 0, 0, 3, 0, 0xEC, data=d)
            check_buffers(c, 3 * 512, 0, "%s data=%r" % (cls.__name__, d))
            c = cls(op, 5, 1, 0, 0, 0, 0, 9, 3, 0, 0x30, data=d)
            check_buffers(c, 0, 9, "%s out data=%r" % (cls.__name__, d))
        # non data
        c = cls(op, 3, 0, 0, 0, 0, 0, 0xD8, 7, 0xC24F00, 0xB0, ck_cond=1, device=0xA0, control=1)
        check_buffers(c, 0, 0, "%s non-data" % cls.__name__)
        c = cls(op, 3, 0, 1, 1, 1, 0, 0xD8, 7, 0xC24F00, 0xB0, blocksize=0)
        check_buffers(c, 0, 0, "%s non-data, all flags" % cls.__name__)
    # 16 bit count / features on the 16 byte cdb
    c = ATAPassThrough16(op16, 4, 2, 1, 1, 0, 0, 0, 0x0123, 0xABCDEF012345, 0x25, extend=1)
    check_buffers(c, 0x0123 * 512, 0, "ATAPassThrough16 16 bit count")
    check(be(c.cdb, 7, 6) == ata16_lba(0xABCDEF012345), "ATAPassThrough16 48 bit lba")
    check(c.cdb[1] & 1 == 1, "ATAPassThrough16 extend")
    c = ATAPassThrough16(op16, 4, 1, 0, 1, 0, 0, 0x0201, 0, 0, 0x25, extend=0)
    check_buffers(c, 0x0201, 0, "ATAPassThrough16 16 bit features")
    check(c.cdb[1] & 1 == 0, "ATAPassThrough16 extend=0")
    # lba conversion helpers
    for lba in (0, 1, 0xFF, 0x100, 0x123456, 0xFFFFFF, 0xABCDEF, 0x1000000, 0xABCDEF012345, (1 << 48) - 1, 1 << 48):
        check(ATAPassThrough12.scsi_to_ata_lba_convert(lba) == ata12_lba(lba), "ata12 lba %#x" % lba)
        check(ATAPassThrough16.scsi_to_ata_lba_convert(lba) == ata16_lba(lba), "ata16 lba %#x" % lba)


# --------------------------------------------------------------------------
# 7. the SCSI facade: the buffers a device is handed
# --------------------------------------------------------------------------
class RecordingDevice(object):
    """a device object as the SCSI class wants it; records what it is given"""

    def __init__(self, opcodes, devtype=0):
        self.opcodes = opcodes
        self.devicetype = None
        self.devtype = devtype
        self.seen = []

    def execute(self, cmd, en_raw_sense=False):
        check(is_buffer(cmd.datain), "facade: datain not a byte buffer for %r" % cmd)
        check(is_buffer(cmd.dataout), "facade: dataout not a byte buffer for %r" % cmd)
        self.seen.append((cmd, len(cmd.cdb), len(cmd.dataout), len(cmd.datain)))
        # answer something decodable
        name = cmd.__class__.__name__
        if name == "Inquiry":
            if len(cmd.datain):
                cmd.datain[0] = self.devtype
        elif name in ("ModeSense6",) and len(cmd.datain) >= 4:
            cmd.datain[0] = 3
        elif name in ("ModeSense10",) and len(cmd.datain) >= 8:
            cmd.datain[1] = 6

    def close(self):
        pass


def facade():
    dev = RecordingDevice(sbc)
    s = SCSI(dev, blocksize=512)
    # the constructor sent an inquiry
    cmd, cl, do, di = dev.seen[-1]
    check((cl, do, di) == (6, 0, 96), "facade: initial inquiry %r" % ((cl, do, di),))

    def last(what, do, di):
        cmd, cl, o, i = dev.seen[-1]
        check((o, i) == (do, di), "facade %s: device saw dataout=%d datain=%d, expected %d/%d" % (what, o, i, do, di))
        return cmd

    s.inquiry(alloclen=200)
    last("inquiry", 0, 200)
    s.inquiry(evpd=1, page_code=0x80, alloclen=64)
    last("inquiry vpd", 0, 64)
    s.testunitready()
    last("testunitready", 0, 0)
    s.read10(0, 3)
    last("read10", 0, 3 * 512)
    s.read12(0, 4, fua=1)
    last("read12", 0, 4 * 512)
    s.read16(0, 5)
    last("read16", 0, 5 * 512)
    data = bytearray(1024)
    c = s.write10(0, 2, data)
    last("write10", 1024, 0)
    check(c.dataout is data, "facade write10: data")
    s.write12(0, 2, data)
    last("write12", 1024, 0)
    s.write16(0, 2, data)
    last("write16", 1024, 0)
    blk = bytearray(512)
    s.writesame10(0, 100, blk)
    last("writesame10", 512, 0)
    s.writesame16(0, 100, blk)
    last("writesame16", 512, 0)
    s.writesame16(0, 100, None, ndob=1)
    last("writesame16 ndob", 0, 0)
    s.readcapacity10()
    last("readcapacity10", 0, 8)
    s.readcapacity16()
    last("readcapacity16", 0, 32)
    s.readcapacity16(alloclen=12)
    last("readcapacity16(12)", 0, 12)
    s.getlbastatus(0, alloclen=24)
    last("getlbastatus", 0, 24)
    s.synchronizecache10(0, 10)
    last("synchronizecache10", 0, 0)
    s.synchronizecache16(0, 10)
    last("synchronizecache16", 0, 0)
    s.modesense6(0x0A, alloclen=40)
    last("modesense6", 0, 40)
    s.modesense10(0x0A, alloclen=48)
    last("modesense10", 0, 48)
    ctrl = _mode_pages()[0]
    s.modeselect6({"mode_pages": [ctrl]})
    c = last("modeselect6", 16, 0)
    check(c.cdb[4] == 16, "facade modeselect6 cdb")
    s.modeselect10({"mode_pages": [ctrl]})
    c = last("modeselect10", 20, 0)
    check(be(c.cdb, 7, 2) == 20, "facade modeselect10 cdb")
    s.reportluns(alloclen=24)
    last("reportluns", 0, 24)
    s.reportpriority(alloclen=20)
    last("reportpriority", 0, 20)
    s.reporttargetportgroups(alloclen=28)
    last("reporttargetportgroups", 0, 28)
    s.preventallowmediumremoval(prevent=1)
    last("preventallowmediumremoval", 0, 0)
    s.persistentreservein(0, alloclen=16)
    last("persistentreservein", 0, 16)
    s.persistentreserveout(0, service_action_reservation_key=5)
    last("persistentreserveout", 24, 0)
    s.persistentreserveout(0, spec_i_pt=1)
    last("persistentreserveout spec_i_pt", 28, 0)
    s.extendedcopy4()
    last("extendedcopy4", 16, 0)
    s.extendedcopy5(inline_data=bytearray(7))
    last("extendedcopy5", 55, 0)
    s.atapassthrough12(4, 2, 1, 1, 0, 0, 0, 1, 0, 0xEC)
    last("atapassthrough12 identify", 0, 512)
    s.atapassthrough16(4, 2, 1, 1, 0, 0, 0, 2, 0, 0xEC)
    last("atapassthrough16", 0, 1024)
    s.atapassthrough16(5, 2, 1, 0, 0, 0, 0, 2, 0, 0x35, data=data)
    last("atapassthrough16 out", 1024, 0)
    s.atapassthrough12(3, 0, 0, 0, 0, 0, 0xD8, 0, 0xC24F00, 0xB0)
    last("atapassthrough12 non-data", 0, 0)
    s.atapassthrough12(4, 3, 1, 1, 1, 0, 0, 0, 0, 0xEC, blocksize=4096, extra_tl=2)
    last("atapassthrough12 tpsiu", 0, 8192)

    # other device types
    dev = RecordingDevice(smc, 8)
    s = SCSI(dev)
    s.exchangemedium(1, 2, 3, 4)
    last2 = dev.seen[-1]
    check(last2[2:] == (0, 0), "facade exchangemedium")
    s.movemedium(1, 2, 3)
    check(dev.seen[-1][2:] == (0, 0), "facade movemedium")
    s.positiontoelement(1, 2)
    check(dev.seen[-1][2:] == (0, 0), "facade positiontoelement")
    s.initializeelementstatus()
    check(dev.seen[-1][2:] == (0, 0), "facade initializeelementstatus")
    s.initializeelementstatuswithrange(1, 2)
    check(dev.seen[-1][2:] == (0, 0), "facade initializeelementstatuswithrange")
    s.opencloseimportexportelement(1, 0)
    check(dev.seen[-1][2:] == (0, 0), "facade opencloseimportexportelement")
    dev = RecordingDevice(mmc, 5)
    s = SCSI(dev)
    s.readcd(0, 2)
    check(dev.seen[-1][2:] == (0, 6144), "facade readcd")
    # blocksize 0 in the facade refuses block transfers
    s = SCSI(RecordingDevice(sbc))
    check(raises(SCSICommand.MissingBlocksizeException, s.read10, 0, 1), "facade: read10 without blocksize")
    check(
        raises(SCSICommand.MissingBlocksizeException, s.write16, 0, 1, bytearray(512)),
        "facade: write16 without blocksize",
    )


# --------------------------------------------------------------------------
# 8. the transports get these very buffers
# --------------------------------------------------------------------------
def sample_commands():
    data = bytearray(b"\x77" * 1024)
    return [
        (TestUnitReady(spc.TEST_UNIT_READY), 0, 0),
        (Inquiry(spc.INQUIRY, alloclen=36), 0, 36),
        (Inquiry(spc.INQUIRY, alloclen=0), 0, 0),
        (Read10(sbc.READ_10, 512, 0, 2), 0, 1024),
        (Read16(sbc.READ_16, 4096, 0, 1), 0, 4096),
        (Write10(sbc.WRITE_10, 512, 0, 2, data), 1024, 0),
        (Write16(sbc.WRITE_16, 512, 0, 2, bytes(data)), 1024, 0),
        (WriteSame16(sbc.WRITE_SAME_16, 512, 0, 9, None, ndob=1), 0, 0),
        (WriteSame10(sbc.WRITE_SAME_10, 512, 0, 9, data[:512]), 512, 0),
        (ModeSense6(spc.MODE_SENSE_6, 0x0A, alloclen=20), 0, 20),
        (ModeSelect10(spc.MODE_SELECT_10, {"mode_pages": [_mode_pages()[2]]}), 24, 0),
        (PersistentReserveOut(spc.PERSISTENT_RESERVE_OUT, 0, spec_i_pt=1), 28, 0),
        (PersistentReserveInReadKeys(spc.PERSISTENT_RESERVE_IN, alloclen=8), 0, 8),
        (ExtendedCopy4(spc.EXTENDED_COPY, inline_data=b"12345"), 21, 0),
        (ExtendedCopy5(spc.EXTENDED_COPY), 48, 0),
        (ReadCd(mmc.READ_CD, 0, 1), 0, 3072),
        (ReportLuns(spc.REPORT_LUNS, alloclen=16), 0, 16),
        (ATAPassThrough12(sbc.ATA_PASS_THROUGH_12, 4, 2, 1, 1, 0, 0, 0, 1, 0, 0xEC), 0, 512),
        (ATAPassThrough16(sbc.ATA_PASS_THROUGH_16, 5, 2, 1, 0, 0, 0, 0, 2, 0, 0x35, data=data), 1024, 0),
        (ATAPassThrough16(sbc.ATA_PASS_THROUGH_16, 3, 0, 0, 0, 0, 0, 0, 0, 0, 0xE5), 0, 0),
        (MoveMedium(smc.MOVE_MEDIUM, 1, 2, 3), 0, 0),
    ]


def transports():
    import pyscsi.pyscsi.scsi_device as scsi_device_module

    # --- SCSIDevice on top of the fake sgio -------------------------------
    tmp = tempfile.NamedTemporaryFile(prefix="c03demo", delete=False)
    tmp.write(b"\0" * 16)
    tmp.close()
    real_open = scsi_device_module.__dict__.get("open")
    path = "/dev/" + os.path.basename(tmp.name)

    def fake_open(name, mode="r", buffering=-1):
        return open(tmp.name, mode, buffering=buffering)

    def fake_inode(name):
        return os.stat(tmp.name).st_ino

    scsi_device_module.open = fake_open
    real_inode = scsi_device_module.get_inode
    scsi_device_module.get_inode = fake_inode
    try:
        for detect in (True, False):
            dev = SCSIDevice(path, readwrite=True, detect_replugged=detect)
            check(dev.opcodes is spc, "SCSIDevice: default opcodes")
            dev.opcodes = sbc
            check(dev.opcodes is sbc, "SCSIDevice: opcodes setter")
            dev.devicetype = 0
            check(dev.devicetype == 0, "SCSIDevice: devicetype")
            for cmd, do, di in sample_commands():
                del SGIO_CALLS[:]
                dev.execute(cmd)
                check(len(SGIO_CALLS) == 1, "sgio: one call per command")
                fobj, cdb, dataout, datain, lo, li = SGIO_CALLS[0]
                what = "sgio %r" % cmd
                check(cdb is cmd.cdb, "%s: cdb object" % what)
                check(dataout is cmd.dataout, "%s: dataout object" % what)
                check(datain is cmd.datain, "%s: datain object" % what)
                check((lo, li) == (do, di), "%s: lengths %r expected %r" % (what, (lo, li), (do, di)))
                check(is_buffer(dataout) and is_buffer(datain), "%s: buffers" % what)
                # the device filled exactly that buffer
                check(
                    bytes(cmd.datain) == bytes((i * 7 + 0x20) & 0xFF for i in range(di)),
                    "%s: datain not filled" % what,
                )
            # check conditions keep their meaning
            sense = bytearray(b"\x70\x00\x05" + bytes(9) + b"\x24\x00" + bytes(4))
            SGIO_FAIL.append(sense)
            cmd = Read10(sbc.READ_10, 512, 0, 1)
            check(raises(SCSIDevice.CheckCondition, dev.execute, cmd), "sgio: CheckCondition not raised")
            SGIO_FAIL.append(sense)
            cmd = ATAPassThrough12(sbc.ATA_PASS_THROUGH_12, 4, 2, 1, 1, 0, 0, 0, 1, 0, 0xEC)
            dev.execute(cmd, en_raw_sense=True)
            check(cmd.raw_sense_data is sense, "sgio: raw sense not stored")
            check(len(cmd.datain) == 512, "sgio: datain after raw sense")
            # through the facade
            s = SCSI(dev, blocksize=512)
            del SGIO_CALLS[:]
            r = s.read16(5, 3)
            check(SGIO_CALLS[-1][4:] == (0, 1536) and SGIO_CALLS[-1][3] is r.datain, "sgio facade read16")
            w = s.write10(5, 1, bytearray(512))
            check(SGIO_CALLS[-1][4:] == (512, 0) and SGIO_CALLS[-1][2] is w.dataout, "sgio facade write10")
            dev.close()
        # replug detection reopens and still executes
        dev = SCSIDevice(path, readwrite=False, detect_replugged=True)
        first = dev._file
        scsi_device_module.get_inode = lambda name: -1
        del SGIO_CALLS[:]
        dev.execute(Inquiry(spc.INQUIRY, alloclen=5))
        check(len(SGIO_CALLS) == 1 and SGIO_CALLS[0][5] == 5, "sgio: replugged execute")
        check(first.closed and dev._file is not first, "sgio: not reopened after replug")
        scsi_device_module.get_inode = fake_inode
        dev.close()
        with SCSIDevice(path) as dev:
            dev.execute(TestUnitReady(spc.TEST_UNIT_READY))
        check(dev._file.closed, "SCSIDevice: context manager closes")
        check(raises(NotImplementedError, SCSIDevice, "nodev"), "SCSIDevice: bad name accepted")
    finally:
        if real_open is None:
            del scsi_device_module.open
        else:
            scsi_device_module.open = real_open
        scsi_device_module.get_inode = real_inode
        os.unlink(tmp.name)

    # --- ISCSIDevice on top of the fake iscsi -----------------------------
    dev = ISCSIDevice("iscsi://127.0.0.1/iqn.fake:target/3", "iqn.fake:me")
    check(dev.opcodes is spc, "ISCSIDevice: default opcodes")
    dev.opcodes = sbc
    check(dev.opcodes is sbc, "ISCSIDevice: opcodes setter")
    dev.devicetype = 5
    check(dev.devicetype == 5, "ISCSIDevice: devicetype")
    for cmd, do, di in sample_commands():
        del ISCSI_TASKS[:]
        del ISCSI_COMMANDS[:]
        ISCSI_STATUS[0] = 0
        dev.execute(cmd)
        what = "iscsi %r" % cmd
        check(len(ISCSI_TASKS) == 1 and len(ISCSI_COMMANDS) == 1, "%s: one task" % what)
        task = ISCSI_TASKS[0]
        lun, t, dataout, datain, lo, li = ISCSI_COMMANDS[0]
        check(t is task and lun == 3, "%s: task/lun" % what)
        check(task.cdb is cmd.cdb, "%s: cdb object" % what)
        check(dataout is cmd.dataout and datain is cmd.datain, "%s: buffer objects" % what)
        check((lo, li) == (do, di), "%s: lengths %r expected %r" % (what, (lo, li), (do, di)))
        if do:
            check(task.direction == 2 and task.xferlen == do, "%s: write xfer %r/%r" % (what, task.direction, task.xferlen))
        elif di:
            check(task.direction == 1 and task.xferlen == di, "%s: read xfer %r/%r" % (what, task.direction, task.xferlen))
        else:
            check(task.direction == 0 and task.xferlen == 0, "%s: no xfer %r/%r" % (what, task.direction, task.xferlen))
    # a command that (artificially) has both buffers: data out wins
    cmd = Read10(sbc.READ_10, 512, 0, 1)
    cmd.dataout = bytearray(7)
    del ISCSI_TASKS[:]
    dev.execute(cmd)
    check(ISCSI_TASKS[0].direction == 2 and ISCSI_TASKS[0].xferlen == 7, "iscsi: both buffers")
    # status handling unchanged
    S = scsi_enum_command.SCSI_STATUS
    for status, exc in (
        (S.CHECK_CONDITION, ISCSIDevice.CheckCondition),
        (S.RESERVATION_CONFLICT, ISCSIDevice.ReservationConflict),
        (S.TASK_ABORTED, ISCSIDevice.TaskAborted),
        (S.BUSY, ISCSIDevice.BusyStatus),
        (S.TASK_SET_FULL, ISCSIDevice.TaskSetFull),
        (S.ACA_ACTIVE, ISCSIDevice.ACAActive),
        (S.CONDITIONS_MET, ISCSIDevice.ConditionsMet),
        (0x7F, RuntimeError),
    ):
        ISCSI_STATUS[0] = status
        cmd = Read10(sbc.READ_10, 512, 0, 1)
        check(raises(exc, dev.execute, cmd), "iscsi: status %#x" % status)
        check(len(cmd.datain) == 512 and len(cmd.dataout) == 0, "iscsi: buffers after status %#x" % status)
    ISCSI_STATUS[0] = S.CHECK_CONDITION
    cmd = Read10(sbc.READ_10, 512, 0, 1)
    check(raises(ISCSIDevice.CheckCondition, dev.execute, cmd, en_raw_sense=True), "iscsi: raw sense check condition")
    check(cmd.raw_sense_data is cmd.sense and cmd.sense is not None, "iscsi: raw sense stored")
    ISCSI_STATUS[0] = 0
    s = SCSI(dev, blocksize=512)
    del ISCSI_TASKS[:]
    s.read10(0, 2)
    check(ISCSI_TASKS[-1].direction == 1 and ISCSI_TASKS[-1].xferlen == 1024, "iscsi facade read10")
    s.write10(0, 2, bytearray(1024))
    check(ISCSI_TASKS[-1].direction == 2 and ISCSI_TASKS[-1].xferlen == 1024, "iscsi facade write10")
    s.testunitready()
    check(ISCSI_TASKS[-1].direction == 0 and ISCSI_TASKS[-1].xferlen == 0, "iscsi facade testunitready")
    with ISCSIDevice("iscsi://127.0.0.1/iqn.fake:target/3") as d2:
        ctx = d2._iscsi
        check(ctx.connected, "iscsi: connected")
    check(not ctx.connected, "iscsi: context manager disconnects")
    check(raises(NotImplementedError, ISCSIDevice, "/dev/sg0"), "ISCSIDevice: bad name accepted")


# --------------------------------------------------------------------------
# 9. the base class itself
# --------------------------------------------------------------------------
def base_class():
    for do, di in itertools.product([0, 1, 5, 300], [0, 1, 7, 513]):
        c = SCSICommand(spc.INQUIRY, do, di)
        check_buffers(c, di, do, "SCSICommand(%d,%d)" % (do, di))
        check(isinstance(c.dataout, bytearray) and isinstance(c.datain, bytearray), "SCSICommand: bytearrays")
        check(c.datain is not c.dataout, "SCSICommand: shared buffer")
        check(c.opcode is spc.INQUIRY and c.result == {} and c.pagecode is None, "SCSICommand: attributes")
    # buffers are per instance
    a = SCSICommand(spc.INQUIRY, 4, 4)
    b = SCSICommand(spc.INQUIRY, 4, 4)
    a.datain[0] = 9
    a.dataout[0] = 9
    check(b.datain[0] == 0 and b.dataout[0] == 0, "SCSICommand: buffers shared between instances")
    # replacing a buffer is visible through the public attribute
    nb = bytearray(11)
    a.datain = nb
    check(a.datain is nb and a._datain is nb and len(b.datain) == 4, "SCSICommand: datain setter")
    a.dataout = nb
    check(a.dataout is nb and a._dataout is nb and len(b.dataout) == 4, "SCSICommand: dataout setter")
    a.sense = b"\x70"
    a.raw_sense_data = b"\x72"
    a.pagecode = 0x83
    check(a.sense == b"\x70" and a.raw_sense_data == b"\x72" and a.pagecode == 0x83, "SCSICommand: other attributes")
    check(b.sense is None and b.raw_sense_data is None, "SCSICommand: attribute defaults")
    # cdb sizes by opcode group
    for op, n in ((spc.INQUIRY, 6), (sbc.READ_10, 10), (sbc.READ_16, 16), (sbc.READ_12, 12)):
        check(len(SCSICommand.init_cdb(op)) == n, "init_cdb %r" % op)
    # negative lengths are not silently accepted
    check(raises(ValueError, SCSICommand, spc.INQUIRY, -1, 0), "SCSICommand: negative dataout length")
    check(raises(ValueError, SCSICommand, spc.INQUIRY, 0, -1), "SCSICommand: negative datain length")
    check(raises(ValueError, Inquiry, spc.INQUIRY, alloclen=-1), "Inquiry: negative alloclen")
    check(raises(ValueError, Read10, sbc.READ_10, 512, 0, -1), "Read10: negative tl")
    # unmarshall works on the datain buffer
    c = Inquiry(spc.INQUIRY, alloclen=96)
    c.datain[0] = 0x05
    c.unmarshall(evpd=0)
    check(c.result["peripheral_device_type"] == 5, "Inquiry: unmarshall reads datain")
    c = TestUnitReady(spc.TEST_UNIT_READY)
    check(raises(NotImplementedError, c.unmarshall), "TestUnitReady: unmarshall")


def main():
    no_data_phase()
    allocation_length()
    reads()
    writes()
    parameter_lists()
    ata()
    facade()
    transports()
    base_class()
    if FAILS:
        print("FAIL: %d of %d checks failed" % (len(FAILS), CHECKS[0]))
        return 1
    print("PASS (%d checks)" % CHECKS[0])
    return 0


if __name__ == "__main__":
    sys.exit(main())
