# coding: utf-8
"""
Demo / regression check for property C07:

  On every transport, executing a command returns normally only if the target
  reported GOOD; a CHECK CONDITION surfaces as a CheckCondition error reporting
  the sense key, ASC and ASCQ the target sent (or, only when the caller
  explicitly asked for raw sense, the unmodified sense bytes attached to the
  command), and each other status raises the error named after it.  A failed
  command is never indistinguishable from a successful one, and the facade
  passes the error on to its caller without decoding the untouched buffer as if
  it were device data.

Run:  cd /tmp/seed/C07u && PYTHONPATH=/tmp/seed/C07u /venv/bin/python SEED/demo.py
"""
import itertools
import os
import sys
import tempfile
import types

# --------------------------------------------------------------------------
# fake external bindings
# --------------------------------------------------------------------------
sgio = types.ModuleType("sgio")


class _SgioCheckConditionError(Exception):
    def __init__(self, sense):
        Exception.__init__(self, "check condition")
        self.sense = sense


class _SgioState:
    calls = []
    action = None  # None -> GOOD ; an exception instance -> raised
    fill = None  # bytes copied into datain on GOOD


def _sgio_execute(fobj, cdb, dataout, datain, *args, **kwargs):
    _SgioState.calls.append((fobj, cdb, dataout, datain, args, kwargs))
    if _SgioState.action is not None:
        raise _SgioState.action
    if _SgioState.fill is not None:
        n = min(len(datain), len(_SgioState.fill))
        datain[:n] = _SgioState.fill[:n]
    return 0


sgio.CheckConditionError = _SgioCheckConditionError
sgio.execute = _sgio_execute
sys.modules["sgio"] = sgio

iscsi = types.ModuleType("iscsi")
iscsi.SCSI_XFER_NONE = 0
iscsi.SCSI_XFER_READ = 1
iscsi.SCSI_XFER_WRITE = 2
iscsi.ISCSI_SESSION_NORMAL = 2
iscsi.ISCSI_HEADER_DIGEST_NONE_CRC32C = 1

_NOSENSE = object()


class _IscsiState:
    status = 0
    sense = _NOSENSE  # _NOSENSE -> task has no raw_sense attribute at all
    fill = None
    log = []
    contexts = []
    command_error = None


class _Task:
    def __init__(self, cdb, direction, xferlen):
        self.cdb = cdb
        self.direction = direction
        self.xferlen = xferlen
        self.status = None


class _Context:
    def __init__(self, name):
        self.name = name
        self.connected = False
        self.disconnects = 0
        self.settings = {}
        _IscsiState.contexts.append(self)

    def set_targetname(self, t):
        self.settings["target"] = t

    def set_session_type(self, t):
        self.settings["session"] = t

    def set_header_digest(self, t):
        self.settings["digest"] = t

    def connect(self, portal, lun):
        self.connected = True
        self.settings["portal"] = portal
        self.settings["lun"] = lun

    def disconnect(self):
        self.connected = False
        self.disconnects += 1

    def command(self, lun, task, dataout, datain):
        _IscsiState.log.append((self, lun, task, dataout, datain))
        if _IscsiState.command_error is not None:
            raise _IscsiState.command_error
        task.status = _IscsiState.status
        if _IscsiState.sense is not _NOSENSE:
            task.raw_sense = _IscsiState.sense
        if _IscsiState.status == 0 and _IscsiState.fill is not None:
            n = min(len(datain), len(_IscsiState.fill))
            datain[:n] = _IscsiState.fill[:n]


class _URL:
    def __init__(self, ctx, url):
        self.ctx = ctx
        self.url = url
        rest = url[len("iscsi://"):]
        parts = rest.split("/")
        self.portal = parts[0]
        self.target = parts[1] if len(parts) > 1 else ""
        self.lun = int(parts[2]) if len(parts) > 2 else 0


iscsi.Task = _Task
iscsi.Context = _Context
iscsi.URL = _URL
sys.modules["iscsi"] = iscsi

# --------------------------------------------------------------------------
# library imports (after the fakes are in place)
# --------------------------------------------------------------------------
import pyscsi.pyscsi.scsi_enum_command as scsi_enum_command  # noqa: E402
from pyscsi.pyiscsi.iscsi_device import ISCSIDevice  # noqa: E402
from pyscsi.pyscsi import scsi_exception  # noqa: E402
from pyscsi.pyscsi.scsi import SCSI  # noqa: E402
from pyscsi.pyscsi.scsi_cdb_inquiry import Inquiry  # noqa: E402
from pyscsi.pyscsi.scsi_cdb_read10 import Read10  # noqa: E402
from pyscsi.pyscsi.scsi_cdb_testunitready import TestUnitReady  # noqa: E402
from pyscsi.pyscsi.scsi_cdb_write10 import Write10  # noqa: E402
from pyscsi.pyscsi.scsi_device import SCSIDevice  # noqa: E402
from pyscsi.pyscsi.scsi_enum_command import (  # noqa: E402
    SCSI_STATUS,
    mmc,
    sbc,
    scsi_status,
    smc,
    spc,
    ssc,
)
from pyscsi.pyscsi.scsi_exception import (  # noqa: E402
    SCSICommandExceptionMeta,
    SCSIDeviceCommandExceptionMeta,
    SCSIDeviceExceptionMeta,
)
from pyscsi.pyscsi.scsi_sense import SCSICheckCondition  # noqa: E402

FAILS = []
COUNT = [0]


def check(cond, msg):
    COUNT[0] += 1
    if not cond:
        FAILS.append(msg)
        print("FAIL:", msg)


def raises(fn):
    """run fn, return (returned_value, exception)"""
    try:
        return fn(), None
    except BaseException as e:  # noqa
        return None, e


STATUS_ERRORS = (
    "CheckCondition",
    "ConditionsMet",
    "BusyStatus",
    "ReservationConflict",
    "TaskSetFull",
    "ACAActive",
    "TaskAborted",
)
COMMAND_ERRORS = ("CommandNotImplemented", "MissingBlocksizeException", "OpcodeException")


# --------------------------------------------------------------------------
# sense buffers
# --------------------------------------------------------------------------
def fixed_sense(key, asc, ascq, rc=0x70, length=18, extra=0):
    b = bytearray(length)
    b[0] = rc | extra
    if length > 2:
        b[2] = key
    if length > 7:
        b[7] = max(0, length - 8)
    if length > 12:
        b[12] = asc
    if length > 13:
        b[13] = ascq
    return b


def desc_sense(key, asc, ascq, rc=0x72, length=8):
    b = bytearray(length)
    b[0] = rc
    b[1] = key
    b[2] = asc
    b[3] = ascq
    return b


KEY_NAMES = {
    0x00: "No Sense",
    0x01: "Recovered Error",
    0x02: "Not Ready",
    0x03: "Medium Error",
    0x04: "Hardware Error",
    0x05: "Illegal Request",
    0x06: "Unit Attention",
    0x07: "Data Protect",
    0x08: "Blank Check",
    0x09: "Vendor Specific",
    0x0A: "Copy Aborted",
    0x0B: "Aborted Command",
    0x0D: "Volume Overflow",
    0x0E: "Miscompare",
    0x0F: "Completed",
}

# (sense buffer factory, expected key, asc, ascq, expected str or None)
SENSE_CASES = []
for key, asc, ascq in [
    (0x05, 0x24, 0x00),
    (0x05, 0x20, 0x00),
    (0x02, 0x04, 0x01),
    (0x06, 0x29, 0x00),
    (0x03, 0x11, 0x00),
    (0x00, 0x00, 0x00),
    (0x0B, 0x47, 0x03),
    (0x0C, 0x12, 0x34),
    (0x0F, 0xFF, 0xFF),
    (0x01, 0x80, 0x00),
    (0x04, 0x44, 0x81),
    (0x07, 0x27, 0x00),
    (0x0E, 0x1D, 0x00),
    (0x08, 0x00, 0x05),
]:
    for rc in (0x70, 0x71):
        SENSE_CASES.append((lambda k=key, a=asc, q=ascq, r=rc: fixed_sense(k, a, q, rc=r), key, asc, ascq))
        SENSE_CASES.append(
            (lambda k=key, a=asc, q=ascq, r=rc: fixed_sense(k, a, q, rc=r, extra=0x80), key, asc, ascq)
        )
    for rc in (0x72, 0x73):
        SENSE_CASES.append((lambda k=key, a=asc, q=ascq, r=rc: desc_sense(k, a, q, rc=r), key, asc, ascq))
# bytes instead of bytearray
SENSE_CASES.append((lambda: bytes(fixed_sense(0x05, 0x24, 0x00)), 0x05, 0x24, 0x00))
SENSE_CASES.append((lambda: bytes(desc_sense(0x06, 0x28, 0x00)), 0x06, 0x28, 0x00))
# longer buffers (with trailing descriptor)
SENSE_CASES.append((lambda: fixed_sense(0x03, 0x11, 0x01, length=64), 0x03, 0x11, 0x01))
SENSE_CASES.append((lambda: desc_sense(0x01, 0x00, 0x1D, length=22), 0x01, 0x00, 0x1D))
# no usable sense information: everything reads as zero
SENSE_CASES.append((lambda: bytearray(18), 0, 0, 0))
SENSE_CASES.append((lambda: bytearray(0), 0, 0, 0))
SENSE_CASES.append((lambda: b"", 0, 0, 0))
SENSE_CASES.append((lambda: None, 0, 0, 0))
SENSE_CASES.append((lambda: bytearray([0x7F] + [0xFF] * 17), 0, 0, 0))
SENSE_CASES.append((lambda: bytearray([0x00, 0x05, 0x24, 0x00]), 0, 0, 0))


def expected_str(key, asc, ascq):
    from pyscsi.pyscsi.scsi_sense import sense_ascq_dict

    if 0x80 <= asc <= 0xFF:
        d = "Vendor specific ASC"
    elif 0x80 <= ascq <= 0xFF:
        d = "Vendor specific ASCQ"
    else:
        d = sense_ascq_dict.get((asc << 8) + ascq, "Unknown ASC/ASCQ")
    return "Check Condition: %s(0x%02X) ASC+Q:%s(0x%04X)" % (
        KEY_NAMES.get(key, "Reserved"),
        key,
        d,
        (asc << 8) + ascq,
    )


def check_cc(exc, owner, key, asc, ascq, tag):
    check(exc is not None, "%s: no exception raised" % tag)
    if exc is None:
        return
    check(type(exc) is owner.CheckCondition, "%s: wrong type %r" % (tag, type(exc)))
    check(isinstance(exc, SCSICheckCondition), "%s: not an SCSICheckCondition" % tag)
    check(exc.data.get("sense_key", 0) == key, "%s: sense key %r != %r" % (tag, exc.data.get("sense_key", 0), key))
    check(exc.asc == asc, "%s: asc %r != %r" % (tag, exc.asc, asc))
    check(exc.ascq == ascq, "%s: ascq %r != %r" % (tag, exc.ascq, ascq))
    check(str(exc) == expected_str(key, asc, ascq), "%s: str %r" % (tag, str(exc)))


# --------------------------------------------------------------------------
# 1. the exception classes the metaclass hangs on the device classes
# --------------------------------------------------------------------------
def test_exception_classes():
    for dev in (SCSIDevice, ISCSIDevice):
        check(isinstance(dev, SCSIDeviceCommandExceptionMeta), "%s metaclass" % dev.__name__)
        check(isinstance(dev, SCSIDeviceExceptionMeta), "%s metaclass (dev)" % dev.__name__)
        check(isinstance(dev, SCSICommandExceptionMeta), "%s metaclass (cmd)" % dev.__name__)
        seen = set()
        for name in STATUS_ERRORS + COMMAND_ERRORS:
            cls = getattr(dev, name, None)
            check(isinstance(cls, type), "%s.%s missing" % (dev.__name__, name))
            if cls is None:
                continue
            check(cls.__name__ == name, "%s.%s named %r" % (dev.__name__, name, cls.__name__))
            check(issubclass(cls, Exception), "%s.%s not an Exception" % (dev.__name__, name))
            check(
                cls.__module__ == "pyscsi.pyscsi.scsi_exception",
                "%s.%s module %r" % (dev.__name__, name, cls.__module__),
            )
            if name == "CheckCondition":
                check(cls.__bases__ == (SCSICheckCondition,), "%s.CheckCondition bases" % dev.__name__)
            else:
                check(cls.__bases__ == (Exception,), "%s.%s bases %r" % (dev.__name__, name, cls.__bases__))
                check(not issubclass(cls, SCSICheckCondition), "%s.%s is a CheckCondition" % (dev.__name__, name))
            seen.add(cls)
        check(len(seen) == len(STATUS_ERRORS) + len(COMMAND_ERRORS), "%s: errors not distinct" % dev.__name__)
        # no error is a subclass of another one
        for a, b in itertools.permutations(sorted(seen, key=lambda c: c.__name__), 2):
            check(not issubclass(a, b), "%s: %s subclass of %s" % (dev.__name__, a.__name__, b.__name__))
        # instantiable without arguments (the way the transports raise them)
        for name in STATUS_ERRORS[1:]:
            e = getattr(dev, name)()
            check(e.args == (), "%s.%s() args" % (dev.__name__, name))
    # classes are per owner: catching one device's error does not catch the other's
    for name in STATUS_ERRORS:
        check(getattr(SCSIDevice, name) is not getattr(ISCSIDevice, name), "%s shared between devices" % name)
    # instance access gives the same class as class access
    d = SCSIDevice("/dev/null")
    for name in STATUS_ERRORS + COMMAND_ERRORS:
        check(getattr(d, name) is getattr(SCSIDevice, name), "instance.%s" % name)
    d.close()

    # the metaclasses used on their own
    class OnlyDev(metaclass=SCSIDeviceExceptionMeta):
        pass

    class OnlyCmd(metaclass=SCSICommandExceptionMeta):
        pass

    class Both(metaclass=SCSIDeviceCommandExceptionMeta):
        marker = 7

        def hello(self):
            return "hello"

    class Sub(Both):
        pass

    for name in STATUS_ERRORS:
        check(hasattr(OnlyDev, name), "OnlyDev.%s" % name)
        check(not hasattr(OnlyCmd, name), "OnlyCmd has %s" % name)
        check(hasattr(Both, name), "Both.%s" % name)
        check(getattr(Sub, name) is not getattr(Both, name), "Sub.%s shared with Both" % name)
        check(getattr(Sub, name).__name__ == name, "Sub.%s name" % name)
    for name in COMMAND_ERRORS:
        check(not hasattr(OnlyDev, name), "OnlyDev has %s" % name)
        check(hasattr(OnlyCmd, name), "OnlyCmd.%s" % name)
        check(hasattr(Both, name), "Both.%s" % name)
    check(Both.marker == 7 and Both().hello() == "hello", "Both keeps its own attributes")
    check(Both.__name__ == "Both" and Sub.__name__ == "Sub", "class names")
    check(isinstance(Sub(), Both), "Sub instance of Both")
    cc = OnlyDev.CheckCondition(fixed_sense(5, 0x24, 0))
    check(cc.data["sense_key"] == 5 and cc.asc == 0x24 and cc.ascq == 0, "OnlyDev.CheckCondition decode")
    check(hasattr(scsi_exception, "SCSICheckCondition"), "scsi_exception.SCSICheckCondition import path")


# --------------------------------------------------------------------------
# 2. status table / enum
# --------------------------------------------------------------------------
def test_status_enum():
    expect = {
        "GOOD": 0x00,
        "CHECK_CONDITION": 0x02,
        "CONDITIONS_MET": 0x04,
        "BUSY": 0x08,
        "RESERVATION_CONFLICT": 0x18,
        "TASK_SET_FULL": 0x28,
        "ACA_ACTIVE": 0x30,
        "TASK_ABORTED": 0x40,
        "SGIO_ERROR": 0xFF,
    }
    check(isinstance(scsi_status, dict), "scsi_status is a dict")
    check(dict(scsi_status) == expect, "scsi_status content")
    check(list(scsi_status) == list(expect), "scsi_status order")
    for k, v in expect.items():
        check(getattr(SCSI_STATUS, k) == v, "SCSI_STATUS.%s" % k)
        check(type(getattr(SCSI_STATUS, k)) is int, "SCSI_STATUS.%s type" % k)
        check(SCSI_STATUS[v] == k, "SCSI_STATUS[%r]" % v)
        check(type(scsi_status[k]) is int, "scsi_status[%s] type" % k)
    check(sorted(SCSI_STATUS.keys) == sorted(expect), "SCSI_STATUS.keys")
    check(SCSI_STATUS[0x99] == "", "SCSI_STATUS[unknown]")
    check(scsi_enum_command.SCSI_STATUS is SCSI_STATUS, "module attribute")
    for e in (spc, sbc, ssc, smc, mmc):
        check(e.INQUIRY.value == 0x12, "opcode enums intact")


# --------------------------------------------------------------------------
# 3. SCSIDevice (sgio transport)
# --------------------------------------------------------------------------
def reset_sgio():
    _SgioState.calls = []
    _SgioState.action = None
    _SgioState.fill = None


def test_scsi_device():
    reset_sgio()
    # backends / paths
    for bad in ("", "dev/null", "/tmp/x", "iscsi://h/t/0", "/DEV/null"):
        _, e = raises(lambda: SCSIDevice(bad))
        check(type(e) is NotImplementedError, "SCSIDevice(%r) -> %r" % (bad, e))
        check(e is not None and str(e) == "No backend implemented for %s" % bad, "message for %r" % bad)

    for rw, detect in itertools.product((False, True), (False, True)):
        reset_sgio()
        dev = SCSIDevice("/dev/null", readwrite=rw, detect_replugged=detect)
        check(repr(dev) == "SCSIDevice", "repr")
        check(dev.opcodes is spc, "default opcodes")
        dev.opcodes = sbc
        check(dev.opcodes is sbc, "opcodes setter")
        dev.devicetype = 5
        check(dev.devicetype == 5, "devicetype")

        # GOOD
        cmd = TestUnitReady(spc.TEST_UNIT_READY)
        ret, e = raises(lambda: dev.execute(cmd))
        check(e is None and ret is None, "GOOD returns None (%r)" % (e,))
        check(cmd.raw_sense_data is None and cmd.sense is None, "GOOD leaves sense untouched")
        call = _SgioState.calls[-1]
        check(call[0] is dev._file if hasattr(dev, "_file") else True, "file passed to sgio")
        check(call[1] is cmd.cdb and call[2] is cmd.dataout and call[3] is cmd.datain, "buffers passed to sgio")
        check(call[4] == () and call[5] == {}, "no extra args to sgio.execute")
        ret, e = raises(lambda: dev.execute(cmd, en_raw_sense=True))
        check(e is None and ret is None and cmd.raw_sense_data is None, "GOOD with en_raw_sense")
        ret, e = raises(lambda: dev.execute(cmd, True))
        check(e is None and ret is None and cmd.raw_sense_data is None, "GOOD with positional en_raw_sense")

        # CHECK CONDITION
        for i, (mk, key, asc, ascq) in enumerate(SENSE_CASES):
            sense = mk()
            err = _SgioCheckConditionError(sense)
            _SgioState.action = err
            cmd = Inquiry(spc.INQUIRY, alloclen=96)
            before = bytes(cmd.datain)
            n = len(_SgioState.calls)
            ret, e = raises(lambda: dev.execute(cmd))
            check(len(_SgioState.calls) == n + 1, "exactly one sgio call")
            check_cc(e, SCSIDevice, key, asc, ascq, "sgio case %d" % i)
            check(not isinstance(e, ISCSIDevice.CheckCondition), "sgio case %d: iscsi class" % i)
            check(e is not None and e.__context__ is err, "sgio case %d: context is the transport error" % i)
            check(e is not None and e.__cause__ is None, "sgio case %d: no explicit cause" % i)
            check(cmd.raw_sense_data is None, "sgio case %d: raw sense must not be attached" % i)
            check(bytes(cmd.datain) == before, "sgio case %d: datain untouched" % i)
            # same with explicit en_raw_sense=False / falsy values
            for flag in (False, 0, None, ""):
                ret, e = raises(lambda: dev.execute(cmd, en_raw_sense=flag))
                check_cc(e, SCSIDevice, key, asc, ascq, "sgio case %d flag %r" % (i, flag))
                check(cmd.raw_sense_data is None, "sgio case %d flag %r raw" % (i, flag))
            # raw sense requested: returns normally, bytes attached unmodified
            for flag in (True, 1, "yes"):
                cmd2 = Inquiry(spc.INQUIRY, alloclen=96)
                snapshot = None if sense is None else bytes(sense)
                ret, e = raises(lambda: dev.execute(cmd2, en_raw_sense=flag))
                check(e is None and ret is None, "sgio case %d raw: returned %r / %r" % (i, ret, e))
                check(cmd2.raw_sense_data is sense, "sgio case %d raw: same object attached" % i)
                check(
                    (sense is None) or bytes(cmd2.raw_sense_data) == snapshot,
                    "sgio case %d raw: bytes unmodified" % i,
                )
                check(cmd2.sense is None, "sgio case %d raw: .sense untouched" % i)
            _SgioState.action = None

        # other transport errors propagate unchanged, never swallowed
        for exc in (
            OSError(5, "EIO"),
            RuntimeError("boom"),
            ValueError("x"),
            KeyError("k"),
            TypeError("t"),
            Exception("plain"),
            KeyboardInterrupt(),
        ):
            for flag in (False, True):
                _SgioState.action = exc
                cmd = TestUnitReady(spc.TEST_UNIT_READY)
                ret, e = raises(lambda: dev.execute(cmd, en_raw_sense=flag))
                check(e is exc, "transport error %r propagates (%r)" % (exc, e))
                check(cmd.raw_sense_data is None, "transport error: no raw sense")
        _SgioState.action = None

        # a subclass of the binding's CheckConditionError is a check condition too
        class SubCC(_SgioCheckConditionError):
            pass

        _SgioState.action = SubCC(fixed_sense(6, 0x29, 0))
        ret, e = raises(lambda: dev.execute(TestUnitReady(spc.TEST_UNIT_READY)))
        check_cc(e, SCSIDevice, 6, 0x29, 0, "subclassed transport error")
        _SgioState.action = None

        # after errors the device is still usable
        ret, e = raises(lambda: dev.execute(TestUnitReady(spc.TEST_UNIT_READY)))
        check(e is None and ret is None, "GOOD after errors")
        dev.close()

    # context manager closes the file
    with SCSIDevice("/dev/null") as dev:
        f = dev._file
        check(not f.closed, "open in with")
    check(f.closed, "closed after with")

    # with an error inside the with-block the error propagates
    _SgioState.action = _SgioCheckConditionError(fixed_sense(5, 0x24, 0))
    try:
        with SCSIDevice("/dev/null") as dev:
            dev.execute(TestUnitReady(spc.TEST_UNIT_READY))
        check(False, "error swallowed by with-block")
    except SCSIDevice.CheckCondition as e:
        check_cc(e, SCSIDevice, 5, 0x24, 0, "with-block")
    _SgioState.action = None

    # replug detection (needs a writable /dev/shm)
    shm = "/dev/shm"
    if os.path.isdir(shm) and os.access(shm, os.W_OK):
        fd, path = tempfile.mkstemp(prefix="c07demo", dir=shm)
        os.close(fd)
        try:
            dev = SCSIDevice(path, detect_replugged=True)
            f1 = dev._file
            dev.execute(TestUnitReady(spc.TEST_UNIT_READY))
            check(dev._file is f1, "no reopen without replug")
            # replace the file by a new inode
            fd2, path2 = tempfile.mkstemp(prefix="c07demo", dir=shm)
            os.close(fd2)
            os.rename(path2, path)
            _SgioState.action = _SgioCheckConditionError(fixed_sense(6, 0x28, 0))
            ret, e = raises(lambda: dev.execute(TestUnitReady(spc.TEST_UNIT_READY)))
            check_cc(e, SCSIDevice, 6, 0x28, 0, "replugged")
            check(dev._file is not f1 and f1.closed, "reopened after replug")
            check(_SgioState.calls[-1][0] is dev._file, "new file used")
            _SgioState.action = None
            dev.close()

            dev = SCSIDevice(path, detect_replugged=False)
            f1 = dev._file
            fd2, path2 = tempfile.mkstemp(prefix="c07demo", dir=shm)
            os.close(fd2)
            os.rename(path2, path)
            dev.execute(TestUnitReady(spc.TEST_UNIT_READY))
            check(dev._file is f1, "no reopen when detection is off")
            dev.close()
        finally:
            os.unlink(path)


# --------------------------------------------------------------------------
# 4. ISCSIDevice (libiscsi transport)
# --------------------------------------------------------------------------
def reset_iscsi():
    _IscsiState.status = 0
    _IscsiState.sense = _NOSENSE
    _IscsiState.fill = None
    _IscsiState.log = []
    _IscsiState.command_error = None


URL = "iscsi://127.0.0.1:3260/iqn.2000-01.demo:tgt/3"


def test_iscsi_device():
    reset_iscsi()
    for bad in ("", "/dev/sg0", "iscsi:/x", "ISCSI://h/t/0", "http://h"):
        _, e = raises(lambda: ISCSIDevice(bad))
        check(type(e) is NotImplementedError, "ISCSIDevice(%r) -> %r" % (bad, e))
        check(e is not None and str(e) == "No backend implemented for %s" % bad, "iscsi message for %r" % bad)

    dev = ISCSIDevice(URL)
    ctx = _IscsiState.contexts[-1]
    check(ctx.name == URL and ctx.connected, "context named after url and connected")
    check(ctx.settings == {
        "target": "iqn.2000-01.demo:tgt", "session": 2, "digest": 1, "portal": "127.0.0.1:3260", "lun": 3,
    }, "connection settings %r" % ctx.settings)
    dev2 = ISCSIDevice(URL, initiator_name="iqn.init")
    check(_IscsiState.contexts[-1].name == "iqn.init", "initiator name used")
    dev2.close()
    check(_IscsiState.contexts[-1].disconnects == 1, "close disconnects")
    check(dev.opcodes is spc, "iscsi default opcodes")
    dev.opcodes = ssc
    check(dev.opcodes is ssc, "iscsi opcodes setter")
    dev.devicetype = 1
    check(dev.devicetype == 1, "iscsi devicetype")

    named = {
        0x04: "ConditionsMet",
        0x08: "BusyStatus",
        0x18: "ReservationConflict",
        0x28: "TaskSetFull",
        0x30: "ACAActive",
        0x40: "TaskAborted",
    }

    def commands():
        yield "tur", TestUnitReady(spc.TEST_UNIT_READY), iscsi.SCSI_XFER_NONE, 0
        yield "inq", Inquiry(spc.INQUIRY, alloclen=96), iscsi.SCSI_XFER_READ, 96
        yield "inq255", Inquiry(spc.INQUIRY, alloclen=255), iscsi.SCSI_XFER_READ, 255
        yield "rd", Read10(sbc.READ_10, 512, 0, 2), iscsi.SCSI_XFER_READ, 1024
        yield "wr", Write10(sbc.WRITE_10, 512, 0, 1, bytearray(512)), iscsi.SCSI_XFER_WRITE, 512
        both = Inquiry(spc.INQUIRY, alloclen=16)
        both.dataout = bytearray(7)
        yield "both", both, iscsi.SCSI_XFER_WRITE, 7

    # GOOD
    for name, cmd, direction, xferlen in commands():
        for flag in (False, True):
            reset_iscsi()
            ret, e = raises(lambda: dev.execute(cmd, en_raw_sense=flag))
            check(e is None and ret is None, "iscsi GOOD %s: %r %r" % (name, ret, e))
            check(cmd.sense is None and cmd.raw_sense_data is None, "iscsi GOOD %s sense untouched" % name)
            check(len(_IscsiState.log) == 1, "iscsi one command")
            c, lun, task, dout, din = _IscsiState.log[-1]
            check(c is ctx and lun == 3, "iscsi lun/context")
            check(task.cdb is cmd.cdb, "iscsi cdb")
            check(task.direction == direction, "iscsi %s direction %r" % (name, task.direction))
            check(task.xferlen == xferlen, "iscsi %s xferlen %r" % (name, task.xferlen))
            check(dout is cmd.dataout and din is cmd.datain, "iscsi buffers")
    # GOOD even if stale sense is around
    reset_iscsi()
    _IscsiState.sense = fixed_sense(5, 0x24, 0)
    cmd = TestUnitReady(spc.TEST_UNIT_READY)
    ret, e = raises(lambda: dev.execute(cmd))
    check(e is None and ret is None and cmd.sense is None, "iscsi GOOD with stale sense")

    # named statuses
    for status, errname in named.items():
        for name, cmd, direction, xferlen in commands():
            for flag in (False, True):
                for sense in (_NOSENSE, fixed_sense(5, 0x24, 0)):
                    reset_iscsi()
                    _IscsiState.status = status
                    _IscsiState.sense = sense
                    before = bytes(cmd.datain)
                    ret, e = raises(lambda: dev.execute(cmd, en_raw_sense=flag))
                    tag = "iscsi status 0x%02x %s" % (status, name)
                    check(e is not None, "%s: returned normally" % tag)
                    check(type(e) is getattr(ISCSIDevice, errname), "%s: %r" % (tag, e))
                    check(type(e).__name__ == errname, "%s: name" % tag)
                    check(not isinstance(e, SCSICheckCondition), "%s: is CheckCondition" % tag)
                    check(e is not None and e.args == (), "%s: args" % tag)
                    check(e is not None and e.__context__ is None and e.__cause__ is None, "%s: context" % tag)
                    check(cmd.sense is None and cmd.raw_sense_data is None, "%s: sense untouched" % tag)
                    check(bytes(cmd.datain) == before, "%s: datain untouched" % tag)
                    check(len(_IscsiState.log) == 1, "%s: one command" % tag)

    # statuses with no name -> RuntimeError, never a normal return
    for status in (0x01, 0x03, 0x05, 0x10, 0x14, 0x22, 0xFF, -1, 256, 0x4000, None, "GOOD", "0", 2.5, (), b"\x00"):
        for flag in (False, True):
            reset_iscsi()
            _IscsiState.status = status
            cmd = Inquiry(spc.INQUIRY, alloclen=96)
            ret, e = raises(lambda: dev.execute(cmd, en_raw_sense=flag))
            check(type(e) is RuntimeError, "iscsi unknown status %r -> %r" % (status, e))
            check(e is not None and e.args == (), "iscsi unknown status %r args" % (status,))
            check(e is not None and e.__context__ is None, "iscsi unknown status %r: context" % (status,))
            check(cmd.sense is None and cmd.raw_sense_data is None, "iscsi unknown status %r: sense" % (status,))
    # numerically equal statuses behave like the int
    for status, errname in ((0.0, None), (False, None), (2.0, "CheckCondition"), (8.0, "BusyStatus"), (64.0, "TaskAborted")):
        reset_iscsi()
        _IscsiState.status = status
        ret, e = raises(lambda: dev.execute(TestUnitReady(spc.TEST_UNIT_READY)))
        if errname is None:
            check(e is None and ret is None, "iscsi status %r is GOOD" % (status,))
        else:
            check(type(e) is getattr(ISCSIDevice, errname), "iscsi status %r -> %r" % (status, e))

    # CHECK CONDITION
    for i, (mk, key, asc, ascq) in enumerate(SENSE_CASES):
        for flag in (False, True, 0, 1, None):
            reset_iscsi()
            sense = mk()
            snapshot = None if sense is None else bytes(sense)
            _IscsiState.status = 0x02
            _IscsiState.sense = sense
            cmd = Inquiry(spc.INQUIRY, alloclen=96)
            before = bytes(cmd.datain)
            ret, e = raises(lambda: dev.execute(cmd, en_raw_sense=flag))
            tag = "iscsi cc case %d flag %r" % (i, flag)
            check_cc(e, ISCSIDevice, key, asc, ascq, tag)
            check(not isinstance(e, SCSIDevice.CheckCondition), "%s: sgio class" % tag)
            check(e is not None and e.__context__ is None and e.__cause__ is None, "%s: context" % tag)
            check(cmd.sense is sense, "%s: cmd.sense is the transport's buffer" % tag)
            if flag:
                check(cmd.raw_sense_data is sense, "%s: raw sense attached" % tag)
            else:
                check(cmd.raw_sense_data is None, "%s: raw sense not requested" % tag)
            check(sense is None or bytes(sense) == snapshot, "%s: sense bytes unmodified" % tag)
            check(bytes(cmd.datain) == before, "%s: datain untouched" % tag)
            check(len(_IscsiState.log) == 1, "%s: one command" % tag)
    # CHECK CONDITION from a binding that has no raw_sense on the task
    for flag in (False, True):
        reset_iscsi()
        _IscsiState.status = 0x02
        cmd = Inquiry(spc.INQUIRY, alloclen=96)
        cmd.sense = bytearray(b"stale")
        ret, e = raises(lambda: dev.execute(cmd, en_raw_sense=flag))
        check_cc(e, ISCSIDevice, 0, 0, 0, "iscsi cc without raw_sense flag %r" % flag)
        check(cmd.sense is None, "iscsi cc without raw_sense: cmd.sense reset to None")
        check(cmd.raw_sense_data is None, "iscsi cc without raw_sense: raw None")

    # transport errors propagate
    for exc in (OSError(5, "EIO"), RuntimeError("boom"), AttributeError("a"), ValueError("v"), KeyboardInterrupt()):
        reset_iscsi()
        _IscsiState.command_error = exc
        cmd = TestUnitReady(spc.TEST_UNIT_READY)
        ret, e = raises(lambda: dev.execute(cmd))
        check(e is exc, "iscsi transport error %r propagates (%r)" % (exc, e))
    reset_iscsi()

    # still usable
    ret, e = raises(lambda: dev.execute(TestUnitReady(spc.TEST_UNIT_READY)))
    check(e is None and ret is None, "iscsi GOOD after errors")

    with ISCSIDevice(URL) as d3:
        c3 = _IscsiState.contexts[-1]
        check(c3.connected, "with: connected")
    check(not c3.connected and c3.disconnects == 1, "with: disconnected")
    _IscsiState.status = 0x18
    try:
        with ISCSIDevice(URL) as d3:
            d3.execute(TestUnitReady(spc.TEST_UNIT_READY))
        check(False, "iscsi with-block swallowed error")
    except ISCSIDevice.ReservationConflict:
        check(True, "")
    reset_iscsi()
    dev.close()


# --------------------------------------------------------------------------
# 5. the SCSI facade
# --------------------------------------------------------------------------
class RecordingDevice(object):
    """A device double: records calls, fills datain on success, raises on demand."""

    def __init__(self, opcodes=spc):
        self.opcodes = opcodes
        self.devicetype = None
        self.calls = []
        self.error = None
        self.fill = None
        self.closed = 0

    def execute(self, cmd, en_raw_sense=False):
        self.calls.append((cmd, en_raw_sense))
        if self.error is not None:
            raise self.error
        if self.fill is not None:
            n = min(len(cmd.datain), len(self.fill))
            cmd.datain[:n] = self.fill[:n]

    def close(self):
        self.closed += 1


def std_inquiry(devtype):
    b = bytearray(96)
    b[0] = devtype
    b[2] = 5
    b[3] = 2
    b[4] = 91
    b[8:16] = b"DEMO    "
    b[16:32] = b"VIRTUAL-DISK    "
    b[32:36] = b"0001"
    return b


class Unmarshalled(Exception):
    pass


def facade_calls(s):
    """(name, opcodes, thunk, expects_raw_sense)"""
    pri = spc.PERSISTENT_RESERVE_IN.serviceaction
    pro = spc.PERSISTENT_RESERVE_OUT.serviceaction
    return [
        ("inquiry", spc, lambda: s.inquiry(), False),
        ("inquiry_vpd", spc, lambda: s.inquiry(evpd=1, page_code=0x80), False),
        ("testunitready", spc, lambda: s.testunitready(), False),
        ("modesense6", spc, lambda: s.modesense6(0x1C), False),
        ("modesense10", spc, lambda: s.modesense10(0x1C), False),
        ("reportluns", spc, lambda: s.reportluns(), False),
        ("reportpriority", spc, lambda: s.reportpriority(), False),
        ("reporttargetportgroups", spc, lambda: s.reporttargetportgroups(), False),
        ("persistentreservein_keys", spc, lambda: s.persistentreservein(pri.READ_KEYS), False),
        ("persistentreservein_resv", spc, lambda: s.persistentreservein(pri.READ_RESERVATION), False),
        ("persistentreservein_caps", spc, lambda: s.persistentreservein(pri.REPORT_CAPABILITIES), False),
        ("persistentreservein_full", spc, lambda: s.persistentreservein(pri.READ_FULL_STATUS), False),
        ("persistentreserveout", spc, lambda: s.persistentreserveout(pro.REGISTER, service_action_reservation_key=1), False),
        ("extendedcopy4", spc, lambda: s.extendedcopy4(), False),
        ("extendedcopy5", spc, lambda: s.extendedcopy5(), False),
        ("readcapacity10", sbc, lambda: s.readcapacity10(), False),
        ("readcapacity16", sbc, lambda: s.readcapacity16(), False),
        ("getlbastatus", sbc, lambda: s.getlbastatus(0), False),
        ("read10", sbc, lambda: s.read10(0, 1), False),
        ("read12", sbc, lambda: s.read12(0, 1), False),
        ("read16", sbc, lambda: s.read16(0, 1), False),
        ("write10", sbc, lambda: s.write10(0, 1, bytearray(512)), False),
        ("write12", sbc, lambda: s.write12(0, 1, bytearray(512)), False),
        ("write16", sbc, lambda: s.write16(0, 1, bytearray(512)), False),
        ("writesame10", sbc, lambda: s.writesame10(0, 1, bytearray(512)), False),
        ("writesame16", sbc, lambda: s.writesame16(0, 1, bytearray(512)), False),
        ("synchronizecache10", sbc, lambda: s.synchronizecache10(0, 1), False),
        ("synchronizecache16", sbc, lambda: s.synchronizecache16(0, 1), False),
        ("atapassthrough12", sbc, lambda: s.atapassthrough12(4, 2, 1, 1, 0, 0, 0, 1, 0, 0xEC), True),
        ("atapassthrough16", sbc, lambda: s.atapassthrough16(4, 2, 1, 1, 0, 0, 0, 1, 0, 0xEC), True),
        ("readcd", mmc, lambda: s.readcd(0, 1), False),
        ("readdiscinformation", mmc, lambda: s.readdiscinformation(0), False),
        ("readelementstatus", smc, lambda: s.readelementstatus(0, 1), False),
        ("movemedium", smc, lambda: s.movemedium(0, 1, 2), False),
        ("exchangemedium", smc, lambda: s.exchangemedium(0, 1, 2, 3), False),
        ("positiontoelement", smc, lambda: s.positiontoelement(0, 1), False),
        ("initializeelementstatus", smc, lambda: s.initializeelementstatus(), False),
        ("initializeelementstatuswithrange", smc, lambda: s.initializeelementstatuswithrange(0, 1), False),
        ("opencloseimportexportelement", smc, lambda: s.opencloseimportexportelement(0, 1), False),
        ("preventallowmediumremoval", smc, lambda: s.preventallowmediumremoval(), False),
    ]


def test_facade():
    # device-type detection through inquiry
    for devtype, table in ((0, sbc), (4, sbc), (7, sbc), (1, ssc), (2, ssc), (9, ssc), (3, spc), (8, smc), (5, mmc)):
        dev = RecordingDevice()
        dev.fill = std_inquiry(devtype)
        s = SCSI(dev, blocksize=512)
        check(dev.devicetype == devtype and dev.opcodes is table, "device type %d" % devtype)
        check(s.blocksize == 512, "blocksize")
        check(len(dev.calls) == 1 and dev.calls[0][1] is False, "one inquiry at construction")
    dev = RecordingDevice()
    dev.fill = std_inquiry(0x0D)
    SCSI(dev)
    check(dev.opcodes is spc and dev.devicetype == 0x0D, "unknown device type keeps spc")
    s = SCSI(None)
    check(s.device is None, "SCSI(None)")

    # an error during the initial inquiry propagates from the constructor
    for err in (
        SCSIDevice.CheckCondition(fixed_sense(6, 0x29, 0)),
        ISCSIDevice.BusyStatus(),
        RuntimeError(),
        OSError(19, "ENODEV"),
    ):
        dev = RecordingDevice()
        dev.error = err
        _, e = raises(lambda: SCSI(dev))
        check(e is err, "constructor propagates %r (%r)" % (err, e))
        check(dev.devicetype is None and dev.opcodes is spc, "no device type guessed from an untouched buffer")
        s0 = SCSI(None)
        _, e = raises(lambda: s0(dev))
        check(e is err, "__call__ propagates %r (%r)" % (err, e))

    # every facade method
    dev = RecordingDevice()
    dev.fill = std_inquiry(0)
    s = SCSI(dev, blocksize=512)
    dev.fill = None

    errors = []
    for owner in (SCSIDevice, ISCSIDevice):
        errors.append(lambda o=owner: o.CheckCondition(fixed_sense(5, 0x24, 0)))
        errors.append(lambda o=owner: o.CheckCondition(desc_sense(2, 4, 1)))
        errors.append(lambda o=owner: o.CheckCondition(None))
        for n in STATUS_ERRORS[1:]:
            errors.append(lambda o=owner, n=n: getattr(o, n)())
    errors.append(lambda: RuntimeError())
    errors.append(lambda: OSError(5, "EIO"))
    errors.append(lambda: Exception("generic"))
    errors.append(lambda: KeyboardInterrupt())

    import pyscsi.pyscsi.scsi_command as scsi_command

    for name, table, thunk, raw in facade_calls(s):
        dev.opcodes = table
        # success path: returns the command, executed exactly once with the right flag
        dev.error = None
        dev.calls = []
        ret, e = raises(thunk)
        check(e is None, "facade %s on success raised %r" % (name, e))
        check(len(dev.calls) == 1, "facade %s: %d executes" % (name, len(dev.calls)))
        if dev.calls:
            check(ret is dev.calls[0][0], "facade %s returns the executed command" % name)
            check(dev.calls[0][1] is raw, "facade %s en_raw_sense %r" % (name, dev.calls[0][1]))
        # failure path
        for mk in errors:
            err = mk()
            dev.error = err
            dev.calls = []
            # trap any attempt at decoding
            orig = scsi_command.SCSICommand.unmarshall
            touched = []

            def trap(self, **kw):
                touched.append(self)
                return orig(self, **kw)

            scsi_command.SCSICommand.unmarshall = trap
            try:
                ret, e = raises(thunk)
            finally:
                scsi_command.SCSICommand.unmarshall = orig
            check(e is err, "facade %s: %r not propagated unchanged (got %r / %r)" % (name, err, ret, e))
            check(ret is None, "facade %s: returned a command although it failed" % name)
            check(not touched, "facade %s: decoded an untouched buffer after %r" % (name, err))
            check(len(dev.calls) == 1, "facade %s: executed %d times on failure" % (name, len(dev.calls)))
            if dev.calls:
                cmd = dev.calls[0][0]
                check(not cmd.result, "facade %s: result populated after failure: %r" % (name, cmd.result))
        dev.error = None

    # SCSI.execute itself
    dev.opcodes = spc
    for flag in (False, True):
        dev.calls = []
        cmd = TestUnitReady(spc.TEST_UNIT_READY)
        ret, e = raises(lambda: s.execute(cmd, en_raw_sense=flag))
        check(ret is None and e is None, "SCSI.execute GOOD")
        check(dev.calls == [(cmd, flag)], "SCSI.execute forwards flag %r" % flag)
        ret, e = raises(lambda: s.execute(cmd, flag))
        check(dev.calls[-1] == (cmd, flag), "SCSI.execute forwards positional flag %r" % flag)
    dev.calls = []
    s.execute(cmd)
    check(dev.calls == [(cmd, False)], "SCSI.execute default flag")
    for mk in errors:
        err = mk()
        dev.error = err
        ret, e = raises(lambda: s.execute(cmd))
        check(e is err, "SCSI.execute propagates %r" % err)
        check(e is not None and e.__cause__ is None and e.__context__ is None, "SCSI.execute adds no chaining to %r" % err)
    dev.error = None

    # a device whose execute only takes the flag by keyword keeps working
    class KwDevice(RecordingDevice):
        def execute(self, cmd, **kw):
            return RecordingDevice.execute(self, cmd, **kw)

    kd = KwDevice()
    kd.fill = std_inquiry(0)
    ks = SCSI(kd, blocksize=512)
    ks.atapassthrough16(4, 2, 1, 1, 0, 0, 0, 1, 0, 0xEC)
    check(kd.calls[-1][1] is True, "keyword-only device gets en_raw_sense=True")
    ks.testunitready()
    check(kd.calls[-1][1] is False, "keyword-only device gets en_raw_sense=False")

    with SCSI(dev) as s2:
        pass
    check(dev.closed == 1, "facade with-block closes device")


# --------------------------------------------------------------------------
# 6. end to end: facade over the real transports with fake bindings
# --------------------------------------------------------------------------
def test_end_to_end():
    # sgio
    reset_sgio()
    _SgioState.fill = std_inquiry(0)
    dev = SCSIDevice("/dev/null")
    s = SCSI(dev, blocksize=512)
    check(dev.devicetype == 0 and dev.opcodes is sbc, "e2e sgio inquiry")
    i = s.inquiry()
    check(i.result["t10_vendor_identification"].strip() == b"DEMO" or "DEMO" in str(i.result["t10_vendor_identification"]), "e2e sgio inquiry data")
    _SgioState.fill = bytearray([0, 0, 0xFF, 0xFF, 0, 0, 2, 0])
    rc = s.readcapacity10()
    check(rc.result == {"returned_lba": 0xFFFF, "block_length": 512}, "e2e sgio readcapacity10 %r" % (rc.result,))
    _SgioState.fill = None
    for mk, key, asc, ascq in SENSE_CASES[::7]:
        sense = mk()
        _SgioState.action = _SgioCheckConditionError(sense)
        for name, thunk in (
            ("readcapacity10", lambda: s.readcapacity10()),
            ("inquiry", lambda: s.inquiry()),
            ("read10", lambda: s.read10(0, 1)),
            ("write16", lambda: s.write16(0, 1, bytearray(512))),
            ("testunitready", lambda: s.testunitready()),
            ("reportluns", lambda: s.reportluns()),
        ):
            ret, e = raises(thunk)
            check(ret is None, "e2e sgio %s returned %r on CHECK CONDITION" % (name, ret))
            check_cc(e, SCSIDevice, key, asc, ascq, "e2e sgio %s" % name)
        for name, thunk in (
            ("ata12", lambda: s.atapassthrough12(4, 2, 1, 1, 0, 0, 0, 1, 0, 0xEC)),
            ("ata16", lambda: s.atapassthrough16(4, 2, 1, 1, 0, 0, 0, 1, 0, 0xEC)),
        ):
            ret, e = raises(thunk)
            check(e is None and ret is not None, "e2e sgio %s: raw sense path returns (%r)" % (name, e))
            check(ret is not None and ret.raw_sense_data is sense, "e2e sgio %s: raw sense attached" % name)
        _SgioState.action = None
    ret, e = raises(lambda: s.atapassthrough16(4, 2, 1, 1, 0, 0, 0, 1, 0, 0xEC))
    check(e is None and ret.raw_sense_data is None, "e2e sgio ata16 GOOD: no sense")
    boom = OSError(5, "EIO")
    _SgioState.action = boom
    for thunk in (lambda: s.readcapacity16(), lambda: s.atapassthrough12(4, 2, 1, 1, 0, 0, 0, 1, 0, 0xEC)):
        ret, e = raises(thunk)
        check(e is boom and ret is None, "e2e sgio transport error")
    _SgioState.action = None
    # constructor on a failing device
    _SgioState.action = _SgioCheckConditionError(fixed_sense(6, 0x29, 0))
    d2 = SCSIDevice("/dev/null")
    _, e = raises(lambda: SCSI(d2))
    check_cc(e, SCSIDevice, 6, 0x29, 0, "e2e sgio constructor")
    check(d2.opcodes is spc, "e2e sgio constructor: opcodes untouched")
    d2.close()
    reset_sgio()
    dev.close()

    # iscsi
    reset_iscsi()
    _IscsiState.fill = std_inquiry(1)
    dev = ISCSIDevice(URL)
    s = SCSI(dev, blocksize=512)
    check(dev.devicetype == 1 and dev.opcodes is ssc, "e2e iscsi inquiry")
    dev.opcodes = sbc
    _IscsiState.fill = bytearray([0, 0, 0, 9, 0, 0, 16, 0])
    rc = s.readcapacity10()
    check(rc.result == {"returned_lba": 9, "block_length": 4096}, "e2e iscsi readcapacity10 %r" % (rc.result,))
    _IscsiState.fill = None
    thunks = (
        ("readcapacity10", lambda: s.readcapacity10()),
        ("inquiry", lambda: s.inquiry()),
        ("read16", lambda: s.read16(0, 1)),
        ("write10", lambda: s.write10(0, 1, bytearray(512))),
        ("testunitready", lambda: s.testunitready()),
        ("modesense6", lambda: s.modesense6(0x1C)),
        ("ata16", lambda: s.atapassthrough16(4, 2, 1, 1, 0, 0, 0, 1, 0, 0xEC)),
        ("ata12", lambda: s.atapassthrough12(4, 2, 1, 1, 0, 0, 0, 1, 0, 0xEC)),
    )
    for mk, key, asc, ascq in SENSE_CASES[3::7]:
        _IscsiState.status = 0x02
        _IscsiState.sense = mk()
        for name, thunk in thunks:
            ret, e = raises(thunk)
            check(ret is None, "e2e iscsi %s returned %r on CHECK CONDITION" % (name, ret))
            check_cc(e, ISCSIDevice, key, asc, ascq, "e2e iscsi %s" % name)
    _IscsiState.sense = _NOSENSE
    for status, errname in (
        (0x04, "ConditionsMet"),
        (0x08, "BusyStatus"),
        (0x18, "ReservationConflict"),
        (0x28, "TaskSetFull"),
        (0x30, "ACAActive"),
        (0x40, "TaskAborted"),
        (0xFF, None),
        (0x01, None),
    ):
        _IscsiState.status = status
        for name, thunk in thunks:
            ret, e = raises(thunk)
            check(ret is None, "e2e iscsi %s returned on status 0x%02x" % (name, status))
            if errname:
                check(type(e) is getattr(ISCSIDevice, errname), "e2e iscsi %s status 0x%02x -> %r" % (name, status, e))
            else:
                check(type(e) is RuntimeError, "e2e iscsi %s status 0x%02x -> %r" % (name, status, e))
    _IscsiState.status = 0x08
    d2 = ISCSIDevice(URL)
    _, e = raises(lambda: SCSI(d2))
    check(type(e) is ISCSIDevice.BusyStatus, "e2e iscsi constructor")
    check(d2.opcodes is spc, "e2e iscsi constructor: opcodes untouched")
    reset_iscsi()
    ret, e = raises(lambda: s.testunitready())
    check(e is None and ret is not None, "e2e iscsi GOOD again")
    dev.close()


def main():
    test_exception_classes()
    test_status_enum()
    test_scsi_device()
    test_iscsi_device()
    test_facade()
    test_end_to_end()
    if FAILS:
        print("FAILED %d of %d checks" % (len(FAILS), COUNT[0]))
        return 1
    print("PASS (%d checks)" % COUNT[0])
    return 0


if __name__ == "__main__":
    sys.exit(main())
