#!/usr/bin/env python
# coding: utf-8
"""
Demo / check for property C16:

    When the SCSI facade is attached to a device it issues ONE standard INQUIRY
    and then selects the command set for the reported peripheral device type
    (SBC for direct-access / write-once / optical-memory, SSC for sequential
    access, MMC for CD/DVD, SMC for media changers; processor and unrecognised
    types keep a set that still offers INQUIRY / TEST UNIT READY / REPORT LUNS).
    Re-attaching the same facade to another device repeats the selection for that
    device and does not leak the previous device's command set.

Run as:  cd /tmp/seed/C16u && PYTHONPATH=/tmp/seed/C16u /venv/bin/python SEED/demo.py
"""
import hashlib
import itertools
import sys
import types

# --------------------------------------------------------------------------
# Fake transport bindings (sgio / iscsi are not installed)
# --------------------------------------------------------------------------

LOG = []  # (transport, target-name, bytes(cdb))

# what every simulated logical unit reports; keyed by file name / iscsi url
UNITS = {}


class Unit(object):
    def __init__(self, devtype, qualifier=0, fail_inquiry=False):
        self.devtype = devtype
        self.qualifier = qualifier
        self.fail_inquiry = fail_inquiry
        # iscsi only: answer every command with this status / drop the sense
        self.force_status = None
        self.no_sense = False


SENSE = bytearray(
    [0x70, 0x00, 0x05, 0, 0, 0, 0, 0x0A, 0, 0, 0, 0, 0x20, 0x00, 0, 0, 0, 0]
)


def _serve(unit, cdb, dataout, datain):
    """a tiny simulated target; returns True for CHECK CONDITION"""
    op = cdb[0]
    if op == 0x12:  # INQUIRY
        if unit.fail_inquiry:
            return True
        if cdb[1] & 0x01:
            # vpd page: supported pages
            page = bytearray([0, cdb[2], 0, 2, 0x00, 0x80])
            page[0] = ((unit.qualifier & 7) << 5) | (unit.devtype & 0x1F)
            datain[: len(page)] = page[: len(datain)]
            return False
        std = bytearray(96)
        std[0] = ((unit.qualifier & 7) << 5) | (unit.devtype & 0x1F)
        std[2] = 0x06
        std[3] = 0x02
        std[4] = 91
        std[8:16] = b"FAKEVEND"
        std[16:32] = b"FAKE PRODUCT    "
        std[32:36] = b"0001"
        n = min(len(std), len(datain))
        datain[:n] = std[:n]
        return False
    if op == 0xA0:  # REPORT LUNS
        data = bytearray(16)
        data[3] = 8
        n = min(len(data), len(datain))
        datain[:n] = data[:n]
        return False
    return False


# ---- sgio -----------------------------------------------------------------
sgio = types.ModuleType("sgio")


class CheckConditionError(Exception):
    def __init__(self, sense):
        Exception.__init__(self, "check condition")
        self.sense = sense


def sgio_execute(fobj, cdb, dataout, datain, *args, **kwargs):
    name = fobj.name
    LOG.append(("sgio", name, bytes(cdb)))
    if fobj.closed:
        raise ValueError("I/O on closed file")
    if _serve(UNITS[name], cdb, dataout, datain):
        raise CheckConditionError(bytearray(SENSE))
    return 0


sgio.CheckConditionError = CheckConditionError
sgio.execute = sgio_execute
sys.modules["sgio"] = sgio

# ---- iscsi ----------------------------------------------------------------
iscsi = types.ModuleType("iscsi")
iscsi.SCSI_XFER_NONE = 0
iscsi.SCSI_XFER_READ = 1
iscsi.SCSI_XFER_WRITE = 2
iscsi.ISCSI_SESSION_NORMAL = 2
iscsi.ISCSI_HEADER_DIGEST_NONE_CRC32C = 1
ISCSI_EVENTS = []


class _Url(object):
    def __init__(self, ctx, url):
        self.url = url
        rest = url[len("iscsi://") :]
        parts = rest.split("/")
        self.portal = parts[0]
        self.target = parts[1] if len(parts) > 1 else ""
        self.lun = int(parts[2]) if len(parts) > 2 else 0
        ctx._url = url


class _Task(object):
    def __init__(self, cdb, direction, xferlen):
        self.cdb = cdb
        self.direction = direction
        self.xferlen = xferlen
        self.status = 0
        self.raw_sense = None


class _Context(object):
    def __init__(self, initiator):
        self.initiator = initiator
        self._url = None
        self.connected = False

    def set_targetname(self, name):
        self.targetname = name

    def set_session_type(self, t):
        self.session_type = t

    def set_header_digest(self, d):
        self.header_digest = d

    def connect(self, portal, lun):
        self.connected = True
        ISCSI_EVENTS.append(("connect", self._url))

    def disconnect(self):
        self.connected = False
        ISCSI_EVENTS.append(("disconnect", self._url))

    def command(self, lun, task, dataout, datain):
        LOG.append(("iscsi", self._url, bytes(task.cdb)))
        unit = UNITS[self._url]
        if unit.force_status is not None:
            task.status = unit.force_status
            if unit.no_sense:
                del task.raw_sense
            elif task.status == 0x02:
                task.raw_sense = bytearray(SENSE)
            return
        if _serve(UNITS[self._url], task.cdb, dataout, datain):
            task.status = 0x02
            task.raw_sense = bytearray(SENSE)
        else:
            task.status = 0x00


iscsi.Context = _Context
iscsi.URL = _Url
iscsi.Task = _Task
sys.modules["iscsi"] = iscsi

# --------------------------------------------------------------------------
# now the library
# --------------------------------------------------------------------------
import pyscsi.pyscsi.scsi_enum_command as enum_command  # noqa: E402
from pyscsi.pyiscsi.iscsi_device import ISCSIDevice  # noqa: E402
from pyscsi.pyscsi.scsi import SCSI  # noqa: E402
from pyscsi.pyscsi.scsi_device import SCSIDevice  # noqa: E402
from pyscsi.pyscsi.scsi_enum_command import mmc, sbc, smc, spc, ssc  # noqa: E402
from pyscsi.pyscsi.scsi_sense import SCSICheckCondition  # noqa: E402
from pyscsi.utils import init_device  # noqa: E402
from pyscsi.utils.enum import Enum  # noqa: E402

CHECKS = [0]


def check(cond, msg):
    CHECKS[0] += 1
    if not cond:
        print("FAIL: %s" % msg)
        sys.exit(1)


def raises(exc, fn, *args, **kwargs):
    try:
        fn(*args, **kwargs)
    except exc as e:
        return e
    except BaseException as e:  # noqa
        print("FAIL: expected %s got %r" % (exc, e))
        sys.exit(1)
    print("FAIL: expected %s, nothing raised" % (exc,))
    sys.exit(1)


SETS = {"spc": spc, "sbc": sbc, "ssc": ssc, "smc": smc, "mmc": mmc}


def set_name(enum):
    for k, v in SETS.items():
        if v is enum:
            return k
    return repr(enum)


# The command set that is expected for a FRESH device (which starts with SPC)
EXPECT_FRESH = {}
for t in range(0x20):
    EXPECT_FRESH[t] = spc
for t in (0x00, 0x04, 0x07):
    EXPECT_FRESH[t] = sbc
for t in (0x01, 0x02, 0x09):
    EXPECT_FRESH[t] = ssc
EXPECT_FRESH[0x05] = mmc
EXPECT_FRESH[0x08] = smc
RECOGNISED = (0x00, 0x01, 0x02, 0x03, 0x04, 0x05, 0x07, 0x08, 0x09)

STD_INQUIRY_CDB = bytes([0x12, 0x00, 0x00, 0x00, 0x60, 0x00])
TUR_CDB = bytes(6)
REPORT_LUNS_CDB = bytes([0xA0, 0, 0, 0, 0, 0, 0, 0, 0, 0x60, 0, 0])

SG_PATHS = ["/dev/null", "/dev/zero", "/dev/full", "/dev/urandom"]
ISCSI_URLS = [
    "iscsi://127.0.0.1:3260/iqn.2001-04.com.example:disk/0",
    "iscsi://10.0.0.2/iqn.2001-04.com.example:tape/1",
    "iscsi://host.example/iqn.2001-04.com.example:changer/7",
]


# --------------------------------------------------------------------------
# 0. the command set tables themselves
# --------------------------------------------------------------------------
def table_digest():
    h = hashlib.sha256()
    for name in ("spc", "sbc", "ssc", "smc", "mmc"):
        enum = SETS[name]
        for key in enum.keys:
            op = getattr(enum, key)
            sa = op.serviceaction
            sa_items = [(k, getattr(sa, k)) for k in sa.keys] if sa is not None else None
            h.update(
                repr((name, key, op.name, op.value, sa_items, str(op))).encode("utf-8")
            )
    return h.hexdigest()


def check_tables():
    primary = (("INQUIRY", 0x12), ("TEST_UNIT_READY", 0x00), ("REPORT_LUNS", 0xA0))
    for name, enum in SETS.items():
        check(isinstance(enum, Enum), "%s is an Enum" % name)
        for key, value in primary:
            op = getattr(enum, key)
            check(op.value == value, "%s.%s value" % (name, key))
            check(op.name == key, "%s.%s name" % (name, key))
            check(key in enum.keys, "%s keys contain %s" % (name, key))
        raw = getattr(enum_command, name + "_opcodes")
        check(type(raw) is dict, "%s_opcodes is a dict" % name)
        check(list(raw.keys()) == list(enum.keys), "%s_opcodes key order" % name)
        for key in raw:
            check(raw[key] is getattr(enum, key), "%s_opcodes[%s] identity" % (name, key))
    check(len({id(e) for e in SETS.values()}) == 5, "five distinct sets")
    # discriminating members
    check(sbc.READ_10.value == 0x28 and sbc.READ_CAPACITY_10.value == 0x25, "sbc members")
    check(not hasattr(spc, "READ_10"), "spc has no READ_10")
    check(not hasattr(ssc, "READ_10") and ssc.READ_6.value == 0x08, "ssc members")
    check(ssc.REWIND.value == 0x01, "ssc REWIND")
    check(mmc.READ_CD.value == 0xBE and mmc.READ_DISC_INFORMATION.value == 0x51, "mmc members")
    check(smc.MOVE_MEDIUM.value == 0xA5 and smc.READ_ELEMENT_STATUS.value == 0xB8, "smc members")
    check(smc.OPEN_CLOSE_IMPORT_EXPORT_ELEMENT.name == "SMC_OPCODE_1B", "smc 1B name")
    check(sbc.REDUNDANCY_GROUP_OUT.name == "REDUNDANCY_GROUP_OT", "sbc quirk name")
    check(sbc.VOLUME_SET_OUT.value == 0xBF and sbc.VOLUME_SET_IN.value == 0xBE, "volume set")
    check(sbc.SBC_OPCODE_9E.serviceaction.READ_CAPACITY_16 == 0x10, "9E service action")
    check(
        smc.MAINTENANCE_IN.serviceaction.REPORT_DEVICE_IDENTIFICATION == 0x07,
        "maintenance in sa",
    )
    check(
        spc.PERSISTENT_RESERVE_IN.serviceaction.READ_FULL_STATUS == 0x03, "pr in sa"
    )
    check(
        [len(e.keys) for e in (spc, sbc, ssc, smc, mmc)] == [27, 77, 51, 46, 48],
        "table sizes %r" % [len(e.keys) for e in (spc, sbc, ssc, smc, mmc)],
    )
    check(
        table_digest() == TABLE_DIGEST,
        "command set tables changed: %s" % table_digest(),
    )
    check(enum_command.SCSI_STATUS.CHECK_CONDITION == 0x02, "status enum")
    check(enum_command.OPCODE.INQUIRY == 0x12, "obsolete OPCODE enum")
    check(enum_command.SERVICE_ACTION_IN.READ_CAPACITY_16 == 0x10, "obsolete SA enum")


TABLE_DIGEST = "2eac23e367da6c5954c1964a094c0c90ed0188222a7d4420aba1bebe78adeff3"


# --------------------------------------------------------------------------
# helpers exercising an attached facade
# --------------------------------------------------------------------------
def exercise_primary(s, transport, target):
    """INQUIRY / TEST UNIT READY / REPORT LUNS must work whatever was selected"""
    del LOG[:]
    i = s.inquiry()
    check(LOG == [(transport, target, STD_INQUIRY_CDB)], "inquiry cdb %r" % LOG)
    check(
        i.result["peripheral_device_type"] == UNITS[target].devtype,
        "inquiry result type",
    )
    check(i.result["peripheral_qualifier"] == UNITS[target].qualifier, "qualifier")
    check(i.result["t10_vendor_identification"] == b"FAKEVEND", "vendor")
    del LOG[:]
    i = s.inquiry(evpd=1, page_code=0x00, alloclen=64)
    check(
        LOG == [(transport, target, bytes([0x12, 0x01, 0x00, 0x00, 0x40, 0x00]))],
        "vpd inquiry cdb %r" % LOG,
    )
    check(i.result["vpd_pages"] == [0x00, 0x80], "vpd pages")
    del LOG[:]
    t = s.testunitready()
    check(LOG == [(transport, target, TUR_CDB)], "tur cdb %r" % LOG)
    check(t.opcode.name == "TEST_UNIT_READY", "tur opcode name")
    del LOG[:]
    r = s.reportluns()
    check(LOG == [(transport, target, REPORT_LUNS_CDB)], "report luns cdb %r" % LOG)
    check(r.result["luns"] == [{"lun0": 0}], "report luns result %r" % r.result)
    del LOG[:]
    r = s.reportluns(report=0x02, alloclen=24)
    check(
        LOG == [(transport, target, bytes([0xA0, 0, 0x02, 0, 0, 0, 0, 0, 0, 24, 0, 0]))],
        "report luns kw cdb %r" % LOG,
    )
    del LOG[:]


def exercise_specific(s, expected, transport, target):
    """commands that discriminate the selected command set"""
    del LOG[:]
    if expected is sbc:
        s.blocksize = 512
        s.read10(7, 1)
        check(LOG[-1][2][0] == 0x28 and len(LOG[-1][2]) == 10, "sbc read10")
        s.readcapacity10()
        check(LOG[-1][2][0] == 0x25, "sbc readcapacity10")
        s.readcapacity16()
        check(LOG[-1][2][0] == 0x9E and LOG[-1][2][1] == 0x10, "sbc readcapacity16")
        s.synchronizecache10(0, 0)
        check(LOG[-1][2][0] == 0x35, "sbc sync cache")
        raises(AttributeError, s.movemedium, 0, 1, 2)
        raises(AttributeError, s.readcd, 0, 1)
    elif expected is ssc:
        raises(AttributeError, s.read10, 0, 1)
        raises(AttributeError, s.readcapacity10)
        raises(AttributeError, s.movemedium, 0, 1, 2)
        check(s.device.opcodes.REWIND.value == 0x01, "ssc rewind available")
        s.modesense6(0x3F)
        check(LOG[-1][2][0] == 0x1A, "ssc modesense6")
    elif expected is mmc:
        s.readcd(16, 1)
        check(LOG[-1][2][0] == 0xBE, "mmc readcd")
        s.readdiscinformation(0)
        check(LOG[-1][2][0] == 0x51, "mmc readdiscinformation")
        s.blocksize = 2048
        s.read10(0, 1)
        check(LOG[-1][2][0] == 0x28, "mmc read10")
        raises(AttributeError, s.readcapacity10)
        raises(AttributeError, s.movemedium, 0, 1, 2)
        raises(AttributeError, s.modesense6, 0x3F)
    elif expected is smc:
        s.movemedium(0, 1, 2)
        check(LOG[-1][2][0] == 0xA5, "smc movemedium")
        s.initializeelementstatus()
        check(LOG[-1][2][0] == 0x07, "smc initializeelementstatus")
        s.positiontoelement(0, 5)
        check(LOG[-1][2][0] == 0x2B, "smc positiontoelement")
        raises(AttributeError, s.read10, 0, 1)
        raises(AttributeError, s.readcd, 0, 1)
    else:
        check(expected is spc, "expected spc")
        raises(AttributeError, s.read10, 0, 1)
        raises(AttributeError, s.readcapacity10)
        raises(AttributeError, s.movemedium, 0, 1, 2)
        raises(AttributeError, s.readcd, 0, 1)
        s.modesense6(0x3F)
        check(LOG[-1][2][0] == 0x1A, "spc modesense6")
        s.preventallowmediumremoval(prevent=1)
        check(LOG[-1][2][0] == 0x1E, "spc prevent allow")
    for entry in LOG:
        check(entry[0] == transport and entry[1] == target, "commands go to the device")
    del LOG[:]


def open_sg(path, devtype, qualifier=0, **kwargs):
    UNITS[path] = Unit(devtype, qualifier)
    dev = SCSIDevice(path, **kwargs)
    check(dev.opcodes is spc, "fresh SCSIDevice starts with SPC")
    raises(AttributeError, getattr, dev, "devicetype")
    return dev


def open_iscsi(url, devtype, qualifier=0, **kwargs):
    UNITS[url] = Unit(devtype, qualifier)
    dev = ISCSIDevice(url, **kwargs)
    check(dev.opcodes is spc, "fresh ISCSIDevice starts with SPC")
    raises(AttributeError, getattr, dev, "devicetype")
    return dev


# --------------------------------------------------------------------------
# 1. every peripheral device type / qualifier on a fresh sg device
# --------------------------------------------------------------------------
def check_fresh_sg():
    for devtype in range(0x20):
        for qualifier in (0, 1, 3, 7):
            path = SG_PATHS[(devtype + qualifier) % len(SG_PATHS)]
            dev = open_sg(path, devtype, qualifier)
            del LOG[:]
            s = SCSI(dev)
            check(
                LOG == [("sgio", path, STD_INQUIRY_CDB)],
                "exactly one standard INQUIRY on attach (type %#x): %r" % (devtype, LOG),
            )
            check(s.device is dev, "facade holds the device")
            check(dev.devicetype == devtype, "devicetype recorded %#x" % devtype)
            check(type(dev.devicetype) is int, "devicetype is int")
            check(
                dev.opcodes is EXPECT_FRESH[devtype],
                "type %#x q%d selects %s, got %s"
                % (devtype, qualifier, set_name(EXPECT_FRESH[devtype]), set_name(dev.opcodes)),
            )
            check(s.blocksize == 0, "default blocksize")
            if qualifier == 0:
                exercise_primary(s, "sgio", path)
                exercise_specific(s, EXPECT_FRESH[devtype], "sgio", path)
                check(dev.opcodes is EXPECT_FRESH[devtype], "set stable after use")
            dev.close()


# --------------------------------------------------------------------------
# 2. every peripheral device type on a fresh iscsi device
# --------------------------------------------------------------------------
def check_fresh_iscsi():
    for devtype in range(0x20):
        url = ISCSI_URLS[devtype % len(ISCSI_URLS)]
        kwargs = {} if devtype % 2 else {"initiator_name": "iqn.2018-01.org.pyscsi:demo"}
        dev = open_iscsi(url, devtype, devtype % 2, **kwargs)
        del LOG[:]
        s = SCSI(dev, 512 if devtype % 3 else 0)
        check(
            LOG == [("iscsi", url, STD_INQUIRY_CDB)],
            "exactly one standard INQUIRY on iscsi attach: %r" % LOG,
        )
        check(dev.devicetype == devtype, "iscsi devicetype")
        check(dev.opcodes is EXPECT_FRESH[devtype], "iscsi type %#x set" % devtype)
        check(s.blocksize == (512 if devtype % 3 else 0), "blocksize positional")
        if devtype % 2 == 0 or devtype in RECOGNISED:
            exercise_primary(s, "iscsi", url)
            exercise_specific(s, EXPECT_FRESH[devtype], "iscsi", url)
        dev.close()


# --------------------------------------------------------------------------
# 3. re-attaching the facade: all ordered pairs of types, no leaking
# --------------------------------------------------------------------------
def check_reattach_pairs():
    types_ = [0x00, 0x01, 0x02, 0x03, 0x04, 0x05, 0x06, 0x07, 0x08, 0x09, 0x0C, 0x0D, 0x11, 0x1E, 0x1F]
    n = 0
    for t1, t2 in itertools.product(types_, repeat=2):
        n += 1
        if n % 2:
            dev1 = open_sg("/dev/null", t1)
            tr1, tg1 = "sgio", "/dev/null"
        else:
            dev1 = open_iscsi(ISCSI_URLS[0], t1)
            tr1, tg1 = "iscsi", ISCSI_URLS[0]
        if n % 3:
            dev2 = open_sg("/dev/zero", t2)
            tr2, tg2 = "sgio", "/dev/zero"
        else:
            dev2 = open_iscsi(ISCSI_URLS[1], t2)
            tr2, tg2 = "iscsi", ISCSI_URLS[1]
        s = SCSI(dev1, blocksize=4096)
        check(dev1.opcodes is EXPECT_FRESH[t1], "first attach")
        del LOG[:]
        ret = s(dev2)
        check(ret is None, "__call__ returns None")
        check(LOG == [(tr2, tg2, STD_INQUIRY_CDB)], "re-attach: one INQUIRY to new device %r" % LOG)
        check(s.device is dev2, "facade now holds dev2")
        check(dev2.devicetype == t2, "dev2 devicetype")
        check(
            dev2.opcodes is EXPECT_FRESH[t2],
            "re-attach %#x -> %#x: got %s" % (t1, t2, set_name(dev2.opcodes)),
        )
        check(dev1.opcodes is EXPECT_FRESH[t1], "dev1 keeps its own set")
        check(dev1.devicetype == t1, "dev1 keeps its devicetype")
        check(s.blocksize == 4096, "blocksize survives re-attach")
        if (t1 + t2) % 4 == 0:
            exercise_primary(s, tr2, tg2)
            exercise_specific(s, EXPECT_FRESH[t2], tr2, tg2)
        # and back again
        del LOG[:]
        s(dev1)
        check(LOG == [(tr1, tg1, STD_INQUIRY_CDB)], "back: one INQUIRY to dev1 %r" % LOG)
        check(s.device is dev1 and dev1.opcodes is EXPECT_FRESH[t1], "back on dev1")
        check(dev2.opcodes is EXPECT_FRESH[t2], "dev2 untouched")
        dev1.close()
        dev2.close()


# --------------------------------------------------------------------------
# 4. a chain of re-attachments on one facade
# --------------------------------------------------------------------------
def check_reattach_chain():
    s = SCSI(None)
    check(s.device is None, "facade without device")
    check(s.blocksize == 0, "blocksize default without device")
    del LOG[:]
    s(None)
    check(LOG == [] and s.device is None, "attach None does nothing")
    devices = []
    order = [0x05, 0x1F, 0x00, 0x08, 0x03, 0x01, 0x0E, 0x07, 0x06, 0x04, 0x09, 0x02, 0x08, 0x05]
    for n, devtype in enumerate(order):
        if n % 2:
            path = SG_PATHS[n % len(SG_PATHS)]
            dev = open_sg(path, devtype)
            tr, tg = "sgio", path
        else:
            url = ISCSI_URLS[n % len(ISCSI_URLS)]
            dev = open_iscsi(url, devtype)
            tr, tg = "iscsi", url
        del LOG[:]
        s(dev)
        check(LOG == [(tr, tg, STD_INQUIRY_CDB)], "chain: one INQUIRY %r" % LOG)
        check(dev.opcodes is EXPECT_FRESH[devtype], "chain %d type %#x" % (n, devtype))
        check(dev.devicetype == devtype, "chain devicetype")
        exercise_primary(s, tr, tg)
        exercise_specific(s, EXPECT_FRESH[devtype], tr, tg)
        devices.append((dev, devtype))
        for d, t in devices:
            check(d.opcodes is EXPECT_FRESH[t], "earlier devices untouched")
            check(d.devicetype == t, "earlier devicetypes untouched")
    del LOG[:]
    s(None)
    check(LOG == [] and s.device is None, "detach")
    for d, t in devices:
        d.close()


# --------------------------------------------------------------------------
# 5. the same device object attached again after the unit changed its type
# --------------------------------------------------------------------------
def check_same_device_again():
    for first in RECOGNISED:
        for second in range(0x20):
            dev = open_sg("/dev/null", first)
            s = SCSI(dev)
            check(dev.opcodes is EXPECT_FRESH[first], "first")
            UNITS["/dev/null"].devtype = second
            del LOG[:]
            s(dev)
            check(LOG == [("sgio", "/dev/null", STD_INQUIRY_CDB)], "one INQUIRY again")
            check(dev.devicetype == second, "devicetype updated")
            if second in RECOGNISED:
                want = EXPECT_FRESH[second]
            else:
                # an unrecognised type leaves the set the device already has
                want = EXPECT_FRESH[first]
            check(
                dev.opcodes is want,
                "same device %#x -> %#x: want %s got %s"
                % (first, second, set_name(want), set_name(dev.opcodes)),
            )
            if (first + second) % 5 == 0:
                exercise_primary(s, "sgio", "/dev/null")
            # a second facade on the same device behaves the same
            del LOG[:]
            s2 = SCSI(dev, 2048)
            check(LOG == [("sgio", "/dev/null", STD_INQUIRY_CDB)], "second facade: one INQUIRY")
            check(dev.opcodes is want and s2.blocksize == 2048, "second facade")
            dev.close()


# --------------------------------------------------------------------------
# 6. devices that were given a command set by hand before being attached
# --------------------------------------------------------------------------
def check_preset_opcodes():
    for name, preset in SETS.items():
        for devtype in range(0x20):
            dev = open_sg("/dev/zero", devtype)
            dev.opcodes = preset
            check(dev.opcodes is preset, "opcodes setter")
            del LOG[:]
            SCSI(dev)
            check(LOG == [("sgio", "/dev/zero", STD_INQUIRY_CDB)], "preset: one INQUIRY")
            want = EXPECT_FRESH[devtype] if devtype in RECOGNISED else preset
            check(
                dev.opcodes is want,
                "preset %s type %#x: want %s got %s"
                % (name, devtype, set_name(want), set_name(dev.opcodes)),
            )
            dev.close()
    # a private command set (only what the property needs)
    mine = Enum(
        {
            "INQUIRY": enum_command.spc.INQUIRY,
            "TEST_UNIT_READY": enum_command.spc.TEST_UNIT_READY,
            "REPORT_LUNS": enum_command.spc.REPORT_LUNS,
        }
    )
    dev = open_sg("/dev/zero", 0x0D)
    dev.opcodes = mine
    s = SCSI(dev)
    check(dev.opcodes is mine, "private set kept for unrecognised type")
    exercise_primary(s, "sgio", "/dev/zero")
    UNITS["/dev/zero"].devtype = 0x00
    s(dev)
    check(dev.opcodes is sbc, "private set replaced for a disk")
    dev.close()
    # a set without INQUIRY cannot be attached and is left alone
    broken = Enum({"TEST_UNIT_READY": enum_command.spc.TEST_UNIT_READY})
    dev = open_sg("/dev/zero", 0x00)
    dev.opcodes = broken
    del LOG[:]
    raises(AttributeError, SCSI, dev)
    check(LOG == [], "nothing sent without an INQUIRY opcode")
    check(dev.opcodes is broken, "broken set left alone")
    raises(AttributeError, getattr, dev, "devicetype")
    dev.close()


# --------------------------------------------------------------------------
# 7. duck-typed devices (as the library's own tests use)
# --------------------------------------------------------------------------
class DuckDevice(object):
    """no properties, plain attributes; remembers every assignment"""

    def __init__(self, devtype, opcodes=spc):
        object.__setattr__(self, "assignments", [])
        object.__setattr__(self, "commands", [])
        object.__setattr__(self, "unit", Unit(devtype))
        object.__setattr__(self, "closed", False)
        object.__setattr__(self, "opcodes", opcodes)

    def __setattr__(self, key, value):
        self.assignments.append((key, value))
        object.__setattr__(self, key, value)

    def execute(self, cmd, en_raw_sense=False):
        self.commands.append((bytes(cmd.cdb), en_raw_sense))
        _serve(self.unit, cmd.cdb, cmd.dataout, cmd.datain)

    def close(self):
        object.__setattr__(self, "closed", True)


def check_duck_devices():
    for devtype in range(0x20):
        for name, preset in SETS.items():
            dev = DuckDevice(devtype, preset)
            s = SCSI(dev, blocksize=devtype)
            check(dev.commands == [(STD_INQUIRY_CDB, False)], "duck: one INQUIRY %r" % dev.commands)
            want = EXPECT_FRESH[devtype] if devtype in RECOGNISED else preset
            check(dev.opcodes is want, "duck type %#x preset %s" % (devtype, name))
            check(dev.devicetype == devtype, "duck devicetype")
            check(dev.assignments[0] == ("devicetype", devtype), "devicetype assigned first")
            if devtype in RECOGNISED:
                check(dev.assignments == [("devicetype", devtype), ("opcodes", want)], "duck assignments %r" % dev.assignments)
            else:
                check(dev.assignments == [("devicetype", devtype)], "duck: no opcodes assignment %r" % dev.assignments)
            check(s.blocksize == devtype, "duck blocksize")
    # moving one facade over duck devices and real ones
    a = DuckDevice(0x08)
    b = DuckDevice(0x1F)
    c = open_sg("/dev/full", 0x05)
    s = SCSI(a)
    check(a.opcodes is smc, "duck changer")
    s(b)
    check(b.opcodes is spc and a.opcodes is smc, "duck unknown after changer: no leak")
    check(len(a.commands) == 1 and len(b.commands) == 1, "one INQUIRY each")
    s(c)
    check(c.opcodes is mmc and b.opcodes is spc and a.opcodes is smc, "real after duck")
    s(b)
    check(b.opcodes is spc and len(b.commands) == 2, "duck unknown after cd: no leak")
    t = s.testunitready()
    check(b.commands[-1] == (TUR_CDB, False) and t.cdb == bytearray(6), "duck tur")
    with s as same:
        check(same is s, "__enter__ returns the facade")
    check(b.closed and not a.closed, "__exit__ closes the attached device only")
    c.close()


# --------------------------------------------------------------------------
# 8. failures while attaching
# --------------------------------------------------------------------------
def check_failures():
    # INQUIRY answered with CHECK CONDITION on sg
    UNITS["/dev/null"] = Unit(0x00, fail_inquiry=True)
    dev = SCSIDevice("/dev/null")
    del LOG[:]
    e = raises(SCSIDevice.CheckCondition, SCSI, dev)
    check(isinstance(e, SCSICheckCondition), "is a SCSICheckCondition")
    check(not isinstance(e, ISCSIDevice.CheckCondition), "device class specific exception")
    check(e.asc == 0x20 and e.ascq == 0x00, "sense decoded")
    check(LOG == [("sgio", "/dev/null", STD_INQUIRY_CDB)], "one INQUIRY attempted")
    check(dev.opcodes is spc, "failed attach leaves SPC")
    raises(AttributeError, getattr, dev, "devicetype")
    # ... a facade attached elsewhere keeps pointing at the failing device
    good = open_sg("/dev/zero", 0x01)
    s = SCSI(good)
    raises(SCSIDevice.CheckCondition, s, dev)
    check(s.device is dev, "device swapped before probing")
    check(good.opcodes is ssc and dev.opcodes is spc, "no leak on failure")
    UNITS["/dev/null"].fail_inquiry = False
    s(dev)
    check(dev.opcodes is sbc and dev.devicetype == 0, "attach works once the unit answers")
    dev.close()
    good.close()
    # same on iscsi
    url = ISCSI_URLS[2]
    UNITS[url] = Unit(0x08, fail_inquiry=True)
    idev = ISCSIDevice(url)
    e = raises(ISCSIDevice.CheckCondition, SCSI, idev)
    check(isinstance(e, SCSICheckCondition), "iscsi check condition")
    check(not isinstance(e, SCSIDevice.CheckCondition), "iscsi specific exception")
    check(idev.opcodes is spc, "iscsi failed attach leaves SPC")
    UNITS[url].fail_inquiry = False
    SCSI(idev)
    check(idev.opcodes is smc, "iscsi attach later")
    idev.close()
    # every other status an iscsi target can answer the INQUIRY with
    for status, name in (
        (0x04, "ConditionsMet"),
        (0x08, "BusyStatus"),
        (0x18, "ReservationConflict"),
        (0x28, "TaskSetFull"),
        (0x30, "ACAActive"),
        (0x40, "TaskAborted"),
        (0x02, "CheckCondition"),
        (0x99, None),
        (0xFF, None),
        (0x01, None),
    ):
        UNITS[url] = Unit(0x05)
        idev = ISCSIDevice(url)
        UNITS[url].force_status = status
        del LOG[:]
        if name is None:
            e = raises(RuntimeError, SCSI, idev)
            check(type(e) is RuntimeError, "plain RuntimeError for status %#x" % status)
        else:
            e = raises(getattr(ISCSIDevice, name), SCSI, idev)
            check(type(e) is getattr(ISCSIDevice, name), "status %#x -> %s" % (status, name))
        check(LOG == [("iscsi", url, STD_INQUIRY_CDB)], "one INQUIRY attempted (status)")
        check(idev.opcodes is spc, "status %#x leaves SPC" % status)
        raises(AttributeError, getattr, idev, "devicetype")
        UNITS[url].force_status = None
        s = SCSI(idev)
        check(idev.opcodes is mmc and idev.devicetype == 0x05, "attach after status %#x" % status)
        idev.close()
    # CHECK CONDITION without any sense data
    UNITS[url] = Unit(0x00)
    idev = ISCSIDevice(url)
    UNITS[url].force_status = 0x02
    UNITS[url].no_sense = True
    e = raises(ISCSIDevice.CheckCondition, SCSI, idev)
    check(idev.opcodes is spc, "senseless check condition leaves SPC")
    UNITS[url].force_status = 0x00
    s = SCSI(idev)
    check(idev.opcodes is sbc and idev.devicetype == 0, "all-zero inquiry data reads as a disk")
    idev.close()
    # not a device at all
    raises(AttributeError, SCSI, object())
    raises(AttributeError, SCSI, 42)
    raises(AttributeError, SCSI, "/dev/null")
    # unsupported backends
    e = raises(NotImplementedError, SCSIDevice, "/tmp/not-a-device")
    check(str(e) == "No backend implemented for /tmp/not-a-device", "sg backend message")
    e = raises(NotImplementedError, ISCSIDevice, "http://example/")
    check(str(e) == "No backend implemented for http://example/", "iscsi backend message")
    raises(NotImplementedError, init_device, "nonsense")


# --------------------------------------------------------------------------
# 9. device construction variants, context managers, init_device
# --------------------------------------------------------------------------
def check_device_variants():
    UNITS["/dev/null"] = Unit(0x07)
    for kwargs in (
        {},
        {"readwrite": True},
        {"detect_replugged": False},
        {"buffering": 0},
        {"readwrite": True, "detect_replugged": False, "buffering": 0},
    ):
        dev = SCSIDevice("/dev/null", **kwargs)
        check(repr(dev) == "SCSIDevice", "repr")
        s = SCSI(dev)
        check(dev.opcodes is sbc and dev.devicetype == 0x07, "variant %r" % (kwargs,))
        exercise_primary(s, "sgio", "/dev/null")
        dev.close()
    dev = SCSIDevice("/dev/null", True, False, 0)
    SCSI(dev)
    check(dev.opcodes is sbc, "positional device args")
    dev.close()

    # with-statements on device and facade
    UNITS["/dev/zero"] = Unit(0x01)
    with SCSIDevice("/dev/zero") as dev:
        with SCSI(dev) as s:
            check(dev.opcodes is ssc, "with: ssc")
            exercise_primary(s, "sgio", "/dev/zero")
        raises(ValueError, s.testunitready)  # file closed by the facade
    del ISCSI_EVENTS[:]
    UNITS[ISCSI_URLS[1]] = Unit(0x05)
    with ISCSIDevice(ISCSI_URLS[1], "iqn.x:y") as idev:
        check(ISCSI_EVENTS == [("connect", ISCSI_URLS[1])], "iscsi connect")
        with SCSI(idev) as s:
            check(idev.opcodes is mmc, "with: mmc")
    check(
        ISCSI_EVENTS
        == [("connect", ISCSI_URLS[1]), ("disconnect", ISCSI_URLS[1]), ("disconnect", ISCSI_URLS[1])],
        "iscsi close twice %r" % ISCSI_EVENTS,
    )

    # init_device
    UNITS["/dev/full"] = Unit(0x08)
    dev = init_device("/dev/full")
    check(type(dev) is SCSIDevice and dev.opcodes is spc, "init_device sg")
    s = SCSI(dev)
    check(dev.opcodes is smc, "init_device sg attach")
    UNITS[ISCSI_URLS[0]] = Unit(0x04)
    idev = init_device(ISCSI_URLS[0], False, "iqn.2018-01.org.pyscsi:x")
    check(type(idev) is ISCSIDevice and idev.opcodes is spc, "init_device iscsi")
    s(idev)
    check(idev.opcodes is sbc and dev.opcodes is smc, "init_device iscsi attach")
    dev.close()
    idev.close()

    # exception classes hang off the device classes
    for cls in (SCSIDevice, ISCSIDevice):
        for exc in (
            "CheckCondition",
            "ConditionsMet",
            "BusyStatus",
            "ReservationConflict",
            "TaskSetFull",
            "ACAActive",
            "TaskAborted",
            "CommandNotImplemented",
            "MissingBlocksizeException",
            "OpcodeException",
        ):
            check(issubclass(getattr(cls, exc), Exception), "%s.%s" % (cls.__name__, exc))
        check(isinstance(cls.opcodes, property), "opcodes is a property")
        check(isinstance(cls.devicetype, property), "devicetype is a property")
    check(SCSIDevice.CheckCondition is not ISCSIDevice.CheckCondition, "distinct exceptions")

    # devicetype can be written by hand as well
    dev = open_sg("/dev/null", 0x00)
    dev.devicetype = 0x1F
    check(dev.devicetype == 0x1F, "devicetype setter")
    SCSI(dev)
    check(dev.devicetype == 0x00 and dev.opcodes is sbc, "attach overrides devicetype")
    dev.close()


# --------------------------------------------------------------------------
# 10. facade surface
# --------------------------------------------------------------------------
def check_facade_surface():
    import inspect

    check(
        str(inspect.signature(SCSI.__init__)) == "(self, dev, blocksize=0)",
        "SCSI.__init__ signature",
    )
    check(str(inspect.signature(SCSI.__call__)) == "(self, dev)", "SCSI.__call__ signature")
    check(
        str(inspect.signature(SCSI.inquiry)) == "(self, evpd=0, page_code=0, alloclen=96)",
        "inquiry signature",
    )
    check(str(inspect.signature(SCSI.testunitready)) == "(self)", "tur signature")
    check(str(inspect.signature(SCSI.reportluns)) == "(self, **kwargs)", "reportluns signature")
    check(
        str(inspect.signature(SCSI.execute)) == "(self, cmd, en_raw_sense=False)",
        "execute signature",
    )
    check(
        str(inspect.signature(SCSIDevice.__init__))
        == "(self, device, readwrite=False, detect_replugged=True, buffering=-1)",
        "SCSIDevice signature",
    )
    check(
        str(inspect.signature(ISCSIDevice.__init__)) == "(self, device, initiator_name='')",
        "ISCSIDevice signature",
    )
    check(isinstance(SCSI.blocksize, property), "blocksize property")
    dev = DuckDevice(0x00)
    s = SCSI(dev=dev, blocksize=520)
    check(s.blocksize == 520 and dev.opcodes is sbc, "keyword construction")
    s.blocksize = 4096
    s(dev=DuckDevice(0x01))
    check(s.blocksize == 4096 and s.device.opcodes is ssc, "keyword re-attach")

    # a subclass that skips probing (as the library's test-suite does)
    class Quiet(SCSI):
        def __init__(self, dev):
            self.device = dev

    dev = DuckDevice(0x00, mmc)
    q = Quiet(dev)
    check(dev.commands == [] and dev.opcodes is mmc, "subclass without probing")
    q(dev)
    check(dev.commands == [(STD_INQUIRY_CDB, False)] and dev.opcodes is sbc, "subclass re-attach probes")


def main():
    check_tables()
    check_fresh_sg()
    check_fresh_iscsi()
    check_reattach_pairs()
    check_reattach_chain()
    check_same_device_again()
    check_preset_opcodes()
    check_duck_devices()
    check_failures()
    check_device_variants()
    check_facade_surface()
    print("PASS (%d checks)" % CHECKS[0])


if __name__ == "__main__":
    if len(sys.argv) > 1 and sys.argv[1] == "--digest":
        print(table_digest())
        sys.exit(0)
    main()
    sys.exit(0)
