#!/usr/bin/env python
# coding: utf-8
"""
Standalone check of property C18 (pseudo enumerations built from mappings).

Run as:
    cd /tmp/seed/C18u && PYTHONPATH=/tmp/seed/C18u /venv/bin/python SEED/demo.py

Exits 0 and prints PASS when the property holds.
"""
import importlib
import pkgutil
import random
import sys
import types
from collections import OrderedDict

# the external bindings are optional for the library; provide small fakes so
# that nothing below can depend on whether they happen to be installed.
for _name in ("sgio", "iscsi"):
    if _name not in sys.modules:
        try:
            importlib.import_module(_name)
        except Exception:  # pragma: no cover - depends on the environment
            sys.modules[_name] = types.ModuleType(_name)

import pyscsi  # noqa: E402
import pyscsi.pyscsi  # noqa: E402
import pyscsi.utils  # noqa: E402
from pyscsi.pyscsi import scsi_enum_command  # noqa: E402
from pyscsi.pyscsi.scsi_opcode import OpCode  # noqa: E402
from pyscsi.utils.enum import Enum  # noqa: E402
from pyscsi.utils.exception import NotSupportedArgumentError  # noqa: E402

CHECKS = 0


def check(cond, msg):
    global CHECKS
    CHECKS += 1
    if not cond:
        print("FAIL:", msg)
        sys.exit(1)


def raises(exc, fn, *a, **kw):
    """return the exception instance if fn raises exactly (a subclass of) exc,
    otherwise None"""
    try:
        fn(*a, **kw)
    except exc as ex:
        return ex
    except BaseException:
        return None
    return None


def model_lookup(model, value):
    """what reverse lookup must answer for an ordinary (ordered) dict"""
    for k, v in model.items():
        if v == value:
            return k
    return ""


def agree(e, model, tag, probes=()):
    """the enumeration e and the ordinary dict model describe the same thing"""
    keys = e.keys
    check(type(keys) is list, "%s: keys is a list" % tag)
    check(keys == list(model), "%s: keys %r != %r" % (tag, keys, list(model)))
    check(len(set(keys)) == len(keys), "%s: duplicate keys" % tag)
    for k, v in model.items():
        check(hasattr(e, k), "%s: missing attribute %s" % (tag, k))
        check(getattr(e, k) is v, "%s: value of %s" % (tag, k))
        check(vars(e)[k] is v, "%s: stored value of %s" % (tag, k))
    for v in list(model.values()) + list(probes):
        want = model_lookup(model, v)
        got = e[v]
        check(got == want, "%s: lookup %r gave %r, wanted %r" % (tag, v, got, want))
        check(type(got) is str, "%s: lookup type" % tag)
        if got:
            check(getattr(e, got) == v, "%s: lookup name carries the value" % tag)
    # a fresh list every time: fiddling with the answer changes nothing
    keys.append("bogus")
    keys[:1] = []
    check(e.keys == list(model), "%s: keys list is a private copy" % tag)


class Sentinel(object):
    """a value that is only equal to itself"""


NAN = float("nan")

VALUE_POOL = [
    0,
    1,
    2,
    3,
    -1,
    255,
    0x7F,
    2**70,
    1.0,
    2.5,
    True,
    False,
    None,
    "",
    "A",
    "a",
    "text",
    b"bytes",
    (1, 2),
    (),
    [1, 2],
    [],
    {"x": 1},
    {1, 2},
    frozenset((1, 2)),
    NAN,
    Sentinel(),
    Sentinel(),
    3 + 0j,
    range(3),
]

PROBES = [
    4,
    "missing",
    None,
    0,
    0.0,
    1,
    1.0,
    True,
    False,
    [1, 2],
    [2, 1],
    (1, 2),
    {"x": 1},
    {2, 1},
    NAN,
    float("nan"),
    Sentinel(),
    "",
    b"",
    3,
    3 + 0j,
    range(3),
    range(0, 3, 1),
    object(),
]

NAME_POOL = (
    ["A", "B", "C", "a", "b", "c", "x", "y", "z", "_private", "_", "a1", "A_B"]
    + ["K%d" % i for i in range(12)]
    + ["READ_10", "WRITE_10", "INQUIRY", "name", "value", "items", "values", "get"]
    + ["ключ", "naïve", "名前", "class_", "def_", "lambda_", "self", "klass", "_x_", "a__"]
)


# ---------------------------------------------------------------------------
# 1. construction from a mapping / from keywords
# ---------------------------------------------------------------------------
def test_construction():
    src = {"A": 1, "B": 2, "C": 3}
    e = Enum(src)
    agree(e, src, "basic", PROBES)
    check(e.A == 1 and e.B == 2 and e.C == 3, "basic attrs")
    check(e[1] == "A" and e[2] == "B" and e[3] == "C" and e[4] == "", "basic lookup")
    check(isinstance(e, Enum), "an enumeration is an instance of Enum")
    check(isinstance(e, type), "an enumeration is a class")
    check(e.__name__ == "Enum", "name of the enumeration")
    check(e.__module__ == "pyscsi.utils.enum", "module of the enumeration")
    check(e.__bases__ == (object,), "bases of the enumeration")
    check(Enum.__name__ == "Enum", "Enum name")
    check(Enum.__module__ == "pyscsi.utils.enum", "Enum module")
    check(issubclass(Enum, type), "Enum is a metaclass")
    check(pyscsi.utils.Enum is Enum, "import path pyscsi.utils.Enum")
    check(pyscsi.Enum is Enum, "import path pyscsi.Enum")
    check(issubclass(NotSupportedArgumentError, Exception), "exception type")
    check(
        NotSupportedArgumentError.__module__ == "pyscsi.utils.exception",
        "exception module",
    )

    k = Enum(A=1, B=2, C=3)
    agree(k, src, "keywords", PROBES)
    check(k is not e, "distinct objects")

    # source mapping is neither modified nor aliased
    check(src == {"A": 1, "B": 2, "C": 3}, "source untouched")
    check(list(src) == ["A", "B", "C"], "source order untouched")
    src["D"] = 4
    del src["A"]
    agree(e, {"A": 1, "B": 2, "C": 3}, "after source change")
    e.add("E", 5)
    e.remove("B")
    check(src == {"B": 2, "C": 3, "D": 4}, "source untouched by add/remove")

    # empty mapping is fine, nothing at all is not
    empty = Enum({})
    agree(empty, {}, "empty", PROBES)
    check(empty.keys == [], "empty keys")
    check(empty[0] == "" and empty[None] == "" and empty[""] == "", "empty lookup")
    empty.add("FIRST", 0)
    agree(empty, {"FIRST": 0}, "empty then add", PROBES)
    check(empty[0] == "FIRST" and empty[False] == "FIRST", "lookup after add")

    # insertion order is the order of the names, whatever it is
    rev = {"Z": 1, "Y": 2, "X": 3, "M": 0}
    agree(Enum(rev), rev, "reverse order", PROBES)
    agree(Enum(**rev), rev, "reverse order kw", PROBES)

    # duplicate values: the first supplied name wins
    dup = {"ONE": 1, "UNO": 1, "EINS": 1.0, "YES": True, "TWO": 2, "DOS": 2}
    d = Enum(dup)
    agree(d, dup, "duplicates", PROBES)
    check(d[1] == "ONE" and d[1.0] == "ONE" and d[True] == "ONE", "first of equals")
    check(d[2] == "TWO", "first of equals 2")
    d.remove("ONE")
    check(d[1] == "UNO", "next of equals")
    d.remove("UNO")
    check(d[1] == "EINS", "next of equals 2")
    d.add("ONE", 1)
    check(d[1] == "EINS", "re-added name goes to the back")
    d.remove("EINS")
    d.remove("YES")
    check(d[1] == "ONE" and d[True] == "ONE", "last of equals")
    d.remove("ONE")
    check(d[1] == "" and d[True] == "", "none left")
    agree(d, {"TWO": 2, "DOS": 2}, "duplicates end", PROBES)

    # all sorts of values
    names = ["V%02d" % i for i in range(len(VALUE_POOL))]
    big = dict(zip(names, VALUE_POOL))
    agree(Enum(big), big, "value pool", PROBES)
    agree(Enum(**big), big, "value pool kw", PROBES)
    nan_enum = Enum(N=NAN)
    check(nan_enum[NAN] == "", "nan is never equal")
    check(nan_enum.N is NAN, "nan kept")

    # unicode and underscore names
    odd = {"ключ": 1, "naïve": 2, "名前": 3, "_hidden": 4, "_": 5, "a__b": 6, "_x__": 7}
    agree(Enum(odd), odd, "odd names", PROBES)
    agree(Enum(**odd), odd, "odd names kw", PROBES)

    # names that look like the operations of a plain dict are ordinary names
    dictish = {"items": 1, "values": 2, "get": 3, "pop": 4, "update": 5, "name": 6}
    agree(Enum(dictish), dictish, "dictish names", PROBES)

    # many names
    many = dict(("N%04d" % i, i % 97) for i in range(3000))
    m = Enum(many)
    agree(m, many, "many")
    check(m[96] == "N0096" and m[97] == "" and m[0] == "N0000", "many lookup")
    check(m[2999] == "", "many lookup miss")

    # names hidden by the double underscore convention are stored but not listed
    hid = Enum({"__secret__": 99, "__x": 98, "SHOWN": 1})
    check(hid.keys == ["SHOWN"], "dunder names not listed")
    check(getattr(hid, "__secret__") == 99, "dunder stored")
    check(hid[99] == "" and hid[98] == "", "dunder not found by value")
    check(hid[1] == "SHOWN", "other still found")
    for internal in ("__module__", "__dict__", "__doc__", "__weakref__"):
        check(internal not in hid.keys, "internal name listed")


def test_constructor_arguments():
    bad = [
        (),
        (1, 2, 3),
        ((1, 2, 3),),
        ([("a", 1)],),
        ([],),
        (None,),
        ("abc",),
        (1,),
        (OrderedDict(a=1),),
        (types.MappingProxyType({"a": 1}),),
        ({"a": 1}, {"b": 2}),
        ({"a": 1}, {"b": 2}, {"c": 3}),
        ({"a": 1}.items(),),
        (Enum({"a": 1}),),
    ]
    for args in bad:
        ex = raises(NotSupportedArgumentError, Enum, *args)
        check(ex is not None, "constructor must refuse %r" % (args,))
        check(type(ex) is NotSupportedArgumentError, "exact exception type")
        check(
            ex.args == ("use either as dict or provide keyword arguments",),
            "exception text %r" % (ex.args,),
        )
    ex = raises(NotSupportedArgumentError, Enum, **{})
    check(ex is not None, "no keywords at all")

    # a single dict wins over keywords, keywords win over anything else
    agree(Enum({"a": 1}, b=2), {"a": 1}, "dict and kw")
    agree(Enum({}, b=2), {}, "empty dict and kw")
    agree(Enum(1, b=2), {"b": 2}, "junk and kw")
    agree(Enum({"a": 1}, {"c": 3}, b=2), {"b": 2}, "two dicts and kw")
    agree(Enum([("a", 1)], b=2, a=0), {"b": 2, "a": 0}, "list and kw")
    agree(Enum(args=1, kwargs=2, tmp=3), {"args": 1, "kwargs": 2, "tmp": 3}, "kw names")
    agree(Enum(key=1, value=2, self=3), {"key": 1, "value": 2, "self": 3}, "kw names 2")


# ---------------------------------------------------------------------------
# 2. additions and removals
# ---------------------------------------------------------------------------
def test_add_remove_errors():
    model = {"A": 1, "B": 2}
    e = Enum(model)
    ex = raises(KeyError, e.add, "A", 6)
    check(ex is not None and type(ex) is KeyError, "add existing -> KeyError")
    check(ex.args == ("key A already exist",), "add message %r" % (ex.args,))
    agree(e, model, "after refused add", PROBES)
    ex = raises(KeyError, e.add, "A", 1)
    check(ex is not None, "add existing with same value -> KeyError")
    ex = raises(KeyError, e.add, key="B", value=0)
    check(ex is not None, "add by keyword -> KeyError")
    agree(e, model, "after refused adds", PROBES)

    ex = raises(KeyError, e.remove, "Z")
    check(ex is not None and type(ex) is KeyError, "remove missing -> KeyError")
    check(isinstance(ex.__cause__, AttributeError), "remove cause")
    check(ex.__suppress_context__ is True, "remove raised from")
    check(ex.__context__ is ex.__cause__, "remove context")
    check(ex.args == ("Key %s not found" % ex.__cause__,), "remove message")
    check("Z" in ex.args[0], "remove message names the key")
    agree(e, model, "after refused remove", PROBES)
    ex = raises(KeyError, e.remove, key="a")
    check(ex is not None, "names are case sensitive")

    # nothing of the machinery can be removed through remove()
    for machinery in ("keys", "add", "remove", "__getitem__", "mro", "__name__x"):
        ex = raises(KeyError, e.remove, machinery)
        check(ex is not None, "remove %s -> KeyError" % machinery)
    agree(e, model, "after machinery removes", PROBES)
    check(callable(e.add) and callable(e.remove), "operations intact")

    # remove then remove again, add then add again
    e.remove("A")
    del model["A"]
    agree(e, model, "removed A", PROBES)
    check(raises(KeyError, e.remove, "A") is not None, "second remove refused")
    check(not hasattr(e, "A"), "attribute gone")
    check(raises(AttributeError, getattr, e, "A") is not None, "AttributeError")
    e.add("A", 10)
    model["A"] = 10
    agree(e, model, "re-added A", PROBES)
    check(raises(KeyError, e.add, "A", 11) is not None, "second add refused")
    check(e.A == 10, "refused add did not change the value")
    check(e.add("N", None) is None and e.remove("N") is None, "return values")

    # non-string names are refused by the class machinery, nothing changes
    for junk in (1, None, ("A",), 2.5, b"A"):
        check(raises(TypeError, e.add, junk, 1) is not None, "add %r" % (junk,))
        check(raises(TypeError, e.remove, junk) is not None, "remove %r" % (junk,))
    check(raises(TypeError, e.add, ["A"], 1) is not None, "add unhashable name")
    agree(e, model, "after junk names", PROBES)

    # wrong arity
    check(raises(TypeError, e.add) is not None, "add()")
    check(raises(TypeError, e.add, "Q") is not None, "add(k)")
    check(raises(TypeError, e.add, "Q", 1, 2) is not None, "add(k, v, x)")
    check(raises(TypeError, e.remove) is not None, "remove()")
    check(raises(TypeError, e.remove, "A", "B") is not None, "remove(a, b)")
    agree(e, model, "after arity errors", PROBES)

    # dunder names can be stored but never show up
    e.add("__later__", 77)
    agree(e, model, "after hidden add", PROBES)
    check(getattr(e, "__later__") == 77 and e[77] == "", "hidden add")
    e.add("__later__", 78)  # not listed, hence not refused
    check(getattr(e, "__later__") == 78, "hidden overwritten")
    e.remove("__later__")
    check(not hasattr(e, "__later__"), "hidden removed")
    check(raises(KeyError, e.remove, "__later__") is not None, "hidden gone")
    agree(e, model, "after hidden remove", PROBES)


def test_random_sequences():
    rng = random.Random(0xC18)
    for round_no in range(300):
        n0 = rng.randrange(0, 9)
        names0 = rng.sample(NAME_POOL, n0)
        model = OrderedDict((n, rng.choice(VALUE_POOL)) for n in names0)
        plain = dict(model)
        if rng.random() < 0.5 and plain:
            e = Enum(**plain)
        else:
            e = Enum(plain)
        # an independent twin that must never notice anything
        witness_model = dict(plain)
        witness = Enum(dict(plain))
        tag = "random[%d]" % round_no
        agree(e, model, tag + " start")
        for step in range(rng.randrange(5, 60)):
            op = rng.random()
            name = rng.choice(NAME_POOL)
            if op < 0.45:
                value = rng.choice(VALUE_POOL)
                if name in model:
                    ex = raises(KeyError, e.add, name, value)
                    check(ex is not None, "%s: add of existing %s" % (tag, name))
                    check(ex.args == ("key %s already exist" % name,), "add text")
                else:
                    e.add(name, value)
                    model[name] = value
            elif op < 0.85:
                if name in model:
                    e.remove(name)
                    del model[name]
                else:
                    ex = raises(KeyError, e.remove, name)
                    check(ex is not None, "%s: remove of missing %s" % (tag, name))
                    check(name in ex.args[0], "remove text")
            else:
                probe = rng.choice(VALUE_POOL + PROBES)
                check(e[probe] == model_lookup(model, probe), "%s: probe" % tag)
            if step % 7 == 0:
                agree(e, model, "%s step %d" % (tag, step), PROBES[:6])
        agree(e, model, tag + " end", PROBES)
        agree(witness, witness_model, tag + " witness", PROBES[:6])
        check(plain == witness_model, tag + " source mapping")


def test_independence():
    src = {"A": 1, "B": 2, "C": 3}
    family = [Enum(src) for _ in range(5)] + [Enum(**src) for _ in range(5)]
    models = [dict(src) for _ in family]
    check(len(set(map(id, family))) == len(family), "all distinct")
    family[0].add("D", 4)
    models[0]["D"] = 4
    family[1].remove("A")
    del models[1]["A"]
    family[2].remove("B")
    family[2].add("B", 20)
    del models[2]["B"]
    models[2]["B"] = 20
    family[7].add("A0", 1)
    models[7]["A0"] = 1
    family[8].remove("C")
    family[8].remove("A")
    family[8].remove("B")
    models[8].clear()
    for i, (e, m) in enumerate(zip(family, models)):
        agree(e, m, "family[%d]" % i, PROBES)
    check(not hasattr(family[3], "D"), "no leak of D")
    check(not hasattr(Enum, "D") and not hasattr(Enum, "A"), "no leak to Enum")
    check(Enum(X=1).keys == ["X"], "fresh enumeration is fresh")
    check(src == {"A": 1, "B": 2, "C": 3}, "source untouched")

    # mutable values are shared by reference, exactly like in a dict
    shared = [1]
    a = Enum(L=shared)
    b = Enum({"L": shared})
    check(a.L is shared and b.L is shared, "same object")
    shared.append(2)
    check(a[[1, 2]] == "L" and b[[1, 2]] == "L" and a[[1]] == "", "live value")

    # enumerations as values of enumerations
    inner = Enum(I=1)
    outer = Enum(INNER=inner, OTHER=Enum(I=1))
    check(outer[inner] == "INNER", "enum as value")
    check(outer.INNER.I == 1, "nested access")
    inner.add("J", 2)
    check(outer.OTHER.keys == ["I"], "nested independent")


# ---------------------------------------------------------------------------
# 3. the enumerations the library itself builds
# ---------------------------------------------------------------------------
def test_opcode():
    sa = {"X": 1, "Y": 2, "Z": 2}
    op1 = OpCode("FIRST", 0xA3, sa)
    op2 = OpCode("SECOND", 0xA4, sa)
    check(op1.name == "FIRST" and op1.value == 0xA3, "opcode name/value")
    check(str(op1) == "FIRST - a3" and repr(op2) == "SECOND - a4", "opcode text")
    check(isinstance(op1.serviceaction, Enum), "serviceaction is an Enum")
    check(op1.serviceaction is not op2.serviceaction, "own enumeration each")
    agree(op1.serviceaction, sa, "opcode sa", PROBES)
    op1.serviceaction.add("W", 9)
    op1.serviceaction.remove("X")
    agree(op1.serviceaction, {"Y": 2, "Z": 2, "W": 9}, "opcode sa changed", PROBES)
    agree(op2.serviceaction, sa, "other opcode sa", PROBES)
    check(sa == {"X": 1, "Y": 2, "Z": 2}, "service action table untouched")
    check(op1.serviceaction[2] == "Y" and op2.serviceaction[1] == "X", "sa lookup")
    none = OpCode("NONE", 0x00, {})
    agree(none.serviceaction, {}, "opcode no sa", PROBES)
    check(none.serviceaction[0] == "", "empty sa lookup")
    for junk in (None, [("A", 1)], 5, "abc", OrderedDict(A=1)):
        ex = raises(NotSupportedArgumentError, OpCode, "BAD", 1, junk)
        check(ex is not None, "OpCode refuses service actions %r" % (junk,))
    # positional and keyword construction
    kw = OpCode(name="KW", code=0x12, serviceaction={"A": 1})
    check((kw.name, kw.value, kw.serviceaction.keys) == ("KW", 0x12, ["A"]), "kw")
    # setters
    kw.name = "KW2"
    kw.value = 0x13
    replacement = Enum(B=2)
    kw.serviceaction = replacement
    check(kw.name == "KW2" and kw.value == 0x13, "setters")
    check(kw.serviceaction is replacement and str(kw) == "KW2 - 13", "setters 2")


def test_library_tables():
    tables = 0
    for info in pkgutil.iter_modules(pyscsi.pyscsi.__path__):
        if not info.name.startswith("scsi_enum_"):
            continue
        mod = importlib.import_module("pyscsi.pyscsi." + info.name)
        dicts = [
            v
            for v in vars(mod).values()
            if type(v) is dict and v and all(type(k) is str for k in v)
        ]
        for attr, e in sorted(vars(mod).items()):
            if not isinstance(e, Enum):
                continue
            tables += 1
            model = OrderedDict((k, getattr(e, k)) for k in e.keys)
            agree(e, model, "%s.%s" % (info.name, attr), PROBES)
            # and it is exactly one of the module's dictionaries
            same = [d for d in dicts if list(d) == e.keys]
            check(same, "%s.%s has a source table" % (info.name, attr))
            check(
                any(all(getattr(e, k) is d[k] for k in d) for d in same),
                "%s.%s equals its source table" % (info.name, attr),
            )
    check(tables >= 25, "found the library enumerations (%d)" % tables)

    # opcode tables: names, values and service actions
    for family in ("spc", "sbc", "ssc", "smc", "mmc"):
        table = getattr(scsi_enum_command, family + "_opcodes")
        e = getattr(scsi_enum_command, family)
        check(isinstance(e, Enum), "%s is an Enum" % family)
        agree(e, table, family, PROBES)
        for name, opcode in table.items():
            check(type(opcode.name) is str, "%s.%s name" % (family, name))
            check(getattr(e, name) is opcode, "%s.%s identity" % (family, name))
            check(e[opcode] == name, "%s.%s reverse" % (family, name))
            sa = opcode.serviceaction
            check(isinstance(sa, Enum), "%s.%s sa" % (family, name))
            model = OrderedDict((k, getattr(sa, k)) for k in sa.keys)
            agree(sa, model, "%s.%s sa" % (family, name), PROBES[:8])
    check(scsi_enum_command.smc.WRITE_BUFFER.value == 0x3B, "WRITE_BUFFER value")
    check(scsi_enum_command.smc.WRITE_BUFFER.name == "WRITE_BUFFER", "WRITE_BUFFER")
    pin = scsi_enum_command.spc.PERSISTENT_RESERVE_IN.serviceaction
    agree(pin, scsi_enum_command.sa_persistent_reserve_in, "pr in", PROBES)
    a3 = scsi_enum_command.spc.SPC_OPCODE_A3.serviceaction
    agree(a3, scsi_enum_command.service_actions, "a3", PROBES)
    # the same service action table gives separate enumerations per family
    pin_sbc = scsi_enum_command.sbc.PERSISTENT_RESERVE_IN.serviceaction
    check(pin is not pin_sbc, "separate sa enumerations")
    pin_sbc.add("DEMO_ONLY", 0x7F)
    check(not hasattr(pin, "DEMO_ONLY") and pin[0x7F] == "", "no leak across families")
    pin_sbc.remove("DEMO_ONLY")
    agree(pin_sbc, scsi_enum_command.sa_persistent_reserve_in, "pr in sbc", PROBES)

    from pyscsi.pyscsi import scsi_enum_inquiry as inq

    check(inq.VPD[0x80] == "UNIT_SERIAL_NUMBER", "vpd reverse")
    check(inq.VPD.UNIT_SERIAL_NUMBER == 0x80, "vpd forward")
    check(inq.DEVICE_TYPE[0x00] and inq.DEVICE_TYPE[0x7E] == "", "device type")


def main():
    test_construction()
    test_constructor_arguments()
    test_add_remove_errors()
    test_random_sequences()
    test_independence()
    test_opcode()
    test_library_tables()
    print("PASS (%d checks)" % CHECKS)
    return 0


if __name__ == "__main__":
    sys.exit(main())
