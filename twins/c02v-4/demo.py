#!/usr/bin/env python
# coding: utf-8
"""
Property C02 demo: CDB build / decode / re-encode round trips.

For every command class of the library:
  * decoding a CDB the library built returns exactly the field values it was
    built from,
  * re-encoding a decoded CDB reproduces the original bytes,
  * changing one field's value changes only that field's decoded value.

Everything is checked through the public API (command constructors, the SCSI
facade, cdb property, marshall_cdb / unmarshall_cdb, converter helpers) against
an independent bit-level reference implemented in this file and against golden
field layouts written out below.

Run:  cd /tmp/seed/C02v && PYTHONPATH=/tmp/seed/C02v /venv/bin/python SEED/demo.py
"""
import random
import sys
import types

# --- fake external bindings (not installed) --------------------------------
for _name in ("sgio", "iscsi"):
    if _name not in sys.modules:
        try:
            __import__(_name)
        except Exception:  # pragma: no cover
            sys.modules[_name] = types.ModuleType(_name)

from pyscsi.pyscsi.scsi import SCSI
from pyscsi.pyscsi.scsi_cdb_atapassthrough12 import ATAPassThrough12
from pyscsi.pyscsi.scsi_cdb_atapassthrough16 import ATAPassThrough16
from pyscsi.pyscsi.scsi_cdb_exchangemedium import ExchangeMedium
from pyscsi.pyscsi.scsi_cdb_extended_copy_spc4 import ExtendedCopy as ExtendedCopy4
from pyscsi.pyscsi.scsi_cdb_extended_copy_spc5 import ExtendedCopy as ExtendedCopy5
from pyscsi.pyscsi.scsi_cdb_getlbastatus import GetLBAStatus
from pyscsi.pyscsi.scsi_cdb_initelementstatus import InitializeElementStatus
from pyscsi.pyscsi.scsi_cdb_initelementstatuswithrange import (
    InitializeElementStatusWithRange,
)
from pyscsi.pyscsi.scsi_cdb_inquiry import Inquiry
from pyscsi.pyscsi.scsi_cdb_modesense6 import ModeSelect6, ModeSense6
from pyscsi.pyscsi.scsi_cdb_modesense10 import ModeSelect10, ModeSense10
from pyscsi.pyscsi.scsi_cdb_movemedium import MoveMedium
from pyscsi.pyscsi.scsi_cdb_openclose_exportimport_element import (
    OpenCloseImportExportElement,
)
from pyscsi.pyscsi.scsi_cdb_persistentreservein import (
    PersistentReserveIn,
    PersistentReserveInReadFullStatus,
    PersistentReserveInReadKeys,
    PersistentReserveInReadReservation,
    PersistentReserveInReportCapabilities,
)
from pyscsi.pyscsi.scsi_cdb_persistentreserveout import PersistentReserveOut
from pyscsi.pyscsi.scsi_cdb_positiontoelement import PositionToElement
from pyscsi.pyscsi.scsi_cdb_preventallow_mediumremoval import PreventAllowMediumRemoval
from pyscsi.pyscsi.scsi_cdb_read10 import Read10
from pyscsi.pyscsi.scsi_cdb_read12 import Read12
from pyscsi.pyscsi.scsi_cdb_read16 import Read16
from pyscsi.pyscsi.scsi_cdb_readcapacity10 import ReadCapacity10
from pyscsi.pyscsi.scsi_cdb_readcapacity16 import ReadCapacity16
from pyscsi.pyscsi.scsi_cdb_readcd import ReadCd
from pyscsi.pyscsi.scsi_cdb_readdiscinformation import ReadDiscInformation
from pyscsi.pyscsi.scsi_cdb_readelementstatus import ReadElementStatus
from pyscsi.pyscsi.scsi_cdb_report_luns import ReportLuns
from pyscsi.pyscsi.scsi_cdb_report_priority import ReportPriority
from pyscsi.pyscsi.scsi_cdb_report_target_port_groups import ReportTargetPortGroups
from pyscsi.pyscsi.scsi_cdb_synchronize_cache10 import SynchronizeCache10
from pyscsi.pyscsi.scsi_cdb_synchronize_cache16 import SynchronizeCache16
from pyscsi.pyscsi.scsi_cdb_testunitready import TestUnitReady
from pyscsi.pyscsi.scsi_cdb_write10 import Write10
from pyscsi.pyscsi.scsi_cdb_write12 import Write12
from pyscsi.pyscsi.scsi_cdb_write16 import Write16
from pyscsi.pyscsi.scsi_cdb_writesame10 import WriteSame10
from pyscsi.pyscsi.scsi_cdb_writesame16 import WriteSame16
from pyscsi.pyscsi.scsi_command import SCSICommand
from pyscsi.pyscsi.scsi_enum_command import mmc, sbc, smc, spc, ssc
from pyscsi.utils.converter import (
    decode_bits,
    encode_dict,
    get_opcode,
    scsi_ba_to_int,
    scsi_int_to_ba,
)

RNG = random.Random(0xC02)
CHECKS = 0
FAILURES = []


def check(cond, msg):
    global CHECKS
    CHECKS += 1
    if not cond:
        FAILURES.append(msg)
        if len(FAILURES) > 40:
            finish()


def finish():
    if FAILURES:
        for f in FAILURES[:40]:
            print("FAIL:", f)
        print("FAIL (%d failures / %d checks)" % (len(FAILURES), CHECKS))
        sys.exit(1)
    print("PASS (%d checks)" % CHECKS)
    sys.exit(0)


# ---------------------------------------------------------------------------
# Independent bit level reference
# ---------------------------------------------------------------------------
def mask_geometry(mask):
    """(number of bytes the mask spans, number of trailing zero bits)"""
    nbytes = 1
    while mask >> (8 * nbytes):
        nbytes += 1
    shift = 0
    while not (mask >> shift) & 1:
        shift += 1
    return nbytes, shift


def ref_encode(layout, values, size):
    """What the library documents: shift value under the mask and fold it in."""
    out = [0] * size
    for name, value in values.items():
        if name not in layout:
            continue
        mask, pos = layout[name]
        nbytes, shift = mask_geometry(mask)
        v = (value << shift) % (1 << (8 * nbytes))
        for i in range(nbytes):
            out[pos + i] ^= (v >> (8 * (nbytes - 1 - i))) & 0xFF
    return bytearray(out)


def ref_decode(layout, raw):
    res = {}
    for name, (mask, pos) in layout.items():
        nbytes, shift = mask_geometry(mask)
        v = 0
        for b in raw[pos : pos + nbytes]:
            v = v * 256 + b
        res[name] = (v & mask) >> shift
    return res


def coverage(layout, size):
    """bytes with a 1 on every bit position covered by some field"""
    cov = [0] * size
    for mask, pos in layout.values():
        nbytes, _ = mask_geometry(mask)
        for i in range(nbytes):
            cov[pos + i] |= (mask >> (8 * (nbytes - 1 - i))) & 0xFF
    return cov


def field_max(mask):
    _, shift = mask_geometry(mask)
    return mask >> shift


def cdb_size(opcode_value):
    if opcode_value <= 0x1F:
        return 6
    if 0x20 <= opcode_value <= 0x5F:
        return 10
    if 0x80 <= opcode_value <= 0x9F:
        return 16
    if 0xA0 <= opcode_value <= 0xBF:
        return 12
    raise AssertionError("no cdb size for %#x" % opcode_value)


def ata12_lba(lba):
    return ((lba & 0xFF) << 16) | (((lba >> 8) & 0xFF) << 8) | ((lba >> 16) & 0xFF)


def ata16_lba(lba):
    b = [(lba >> (8 * i)) & 0xFF for i in range(6)]
    return (b[0] << 32) | (b[1] << 16) | b[2] | (b[3] << 40) | (b[4] << 24) | (b[5] << 8)


# ---------------------------------------------------------------------------
# Golden layouts (field -> (mask, first byte)), written out independently of
# the library tables.
# ---------------------------------------------------------------------------
RW10 = {"lba": (0xFFFFFFFF, 2), "group": (0x1F, 6)}
RW12 = {"lba": (0xFFFFFFFF, 2), "group": (0x1F, 10)}
RW16 = {"lba": (0xFFFFFFFFFFFFFFFF, 2), "group": (0x1F, 14)}
RDFLAGS = {
    "opcode": (0xFF, 0),
    "rdprotect": (0xE0, 1),
    "dpo": (0x10, 1),
    "fua": (0x08, 1),
    "rarc": (0x04, 1),
}
WRFLAGS = {"opcode": (0xFF, 0), "wrprotect": (0xE0, 1), "dpo": (0x10, 1), "fua": (0x08, 1)}
WSFLAGS = {
    "opcode": (0xFF, 0),
    "wrprotect": (0xE0, 1),
    "anchor": (0x10, 1),
    "unmap": (0x08, 1),
}
PRIN = {"opcode": (0xFF, 0), "service_action": (0x1F, 1), "alloc_len": (0xFFFF, 7)}

LAYOUT = {
    "ATAPassThrough12": {
        "opcode": (0xFF, 0),
        "protocol": (0x1E, 1),
        "t_length": (0x03, 2),
        "byte_block": (0x04, 2),
        "t_dir": (0x08, 2),
        "t_type": (0x10, 2),
        "ck_cond": (0x20, 2),
        "off_line": (0xC0, 2),
        "fetures": (0xFF, 3),
        "count": (0xFF, 4),
        "lba": (0xFFFFFF, 5),
        "device": (0xFF, 8),
        "command": (0xFF, 9),
        "control": (0xFF, 11),
    },
    "ATAPassThrough16": {
        "opcode": (0xFF, 0),
        "extend": (0x01, 1),
        "protocol": (0x1E, 1),
        "t_length": (0x03, 2),
        "byte_block": (0x04, 2),
        "t_dir": (0x08, 2),
        "t_type": (0x10, 2),
        "ck_cond": (0x20, 2),
        "off_line": (0xC0, 2),
        "fetures": (0xFFFF, 3),
        "count": (0xFFFF, 5),
        "lba": (0xFFFFFFFFFFFF, 7),
        "device": (0xFF, 13),
        "command": (0xFF, 14),
        "control": (0xFF, 15),
    },
    "ExchangeMedium": {
        "opcode": (0xFF, 0),
        "medium_transport_address": (0xFFFF, 2),
        "source_address": (0xFFFF, 4),
        "first_destination_address": (0xFFFF, 6),
        "second_destination_address": (0xFFFF, 8),
        "inv2": (0x01, 10),
        "inv1": (0x02, 10),
    },
    "ExtendedCopy4": {
        "opcode": (0xFF, 0),
        "service_action": (0x1F, 1),
        "parameter_list_length": (0xFFFFFFFF, 10),
    },
    "ExtendedCopy5": {
        "opcode": (0xFF, 0),
        "service_action": (0x1F, 1),
        "parameter_list_length": (0xFFFFFFFF, 10),
    },
    "GetLBAStatus": {
        "opcode": (0xFF, 0),
        "service_action": (0x1F, 1),
        "lba": (0xFFFFFFFFFFFFFFFF, 2),
        "alloc_len": (0xFFFFFFFF, 10),
    },
    "InitializeElementStatus": {"opcode": (0xFF, 0)},
    "InitializeElementStatusWithRange": {
        "opcode": (0xFF, 0),
        "fast": (0x02, 1),
        "range": (0x01, 1),
        "starting_element_address": (0xFFFF, 2),
        "number_of_elements": (0xFFFF, 6),
    },
    "Inquiry": {
        "opcode": (0xFF, 0),
        "evpd": (0x01, 1),
        "page_code": (0xFF, 2),
        "alloc_len": (0xFFFF, 3),
    },
    "ModeSense6": {
        "opcode": (0xFF, 0),
        "dbd": (0x08, 1),
        "pc": (0xC0, 2),
        "page_code": (0x3F, 2),
        "sub_page_code": (0xFF, 3),
        "alloc_len": (0xFF, 4),
    },
    "ModeSelect6": {
        "opcode": (0xFF, 0),
        "pf": (0x10, 1),
        "sp": (0x01, 1),
        "parameter_list_length": (0xFF, 4),
    },
    "ModeSense10": {
        "opcode": (0xFF, 0),
        "dbd": (0x08, 1),
        "llbaa": (0x10, 1),
        "pc": (0xC0, 2),
        "page_code": (0x3F, 2),
        "sub_page_code": (0xFF, 3),
        "alloc_len": (0xFFFF, 7),
    },
    "ModeSelect10": {
        "opcode": (0xFF, 0),
        "pf": (0x10, 1),
        "sp": (0x01, 1),
        "parameter_list_length": (0xFFFF, 7),
    },
    "MoveMedium": {
        "opcode": (0xFF, 0),
        "medium_transport_address": (0xFFFF, 2),
        "source_address": (0xFFFF, 4),
        "destination_address": (0xFFFF, 6),
        "invert": (0x01, 10),
    },
    "OpenCloseImportExportElement": {
        "opcode": (0xFF, 0),
        "element_address": (0xFFFF, 2),
        "action_code": (0x1F, 4),
    },
    "PersistentReserveIn": PRIN,
    "PersistentReserveInReadKeys": PRIN,
    "PersistentReserveInReadReservation": PRIN,
    "PersistentReserveInReportCapabilities": PRIN,
    "PersistentReserveInReadFullStatus": PRIN,
    "PersistentReserveOut": {
        "opcode": (0xFF, 0),
        "service_action": (0x1F, 1),
        "scope": (0xF0, 2),
        "pr_type": (0x0F, 2),
        "parameter_list_length": (0xFFFFFFFF, 5),
    },
    "PositionToElement": {
        "opcode": (0xFF, 0),
        "medium_transport_address": (0xFFFF, 2),
        "destination_address": (0xFFFF, 4),
        "invert": (0x01, 8),
    },
    "PreventAllowMediumRemoval": {"opcode": (0xFF, 0), "prevent": (0x03, 4)},
    "Read10": dict(RDFLAGS, tl=(0xFFFF, 7), **RW10),
    "Read12": dict(RDFLAGS, tl=(0xFFFFFFFF, 6), **RW12),
    "Read16": dict(RDFLAGS, tl=(0xFFFFFFFF, 10), **RW16),
    "ReadCapacity10": {"opcode": (0xFF, 0)},
    "ReadCapacity16": {
        "opcode": (0xFF, 0),
        "service_action": (0x1F, 1),
        "alloc_len": (0xFFFFFFFF, 10),
    },
    "ReadCd": {
        "opcode": (0xFF, 0),
        "est": (0x1C, 1),
        "dap": (0x02, 1),
        "lba": (0xFFFFFFFF, 2),
        "tl": (0xFFFFFF, 6),
        "mcsb": (0xF8, 9),
        "c2ei": (0x06, 9),
        "scsb": (0x07, 10),
    },
    "ReadDiscInformation": {
        "opcode": (0xFF, 0),
        "data_type": (0x07, 1),
        "alloc_len": (0xFFFF, 7),
    },
    "ReadElementStatus": {
        "opcode": (0xFF, 0),
        "voltag": (0x10, 1),
        "element_type": (0x0F, 1),
        "starting_element_address": (0xFFFF, 2),
        "num_elements": (0xFFFF, 4),
        "curdata": (0x02, 6),
        "dvcid": (0x01, 6),
        "alloc_len": (0xFFFFFF, 7),
    },
    "ReportLuns": {
        "opcode": (0xFF, 0),
        "select_report": (0xFF, 2),
        "alloc_len": (0xFFFFFFFF, 6),
    },
    "ReportPriority": {
        "opcode": (0xFF, 0),
        "service_action": (0x1F, 1),
        "priority_reported": (0xC0, 2),
        "alloc_len": (0xFFFFFFFF, 6),
    },
    "ReportTargetPortGroups": {
        "opcode": (0xFF, 0),
        "service_action": (0x1F, 1),
        "parameter_data_format": (0xE0, 1),
        "alloc_len": (0xFFFFFFFF, 6),
    },
    "SynchronizeCache10": {
        "opcode": (0xFF, 0),
        "immed": (0x02, 1),
        "lba": (0xFFFFFFFF, 2),
        "group": (0x1F, 6),
        "numblks": (0xFFFF, 7),
    },
    "SynchronizeCache16": {
        "opcode": (0xFF, 0),
        "immed": (0x02, 1),
        "lba": (0xFFFFFFFFFFFFFFFF, 2),
        "numblks": (0xFFFFFFFF, 10),
        "group": (0x1F, 14),
    },
    "TestUnitReady": {"opcode": (0xFF, 0)},
    "Write10": dict(WRFLAGS, tl=(0xFFFF, 7), **RW10),
    "Write12": dict(WRFLAGS, tl=(0xFFFFFFFF, 6), **RW12),
    "Write16": dict(WRFLAGS, tl=(0xFFFFFFFF, 10), **RW16),
    "WriteSame10": dict(WSFLAGS, nb=(0xFFFF, 7), **RW10),
    "WriteSame16": dict(WSFLAGS, ndob=(0x01, 1), nb=(0xFFFFFFFF, 10), **RW16),
}


# ---------------------------------------------------------------------------
# Command specifications
# ---------------------------------------------------------------------------
class Spec:
    """
    name     key into LAYOUT
    cls      the command class
    opcode   an OpCode object
    build    callable(fields dict) -> command instance
    samples  {cdb field: [values the constructor is fed with]} (first = base)
    fixed    {cdb field: value} decoded fields that do not come from an argument
    expect   optional callable(field, value) -> decoded value
    derived  optional callable(cmd) -> {field: value} decoded fields that
             depend on the instance (lengths of marshalled parameter data)
    """

    def __init__(self, name, cls, opcode, build, samples, fixed=None, expect=None,
                 derived=None):
        self.name = name
        self.cls = cls
        self.opcode = opcode
        self.build = build
        self.samples = samples
        self.fixed = dict(fixed or {})
        self.fixed["opcode"] = opcode.value
        self.expect = expect or (lambda field, value: value)
        self.derived = derived or (lambda cmd: {})
        self.layout = LAYOUT[name]
        self.size = cdb_size(opcode.value)


def bits(n):
    """sample values for an n bit field: zero, one, max, patterns"""
    top = (1 << n) - 1
    vals = [0, 1, top, top >> 1, (top >> 1) + 1, 0x5555555555555555 & top,
            0xAAAAAAAAAAAAAAAA & top, 0x0123456789ABCDEF & top, 0xFEDCBA9876543210 & top]
    out = []
    for v in vals:
        if v not in out:
            out.append(v)
    return out


def alloc(n, cap=0x01020304):
    """sample values for an n bit allocation length (memory is really allocated)"""
    return [v for v in bits(n) if v <= cap] + ([cap] if (1 << n) > cap else [])


A3 = next(get_opcode(spc, "A3"))
SBC_A3 = next(get_opcode(sbc, "A3"))
SBC_9E = next(get_opcode(sbc, "9E"))
PRIN_OP = spc.PERSISTENT_RESERVE_IN
PROUT_OP = spc.PERSISTENT_RESERVE_OUT


def ata_args(f):
    return dict(
        protocal=f["protocol"],
        t_length=f["t_length"],
        byte_block=f["byte_block"],
        t_dir=f["t_dir"],
        t_type=f["t_type"],
        off_line=f["off_line"],
        fetures=f["fetures"],
        count=f["count"],
        lba=f["lba"],
        command=f["command"],
        blocksize=1,
        ck_cond=f["ck_cond"],
        device=f["device"],
        control=f["control"],
    )


def ata_samples(wide):
    n = 16 if wide else 8
    return {
        "protocol": bits(4),
        "t_length": [0, 1, 2, 3],
        "byte_block": [0, 1],
        "t_dir": [0, 1],
        "t_type": [0, 1],
        "ck_cond": [0, 1],
        "off_line": [0, 1, 2, 3],
        "fetures": bits(n),
        "count": bits(n),
        "lba": bits(48 if wide else 24) + [0x010203040506 if wide else 0x010203],
        "device": bits(8),
        "command": bits(8),
        "control": bits(8),
    }


MODE_DATA = [
    {"mode_pages": []},
    {
        "medium_type": 3,
        "mode_pages": [{"ps": 1, "spf": 0, "page_code": 0x0A, "tst": 1, "qerr": 2}],
    },
    {
        "mode_pages": [
            {"ps": 0, "spf": 0, "page_code": 0x0A},
            {"ps": 0, "spf": 0, "page_code": 0x02, "buffer_full_ratio": 7},
        ],
    },
]

PROUT_KW = [
    {},
    {"reservation_key": 0xDEADBEEF, "service_action_reservation_key": 0xABCDEFAABBCCDDEE},
    {"spec_i_pt": 1, "aptpl": 1},
]


def make_specs():
    S = []

    def rw(name, cls, op, lba_bits, tl_bits, read):
        if read:
            S.append(Spec(
                name, cls, op,
                lambda f, cls=cls, op=op: cls(
                    op, 1, f["lba"], f["tl"], rdprotect=f["rdprotect"], dpo=f["dpo"],
                    fua=f["fua"], rarc=f["rarc"], group=f["group"]),
                {"lba": bits(lba_bits), "tl": alloc(tl_bits), "rdprotect": bits(3),
                 "dpo": [0, 1], "fua": [0, 1], "rarc": [0, 1], "group": bits(5)},
            ))
        else:
            S.append(Spec(
                name, cls, op,
                lambda f, cls=cls, op=op: cls(
                    op, 1, f["lba"], f["tl"], bytearray(b"\xa5" * 3),
                    wrprotect=f["wrprotect"], dpo=f["dpo"], fua=f["fua"],
                    group=f["group"]),
                {"lba": bits(lba_bits), "tl": alloc(tl_bits), "wrprotect": bits(3),
                 "dpo": [0, 1], "fua": [0, 1], "group": bits(5)},
            ))

    rw("Read10", Read10, sbc.READ_10, 32, 16, True)
    rw("Read12", Read12, sbc.READ_12, 32, 32, True)
    rw("Read16", Read16, sbc.READ_16, 64, 32, True)
    rw("Write10", Write10, sbc.WRITE_10, 32, 16, False)
    rw("Write12", Write12, sbc.WRITE_12, 32, 32, False)
    rw("Write16", Write16, sbc.WRITE_16, 64, 32, False)
    # the same classes are used with the mmc / ssc opcode tables
    rw("Read10", Read10, mmc.READ_10, 32, 16, True)
    rw("Read16", Read16, ssc.READ_16, 64, 32, True)

    S.append(Spec(
        "WriteSame10", WriteSame10, sbc.WRITE_SAME_10,
        lambda f: WriteSame10(sbc.WRITE_SAME_10, 512, f["lba"], f["nb"], bytearray(512),
                              wrprotect=f["wrprotect"], anchor=f["anchor"],
                              unmap=f["unmap"], group=f["group"]),
        {"lba": bits(32), "nb": bits(16), "wrprotect": bits(3), "anchor": [0, 1],
         "unmap": [0, 1], "group": bits(5)},
    ))
    S.append(Spec(
        "WriteSame16", WriteSame16, sbc.WRITE_SAME_16,
        lambda f: WriteSame16(sbc.WRITE_SAME_16, 512, f["lba"], f["nb"], bytearray(512),
                              wrprotect=f["wrprotect"], anchor=f["anchor"],
                              unmap=f["unmap"], ndob=f["ndob"], group=f["group"]),
        {"lba": bits(64), "nb": bits(32), "wrprotect": bits(3), "anchor": [0, 1],
         "unmap": [0, 1], "ndob": [0, 1], "group": bits(5)},
    ))
    S.append(Spec(
        "SynchronizeCache10", SynchronizeCache10, sbc.SYNCHRONIZE_CACHE_10,
        lambda f: SynchronizeCache10(sbc.SYNCHRONIZE_CACHE_10, f["lba"], f["numblks"],
                                     immed=f["immed"], group=f["group"]),
        {"lba": bits(32), "numblks": bits(16), "immed": [0, 1], "group": bits(5)},
    ))
    S.append(Spec(
        "SynchronizeCache16", SynchronizeCache16, sbc.SYNCHRONIZE_CACHE_16,
        lambda f: SynchronizeCache16(sbc.SYNCHRONIZE_CACHE_16, f["lba"], f["numblks"],
                                     immed=f["immed"], group=f["group"]),
        {"lba": bits(64), "numblks": bits(32), "immed": [0, 1], "group": bits(5)},
    ))
    S.append(Spec(
        "ReadCapacity10", ReadCapacity10, sbc.READ_CAPACITY_10,
        lambda f: ReadCapacity10(sbc.READ_CAPACITY_10), {},
    ))
    S.append(Spec(
        "ReadCapacity16", ReadCapacity16, SBC_9E,
        lambda f: ReadCapacity16(SBC_9E, alloclen=f["alloc_len"]),
        {"alloc_len": [32] + alloc(32)},
        fixed={"service_action": SBC_9E.serviceaction.READ_CAPACITY_16},
    ))
    S.append(Spec(
        "GetLBAStatus", GetLBAStatus, SBC_9E,
        lambda f: GetLBAStatus(SBC_9E, f["lba"], alloclen=f["alloc_len"]),
        {"lba": bits(64), "alloc_len": [16384] + alloc(32)},
        fixed={"service_action": SBC_9E.serviceaction.GET_LBA_STATUS},
    ))
    S.append(Spec(
        "TestUnitReady", TestUnitReady, spc.TEST_UNIT_READY,
        lambda f: TestUnitReady(spc.TEST_UNIT_READY), {},
    ))
    S.append(Spec(
        "Inquiry", Inquiry, spc.INQUIRY,
        lambda f: Inquiry(spc.INQUIRY, evpd=f["evpd"], page_code=f["page_code"],
                          alloclen=f["alloc_len"]),
        {"evpd": [0, 1], "page_code": bits(8) + [0x80, 0x83, 0xB0], "alloc_len": [96] + bits(16)},
    ))
    S.append(Spec(
        "ModeSense6", ModeSense6, spc.MODE_SENSE_6,
        lambda f: ModeSense6(spc.MODE_SENSE_6, f["page_code"],
                             sub_page_code=f["sub_page_code"], dbd=f["dbd"], pc=f["pc"],
                             alloclen=f["alloc_len"]),
        {"page_code": bits(6), "sub_page_code": bits(8), "dbd": [0, 1], "pc": [0, 1, 2, 3],
         "alloc_len": [96] + bits(8)},
    ))
    S.append(Spec(
        "ModeSense10", ModeSense10, spc.MODE_SENSE_10,
        lambda f: ModeSense10(spc.MODE_SENSE_10, f["page_code"],
                              sub_page_code=f["sub_page_code"], llbaa=f["llbaa"],
                              dbd=f["dbd"], pc=f["pc"], alloclen=f["alloc_len"]),
        {"page_code": bits(6), "sub_page_code": bits(8), "llbaa": [0, 1], "dbd": [0, 1],
         "pc": [0, 1, 2, 3], "alloc_len": [96] + bits(16)},
    ))
    for data in MODE_DATA:
        S.append(Spec(
            "ModeSelect6", ModeSelect6, spc.MODE_SELECT_6,
            lambda f, data=data: ModeSelect6(spc.MODE_SELECT_6, data, pf=f["pf"], sp=f["sp"]),
            {"pf": [1, 0], "sp": [0, 1]},
            derived=lambda cmd: {"parameter_list_length": len(cmd.dataout)},
        ))
        S.append(Spec(
            "ModeSelect10", ModeSelect10, spc.MODE_SELECT_10,
            lambda f, data=data: ModeSelect10(spc.MODE_SELECT_10, data, pf=f["pf"], sp=f["sp"]),
            {"pf": [1, 0], "sp": [0, 1]},
            derived=lambda cmd: {"parameter_list_length": len(cmd.dataout)},
        ))
    S.append(Spec(
        "PreventAllowMediumRemoval", PreventAllowMediumRemoval,
        spc.PREVENT_ALLOW_MEDIUM_REMOVAL,
        lambda f: PreventAllowMediumRemoval(spc.PREVENT_ALLOW_MEDIUM_REMOVAL,
                                            prevent=f["prevent"]),
        {"prevent": [0, 1, 2, 3]},
    ))
    S.append(Spec(
        "ReportLuns", ReportLuns, spc.REPORT_LUNS,
        lambda f: ReportLuns(spc.REPORT_LUNS, report=f["select_report"],
                             alloclen=f["alloc_len"]),
        {"select_report": bits(8), "alloc_len": [96] + alloc(32)},
    ))
    S.append(Spec(
        "ReportPriority", ReportPriority, A3,
        lambda f: ReportPriority(A3, priority=f["priority_reported"],
                                 alloclen=f["alloc_len"]),
        {"priority_reported": [0, 1, 2, 3], "alloc_len": [16384] + alloc(32)},
        fixed={"service_action": A3.serviceaction.REPORT_PRIORITY},
    ))
    S.append(Spec(
        "ReportTargetPortGroups", ReportTargetPortGroups, SBC_A3,
        lambda f: ReportTargetPortGroups(SBC_A3, data_format=f["parameter_data_format"],
                                         alloclen=f["alloc_len"]),
        {"parameter_data_format": bits(3), "alloc_len": [16384] + alloc(32)},
        fixed={"service_action": SBC_A3.serviceaction.REPORT_TARGET_PORT_GROUPS},
    ))
    S.append(Spec(
        "PersistentReserveIn", PersistentReserveIn, PRIN_OP,
        lambda f: PersistentReserveIn(PRIN_OP, f["service_action"], alloclen=f["alloc_len"]),
        {"service_action": bits(5), "alloc_len": [1024] + bits(16)},
    ))
    for name, cls, sa in (
        ("PersistentReserveInReadKeys", PersistentReserveInReadKeys, "READ_KEYS"),
        ("PersistentReserveInReadReservation", PersistentReserveInReadReservation,
         "READ_RESERVATION"),
        ("PersistentReserveInReportCapabilities", PersistentReserveInReportCapabilities,
         "REPORT_CAPABILITIES"),
        ("PersistentReserveInReadFullStatus", PersistentReserveInReadFullStatus,
         "READ_FULL_STATUS"),
    ):
        S.append(Spec(
            name, cls, PRIN_OP,
            lambda f, cls=cls: cls(PRIN_OP, alloclen=f["alloc_len"]),
            {"alloc_len": [1024] + bits(16)},
            fixed={"service_action": getattr(PRIN_OP.serviceaction, sa)},
        ))
    for kw in PROUT_KW:
        S.append(Spec(
            "PersistentReserveOut", PersistentReserveOut, PROUT_OP,
            lambda f, kw=kw: PersistentReserveOut(PROUT_OP, f["service_action"],
                                                  scope=f["scope"], pr_type=f["pr_type"],
                                                  **kw),
            # service actions that all take the basic 24 byte parameter list
            {"service_action": [1, 2, 3, 4, 5, 6, 8, 0x1F], "scope": bits(4),
             "pr_type": bits(4)},
            derived=lambda cmd: {"parameter_list_length": len(cmd.dataout)},
        ))
    S.append(Spec(
        "ExtendedCopy4", ExtendedCopy4, spc.EXTENDED_COPY,
        lambda f: ExtendedCopy4(spc.EXTENDED_COPY, list_identifier=f["_li"],
                                priority=f["_prio"], inline_data=bytearray(f["_inline"])),
        {"_li": [0, 0x34], "_prio": [0, 1], "_inline": [0, 5, 300]},
        fixed={"service_action": 0},
        derived=lambda cmd: {"parameter_list_length": len(cmd.dataout)},
    ))
    S.append(Spec(
        "ExtendedCopy5", ExtendedCopy5, spc.EXTENDED_COPY,
        lambda f: ExtendedCopy5(spc.EXTENDED_COPY, list_identifier=f["_li"],
                                priority=f["_prio"], inline_data=bytearray(f["_inline"])),
        {"_li": [0, 0x34], "_prio": [0, 1], "_inline": [0, 5, 300]},
        fixed={"service_action": 1},
        derived=lambda cmd: {"parameter_list_length": len(cmd.dataout)},
    ))
    # media changer
    S.append(Spec(
        "ExchangeMedium", ExchangeMedium, smc.EXCHANGE_MEDIUM,
        lambda f: ExchangeMedium(smc.EXCHANGE_MEDIUM, f["medium_transport_address"],
                                 f["source_address"], f["first_destination_address"],
                                 f["second_destination_address"], inv1=f["inv1"],
                                 inv2=f["inv2"]),
        {"medium_transport_address": bits(16), "source_address": bits(16),
         "first_destination_address": bits(16), "second_destination_address": bits(16),
         "inv1": [0, 1], "inv2": [0, 1]},
    ))
    S.append(Spec(
        "InitializeElementStatus", InitializeElementStatus, smc.INITIALIZE_ELEMENT_STATUS,
        lambda f: InitializeElementStatus(smc.INITIALIZE_ELEMENT_STATUS), {},
    ))
    S.append(Spec(
        "InitializeElementStatusWithRange", InitializeElementStatusWithRange,
        smc.INITIALIZE_ELEMENT_STATUS_WITH_RANGE,
        lambda f: InitializeElementStatusWithRange(
            smc.INITIALIZE_ELEMENT_STATUS_WITH_RANGE, f["starting_element_address"],
            f["number_of_elements"], rng=f["range"], fast=f["fast"]),
        {"starting_element_address": bits(16), "number_of_elements": bits(16),
         "range": [0, 1], "fast": [0, 1]},
    ))
    S.append(Spec(
        "MoveMedium", MoveMedium, smc.MOVE_MEDIUM,
        lambda f: MoveMedium(smc.MOVE_MEDIUM, f["medium_transport_address"],
                             f["source_address"], f["destination_address"],
                             invert=f["invert"]),
        {"medium_transport_address": bits(16), "source_address": bits(16),
         "destination_address": bits(16), "invert": [0, 1]},
    ))
    S.append(Spec(
        "OpenCloseImportExportElement", OpenCloseImportExportElement,
        smc.OPEN_CLOSE_IMPORT_EXPORT_ELEMENT,
        lambda f: OpenCloseImportExportElement(smc.OPEN_CLOSE_IMPORT_EXPORT_ELEMENT,
                                               f["element_address"], f["action_code"]),
        {"element_address": bits(16), "action_code": bits(5)},
    ))
    S.append(Spec(
        "PositionToElement", PositionToElement, smc.POSITION_TO_ELEMENT,
        lambda f: PositionToElement(smc.POSITION_TO_ELEMENT, f["medium_transport_address"],
                                    f["destination_address"], invert=f["invert"]),
        {"medium_transport_address": bits(16), "destination_address": bits(16),
         "invert": [0, 1]},
    ))
    S.append(Spec(
        "ReadElementStatus", ReadElementStatus, smc.READ_ELEMENT_STATUS,
        lambda f: ReadElementStatus(smc.READ_ELEMENT_STATUS, f["starting_element_address"],
                                    f["num_elements"], element_type=f["element_type"],
                                    voltag=f["voltag"], curdata=f["curdata"],
                                    dvcid=f["dvcid"], alloclen=f["alloc_len"]),
        {"starting_element_address": bits(16), "num_elements": bits(16),
         "element_type": bits(4), "voltag": [0, 1], "curdata": [1, 0], "dvcid": [0, 1],
         "alloc_len": [16384] + bits(24)},
    ))
    # multimedia
    S.append(Spec(
        "ReadCd", ReadCd, mmc.READ_CD,
        lambda f: ReadCd(mmc.READ_CD, lba=f["lba"], tl=f["tl"], est=f["est"], dap=f["dap"],
                         mcsb=f["mcsb"], c2ei=f["c2ei"], scsb=f["scsb"]),
        {"lba": bits(32), "tl": [0, 1, 2, 0x155, 0x2AA, 0x1234], "est": bits(3),
         "dap": [0, 1], "mcsb": bits(5), "c2ei": [0, 1, 2, 3], "scsb": bits(3)},
    ))
    S.append(Spec(
        "ReadDiscInformation", ReadDiscInformation, mmc.READ_DISC_INFORMATION,
        lambda f: ReadDiscInformation(mmc.READ_DISC_INFORMATION, f["data_type"],
                                      alloc_len=f["alloc_len"]),
        {"data_type": bits(3), "alloc_len": [4096] + bits(16)},
    ))
    # ATA pass through
    S.append(Spec(
        "ATAPassThrough12", ATAPassThrough12, sbc.ATA_PASS_THROUGH_12,
        lambda f: ATAPassThrough12(sbc.ATA_PASS_THROUGH_12, **ata_args(f)),
        ata_samples(False),
        expect=lambda field, v: ata12_lba(v) if field == "lba" else v,
    ))
    S.append(Spec(
        "ATAPassThrough16", ATAPassThrough16, sbc.ATA_PASS_THROUGH_16,
        lambda f: ATAPassThrough16(sbc.ATA_PASS_THROUGH_16, extend=f["extend"],
                                   **ata_args(f)),
        dict(ata_samples(True), extend=[1, 0]),
        expect=lambda field, v: ata16_lba(v) if field == "lba" else v,
    ))
    return S


# ---------------------------------------------------------------------------
# Checks
# ---------------------------------------------------------------------------
def expected_decode(spec, fields, cmd):
    exp = dict(spec.fixed)
    for field, value in fields.items():
        if not field.startswith("_"):
            exp[field] = spec.expect(field, value)
    exp.update(spec.derived(cmd))
    return exp


def check_instance(spec, fields, tag):
    """build one command and check decode / re-encode; returns (cdb, decoded)"""
    cmd = spec.build(fields)
    where = "%s[%s] %r" % (spec.name, tag, fields)
    cdb = cmd.cdb
    check(isinstance(cmd, spec.cls) and isinstance(cmd, SCSICommand), where + ": class")
    check(isinstance(cdb, bytearray), where + ": cdb is a bytearray")
    check(len(cdb) == spec.size, where + ": cdb length %d" % len(cdb))
    check(cmd.opcode is spec.opcode, where + ": opcode property")
    check(cdb[0] == spec.opcode.value, where + ": opcode byte")

    exp = expected_decode(spec, fields, cmd)
    check(set(exp) == set(spec.layout), where + ": demo spec covers all fields")

    # 1. decoding returns the values the CDB was built from
    dec = cmd.unmarshall_cdb(cdb)
    check(dec == exp, where + ": decoded %r expected %r" % (dec, exp))
    check(all(type(v) is int for v in dec.values()), where + ": decoded ints")
    check(spec.cls.unmarshall_cdb(cdb) == exp, where + ": decode via class")
    check(SCSICommand.unmarshall_cdb(bytes(cdb)) == exp, where + ": decode bytes")
    check(dec == ref_decode(spec.layout, cdb), where + ": decode vs reference")

    # bytes are what the golden layout says
    ref = ref_encode(spec.layout, exp, spec.size)
    check(cdb == ref, where + ": cdb %s reference %s" % (cdb.hex(), ref.hex()))

    # 2. re-encoding reproduces the bytes
    again = spec.cls.marshall_cdb(dec)
    check(isinstance(again, bytearray), where + ": marshall type")
    check(again == cdb, where + ": re-encoded %s != %s" % (again.hex(), cdb.hex()))
    check(again is not cdb, where + ": marshall returns a fresh buffer")
    check(cmd.marshall_cdb(dict(reversed(list(dec.items())))) == cdb,
          where + ": re-encode independent of key order")
    check(spec.cls.unmarshall_cdb(again) == dec, where + ": decode(encode(decode))")
    check(cmd.build_cdb(**dec) == cdb, where + ": build_cdb(**decoded)")
    check(cmd.cdb is cdb and cmd.cdb == ref, where + ": cdb untouched by codec calls")
    return cdb, dec


def check_single_field(spec):
    """changing one field changes only that field (decoded and on the wire)"""
    base = {k: v[0] for k, v in spec.samples.items()}
    base_cdb, base_dec = check_instance(spec, base, "base")
    for field, values in spec.samples.items():
        for value in values[1:]:
            fields = dict(base, **{field: value})
            cdb, dec = check_instance(spec, fields, "vary " + field)
            if field.startswith("_"):
                continue
            diff = {k for k in dec if dec[k] != base_dec[k]}
            want = {field} if spec.expect(field, value) != base_dec[field] else set()
            check(diff == want, "%s: changing %s changed %r" % (spec.name, field, diff))
            mask, pos = spec.layout[field]
            nbytes, _ = mask_geometry(mask)
            for i, (a, b) in enumerate(zip(cdb, base_cdb)):
                inside = 0
                if pos <= i < pos + nbytes:
                    inside = (mask >> (8 * (nbytes - 1 - (i - pos)))) & 0xFF
                check((a ^ b) & ~inside & 0xFF == 0,
                      "%s: changing %s touched byte %d outside its mask" % (spec.name, field, i))
    return base


def check_random(spec, count):
    for n in range(count):
        fields = {k: RNG.choice(v) for k, v in spec.samples.items()}
        check_instance(spec, fields, "random %d" % n)


def check_codec_direct(spec):
    """marshall_cdb / unmarshall_cdb used directly with the class's layout"""
    layout, size = spec.layout, spec.size
    cmd = spec.build({k: v[0] for k, v in spec.samples.items()})  # selects the layout
    cls = spec.cls
    where = spec.name + " direct"

    # all fields at their maximum, at patterns, at random
    candidates = [
        {k: field_max(m) for k, (m, _) in layout.items()},
        {k: 0 for k in layout},
        {k: field_max(m) & 0x5555555555555555 for k, (m, _) in layout.items()},
        {k: field_max(m) & 0xAAAAAAAAAAAAAAAA for k, (m, _) in layout.items()},
    ]
    for _ in range(12):
        candidates.append({k: RNG.randrange(field_max(m) + 1) for k, (m, _) in layout.items()})
    for values in candidates:
        raw = cls.marshall_cdb(values)
        check(raw == ref_encode(layout, values, size), where + ": encode %r" % values)
        check(len(raw) == size, where + ": length")
        dec = cls.unmarshall_cdb(raw)
        check(dec == values, where + ": decode(encode(v)) %r -> %r" % (values, dec))
        check(list(dec) == list(layout) or set(dec) == set(layout), where + ": keys")
        check(cls.marshall_cdb(dec) == raw, where + ": encode(decode(raw))")
        # single field change at the dict level
        for field, (mask, _) in layout.items():
            other = dict(values)
            other[field] = field_max(mask) - values[field]
            dec2 = cls.unmarshall_cdb(cls.marshall_cdb(other))
            diff = {k for k in dec2 if dec2[k] != values[k]}
            check(diff == ({field} if other[field] != values[field] else set()),
                  where + ": single field %s -> %r" % (field, diff))
            check(dec2 == other, where + ": single field roundtrip")

    # walking one: every bit of every field lands on exactly one wire bit
    seen = {}
    for field, (mask, pos) in layout.items():
        for k in range(field_max(mask).bit_length()):
            raw = cmd.marshall_cdb({field: 1 << k})
            ones = [(i, b) for i, b in enumerate(raw) if b]
            check(len(ones) == 1 and bin(ones[0][1]).count("1") == 1,
                  where + ": %s bit %d -> %s" % (field, k, raw.hex()))
            check(raw == ref_encode(layout, {field: 1 << k}, size), where + ": walking ref")
            key = bytes(raw)
            check(key not in seen, where + ": %s bit %d collides with %r" % (field, k, seen.get(key)))
            seen[key] = (field, k)
            dec = cmd.unmarshall_cdb(raw)
            check(dec == dict({f: 0 for f in layout}, **{field: 1 << k}),
                  where + ": walking decode %s %d" % (field, k))

    # partial dicts, unknown keys, empty dict
    check(cls.marshall_cdb({}) == bytearray(size), where + ": empty dict")
    check(cls.marshall_cdb({"no_such_field": 7, "opcode": 0x7E}) ==
          ref_encode(layout, {"opcode": 0x7E}, size), where + ": unknown key ignored")
    some = dict(list(candidates[0].items())[::2])
    check(cls.marshall_cdb(some) == ref_encode(layout, some, size), where + ": partial dict")

    # arbitrary wire bytes: decode, re-encode gives the covered bits back
    cov = coverage(layout, size)
    for _ in range(8):
        raw = bytearray(RNG.randrange(256) for _ in range(size))
        dec = cls.unmarshall_cdb(raw)
        check(dec == ref_decode(layout, raw), where + ": decode raw %s" % raw.hex())
        back = cls.marshall_cdb(dec)
        check(back == bytearray(a & c for a, c in zip(raw, cov)),
              where + ": raw %s -> %s" % (raw.hex(), back.hex()))
        check(cls.unmarshall_cdb(back) == dec, where + ": raw decode stable")
        check(cls.unmarshall_cdb(bytes(raw)) == dec, where + ": raw bytes object")
        check(raw == raw[:], where + ": input not modified")

    # values wider than their field: folded into the bytes the field spans
    for field, (mask, pos) in layout.items():
        nbytes, shift = mask_geometry(mask)
        for value in (field_max(mask) + 1, (1 << (8 * nbytes)) + 1, (1 << 70) + 3, -1, -2):
            values = {f: 0 for f in layout}
            values[field] = value
            check(cls.marshall_cdb(values) == ref_encode(layout, values, size),
                  where + ": oversize %s=%d" % (field, value))
    # booleans are accepted where ints are
    flags = {f: True for f, (m, _) in layout.items() if field_max(m) == 1}
    check(cls.marshall_cdb(flags) == ref_encode(layout, {f: 1 for f in flags}, size),
          where + ": bool flags")


def check_shared_state():
    """the codec follows the most recently constructed command"""
    inq = Inquiry(spc.INQUIRY, evpd=1, page_code=0x83, alloclen=0x1234)
    exp = {"opcode": 0x12, "evpd": 1, "page_code": 0x83, "alloc_len": 0x1234}
    check(inq.cdb == bytearray.fromhex("120183123400"), "inquiry wire bytes")
    check(Read10.unmarshall_cdb(inq.cdb) == exp, "codec follows the last command (class)")
    r16 = Read16(sbc.READ_16, 512, 0x1122334455667788, 3, fua=1, group=9)
    check(r16.cdb == bytearray.fromhex("88081122334455667788000000030900"), "read16 wire")
    check(inq.unmarshall_cdb(r16.cdb) == Read16.unmarshall_cdb(r16.cdb), "instance/class agree")
    check(inq.unmarshall_cdb(r16.cdb)["lba"] == 0x1122334455667788, "last layout is read16")
    check(inq.cdb == bytearray.fromhex("120183123400"), "older command keeps its cdb")
    check(len(Inquiry.marshall_cdb({"opcode": 1})) == 16, "buffer size follows last command")

    # a refused opcode: layout switches, buffer size stays
    bad = next(get_opcode(sbc, "7F"))
    try:
        Inquiry(bad)
    except SCSICommand.OpcodeException:
        check(True, "opcode exception")
    else:
        check(False, "0x7f opcode accepted")
    raw = SCSICommand.marshall_cdb({"opcode": 0x12, "alloc_len": 0x0506, "lba": 9})
    check(raw == bytearray.fromhex("12000005060000000000000000000000"),
          "after refused opcode: %s" % raw.hex())
    for value in (0x60, 0x7E, 0xC0, 0xFF):
        try:
            SCSICommand.init_cdb(types.SimpleNamespace(value=value))
        except SCSICommand.OpcodeException:
            check(True, "init_cdb refuses")
        else:
            check(False, "init_cdb accepted %#x" % value)
    for value, size in ((0, 6), (0x1F, 6), (0x20, 10), (0x5F, 10), (0x80, 16), (0x9F, 16),
                        (0xA0, 12), (0xBF, 12)):
        buf = SCSICommand.init_cdb(types.SimpleNamespace(value=value))
        check(buf == bytearray(size), "init_cdb(%#x)" % value)

    # blocksize checks do not disturb the codec
    t = TestUnitReady(spc.TEST_UNIT_READY)
    for make in (lambda: Read10(sbc.READ_10, 0, 1, 1),
                 lambda: Write16(sbc.WRITE_16, 0, 1, 1, b""),
                 lambda: WriteSame16(sbc.WRITE_SAME_16, 0, 1, 1, b"")):
        try:
            make()
        except SCSICommand.MissingBlocksizeException:
            check(True, "blocksize exception")
        else:
            check(False, "blocksize 0 accepted")
    check(t.unmarshall_cdb(t.cdb) == {"opcode": 0}, "test unit ready after failures")
    check(len(SCSICommand.marshall_cdb({})) == 6, "size after failures")

    # properties of a command object
    r = Read10(sbc.READ_10, 512, 7, 2)
    check(len(r.datain) == 1024 and len(r.dataout) == 0, "buffers")
    check(r.result == {} and r.opcode is sbc.READ_10, "result / opcode")
    check(r.sense is None and r.raw_sense_data is None and r.pagecode is None, "defaults")
    new = bytearray(10)
    r.cdb = new
    check(r.cdb is new, "cdb setter")
    r.pagecode = 5
    r.sense = b"x"
    r.raw_sense_data = b"y"
    r.result = {"a": 1}
    r.datain = bytearray(b"in")
    r.dataout = bytearray(b"out")
    check((r.pagecode, r.sense, r.raw_sense_data, r.result, r.datain, r.dataout) ==
          (5, b"x", b"y", {"a": 1}, bytearray(b"in"), bytearray(b"out")), "setters")
    other = Read10(sbc.READ_10, 512, 8, 1)
    check(other.sense is None and other.result == {} and other.cdb != new, "no sharing")
    check(repr(r) == "Read10", "repr")


class FakeDevice:
    def __init__(self, opcodes):
        self.opcodes = opcodes
        self.sent = []

    def execute(self, cmd, en_raw_sense=False):
        self.sent.append(bytes(cmd.cdb))

    def open(self):
        pass

    def close(self):
        pass


class FakeSCSI(SCSI):
    def __init__(self, dev):
        self.device = dev


def check_facade():
    dev = FakeDevice(sbc)
    s = FakeSCSI(dev)
    s.blocksize = 512
    cases = [
        (s.read10(0x01020304, 0x0506, rdprotect=5, dpo=1, group=0x15),
         "28b001020304150506" + "00"),
        (s.read12(0xFFFFFFFF, 0x01020304 >> 8, fua=1, rarc=1), "a80cffffffff0001020300" + "00"),
        (s.read16(0x0102030405060708, 9, rdprotect=7), "88e0010203040506070800000009" + "0000"),
        (s.write10(1, 1, bytearray(512), wrprotect=1, fua=1, group=3), "2a28000000010300" + "0100"),
        (s.write16(2 ** 64 - 1, 2, bytearray(1024), dpo=1), "8a10" + "ff" * 8 + "00000002" + "0000"),
        (s.writesame10(5, 6, bytearray(512), anchor=1, unmap=1, group=31), "4118000000051f000600"),
        (s.writesame16(5, 6, bytearray(512), ndob=1, wrprotect=2),
         "9341" + "0000000000000005" + "00000006" + "0000"),
        (s.synchronizecache10(0x10, 0x20, immed=1, group=1), "35020000001001002000"),
        (s.synchronizecache16(0x10, 0x20, immed=1, group=1),
         "9102" + "0000000000000010" + "00000020" + "0100"),
        (s.inquiry(evpd=1, page_code=0xB0, alloclen=255), "1201b000ff00"),
        (s.readcapacity10(), "25" + "00" * 9),
        (s.readcapacity16(alloclen=32), "9e10" + "00" * 8 + "00000020" + "0000"),
        (s.getlbastatus(0x1000, alloclen=24), "9e12" + "0000000000001000" + "00000018" + "0000"),
        (s.testunitready(), "000000000000"),
        (s.modesense6(0x3F, sub_page_code=0xFF, dbd=1, pc=3, alloclen=200), "1a08ffffc800"),
        (s.modesense10(0x0A, sub_page_code=1, llbaa=1, dbd=1, pc=1, alloclen=0x0102),
         "5a184a01000000010200"),
        (s.reportluns(report=2, alloclen=0x01000000), "a00002000000" + "01000000" + "0000"),
        (s.reportpriority(priority=2, alloclen=64), "a30e8000000000000040" + "0000"),
        (s.reporttargetportgroups(data_format=1, alloclen=64), "a32a0000000000000040" + "0000"),
        (s.preventallowmediumremoval(prevent=3), "1e0000000300"),
        (s.atapassthrough16(4, 2, 1, 1, 0, 0, 0, 1, 0x010203040506, 0xEC),
         "85090e0000000103060205010400ec00"),
        (s.atapassthrough12(4, 2, 1, 1, 0, 0, 0, 1, 0x010203, 0xEC, ck_cond=1, control=9),
         "a1082e0001030201" + "00ec" + "0009"),
    ]
    for cmd, hexstr in cases:
        check(cmd.cdb.hex() == hexstr, "facade %r: %s != %s" % (cmd, cmd.cdb.hex(), hexstr))
    check([b.hex() for b in dev.sent] == [h for _, h in cases], "device saw the same CDBs")

    s = FakeSCSI(FakeDevice(smc))
    cases = [
        (s.exchangemedium(1, 2, 3, 4, inv1=1), "a60000010002000300040200"),
        (s.exchangemedium(1, 2, 3, 4, inv2=1), "a60000010002000300040100"),
        (s.movemedium(0xAABB, 0xCCDD, 0xEEFF, invert=1), "a500aabbccddeeff00000100"),
        (s.positiontoelement(0x0102, 0x0304, invert=1), "2b000102030400000100"),
        (s.opencloseimportexportelement(0x1234, 1), "1b0012340100"),
        (s.initializeelementstatus(), "070000000000"),
        (s.initializeelementstatuswithrange(0x10, 0x20, rng=1, fast=1), "37030010000000200000"),
        (s.readelementstatus(0x0102, 0x0304, element_type=2, voltag=1, curdata=0, dvcid=1,
                             alloclen=0x050607), "b81201020304010506070000"),
    ]
    for cmd, hexstr in cases:
        check(cmd.cdb.hex() == hexstr, "facade %r: %s != %s" % (cmd, cmd.cdb.hex(), hexstr))

    s = FakeSCSI(FakeDevice(mmc))
    cases = [
        (s.readcd(0x01020304, 2, est=5, dap=1, mcsb=0x1F, c2ei=2, scsb=5),
         "be1601020304000002fc0500"),
        (s.readdiscinformation(4, alloc_len=0x0203), "51040000000000020300"),
    ]
    for cmd, hexstr in cases:
        check(cmd.cdb.hex() == hexstr, "facade %r: %s != %s" % (cmd, cmd.cdb.hex(), hexstr))

    s = FakeSCSI(FakeDevice(spc))
    cases = [
        (s.persistentreservein(0, alloclen=0x0102), "5e000000000000010200"),
        (s.persistentreservein(3), "5e030000000000040000"),
        (s.persistentreserveout(service_action=0, scope=1, pr_type=4), "5f001400000000001800"),
        (s.persistentreserveout(service_action=0, spec_i_pt=1), "5f000000000000001c00"),
        (s.extendedcopy4(), "83000000000000000000000000100000"),
        (s.extendedcopy5(inline_data=bytearray(2)), "83010000000000000000000000320000"),
        (s.modeselect6({"mode_pages": []}, sp=1), "151100000400"),
        (s.modeselect10(MODE_DATA[1], pf=0), "55000000000000001400"),
    ]
    for cmd, hexstr in cases:
        check(cmd.cdb.hex() == hexstr, "facade %r: %s != %s" % (cmd, cmd.cdb.hex(), hexstr))
    r = s.persistentreserveout(service_action=6, scope=2, pr_type=3, reservation_key=1)
    check(r.marshall_cdb(r.unmarshall_cdb(r.cdb)) == r.cdb == bytearray.fromhex(
        "5f062300000000001800"), "facade roundtrip")


def check_converter():
    # integer <-> big endian bytes
    for size in range(0, 11):
        for _ in range(25):
            v = RNG.randrange(1 << (8 * size)) if size else 0
            ba = scsi_int_to_ba(v, size)
            check(type(ba) is bytearray and len(ba) == size, "int_to_ba type/len")
            check(scsi_ba_to_int(ba) == v, "int roundtrip %d/%d" % (v, size))
            check(scsi_ba_to_int(bytes(ba)) == v, "int roundtrip bytes")
            check(list(ba) == [(v >> (8 * (size - 1 - i))) & 0xFF for i in range(size)], "bytes")
    check(scsi_int_to_ba() == bytearray(4), "defaults")
    check(scsi_int_to_ba(34, 4) == bytearray(b'\x00\x00\x00"'), "docstring example")
    check(scsi_int_to_ba(0x1FFFF, 2) == bytearray(b"\xff\xff"), "truncation")
    check(scsi_int_to_ba(-1, 3) == bytearray(b"\xff\xff\xff"), "negative")
    check(scsi_int_to_ba(-256, 2) == bytearray(b"\xff\x00"), "negative 2")
    check(scsi_int_to_ba(True, 1) == bytearray(b"\x01"), "bool")
    check(scsi_ba_to_int(bytearray()) == 0 and scsi_ba_to_int(b"") == 0, "empty")
    check(scsi_ba_to_int(b"\x00\x00\x01\x00") == 256, "leading zeros")
    check(scsi_ba_to_int(bytearray(b"\xff" * 9)) == (1 << 72) - 1, "wide")

    # a mixed table: masks of every width up to 8 bytes, blobs, words, dwords
    table = {
        "a": [0x80, 0], "b": [0x7E, 0], "c": [0x01, 0],
        "d": [0x0FF0, 1], "e": [0xFFFFFF, 3], "f": [0x7FFFFFFFFF, 6],
        "g": [0xFFFFFFFFFFFF, 11], "h": [0x3FFFFFFFFFFFFC, 17],
        "i": [0xFFFFFFFFFFFFFFFF, 24],
        "blob": ("b", 32, 5), "words": ("w", 37, 3), "dwords": ("dw", 43, 2),
    }
    for _ in range(40):
        vals = {}
        for k, spec in table.items():
            if len(spec) == 2:
                vals[k] = RNG.randrange(field_max(spec[0]) + 1)
            else:
                unit = {"b": 1, "w": 2, "dw": 4}[spec[0]]
                vals[k] = bytearray(RNG.randrange(256) for _ in range(unit * spec[2]))
        buf = bytearray(51)
        ret = encode_dict(vals, table, buf)
        check(ret is None and len(buf) == 51, "encode_dict in place")
        ints = {k: v for k, v in table.items() if len(v) == 2}
        want = ref_encode({k: tuple(v) for k, v in ints.items()},
                          {k: v for k, v in vals.items() if k in ints}, 51)
        want[32:37] = vals["blob"]
        want[37:43] = vals["words"]
        want[43:51] = vals["dwords"]
        check(buf == want, "mixed encode")
        out = {"stale": 1}
        ret = decode_bits(buf, table, out)
        check(ret is None and out.pop("stale") == 1, "decode_bits updates in place")
        check(out == vals, "mixed roundtrip %r %r" % (out, vals))
        check(list(out) == list(table), "decode key order")
        out2 = {}
        decode_bits(bytes(buf), table, out2)
        check(out2 == vals and type(out2["blob"]) is bytes, "decode from bytes")
        check(type(out["blob"]) is bytearray, "decode from bytearray")
    # decode of a short buffer reads what is there
    out = {}
    decode_bits(bytearray(b"\x12\x34"), {"x": [0xFFFFFF, 0], "y": [0xFF, 5], "z": ("b", 1, 4)}, out)
    check(out == {"x": 0x1234, "y": 0, "z": bytearray(b"\x34")}, "short buffer %r" % out)
    # encode into a too short buffer is an error
    try:
        encode_dict({"x": 1}, {"x": [0xFFFF, 3]}, bytearray(4))
    except IndexError:
        check(True, "short encode")
    else:
        check(False, "short encode accepted")
    # encoding folds into existing content
    buf = bytearray(b"\xf0\x0f")
    encode_dict({"x": 0xFF}, {"x": [0x0FF0, 0]}, buf)
    check(buf == bytearray(b"\xff\xff"), "fold into existing bytes")
    encode_dict({"x": 0xFF}, {"x": [0x0FF0, 0]}, buf)
    check(buf == bytearray(b"\xf0\x0f"), "fold twice")
    # tuple notation for masks and a Mapping that is not a dict
    tab = types.MappingProxyType({"p": (0xF0, 0), "q": (0x0F, 0)})
    buf = bytearray(1)
    encode_dict({"p": 0xA, "q": 0x5}, tab, buf)
    out = {}
    decode_bits(buf, tab, out)
    check(buf == b"\xa5" and out == {"p": 0xA, "q": 5}, "tuple notation")


def main():
    check_converter()
    specs = make_specs()
    seen = set()
    for spec in specs:
        check_single_field(spec)
        check_random(spec, 25)
        if spec.name not in seen:
            check_codec_direct(spec)
        seen.add(spec.name)
    check(seen == set(LAYOUT), "all layouts exercised: %r" % (set(LAYOUT) - seen))
    # interleave classes: every instance keeps decoding to its own values
    built = []
    for spec in specs:
        fields = {k: RNG.choice(v) for k, v in spec.samples.items()}
        cmd = spec.build(fields)
        built.append((spec, fields, cmd, bytes(cmd.cdb)))
    for spec, fields, cmd, snapshot in built:
        check(bytes(cmd.cdb) == snapshot, spec.name + ": cdb stable")
        spec.build({k: v[0] for k, v in spec.samples.items()})  # re-select the layout
        exp = expected_decode(spec, fields, cmd)
        check(cmd.unmarshall_cdb(cmd.cdb) == exp, spec.name + ": late decode")
        check(cmd.marshall_cdb(exp) == cmd.cdb, spec.name + ": late encode")
    check_shared_state()
    check_facade()
    finish()


if __name__ == "__main__":
    main()
