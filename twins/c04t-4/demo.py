#!/usr/bin/env python
# coding: utf-8
"""
Demo / check script for property C04:

    every response format the library parses is decoded, without error, into exactly
    the values the device encoded; length fields are honoured (every descriptor inside
    the reported length is returned whole and in order, nothing beyond it is reported).

The script builds responses with its OWN small big-endian/bit-field encoder (it does not
use the library's marshalling code to produce the expected values), feeds them to the
library through the public API (``X.unmarshall_datain`` and the ``SCSI`` front end with a
fake device) and compares the decoded values with the values that were encoded.

run:  cd /tmp/seed/C04t && PYTHONPATH=/tmp/seed/C04t /venv/bin/python SEED/demo.py
"""
import random
import sys
import types

for _name in ("sgio", "iscsi"):
    try:
        __import__(_name)
    except Exception:  # not installed: a tiny stand-in is enough, we never touch hardware
        _m = types.ModuleType(_name)

        class _CheckConditionError(Exception):
            pass

        _m.CheckConditionError = _CheckConditionError
        _m.execute = lambda *a, **k: None
        sys.modules[_name] = _m

from pyscsi.pyscsi.scsi import SCSI
from pyscsi.pyscsi.scsi_cdb_getlbastatus import GetLBAStatus
from pyscsi.pyscsi.scsi_cdb_inquiry import Inquiry
from pyscsi.pyscsi.scsi_cdb_modesense6 import ModeSense6
from pyscsi.pyscsi.scsi_cdb_modesense10 import ModeSense10
from pyscsi.pyscsi.scsi_cdb_persistentreservein import (
    PersistentReserveInReadFullStatus,
    PersistentReserveInReadKeys,
    PersistentReserveInReadReservation,
    PersistentReserveInReportCapabilities,
)
from pyscsi.pyscsi.scsi_cdb_readcapacity10 import ReadCapacity10
from pyscsi.pyscsi.scsi_cdb_readcapacity16 import ReadCapacity16
from pyscsi.pyscsi.scsi_cdb_readcd import ReadCd
from pyscsi.pyscsi.scsi_cdb_readdiscinformation import ReadDiscInformation
from pyscsi.pyscsi.scsi_cdb_readelementstatus import ReadElementStatus
from pyscsi.pyscsi.scsi_cdb_report_luns import ReportLuns
from pyscsi.pyscsi.scsi_cdb_report_priority import ReportPriority
from pyscsi.pyscsi.scsi_cdb_report_target_port_groups import ReportTargetPortGroups
from pyscsi.pyscsi.scsi_enum_command import mmc, sbc, smc, spc
from pyscsi.utils.converter import decode_bits, scsi_ba_to_int, scsi_int_to_ba

RNG = random.Random(0xC04)
FAILURES = []
CHECKS = [0]


# ----------------------------------------------------------------------------------
# tiny independent encoder
# ----------------------------------------------------------------------------------
def be(value, size):
    return value.to_bytes(size, "big")


def mask_geometry(mask):
    size = 1
    while mask >> (8 * size):
        size += 1
    shift = 0
    while not (mask >> shift) & 1:
        shift += 1
    return size, shift, mask >> shift


def put(buf, mask, offset, value):
    size, shift, top = mask_geometry(mask)
    assert 0 <= value <= top, (hex(mask), value)
    if len(buf) < offset + size:
        buf.extend(bytes(offset + size - len(buf)))
    cur = int.from_bytes(buf[offset : offset + size], "big") | (value << shift)
    buf[offset : offset + size] = be(cur, size)


_UNIT = {"b": 1, "w": 2, "dw": 4}


def rnd_value(mask):
    _, _, top = mask_geometry(mask)
    return RNG.choice([0, top, RNG.randint(0, top), RNG.randint(0, top)])


def rnd_bytes(n):
    return bytes(RNG.randrange(256) for _ in range(n))


def rnd_fields(layout):
    """random value for every field of a layout {name: (mask, off) | (kind, off, len)}"""
    values = {}
    for name, spec in layout.items():
        if len(spec) == 2:
            values[name] = rnd_value(spec[0])
        else:
            values[name] = rnd_bytes(spec[2] * _UNIT[spec[0]])
    return values


def encode(buf, layout, values):
    for name, spec in layout.items():
        if name not in values:
            continue
        if len(spec) == 2:
            put(buf, spec[0], spec[1], values[name])
        else:
            size = spec[2] * _UNIT[spec[0]]
            if len(buf) < spec[1] + size:
                buf.extend(bytes(spec[1] + size - len(buf)))
            buf[spec[1] : spec[1] + size] = values[name]
    return buf


def norm(x):
    """bytearray -> bytes (recursively) so that values compare structurally"""
    if isinstance(x, (bytearray, bytes)):
        return bytes(x)
    if isinstance(x, dict):
        return {k: norm(v) for k, v in x.items()}
    if isinstance(x, (list, tuple)):
        return [norm(v) for v in x]
    return x


def blob_types(x, acc):
    if isinstance(x, (bytearray, bytes)):
        acc.add(type(x))
    elif isinstance(x, dict):
        for v in x.values():
            blob_types(v, acc)
    elif isinstance(x, (list, tuple)):
        for v in x:
            blob_types(v, acc)
    return acc


def check(label, got, want):
    CHECKS[0] += 1
    if norm(got) != norm(want):
        FAILURES.append("%s:\n   got  %r\n   want %r" % (label, got, want))
        return False
    return True


def check_decode(label, func, data, want, **kwargs):
    """decode `data` given as bytearray AND as bytes; blobs keep the input's type"""
    for kind in (bytearray, bytes):
        buf = kind(data)
        keep = kind(data)
        try:
            got = func(buf, **kwargs)
        except Exception as exc:  # the property says: decoded without error
            CHECKS[0] += 1
            FAILURES.append("%s [%s]: raised %r" % (label, kind.__name__, exc))
            continue
        if check("%s [%s]" % (label, kind.__name__), got, want):
            CHECKS[0] += 1
            bad = blob_types(got, set()) - {kind}
            if bad:
                FAILURES.append("%s [%s]: blob types %r" % (label, kind.__name__, bad))
        CHECKS[0] += 1
        if buf != keep:
            FAILURES.append("%s [%s]: input buffer was modified" % (label, kind.__name__))


def check_raises(label, exc_type, func, *args, **kwargs):
    CHECKS[0] += 1
    try:
        got = func(*args, **kwargs)
    except exc_type:
        return
    except Exception as exc:
        FAILURES.append("%s: raised %r instead of %s" % (label, exc, exc_type.__name__))
        return
    FAILURES.append("%s: returned %r instead of raising %s" % (label, got, exc_type.__name__))


def junk():
    """trailing bytes that are NOT part of the response (beyond the reported length)"""
    return rnd_bytes(RNG.choice([0, 0, 1, 3, 8, 16, 40]))


# ----------------------------------------------------------------------------------
# fake device + SCSI front end
# ----------------------------------------------------------------------------------
class FakeDevice:
    def __init__(self, opcodes, payload):
        self.opcodes = opcodes
        self.payload = payload
        self.closed = False

    def execute(self, cmd, en_raw_sense=False):
        cmd.datain[: len(self.payload)] = self.payload

    def open(self):
        pass

    def close(self):
        self.closed = True


class FrontEnd(SCSI):
    def __init__(self, dev):  # do not probe the device with an INQUIRY
        self.device = dev
        self._blocksize = 0


def via_scsi(label, opcodes, payload, call, want):
    dev = FakeDevice(opcodes, payload)
    try:
        with FrontEnd(dev) as s:
            cmd = call(s)
    except Exception as exc:
        CHECKS[0] += 1
        FAILURES.append("%s (SCSI): raised %r" % (label, exc))
        return
    check("%s (SCSI)" % label, cmd.result, want)


# ----------------------------------------------------------------------------------
# converter primitives
# ----------------------------------------------------------------------------------
def test_converter():
    for size in range(0, 10):
        for _ in range(20):
            raw = rnd_bytes(size)
            want = int.from_bytes(raw, "big")
            check("ba_to_int bytes", scsi_ba_to_int(raw), want)
            check("ba_to_int bytearray", scsi_ba_to_int(bytearray(raw)), want)
            check("ba_to_int list", scsi_ba_to_int(list(raw)), want)
            got = scsi_int_to_ba(want, size)
            check("int_to_ba", got, raw)
            check("int_to_ba type", type(got), bytearray)
    check("int_to_ba default", scsi_int_to_ba(), bytes(4))
    check("int_to_ba truncates", scsi_int_to_ba(0x11223344, 2), b"\x33\x44")
    # every contiguous mask up to 8 bytes wide at several offsets
    for width in range(1, 65):
        for shift in sorted({0, 1, 3, 4, 7, (8 - width) % 8}):
            if width + shift > 64:
                continue
            mask = ((1 << width) - 1) << shift
            for offset in (0, 1, 5):
                value = rnd_value(mask)
                buf = bytearray(rnd_bytes(offset + 9))
                size = mask_geometry(mask)[0]
                buf[offset : offset + size] = bytes(size)
                # surround the field with ones to make sure neighbours do not leak in
                whole = (1 << (8 * size)) - 1
                cur = (whole ^ mask) | (value << shift)
                buf[offset : offset + size] = be(cur, size)
                out = {}
                decode_bits(buf, {"f": [mask, offset]}, out)
                check("decode_bits mask %x @%d" % (mask, offset), out, {"f": value})
                out = {}
                decode_bits(bytes(buf), {"f": (mask, offset)}, out)
                check("decode_bits(bytes) mask %x @%d" % (mask, offset), out, {"f": value})
    # non contiguous mask (only the lowest set bit decides the shift)
    out = {}
    decode_bits(bytearray([0xFF, 0xA5]), {"x": [0xA0, 1], "y": [0x05, 1]}, out)
    check("decode_bits sparse", out, {"x": 0x05, "y": 0x05})
    # blob notations, result dict is updated in place and keeps foreign keys
    raw = rnd_bytes(40)
    out = {"keep": 1}
    decode_bits(
        raw,
        {"b": ("b", 3, 5), "w": ("w", 2, 3), "dw": ["dw", 1, 2], "far": ("b", 38, 8)},
        out,
    )
    check(
        "decode_bits blobs",
        out,
        {"keep": 1, "b": raw[3:8], "w": raw[2:8], "dw": raw[1:9], "far": raw[38:40]},
    )
    # a field that lies (partly) behind the end of the data
    out = {}
    decode_bits(b"\x12\x34\x56", {"a": [0xFFFF, 2], "b": [0xFF, 7], "c": [0xFFFFFFFF, 0]}, out)
    check("decode_bits short", out, {"a": 0x56, "b": 0, "c": 0x123456})


# ----------------------------------------------------------------------------------
# INQUIRY
# ----------------------------------------------------------------------------------
HDR = {"peripheral_qualifier": (0xE0, 0), "peripheral_device_type": (0x1F, 0)}

STD = {
    "rmb": (0x80, 1),
    "version": (0xFF, 2),
    "normaca": (0x20, 3),
    "hisup": (0x10, 3),
    "response_data_format": (0x0F, 3),
    "additional_length": (0xFF, 4),
    "sccs": (0x80, 5),
    "acc": (0x40, 5),
    "tpgs": (0x30, 5),
    "3pc": (0x08, 5),
    "protect": (0x01, 5),
    "encserv": (0x40, 6),
    "vs": (0x20, 6),
    "multip": (0x10, 6),
    "addr16": (0x01, 6),
    "wbus16": (0x20, 7),
    "sync": (0x10, 7),
    "cmdque": (0x02, 7),
    "vs2": (0x01, 7),
    "t10_vendor_identification": ("b", 8, 8),
    "product_identification": ("b", 16, 16),
    "product_revision_level": ("b", 32, 4),
    "clocking": (0x0C, 56),
    "qas": (0x02, 56),
    "ius": (0x01, 56),
}

BLOCK_LIMITS = {
    "wsnz": (0x01, 4),
    "max_caw_len": (0xFF, 5),
    "opt_xfer_len_gran": (0xFFFF, 6),
    "max_xfer_len": (0xFFFFFFFF, 8),
    "opt_xfer_len": (0xFFFFFFFF, 12),
    "max_pfetch_len": (0xFFFFFFFF, 16),
    "max_unmap_lba_count": (0xFFFFFFFF, 20),
    "max_unmap_bd_count": (0xFFFFFFFF, 24),
    "opt_unmap_gran": (0xFFFFFFFF, 28),
    "ugavalid": (0x80, 32),
    "unmap_gran_alignment": (0x7FFFFFFF, 32),
    "max_ws_len": (0xFFFFFFFFFFFFFFFF, 36),
}

BLOCK_DEV_CHAR = {
    "medium_rotation_rate": (0xFFFF, 4),
    "product_type": (0xFF, 6),
    "wabereq": (0xC0, 7),
    "wacereq": (0x30, 7),
    "nominal_form_factor": (0x0F, 7),
    "fuab": (0x02, 8),
    "vbuls": (0x01, 8),
}

LBP = {
    "threshold_exponent": (0xFF, 4),
    "lbpu": (0x80, 5),
    "lpbws": (0x40, 5),
    "lbpws10": (0x20, 5),
    "lbprz": (0x04, 5),
    "anc_sup": (0x02, 5),
    "dp": (0x01, 5),
    "provisioning_type": (0x07, 6),
}

REFERRALS = {
    "user_data_segment_size": (0xFFFFFFFF, 8),
    "user_data_segment_multiplier": (0xFFFFFFFF, 12),
}

EXTENDED = {
    "activate_microcode": (0xC0, 4),
    "spt": (0x38, 4),
    "grd_chk": (0x04, 4),
    "app_chk": (0x02, 4),
    "ref_chk": (0x01, 4),
    "uask_sup": (0x20, 5),
    "group_sup": (0x10, 5),
    "prior_sup": (0x08, 5),
    "headsup": (0x04, 5),
    "ordsup": (0x02, 5),
    "simpsup": (0x01, 5),
    "wu_sup": (0x08, 6),
    "crd_sup": (0x04, 6),
    "nv_sup": (0x02, 6),
    "v_sup": (0x01, 6),
    "p_i_i_sup": (0x10, 7),
    "luiclr": (0x01, 7),
    "r_sup": (0x10, 8),
    "cbcs": (0x01, 8),
    "multi_it_nexus_microcode_download": (0x0F, 9),
    "extended_self_test_completion_minutes": (0xFFFF, 10),
    "poa_sup": (0x80, 12),
    "hra_sup": (0x40, 12),
    "vsa_sup": (0x20, 12),
    "maximum_supported_sense_data_length": (0xFF, 13),
}


def vpd_header(page, hdr):
    buf = bytearray(4)
    encode(buf, HDR, hdr)
    buf[1] = page
    return buf


def finish_vpd(buf):
    buf[2:4] = be(len(buf) - 4, 2)
    return buf


def test_inquiry_standard():
    for i in range(40):
        values = rnd_fields(HDR)
        values.update(rnd_fields(STD))
        buf = encode(bytearray(RNG.choice([58, 96, 96, 255])), HDR, values)
        encode(buf, STD, values)
        check_decode("std inquiry #%d" % i, Inquiry.unmarshall_datain, buf, values)
        check_decode("std inquiry evpd=0 #%d" % i, Inquiry.unmarshall_datain, buf, values, evpd=0)
        if i < 5:
            payload = bytes(buf[:96])
            want = dict(values)
            via_scsi("std inquiry", sbc, payload, lambda s: s.inquiry(), want)


def designator(kind):
    """-> (payload bytes, expected designator dict) for one designator type"""
    if kind == 0:
        p = rnd_bytes(RNG.choice([1, 7, 20]))
        return p, {"vendor_specific": p}
    if kind == 1:
        p = rnd_bytes(8 + RNG.choice([0, 1, 12]))
        return p, {"t10_vendor_id": p[:8], "vendor_specific_id": p[8:]}
    if kind == 2:
        size = RNG.choice([8, 12, 16])
        p = rnd_bytes(size)
        if size == 8:
            return p, {
                "ieee_company_id": int.from_bytes(p[:3], "big"),
                "vendor_specific_extension_id": p[3:8],
            }
        if size == 12:
            return p, {
                "ieee_company_id": int.from_bytes(p[:3], "big"),
                "vendor_specific_extension_id": p[3:8],
                "directory_id": p[8:],
            }
        return p, {
            "identifier_extension": p[:8],
            "ieee_company_id": int.from_bytes(p[8:11], "big"),
            "vendor_specific_extension_id": p[11:],
        }
    if kind == 3:
        naa = RNG.choice([2, 3, 5, 6])
        if naa == 2:
            a, c, b = RNG.getrandbits(12), RNG.getrandbits(24), RNG.getrandbits(24)
            v = (naa << 60) | (a << 48) | (c << 24) | b
            return be(v, 8), {
                "naa": naa,
                "vendor_specific_identifier_a": a,
                "ieee_company_id": c,
                "vendor_specific_identifier_b": b,
            }
        if naa == 3:
            loc = RNG.getrandbits(60)
            return be((naa << 60) | loc, 8), {"naa": naa, "locally_administered_value": loc}
        c, vsi = RNG.getrandbits(24), RNG.getrandbits(36)
        v = (naa << 60) | (c << 36) | vsi
        if naa == 5:
            return be(v, 8), {
                "naa": naa,
                "ieee_company_id": c,
                "vendor_specific_identifier": vsi,
            }
        ext = RNG.getrandbits(64)
        return be(v, 8) + be(ext, 8), {
            "naa": naa,
            "ieee_company_id": c,
            "vendor_specific_identifier": vsi,
            "vendor_specific_identifier_extension": ext,
        }
    if kind in (4, 5, 6):
        v = RNG.getrandbits(16)
        name = {4: "relative_port", 5: "target_portal_group", 6: "logical_unit_group"}[kind]
        return bytes(2) + be(v, 2), {name: v}
    if kind == 7:
        p = rnd_bytes(16)
        return p, {"md5_logical_identifier": p}
    if kind == 8:
        p = ("iqn.2001-04.com.example:storage.disk%d" % RNG.randrange(100)).encode() + b"\0"
        p += bytes(-len(p) % 4)
        return p, {"scsi_name_string": p}
    if kind == 9:
        v = RNG.getrandbits(16)
        return be(v, 2) + bytes(6), {"pci_express_routing_id": v}
    p = rnd_bytes(RNG.choice([0, 4, 9]))  # reserved designator types: nothing is decoded
    return p, {}


def designation_descriptor(kind):
    payload, want = designator(kind)
    proto, code_set = RNG.randrange(16), RNG.randrange(1, 4)
    piv, assoc = RNG.randrange(2), RNG.randrange(3)
    raw = bytes([(proto << 4) | code_set, (piv << 7) | (assoc << 4) | kind, 0, len(payload)])
    dd = {
        "code_set": code_set,
        "piv": piv,
        "association": assoc,
        "designator_type": kind,
        "designator_length": len(payload),
        "designator": want,
    }
    if piv and assoc in (1, 2):
        dd["protocol_identifier"] = proto
    return raw + payload, dd


def test_inquiry_vpd():
    f = Inquiry.unmarshall_datain
    for i in range(25):
        hdr = rnd_fields(HDR)

        def want_for(page, extra):
            w = dict(hdr)
            w["page_code"] = page
            w.update(extra)
            return w

        # supported vpd pages
        pages = sorted(RNG.sample(range(256), RNG.choice([0, 1, 5, 30])))
        buf = finish_vpd(vpd_header(0x00, hdr) + bytes(pages)) + junk()
        check_decode("vpd 00 #%d" % i, f, buf, want_for(0, {"vpd_pages": pages}), evpd=1)
        # unit serial number
        sn = rnd_bytes(RNG.choice([0, 1, 8, 20, 251]))
        buf = finish_vpd(vpd_header(0x80, hdr) + sn) + junk()
        check_decode("vpd 80 #%d" % i, f, buf, want_for(0x80, {"unit_serial_number": sn}), evpd=1)
        # the fixed layout pages
        for page, layout, size in (
            (0xB0, BLOCK_LIMITS, 64),
            (0xB1, BLOCK_DEV_CHAR, 64),
            (0xB2, LBP, 8),
            (0xB3, REFERRALS, 16),
            (0x86, EXTENDED, 64),
        ):
            values = rnd_fields(layout)
            buf = encode(vpd_header(page, hdr) + bytes(size - 4), layout, values)
            buf = finish_vpd(buf) + junk()
            check_decode(
                "vpd %02x #%d" % (page, i), f, buf, want_for(page, values), evpd=1
            )
        # an old (short) block limits page followed by bytes that are not part of it:
        # only what lies inside the page length is reported
        values = rnd_fields(BLOCK_LIMITS)
        buf = encode(vpd_header(0xB0, hdr) + bytes(60), BLOCK_LIMITS, values)
        buf[2:4] = be(16, 2)
        want = {
            k: (v if BLOCK_LIMITS[k][1] + mask_geometry(BLOCK_LIMITS[k][0])[0] <= 20 else 0)
            for k, v in values.items()
        }
        check_decode("vpd b0 short #%d" % i, f, buf, want_for(0xB0, want), evpd=1)
        # ata information
        body = bytearray(rnd_bytes(572))
        body[:4] = vpd_header(0x89, hdr)
        finish_vpd(body)
        sig, ident = bytes(body[36:56]), bytes(body[60:572])
        want = {
            "sat_vendor_identification": body[8:16],
            "sat_product_identification": body[16:32],
            "sat_product_rev_lvl": body[32:36],
            "signature": {
                "sector_count": sig[12],
                "lba_low": sig[4],
                "lba_mid": sig[5],
                "lba_high": sig[6],
                "device": sig[7],
            },
            "identify": {
                "general_config": {
                    "ata_device": ident[1] >> 7,
                    "respose_incomplete": (ident[0] >> 2) & 1,
                },
                "specific_config": int.from_bytes(ident[4:8], "big"),
                "serial_number": ident[20:40],
                "firmware_rev": ident[46:54],
                "model_number": ident[54:94],
            },
        }
        check_decode("vpd 89 #%d" % i, f, body + junk(), want_for(0x89, want), evpd=1)
        # device identification
        kinds = [RNG.randrange(16) for _ in range(RNG.choice([0, 1, 2, 6]))]
        if i == 0:
            kinds = list(range(16)) + [2, 2, 2, 3, 3, 3, 3, 3]
        raw, dds = bytearray(), []
        for kind in kinds:
            r, dd = designation_descriptor(kind)
            raw += r
            dds.append(dd)
        buf = finish_vpd(vpd_header(0x83, hdr) + raw) + junk()
        want = want_for(0x83, {"designator_descriptors": dds})
        check_decode("vpd 83 #%d" % i, f, buf, want, evpd=1)
        if i < 4:
            via_scsi(
                "vpd 83",
                sbc,
                bytes(buf),
                lambda s: s.inquiry(evpd=1, page_code=0x83, alloclen=len(buf) + 64),
                want,
            )
        # a page the library has no decoder for
        buf = finish_vpd(vpd_header(0x84, hdr) + rnd_bytes(12))
        check_decode("vpd 84 #%d" % i, f, buf, None, evpd=1)

    # the library's own encoder and decoder agree
    for data in (
        {"peripheral_qualifier": 1, "peripheral_device_type": 5, "page_code": 0x80,
         "unit_serial_number": bytearray(b"SN-0042 ")},
        {"peripheral_qualifier": 0, "peripheral_device_type": 0, "page_code": 0xB2,
         "threshold_exponent": 9, "lbpu": 1, "lpbws": 0, "lbpws10": 1, "lbprz": 1,
         "anc_sup": 0, "dp": 1, "provisioning_type": 2},
        {"peripheral_qualifier": 0, "peripheral_device_type": 0, "page_code": 0xB3,
         "user_data_segment_size": 0x01020304, "user_data_segment_multiplier": 77},
    ):
        check("inquiry roundtrip", f(Inquiry.marshall_datain(data), evpd=1), data)


# ----------------------------------------------------------------------------------
# MODE SENSE
# ----------------------------------------------------------------------------------
ELEMENT_ADDRESS = {
    "first_medium_transport_element_address": (0xFFFF, 0),
    "num_medium_transport_elements": (0xFFFF, 2),
    "first_storage_element_address": (0xFFFF, 4),
    "num_storage_elements": (0xFFFF, 6),
    "first_import_element_address": (0xFFFF, 8),
    "num_import_elements": (0xFFFF, 10),
    "first_data_transfer_element_address": (0xFFFF, 12),
    "num_data_transfer_elements": (0xFFFF, 14),
}
CONTROL = {
    "tst": (0xE0, 0),
    "tmf_only": (0x10, 0),
    "dpicz": (0x08, 0),
    "d_sense": (0x04, 0),
    "gltsd": (0x02, 0),
    "rlec": (0x01, 0),
    "queue_algorithm_modifier": (0xF0, 1),
    "nuar": (0x08, 1),
    "qerr": (0x06, 1),
    "vs": (0x80, 2),
    "rac": (0x40, 2),
    "ua_intlck_ctrl": (0x30, 2),
    "swp": (0x08, 2),
    "ato": (0x80, 3),
    "tas": (0x40, 3),
    "atmpe": (0x20, 3),
    "rwwp": (0x10, 3),
    "autoload_mode": (0x07, 3),
    "busy_timeout_period": (0xFFFF, 6),
    "extended_self_test_completion_time": (0xFFFF, 8),
}
CONTROL_EXT = {
    "tcmos": (0x04, 0),
    "scsip": (0x02, 0),
    "ialuae": (0x01, 0),
    "initial_command_priority": (0x0F, 1),
    "maximum_sense_data_length": (0xFF, 2),
}
DISCONNECT = {
    "buffer_full_ratio": (0xFF, 0),
    "buffer_empty_ratio": (0xFF, 1),
    "bus_inactivity_limit": (0xFFFF, 2),
    "disconnect_time_limit": (0xFFFF, 4),
    "connect_time_limit": (0xFFFF, 6),
    "maximum_burst_size": (0xFFFF, 8),
    "emdp": (0x80, 10),
    "fair_arbitration": (0x70, 10),
    "dimm": (0x08, 10),
    "dtdc": (0x07, 10),
    "first_burst_size": (0xFFFF, 12),
}

# (page code, sub page code or None, body layout, body size)
MODE_PAGES = [
    (0x1D, None, ELEMENT_ADDRESS, 18),
    (0x0A, None, CONTROL, 10),
    (0x0A, 1, CONTROL_EXT, 28),
    (0x02, None, DISCONNECT, 14),
    (0x08, None, {}, 18),  # caching: only the page header is decoded
    (0x0A, 3, {}, 12),  # a control sub page without decoder
    (0x02, 0, {}, 14),  # sub page format of a page that is only known in page_0 format
    (0x1D, 7, ELEMENT_ADDRESS, 18),  # the element address page is decoded in both formats
]


def mode_page(code, sub, layout, size):
    ps = RNG.randrange(2)
    values = rnd_fields(layout)
    body = encode(bytearray(size), layout, values)
    if sub is None:
        raw = bytes([(ps << 7) | code, size]) + body
        want = {"ps": ps, "spf": 0, "page_code": code}
    else:
        raw = bytes([(ps << 7) | 0x40 | code, sub]) + be(size, 2) + body
        want = {"ps": ps, "spf": 1, "page_code": code, "sub_page_code": sub}
    want.update(values)
    return raw, want


def test_modesense():
    for i in range(12):
        for code, sub, layout, size in MODE_PAGES:
            raw, want_page = mode_page(code, sub, layout, size)
            ndesc = RNG.choice([0, 0, 1, 2])
            # MODE SENSE(6)
            mt, dsp = RNG.randrange(256), RNG.randrange(256)
            bd = rnd_bytes(8 * ndesc)
            buf = bytearray([0, mt, dsp, len(bd)]) + bd + raw
            buf[0] = len(buf) - 1
            want = {"medium_type": mt, "device_specific_parameter": dsp, "mode_pages": [want_page]}
            label = "modesense6 %02x/%s #%d" % (code, sub, i)
            check_decode(label, ModeSense6.unmarshall_datain, buf, want)
            if i < 2:
                via_scsi(label, spc, bytes(buf), lambda s: s.modesense6(code, alloclen=len(buf)), want)
            want0 = dict(want, mode_pages=[])
            check_decode(label + " hdr", ModeSense6.unmarshall_datain, buf[: 4 + len(bd)], want0)
            # MODE SENSE(10)
            longlba = RNG.randrange(2)
            bd = rnd_bytes((16 if longlba else 8) * ndesc)
            buf = bytearray([0, 0, mt, dsp, longlba, 0]) + be(len(bd), 2) + bd + raw
            buf[0:2] = be(len(buf) - 2, 2)
            want = {
                "medium_type": mt,
                "device_specific_parameter": dsp,
                "longlba": longlba,
                "mode_pages": [want_page],
            }
            label = "modesense10 %02x/%s #%d" % (code, sub, i)
            check_decode(label, ModeSense10.unmarshall_datain, buf, want)
            if i < 2:
                via_scsi(label, spc, bytes(buf), lambda s: s.modesense10(code, alloclen=len(buf)), want)
            want0 = dict(want, mode_pages=[])
            check_decode(label + " hdr", ModeSense10.unmarshall_datain, buf[: 8 + len(bd)], want0)

    # the library's own encoder and decoder agree
    page = {"ps": 1, "spf": 0, "page_code": 0x0A}
    page.update({k: mask_geometry(m)[2] // 2 for k, (m, _o) in CONTROL.items()})
    data = {"medium_type": 3, "device_specific_parameter": 0x90, "mode_pages": [page]}
    check("modesense6 roundtrip", ModeSense6.unmarshall_datain(ModeSense6.marshall_datain(data)), data)
    data["longlba"] = 1
    check("modesense10 roundtrip", ModeSense10.unmarshall_datain(ModeSense10.marshall_datain(data)), data)


# ----------------------------------------------------------------------------------
# READ CAPACITY
# ----------------------------------------------------------------------------------
RC10 = {"returned_lba": (0xFFFFFFFF, 0), "block_length": (0xFFFFFFFF, 4)}
RC16 = {
    "returned_lba": (0xFFFFFFFFFFFFFFFF, 0),
    "block_length": (0xFFFFFFFF, 8),
    "p_type": (0x0E, 12),
    "prot_en": (0x01, 12),
    "p_i_exponent": (0xF0, 13),
    "lbppbe": (0x0F, 13),
    "lbpme": (0x80, 14),
    "lbprz": (0x40, 14),
    "lowest_aligned_lba": (0x3FFF, 14),
}


def test_readcapacity():
    for i in range(40):
        values = rnd_fields(RC10)
        buf = encode(bytearray(8), RC10, values)
        check_decode("readcapacity10 #%d" % i, ReadCapacity10.unmarshall_datain, buf, values)
        if i < 3:
            via_scsi("readcapacity10", sbc, bytes(buf), lambda s: s.readcapacity10(), values)
        values = rnd_fields(RC16)
        buf = encode(bytearray(32), RC16, values)
        check_decode("readcapacity16 #%d" % i, ReadCapacity16.unmarshall_datain, buf, values)
        if i < 3:
            via_scsi("readcapacity16", sbc, bytes(buf), lambda s: s.readcapacity16(), values)
        check("rc16 roundtrip", ReadCapacity16.unmarshall_datain(ReadCapacity16.marshall_datain(values)), values)


# ----------------------------------------------------------------------------------
# GET LBA STATUS / REPORT LUNS / REPORT TARGET PORT GROUPS / REPORT PRIORITY
# ----------------------------------------------------------------------------------
def test_getlbastatus():
    for i, n in enumerate([0, 1, 2, 3, 7, 16, 64, 1, 2, 5]):
        descs, raw = [], bytearray()
        for _ in range(n):
            d = {
                "lba": rnd_value(0xFFFFFFFFFFFFFFFF),
                "num_blocks": rnd_value(0xFFFFFFFF),
                "p_status": RNG.randrange(16),
            }
            descs.append(d)
            raw += be(d["lba"], 8) + be(d["num_blocks"], 4) + bytes([d["p_status"], 0, 0, 0])
        buf = be(4 + len(raw), 4) + bytes(4) + raw + junk()
        want = {"lbas": descs}
        check_decode("getlbastatus n=%d #%d" % (n, i), GetLBAStatus.unmarshall_datain, buf, want)
        via_scsi("getlbastatus", sbc, bytes(buf), lambda s: s.getlbastatus(0, alloclen=len(buf) + 48), want)
        check("getlbastatus roundtrip", GetLBAStatus.unmarshall_datain(GetLBAStatus.marshall_datain(want)), want)


def test_reportluns():
    for i, n in enumerate([0, 1, 2, 3, 11, 12, 100, 256, 2, 4]):
        luns = [rnd_value(0xFFFFFFFFFFFFFFFF) for _ in range(n)]
        raw = b"".join(be(l, 8) for l in luns)
        buf = be(len(raw), 4) + bytes(4) + raw + junk()
        want = {"luns": [{"lun%d" % k: l} for k, l in enumerate(luns)]}
        check_decode("reportluns n=%d #%d" % (n, i), ReportLuns.unmarshall_datain, buf, want)
        via_scsi("reportluns", spc, bytes(buf), lambda s: s.reportluns(alloclen=len(buf) + 16), want)
        check("reportluns roundtrip", ReportLuns.unmarshall_datain(ReportLuns.marshall_datain(want)), want)


TPGD = {
    "pref": (0x80, 0),
    "asymmetric_access_state": (0x0F, 0),
    "t_sup": (0x80, 1),
    "o_sup": (0x40, 1),
    "u_sup": (0x08, 1),
    "s_sup": (0x04, 1),
    "an_sup": (0x02, 1),
    "ao_sup": (0x01, 1),
    "target_port_group": (0xFFFF, 2),
    "status_code": (0xFF, 5),
    "vendor": (0xFF, 6),
}


def test_reporttargetportgroups():
    f = ReportTargetPortGroups.unmarshall_datain
    shapes = [[], [0], [1], [3], [2, 0, 5], [1, 1, 1, 1], [17], [0, 0], [4, 2]]
    for i, shape in enumerate(shapes * 2):
        for extended in (0, 1):
            raw, groups = bytearray(), []
            for nports in shape:
                g = rnd_fields(TPGD)
                ports = [RNG.getrandbits(16) for _ in range(nports)]
                g["target_port_count"] = nports
                raw += encode(bytearray(8), TPGD, g)
                raw[-1] = nports
                for p in ports:
                    raw += bytes(2) + be(p, 2)
                g["target_ports"] = [{"relative_target_port_id": p} for p in ports]
                groups.append(g)
            want = {"format_type": extended, "target_port_group_descriptors": groups}
            if extended:
                itt = RNG.randrange(256)
                raw = bytearray([0x10, itt, 0, 0]) + raw
                want["implicit_transition_time"] = itt
            buf = be(len(raw), 4) + raw + junk()
            label = "rtpg %r ext=%d #%d" % (shape, extended, i)
            check_decode(label, f, buf, want)
            via_scsi(
                label, spc, bytes(buf),
                lambda s: s.reporttargetportgroups(data_format=extended, alloclen=len(buf) + 32),
                want,
            )
            check("rtpg roundtrip", f(ReportTargetPortGroups.marshall_datain(want)), want)


def test_reportpriority():
    # a response without priority descriptors
    for raw in (bytes(4), be(4, 4), be(4, 4) + bytes(12)):
        want = {"priority_descriptors": []}
        check_decode("reportpriority empty", ReportPriority.unmarshall_datain, raw, want)
    via_scsi("reportpriority", spc, be(4, 4), lambda s: s.reportpriority(alloclen=64), want)


# ----------------------------------------------------------------------------------
# READ ELEMENT STATUS
# ----------------------------------------------------------------------------------
ESD = {
    "element_address": (0xFFFF, 0),
    "except": (0x04, 2),
    "full": (0x01, 2),
    "additional_sense_code": (0xFF, 4),
    "additional_sense_code_qualifier": (0xFF, 5),
    "svalid": (0x80, 9),
    "invert": (0x40, 9),
    "ed": (0x08, 9),
    "medium_type": (0x07, 9),
    "source_storage_element_address": (0xFFFF, 10),
}
ESD_EXTRA = {
    1: {},
    2: {"access": (0x08, 2)},
    3: {
        "oir": (0x80, 2),
        "cmc": (0x40, 2),
        "inenab": (0x20, 2),
        "exenab": (0x10, 2),
        "access": (0x08, 2),
        "impexp": (0x02, 2),
    },
    4: {"access": (0x08, 2)},
}


def test_readelementstatus():
    f = ReadElementStatus.unmarshall_datain
    shapes = [[], [0], [1], [2, 1], [3, 0, 2], [1, 1, 1, 1], [9]]
    for i, shape in enumerate(shapes * 3):
        first, count = RNG.getrandbits(16), RNG.getrandbits(16)
        body, pages = bytearray(), []
        for ndesc in shape:
            etype = RNG.choice([1, 2, 3, 4])
            pvol, avol = RNG.randrange(2), RNG.randrange(2)
            tail = RNG.choice([0, 4, 4, 40])  # identifier / reserved bytes after the tags
            edl = 12 + 36 * pvol + 36 * avol + tail
            raw, descs = bytearray(), []
            for _ in range(ndesc):
                layout = dict(ESD)
                layout.update(ESD_EXTRA[etype])
                values = rnd_fields(layout)
                d = encode(bytearray(12), layout, values)
                if pvol:
                    values["primary_volume_tag"] = rnd_bytes(36)
                    d += values["primary_volume_tag"]
                if avol:
                    values["alternate_volume_tag"] = rnd_bytes(36)
                    d += values["alternate_volume_tag"]
                d += rnd_bytes(tail)
                assert len(d) == edl
                raw += d
                descs.append(values)
            body += bytes([etype, (pvol << 7) | (avol << 6)]) + be(edl, 2) + b"\0" + be(len(raw), 3)
            body += raw
            pages.append(
                {"element_type": etype, "pvoltag": pvol, "avoltag": avol, "element_descriptors": descs}
            )
        buf = be(first, 2) + be(count, 2) + b"\0" + be(len(body), 3) + body + junk()
        want = {"first_element_address": first, "num_elements": count, "element_status_pages": pages}
        label = "readelementstatus %r #%d" % (shape, i)
        check_decode(label, f, buf, want)
        via_scsi(label, smc, bytes(buf), lambda s: s.readelementstatus(0, 10, alloclen=len(buf) + 24), want)

    data = {
        "first_element_address": 12,
        "num_elements": 3,
        "element_status_pages": [
            {
                "element_type": 2, "pvoltag": 1, "avoltag": 0,
                "element_descriptors": [
                    dict({k: 1 for k in ESD}, access=1, primary_volume_tag=bytearray(b"V" * 36)),
                    dict({k: 0 for k in ESD}, access=0, primary_volume_tag=bytearray(b"W" * 36)),
                ],
            },
            {"element_type": 4, "pvoltag": 0, "avoltag": 0,
             "element_descriptors": [dict({k: 1 for k in ESD}, access=1)]},
        ],
    }
    check("readelementstatus roundtrip", f(ReadElementStatus.marshall_datain(data)), data)


# ----------------------------------------------------------------------------------
# PERSISTENT RESERVE IN
# ----------------------------------------------------------------------------------
def transport_id():
    proto = RNG.choice([0, 3, 4, 5, 6, 0x0A])
    if proto == 5:
        fmt = RNG.randrange(2)
        name = "iqn.1993-08.org.debian:01:%x" % RNG.getrandbits(RNG.choice([4, 24, 48]))
        want = {"tpid_format": fmt, "protocol_id": 5, "iscsi_name": name}
        text = name
        if fmt:
            isid = "%012x" % RNG.getrandbits(48)
            text += ",i,0x" + isid
            want["iscsi_initiator_session_id"] = isid
        raw = text.encode() + b"\0"
        raw += bytes(-len(raw) % 4)
        return bytes([(fmt << 6) | 5, 0]) + be(len(raw), 2) + raw, want
    raw = bytearray(rnd_bytes(24))
    raw[0] = proto
    want = {"tpid_format": 0, "protocol_id": proto}
    if proto == 0:
        want["n_port_name"] = raw[8:16]
    elif proto == 3:
        want["eui64_name"] = raw[8:16]
    elif proto == 4:
        want["initiator_port_identifier"] = raw[8:24]
    elif proto == 6:
        want["sas_address"] = raw[4:12]
    else:
        want["routing_id"] = raw[4:12]
    return bytes(raw), want


def test_persistentreservein():
    pr = spc.PERSISTENT_RESERVE_IN.serviceaction
    # READ KEYS
    for i, n in enumerate([0, 1, 2, 3, 10, 125, 2]):
        gen = rnd_value(0xFFFFFFFF)
        keys = [rnd_value(0xFFFFFFFFFFFFFFFF) for _ in range(n)]
        buf = be(gen, 4) + be(8 * n, 4) + b"".join(be(k, 8) for k in keys) + junk()
        want = {"pr_generation": gen, "reservation_keys": keys}
        check_decode("pr read keys n=%d" % n, PersistentReserveInReadKeys.unmarshall_datain, buf, want)
        via_scsi(
            "pr read keys", spc, bytes(buf),
            lambda s: s.persistentreservein(pr.READ_KEYS, alloclen=len(buf) + 8), want,
        )
    # READ RESERVATION
    f = PersistentReserveInReadReservation.unmarshall_datain
    for i in range(20):
        gen = rnd_value(0xFFFFFFFF)
        check_decode("pr read reservation none", f, be(gen, 4) + bytes(4) + junk(), {"pr_generation": gen})
        key, scope, typ = rnd_value(0xFFFFFFFFFFFFFFFF), RNG.randrange(16), RNG.randrange(16)
        buf = be(gen, 4) + be(16, 4) + be(key, 8) + bytes(5) + bytes([(scope << 4) | typ]) + bytes(2)
        want = {"pr_generation": gen, "reservation_key": key, "scope": scope, "type": typ}
        check_decode("pr read reservation #%d" % i, f, buf + junk(), want)
        via_scsi(
            "pr read reservation", spc, bytes(buf),
            lambda s: s.persistentreservein(pr.READ_RESERVATION), want,
        )
    check_raises("pr read reservation bad length", ValueError, f, be(1, 4) + be(8, 4) + bytes(16))
    # REPORT CAPABILITIES
    f = PersistentReserveInReportCapabilities.unmarshall_datain
    caps = {
        "rlr_c": (0x80, 2),
        "crh": (0x10, 2),
        "sip_c": (0x08, 2),
        "atp_c": (0x04, 2),
        "ptpl_c": (0x01, 2),
        "tmv": (0x80, 3),
        "allow_commands": (0x70, 3),
        "ptpl_a": (0x01, 3),
    }
    mask_bits = {
        "wr_ex_ar": (0x80, 4),
        "ex_ac_ro": (0x40, 4),
        "wr_ex_ro": (0x20, 4),
        "ex_ac": (0x08, 4),
        "wr_ex": (0x02, 4),
        "ex_ac_ar": (0x01, 5),
    }
    for i in range(30):
        values, mvalues = rnd_fields(caps), rnd_fields(mask_bits)
        buf = encode(encode(bytearray(8), caps, values), mask_bits, mvalues)
        buf[0:2] = be(8, 2)
        want = dict(values, pr_type_mask=mvalues)
        check_decode("pr report capabilities #%d" % i, f, buf + junk(), want)
        via_scsi(
            "pr report capabilities", spc, bytes(buf),
            lambda s: s.persistentreservein(pr.REPORT_CAPABILITIES), want,
        )
    check_decode("pr report capabilities none", f, bytes(8), {})
    check_raises("pr report capabilities bad length", ValueError, f, be(6, 2) + bytes(6))
    # READ FULL STATUS
    f = PersistentReserveInReadFullStatus.unmarshall_datain
    for i, n in enumerate([0, 1, 2, 3, 6, 12, 4, 4, 4]):
        gen = rnd_value(0xFFFFFFFF)
        raw, descs = bytearray(), []
        for _ in range(n):
            tid, tid_want = transport_id()
            d = {
                "reservation_key": rnd_value(0xFFFFFFFFFFFFFFFF),
                "r_holder": RNG.randrange(2),
                "all_tg_pt": RNG.randrange(2),
                "scope": RNG.randrange(16),
                "type": RNG.randrange(16),
                "relative_target_port_id": RNG.getrandbits(16),
            }
            raw += be(d["reservation_key"], 8) + bytes(4)
            raw += bytes([(d["all_tg_pt"] << 1) | d["r_holder"], (d["scope"] << 4) | d["type"]])
            raw += bytes(4) + be(d["relative_target_port_id"], 2) + be(len(tid), 4) + tid
            d["transport_id"] = tid_want
            descs.append(d)
            check("transport id", PersistentReserveInReadFullStatus.unmarshall_transport_id(tid), tid_want)
            back = PersistentReserveInReadFullStatus.marshall_transport_id(tid_want)
            check(
                "transport id roundtrip",
                PersistentReserveInReadFullStatus.unmarshall_transport_id(back),
                tid_want,
            )
        buf = be(gen, 4) + be(len(raw), 4) + raw + junk()
        want = {"pr_generation": gen, "full_status": descs}
        check_decode("pr read full status n=%d #%d" % (n, i), f, buf, want)
        via_scsi(
            "pr read full status", spc, bytes(buf),
            lambda s: s.persistentreservein(pr.READ_FULL_STATUS, alloclen=len(buf) + 16), want,
        )


# ----------------------------------------------------------------------------------
# READ DISC INFORMATION
# ----------------------------------------------------------------------------------
SDI = {
    "erasable": (0x10, 2),
    "state_of_last_session": (0x0C, 2),
    "disc_status": (0x03, 2),
    "number_of_first_track_on_disc": (0xFF, 3),
    "did_v": (0x80, 7),
    "dbc_v": (0x40, 7),
    "uru": (0x20, 7),
    "dac_v": (0x10, 7),
    "legacy": (0x04, 7),
    "bg_format_status": (0x03, 7),
    "disc_type": (0xFF, 8),
    "disc_identification": (0xFFFFFFFF, 12),
    "last_session_lead_in_start_address": ("b", 16, 4),
    "last_possible_lead_out_start_address": ("b", 20, 4),
    "disc_bar_code": ("b", 24, 8),
    "disc_application_code": (0xFF, 32),
    "number_of_opc_tables": (0xFF, 33),
}
TRI = {
    "maximum_possible_number_of_the_tracks": (0xFFFF, 4),
    "number_of_the_assigned_tracks": (0xFFFF, 6),
    "maximum_possible_number_of_appendable_tracks": (0xFFFF, 8),
    "current_number_of_appendable_tracks": (0xFFFF, 10),
}
POW = {
    "remaining_pow_replacements": (0xFFFFFFFF, 4),
    "remaining_pow_reallocation_map_entries": (0xFFFFFFFF, 8),
    "number_of_remaining_pow_updates": (0xFFFFFFFF, 12),
}


def test_readdiscinformation():
    f = ReadDiscInformation.unmarshall_datain
    for i in range(30):
        values = rnd_fields(SDI)
        sessions, first, last = (RNG.choice([0, 1, 255, 256, 0xFFFF, RNG.getrandbits(16)]) for _ in range(3))
        nopc = RNG.choice([0, 0, 2])
        values["number_of_opc_tables"] = nopc
        buf = encode(bytearray(34), SDI, values) + rnd_bytes(8 * nopc)
        buf[4], buf[9] = sessions & 0xFF, sessions >> 8
        buf[5], buf[10] = first & 0xFF, first >> 8
        buf[6], buf[11] = last & 0xFF, last >> 8
        buf[0:2] = be(len(buf) - 2, 2)
        want = dict(values)
        want.update(
            disc_information_length=len(buf) - 2,
            disc_information_data_type=0,
            number_of_sessions=sessions,
            first_track_number_in_last_session=first,
            last_track_number_in_last_session=last,
        )
        check_decode("readdiscinformation std #%d" % i, f, buf + junk(), want)
        if i < 3:
            via_scsi("readdiscinformation std", mmc, bytes(buf), lambda s: s.readdiscinformation(0), want)
        for dtype, layout, size in ((1, TRI, 12), (2, POW, 16)):
            values = rnd_fields(layout)
            buf = encode(bytearray(size), layout, values)
            buf[0:2] = be(size - 2, 2)
            buf[2] = dtype << 5
            want = dict(values, disc_information_length=size - 2, disc_information_data_type=dtype)
            check_decode("readdiscinformation %d #%d" % (dtype, i), f, buf + junk(), want)
            if i < 3:
                via_scsi(
                    "readdiscinformation %d" % dtype, mmc, bytes(buf),
                    lambda s: s.readdiscinformation(dtype, alloc_len=64), want,
                )
    for dtype in range(3, 8):
        check_raises("readdiscinformation type %d" % dtype, NotImplementedError, f, bytearray([0, 10, dtype << 5] + [0] * 9))


# ----------------------------------------------------------------------------------
# READ CD
# ----------------------------------------------------------------------------------
CDDA, MODE_1, FORMLESS, FORM_1, FORM_2 = 1, 2, 3, 4, 5


def cd_main_channel(mcsb, est):
    """the main channel fields (as a 5 bit value) the device returns, MMC table 354"""
    m = mcsb << 3
    if m in (0x28, 0x48, 0x68, 0x88, 0x90, 0x98, 0xA8, 0xC0, 0xC8, 0xD0, 0xD8, 0xE8) and est != CDDA:
        raise ValueError
    if m in (0x30, 0xB0, 0xB8) and est > FORMLESS:
        raise ValueError
    if est == CDDA:
        m = 0x10
    remap = [
        (0x08, (FORM_1,), 0x10),
        (0x38, (FORMLESS,), 0x30),
        (0x58, (FORMLESS,), 0x10),
        (0xB8, (FORMLESS,), 0xB0),
        (0xF8, (FORMLESS,), 0xB0),
        (0x40, (MODE_1, FORMLESS), 0x00),
        (0x50, (0, CDDA, MODE_1, FORMLESS), 0x10),
        (0x58, (MODE_1,), 0x18),
        (0x60, (MODE_1, FORMLESS), 0x20),
        (0x70, (MODE_1, FORMLESS), 0x30),
        (0x78, (MODE_1, FORMLESS), 0x38),
        (0xE0, (MODE_1, FORMLESS), 0xA0),
        (0xF0, (MODE_1, FORMLESS), 0xB0),
        (0xF8, (MODE_1,), 0xB8),
    ]
    for src, ests, dst in remap:
        if m == src and est in ests:
            return dst >> 3
    return m >> 3


SC2 = {
    "c": (0xF0, 0),
    "adr": (0x0F, 0),
    "track-number": (0xFF, 1),
    "index-number": (0xFF, 2),
    "min": (0xFF, 3),
    "sec": (0xFF, 4),
    "frame": (0xFF, 5),
    "zero": (0xFF, 6),
    "amin": (0xFF, 7),
    "asec": (0xFF, 8),
    "aframe": (0xFF, 9),
    "crc": (0xFFFF, 10),
    "p": (0x80, 15),
}
USER_DATA = {CDDA: 2352, MODE_1: 2048, FORMLESS: 2336, FORM_1: 2048, FORM_2: 2324}


def cd_sector(flags, est, c2ei, scsb):
    """-> (raw bytes, expected dict) or raises the exception the decoder must raise"""
    raw, want = bytearray(), {}
    if flags & 0x10:
        want["sync"] = b"\x00" + b"\xff" * 10 + b"\x00"
        raw += want["sync"]
    if flags & 0x04:
        h = rnd_bytes(4)
        raw += h
        want["sector-header"] = {"minute": h[0], "second": h[1], "frame": h[2], "mode": h[3]}
    if flags & 0x08:
        want["sector-subheader"] = []
        for _ in range(2):
            h = rnd_bytes(4)
            raw += h
            want["sector-subheader"].append(
                {"file-number": h[0], "channel-number": h[1], "sub-mode": h[2], "data": h}
            )
    if flags & 0x02 and est in USER_DATA:
        want["data"] = rnd_bytes(USER_DATA[est])
        raw += want["data"]
    if flags & 0x01:
        if est == CDDA:
            pass
        elif est == MODE_1:
            want["edc"], want["p-parity"], want["q-parity"] = rnd_bytes(4), rnd_bytes(172), rnd_bytes(104)
            raw += want["edc"] + bytes(8) + want["p-parity"] + want["q-parity"]
        elif est == FORMLESS:
            raise ValueError
        elif est == FORM_1:
            want["edc"], want["p-parity"], want["q-parity"] = rnd_bytes(4), rnd_bytes(172), rnd_bytes(104)
            raw += want["edc"] + want["p-parity"] + want["q-parity"]
        elif est == FORM_2:
            want["edc"] = rnd_bytes(4)
            raw += want["edc"]
        else:
            raise NotImplementedError
    if c2ei == 1:
        want["c2ei-data"] = rnd_bytes(294)
        raw += want["c2ei-data"]
    if c2ei == 2:
        want["c2ei"] = {"data": rnd_bytes(296)}
        raw += want["c2ei"]["data"]
    if scsb == 2:
        values = rnd_fields(SC2)
        sub = encode(bytearray(rnd_bytes(16)), {}, {})
        for name, (mask, off) in SC2.items():  # clear then set, keeps the unused bytes random
            size, _s, _t = mask_geometry(mask)
            cur = int.from_bytes(sub[off : off + size], "big") & ~mask
            sub[off : off + size] = be(cur, size)
        encode(sub, SC2, values)
        want["subchannel"] = dict(values, data=bytes(sub))
        raw += sub
    if scsb == 4:
        want["subchannel"] = {"data": rnd_bytes(96)}
        raw += want["subchannel"]["data"]
    return bytes(raw), want


def test_readcd():
    f = ReadCd.unmarshall_datain
    count = 0
    for mcsb in range(32):
        for est in range(6):
            for c2ei, scsb in ((0, 0), (1, 2), (2, 4), (0, 2), (3, 1)):
                lba, tl = RNG.choice([0, 16, 0x12345]), RNG.choice([1, 2, 3])
                kwargs = {"est": est, "mcsb": mcsb, "c2ei": c2ei, "scsb": scsb}
                label = "readcd %r" % (kwargs,)
                try:
                    flags = cd_main_channel(mcsb, est)
                    raw, want = bytearray(), {}
                    for n in range(tl):
                        r, w = cd_sector(flags, est, c2ei, scsb)
                        raw += r
                        want[lba + n] = w
                except (ValueError, NotImplementedError) as exc:
                    check_raises(label, type(exc), f, bytearray(3072 * tl), lba=lba, tl=tl, **kwargs)
                    continue
                check_decode(label, f, raw + junk(), want, lba=lba, tl=tl, **kwargs)
                check_decode(label + " tl=0", f, raw, {}, lba=lba, tl=0, **kwargs)
                count += 1
                if count % 9 == 0 and tl:
                    via_scsi(label, mmc, bytes(raw), lambda s: s.readcd(lba, tl, **kwargs), want)
    # defaults: no main channel data selected at all
    check_decode("readcd defaults", f, bytes(10), {7: {}, 8: {}}, lba=7, tl=2)
    check_decode("readcd no args", f, bytes(10), {})


def main():
    tests = [
        test_converter,
        test_inquiry_standard,
        test_inquiry_vpd,
        test_modesense,
        test_readcapacity,
        test_getlbastatus,
        test_reportluns,
        test_reporttargetportgroups,
        test_reportpriority,
        test_readelementstatus,
        test_persistentreservein,
        test_readdiscinformation,
        test_readcd,
    ]
    for t in tests:
        try:
            t()
        except Exception as exc:  # a crash inside a test is a failure of the property
            import traceback

            FAILURES.append("%s crashed: %s" % (t.__name__, traceback.format_exc()))
    if FAILURES:
        print("FAIL: %d of %d checks failed" % (len(FAILURES), CHECKS[0]))
        for line in FAILURES[:25]:
            print(" -", line)
        return 1
    print("PASS (%d checks)" % CHECKS[0])
    return 0


if __name__ == "__main__":
    sys.exit(main())
