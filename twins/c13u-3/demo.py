#!/usr/bin/env python
"""
Standalone check of property C13 (facade -> opcode -> execute once -> decode).

Run:  cd /tmp/seed/C13u && PYTHONPATH=/tmp/seed/C13u /venv/bin/python SEED/demo.py
      (add --regen to rewrite the GOLDEN table from the code that is checked out)
"""
import hashlib
import os
import random
import struct
import sys
import types

# ---------------------------------------------------------------------------
# fake external bindings (sgio / iscsi), installed before the library import
# ---------------------------------------------------------------------------
TARGET = {"devtype": 0, "fail": None, "log": [], "status": 0, "raw_sense": "unset"}


def respond(cdb, dataout, datain):
    """a tiny deterministic target emulator: fills datain IN PLACE"""
    n = len(datain)
    if n == 0:
        return
    op = cdb[0]
    buf = bytearray(n)
    if op == 0x12 and not (cdb[1] & 1):  # standard INQUIRY
        std = bytearray(96)
        std[0] = TARGET["devtype"] & 0x1F
        std[1] = 0x80
        std[2] = 0x06
        std[3] = 0x32
        std[4] = 91
        std[5] = 0xB9
        std[6] = 0x50
        std[7] = 0x33
        std[8:16] = b"FAKEVEND"
        std[16:32] = b"FAKE PRODUCT 001"
        std[32:36] = b"1.23"
        std[56] = 0x0F
        buf[: min(n, 96)] = std[: min(n, 96)]
    elif op == 0x12:  # VPD
        page = cdb[2]
        body = {
            0x00: bytes([0x00, 0x80, 0xB0, 0xB1, 0xB2]),
            0x80: b"SERIAL0042",
            0xB0: bytes(range(1, 61)),
            0xB1: bytes(range(3, 63)),
            0xB2: bytes([0x05, 0xE6, 0x02, 0, 0, 0, 0, 0]),
            0xB3: bytes(range(7, 19)),
            0x86: bytes(range(9, 69)),
        }.get(page, bytes([0xAA, 0x55]))
        pg = bytearray([TARGET["devtype"] & 0x1F, page]) + struct.pack(">H", len(body)) + body
        buf[: min(n, len(pg))] = pg[: min(n, len(pg))]
    elif op == 0x25:  # READ CAPACITY 10
        d = struct.pack(">II", 0x00FFEE11, 4096)
        buf[: min(n, 8)] = d[: min(n, 8)]
    elif op == 0x9E and (cdb[1] & 0x1F) == 0x10:  # READ CAPACITY 16
        d = struct.pack(">QIBBH", 0x0102030405060708, 512, 0x0B, 0x35, 0xC123) + bytes(16)
        buf[: min(n, 32)] = d[: min(n, 32)]
    elif op == 0x9E and (cdb[1] & 0x1F) == 0x12:  # GET LBA STATUS
        descs = b"".join(
            struct.pack(">QIB3x", 0x1000 * i, 0x800 + i, i & 3) for i in range(3)
        )
        d = struct.pack(">I4x", len(descs) + 4) + descs
        buf[: min(n, len(d))] = d[: min(n, len(d))]
    elif op == 0xA0:  # REPORT LUNS
        luns = b"".join(struct.pack(">Q", i << 48) for i in range(4))
        d = struct.pack(">I4x", len(luns)) + luns
        buf[: min(n, len(d))] = d[: min(n, len(d))]
    elif op in (0x1A, 0x5A):  # MODE SENSE: header + one small page
        page = bytes([cdb[2] & 0x3F, 0x0A]) + bytes(range(0x10, 0x1A))
        if op == 0x1A:
            d = bytes([3 + len(page), 0x00, 0x90, 0x00]) + page
        else:
            d = struct.pack(">HBBBBH", 6 + len(page), 0x00, 0x90, 0, 0, 0) + page
        buf[: min(n, len(d))] = d[: min(n, len(d))]
    elif op == 0x5E:  # PERSISTENT RESERVE IN
        sa = cdb[1] & 0x1F
        if sa == 0:
            keys = struct.pack(">QQ", 0xDEADBEEF, 0xCAFEF00D)
            d = struct.pack(">II", 7, len(keys)) + keys
        elif sa == 1:
            d = struct.pack(">II", 9, 16) + struct.pack(">Q4xxBxx", 0xABCDEF0123, 0x05)
        elif sa == 2:
            d = struct.pack(">HBBH2x", 8, 0x1D, 0xA1, 0xEA01)
        else:
            d = struct.pack(">II", 11, 0)
        buf[: min(n, len(d))] = d[: min(n, len(d))]
    else:  # anything else: pseudo random but deterministic garbage
        rnd = random.Random(bytes(cdb))
        tile = rnd.randbytes(min(n, 4096))
        buf[:] = (tile * (n // len(tile) + 1))[:n]
    datain[:] = buf


def target_io(kind, cmd_or_none, cdb, dataout, datain):
    """common recording point: called exactly when a backend performs the I/O"""
    TARGET["log"].append(
        {
            "kind": kind,
            "cmd": cmd_or_none,
            "cdb": cdb,
            "dataout": dataout,
            "datain": datain,
            "cdb_snapshot": bytes(cdb),
            "dataout_snapshot": None if dataout is None else bytes(dataout),
            "datain_before": None if datain is None else bytes(datain),
        }
    )
    if TARGET["fail"] is not None:
        return TARGET["fail"]
    respond(cdb, dataout, datain)
    TARGET["log"][-1]["datain_after"] = bytes(datain)
    return None


sgio = types.ModuleType("sgio")


class CheckConditionError(Exception):
    def __init__(self, sense):
        Exception.__init__(self, "check condition")
        self.sense = sense


def sgio_execute(fileobj, cdb, dataout, datain, *args, **kwargs):
    assert not args and not kwargs, "sgio.execute called with unexpected extras"
    assert hasattr(fileobj, "fileno") and not fileobj.closed
    fail = target_io("sgio", None, cdb, dataout, datain)
    if fail is not None:
        raise fail


sgio.CheckConditionError = CheckConditionError
sgio.execute = sgio_execute
sys.modules["sgio"] = sgio

iscsi = types.ModuleType("iscsi")
iscsi.SCSI_XFER_NONE, iscsi.SCSI_XFER_READ, iscsi.SCSI_XFER_WRITE = 0, 1, 2
iscsi.ISCSI_SESSION_NORMAL = 2
iscsi.ISCSI_HEADER_DIGEST_NONE_CRC32C = 1
ISCSI_EVENTS = []


class _Context:
    def __init__(self, name):
        ISCSI_EVENTS.append(("context", name))

    def set_targetname(self, t):
        ISCSI_EVENTS.append(("targetname", t))

    def set_session_type(self, t):
        ISCSI_EVENTS.append(("session", t))

    def set_header_digest(self, t):
        ISCSI_EVENTS.append(("digest", t))

    def connect(self, portal, lun):
        ISCSI_EVENTS.append(("connect", portal, lun))

    def disconnect(self):
        ISCSI_EVENTS.append(("disconnect",))

    def command(self, lun, task, dataout, datain):
        ISCSI_EVENTS.append(("command", lun, task.dir, task.xferlen))
        assert task.cdb is not None
        fail = target_io("iscsi", None, task.cdb, dataout, datain)
        if fail is not None:
            raise fail
        task.status = TARGET["status"]
        if TARGET["raw_sense"] != "unset":
            task.raw_sense = TARGET["raw_sense"]


class _URL:
    def __init__(self, ctx, url):
        self.target = "iqn.fake:" + url.rsplit("/", 2)[-2]
        self.portal = url.split("/")[2]
        self.lun = int(url.rsplit("/", 1)[-1])


class _Task:
    def __init__(self, cdb, dir, xferlen):
        self.cdb, self.dir, self.xferlen = cdb, dir, xferlen
        self.status = None


iscsi.Context, iscsi.URL, iscsi.Task = _Context, _URL, _Task
sys.modules["iscsi"] = iscsi

# ---------------------------------------------------------------------------
# the library
# ---------------------------------------------------------------------------
import pyscsi.pyscsi.scsi_enum_command as enum_command  # noqa: E402
from pyscsi.pyiscsi.iscsi_device import ISCSIDevice  # noqa: E402
from pyscsi.pyscsi.scsi import SCSI  # noqa: E402
from pyscsi.pyscsi.scsi_command import SCSICommand  # noqa: E402
from pyscsi.pyscsi.scsi_device import SCSIDevice  # noqa: E402
from pyscsi.pyscsi.scsi_enum_command import mmc, sbc, smc, spc, ssc  # noqa: E402
from pyscsi.pyscsi.scsi_sense import SCSICheckCondition  # noqa: E402
from pyscsi.utils import converter  # noqa: E402
from pyscsi.utils.converter import (  # noqa: E402
    decode_bits,
    encode_dict,
    get_opcode,
    scsi_ba_to_int,
    scsi_int_to_ba,
)

SETS = {"spc": spc, "sbc": sbc, "ssc": ssc, "smc": smc, "mmc": mmc}
FAILURES = []
TRANSCRIPT = {}
CHECKS = [0]


def check(cond, msg):
    CHECKS[0] += 1
    if not cond:
        FAILURES.append(msg)


def note(key, value):
    """record an observable for the golden comparison"""
    assert key not in TRANSCRIPT, "duplicate transcript key %r" % key
    TRANSCRIPT[key] = value if isinstance(value, str) else canon(value)


def canon(v):
    if isinstance(v, dict):
        return "{" + ", ".join("%s: %s" % (canon(k), canon(v[k])) for k in v) + "}"
    if isinstance(v, (list, tuple)):
        o, c = ("[", "]") if isinstance(v, list) else ("(", ")")
        return o + ", ".join(canon(x) for x in v) + c
    if isinstance(v, (bytes, bytearray)):
        return "%s:%s" % (type(v).__name__, bytes(v).hex())
    if isinstance(v, bool):
        return "bool:%s" % v
    if isinstance(v, (int, str, float)) or v is None:
        return repr(v)
    return "<%s>" % type(v).__name__


MESSAGE_TYPES = (ValueError, NotImplementedError, RuntimeError)


def exc_desc(e):
    name = type(e).__name__
    if isinstance(e, MESSAGE_TYPES) and not isinstance(e, UnicodeError):
        return "%s(%s)" % (name, ", ".join(str(a) for a in e.args))
    return name


class RecDevice:
    """a pure python device (same shape as the test-suite's MockDevice)"""

    def __init__(self, opcodes):
        self._opcodes = opcodes
        self.closed = 0
        self.seen_result = []
        self.kw = []

    @property
    def opcodes(self):
        return self._opcodes

    @opcodes.setter
    def opcodes(self, value):
        self._opcodes = value

    def execute(self, cmd, en_raw_sense=False):
        self.kw.append(en_raw_sense)
        self.seen_result.append(None if cmd.result is None else dict(cmd.result))
        fail = target_io("rec", cmd, cmd.cdb, cmd.dataout, cmd.datain)
        if fail is not None:
            raise fail

    def close(self):
        self.closed += 1


class BareSCSI(SCSI):
    """like tests.mock_device.MockSCSI: no INQUIRY on attach"""

    def __init__(self, dev):
        self.device = dev


# ---------------------------------------------------------------------------
# catalogue of facade calls: method -> (opcode name | ("suffix", xx), [(args, kwargs)...])
# ---------------------------------------------------------------------------
def blk(n, size=512, seed=7):
    rnd = random.Random(seed * 1000 + n)
    return bytearray(rnd.randbytes(n * size))


ATA_POS = (4, 2, 1, 1, 0, 0, 0, 1, 0, 0xEC)
PR_BASIC = dict(
    reservation_key=0x1122334455667788,
    service_action_reservation_key=0x99AABBCCDDEEFF00,
    spec_i_pt=0,
    all_tg_pt=1,
    aptpl=1,
)
CATALOGUE = {
    "inquiry": ("INQUIRY", [
        ((), {}), ((0,), {}), ((0, 0, 96), {}), ((), {"alloclen": 36}), ((), {"alloclen": 5}),
        ((1, 0x00), {}), ((1, 0x80, 64), {}), ((), {"evpd": 1, "page_code": 0xB0, "alloclen": 64}),
        ((1, 0xB1, 64), {}), ((1, 0xB2), {}), ((1, 0xB3, 32), {}), ((1, 0x86, 64), {}),
        ((True, 0x80, 255), {}), ((), {"evpd": 0, "page_code": 0, "alloclen": 0xFFFF}),
        ((1, 0xC7), {}),
    ]),
    "testunitready": ("TEST_UNIT_READY", [((), {})]),
    "readcapacity10": ("READ_CAPACITY_10", [((), {}), ((), {"alloclen": 8}), ((), {"alloclen": 4}), ((), {"alloclen": 16})]),
    "readcapacity16": (("suffix", "9E"), [((), {}), ((), {"alloclen": 32}), ((), {"alloclen": 12}), ((), {"alloclen": 64})]),
    "getlbastatus": (("suffix", "9E"), [((0,), {}), ((0x1000,), {"alloclen": 64}), ((2 ** 64 - 1,), {"alloclen": 24}), ((), {"lba": 5})]),
    "read10": ("READ_10", [
        ((0, 1), {}), ((1024, 27), {}), ((0xFFFFFFFF, 0xFFFF), {}), ((5, 0), {}),
        ((1, 2), {"rdprotect": 2, "dpo": 1, "fua": 1, "rarc": 1, "group": 19}),
        ((1, 2), {"rdprotect": 7}), ((1, 2), {"dpo": True}), ((1, 2), {"fua": 1}),
        ((1, 2), {"rarc": 1}), ((1, 2), {"group": 31}), ((), {"lba": 9, "tl": 3}),
        ((1, 2), {"rdprotect": 0, "dpo": 0, "fua": 0, "rarc": 0, "group": 0}),
    ]),
    "read12": ("READ_12", [
        ((0, 1), {}), ((0xFFFFFFFF, 0x10000), {}), ((7, 3), {"rdprotect": 5, "dpo": 1, "fua": 1, "rarc": 1, "group": 9}),
        ((7, 3), {"group": 31}), ((7, 3), {"rarc": True}), ((7, 3), {"rdprotect": 0, "dpo": 0, "fua": 0, "rarc": 0, "group": 0}),
    ]),
    "read16": ("READ_16", [
        ((0, 1), {}), ((2 ** 64 - 1, 3), {}), ((2 ** 40 + 3, 2), {"rdprotect": 1, "dpo": 1, "fua": 0, "rarc": 1, "group": 30}),
        ((8, 1), {"fua": 1}), ((8, 1), {"rdprotect": 0, "dpo": 0, "fua": 0, "rarc": 0, "group": 0}),
    ]),
    "write10": ("WRITE_10", [
        ((0, 1, blk(1)), {}), ((77, 2, blk(2)), {"wrprotect": 3, "dpo": 1, "fua": 1, "group": 17}),
        ((0xFFFFFFFF, 1, bytes(blk(1))), {}), ((3, 1, blk(1)), {"wrprotect": 0, "dpo": 0, "fua": 0, "group": 0}),
        ((3, 1, blk(1)), {"fua": True}), ((3, 0, bytearray()), {}), ((), {"lba": 1, "tl": 1, "data": blk(1)}),
    ]),
    "write12": ("WRITE_12", [
        ((0, 1, blk(1)), {}), ((0xFFFFFFFE, 2, blk(2)), {"wrprotect": 7, "dpo": 1, "fua": 1, "group": 31}),
        ((3, 1, blk(1)), {"wrprotect": 0, "dpo": 0, "fua": 0, "group": 0}), ((3, 1, blk(1)), {"dpo": 1}),
    ]),
    "write16": ("WRITE_16", [
        ((0, 1, blk(1)), {}), ((2 ** 63 + 5, 2, blk(2)), {"wrprotect": 4, "dpo": 1, "fua": 1, "group": 1}),
        ((3, 1, blk(1)), {"wrprotect": 0, "dpo": 0, "fua": 0, "group": 0}), ((3, 1, blk(1)), {"group": 5}),
    ]),
    "writesame10": ("WRITE_SAME_10", [
        ((0, 8, blk(1)), {}), ((9, 0xFFFF, blk(1)), {"wrprotect": 1, "anchor": 1, "unmap": 1, "group": 3}),
        ((9, 1, blk(1)), {"wrprotect": 0, "anchor": 0, "unmap": 0, "group": 0}), ((9, 1, blk(1)), {"unmap": 1}),
    ]),
    "writesame16": ("WRITE_SAME_16", [
        ((0, 8, blk(1)), {}), ((2 ** 48, 0xFFFFFFFF, blk(1)), {"wrprotect": 6, "anchor": 1, "unmap": 1, "group": 30}),
        ((9, 1, None), {"ndob": 1}), ((9, 1, blk(1)), {"wrprotect": 0, "anchor": 0, "unmap": 0, "ndob": 0, "group": 0}),
    ]),
    "synchronizecache10": ("SYNCHRONIZE_CACHE_10", [((0, 0), {}), ((0xFFFFFFFF, 0xFFFF), {"immed": 1, "group": 31}), ((4, 4), {"immed": 0, "group": 0}), ((4, 4), {"group": 2})]),
    "synchronizecache16": ("SYNCHRONIZE_CACHE_16", [((0, 0), {}), ((2 ** 64 - 1, 0xFFFFFFFF), {"immed": 1, "group": 31}), ((4, 4), {"immed": 0, "group": 0}), ((4, 4), {"immed": True})]),
    "modesense6": ("MODE_SENSE_6", [
        ((0x08,), {}), ((0x0A,), {"sub_page_code": 1, "dbd": 1, "pc": 2, "alloclen": 64}),
        ((0x1C,), {"sub_page_code": 0, "dbd": 0, "pc": 0, "alloclen": 96}), ((0x3F,), {"alloclen": 4}),
        ((0x3F,), {"alloclen": 255}), ((), {"page_code": 2, "pc": 3}),
    ]),
    "modesense10": ("MODE_SENSE_10", [
        ((0x08,), {}), ((0x0A,), {"sub_page_code": 3, "llbaa": 1, "dbd": 1, "pc": 1, "alloclen": 128}),
        ((0x1C,), {"sub_page_code": 0, "llbaa": 0, "dbd": 0, "pc": 0, "alloclen": 96}), ((0x3F,), {"alloclen": 8}),
        ((0x3F,), {"alloclen": 0xFFFF}),
    ]),
    "modeselect6": ("MODE_SELECT_6", [
        (({"medium_type": 0, "device_specific_parameter": 0, "mode_pages": []},), {}),
        (({"medium_type": 1, "device_specific_parameter": 0x10, "mode_pages": []},), {"pf": 0, "sp": 1}),
        (({"medium_type": 1, "device_specific_parameter": 0x10, "mode_pages": []},), {"pf": 1, "sp": 0}),
    ]),
    "modeselect10": ("MODE_SELECT_10", [
        (({"medium_type": 0, "device_specific_parameter": 0, "longlba": 0, "mode_pages": []},), {}),
        (({"medium_type": 2, "device_specific_parameter": 0x80, "longlba": 0, "mode_pages": []},), {"pf": 0, "sp": 1}),
    ]),
    "reportluns": ("REPORT_LUNS", [((), {}), ((), {"report": 2, "alloclen": 64}), ((), {"report": 0, "alloclen": 96}), ((), {"alloclen": 16})]),
    "reportpriority": (("suffix", "A3"), [((), {}), ((), {"priority": 1, "alloclen": 64}), ((), {"priority": 0, "alloclen": 16384})]),
    "reporttargetportgroups": (("suffix", "A3"), [((), {}), ((), {"data_format": 1, "alloclen": 64}), ((), {"data_format": 0, "alloclen": 16384})]),
    "persistentreservein": ("PERSISTENT_RESERVE_IN", [
        ((0,), {}), ((1,), {}), ((2,), {}), ((3,), {}), ((0,), {"alloclen": 64}), ((1,), {"alloclen": 1024}),
        ((2,), {"alloclen": 8}), ((3,), {"alloclen": 8}), ((4,), {}), ((-1,), {}), ((None,), {}), ((False,), {}),
        ((), {"service_action": 2}),
    ]),
    "persistentreserveout": ("PERSISTENT_RESERVE_OUT", [
        ((0,), PR_BASIC), ((1, 0, 5), PR_BASIC), ((2,), dict(PR_BASIC, aptpl=0)), ((6,), {"reservation_key": 1, "service_action_reservation_key": 2}),
        ((1,), {"scope": 1, "pr_type": 3, "reservation_key": 5}), ((0, 0, 0), {}),
        ((7, 0, 1), {"reservation_key": 3, "service_action_reservation_key": 4, "unreg": 1, "aptpl": 1,
                     "relative_target_port_id": 2,
                     "transport_id": {"protocol_id": 6, "tpid_format": 0, "sas_address": bytearray(b"\x50\x00\xc5\x00\x12\x34\x56\x78")}}),
        ((0,), {"reservation_key": 1, "service_action_reservation_key": 2, "spec_i_pt": 1,
                "transport_ids": [{"protocol_id": 5, "tpid_format": 0, "iscsi_name": "iqn.2001-04.com.example:host"}]}),
    ]),
    "preventallowmediumremoval": ("PREVENT_ALLOW_MEDIUM_REMOVAL", [((), {}), ((), {"prevent": 1}), ((), {"prevent": 3}), ((), {"prevent": 0})]),
    "exchangemedium": ("EXCHANGE_MEDIUM", [((1, 2, 3, 4), {}), ((0xFFFF, 0x100, 0x200, 0x300), {"inv1": 1, "inv2": 1}), ((1, 2, 3, 4), {"inv1": 0, "inv2": 0}), ((1, 2, 3, 4), {"inv2": 1})]),
    "movemedium": ("MOVE_MEDIUM", [((1, 2, 3), {}), ((0xFFFF, 0xFFFE, 0xFFFD), {"invert": 1}), ((1, 2, 3), {"invert": 0})]),
    "positiontoelement": ("POSITION_TO_ELEMENT", [((1, 2), {}), ((0xFFFF, 0x1234), {"invert": 1}), ((1, 2), {"invert": 0})]),
    "initializeelementstatus": ("INITIALIZE_ELEMENT_STATUS", [((), {})]),
    "initializeelementstatuswithrange": ("INITIALIZE_ELEMENT_STATUS_WITH_RANGE", [((1, 2), {}), ((0x100, 0x20), {"rng": 1, "fast": 1}), ((1, 2), {"rng": 0, "fast": 0}), ((1, 2), {"fast": 1})]),
    "opencloseimportexportelement": ("OPEN_CLOSE_IMPORT_EXPORT_ELEMENT", [((1, 0), {}), ((0x1234, 1), {}), ((0xFFFF, 0x1F), {})]),
    "readelementstatus": ("READ_ELEMENT_STATUS", [
        ((0, 1), {}), ((0x10, 0xFFFF), {"element_type": 2, "voltag": 1, "curdata": 0, "dvcid": 1, "alloclen": 64}),
        ((0, 1), {"element_type": 0, "voltag": 0, "curdata": 1, "dvcid": 0, "alloclen": 16384}), ((0, 1), {"alloclen": 8}),
    ]),
    "readcd": ("READ_CD", [((0, 1), {}), ((16, 2), {"est": 2, "dap": 1, "mcsb": 0x02, "c2ei": 0, "scsb": 0}), ((0, 0), {}), ((1, 1), {"est": 0, "dap": 0, "mcsb": 0, "c2ei": 0, "scsb": 0})]),
    "readdiscinformation": ("READ_DISC_INFORMATION", [((0,), {}), ((0, 64), {}), ((1,), {"alloc_len": 48}), ((2,), {"alloc_len": 4096}), ((), {"data_type": 0, "alloc_len": 34})]),
    "atapassthrough12": ("ATA_PASS_THROUGH_12", [
        (ATA_POS, {}), ((4, 2, 1, 1, 1, 0, 0, 2, 0x123456, 0x25), {"blocksize": 512, "ck_cond": 1, "device": 0x40, "control": 0}),
        ((3, 0, 0, 1, 0, 0, 0, 0, 0, 0xE5), {"ck_cond": 1}), ((5, 2, 1, 0, 0, 0, 0, 1, 7, 0x35), {"data": blk(1)}),
        ((4, 3, 0, 1, 0, 0, 0, 0, 0, 0xEC), {"extra_tl": 16, "blocksize": 0, "ck_cond": 0, "device": 0, "control": 0, "data": None}),
    ]),
    "atapassthrough16": ("ATA_PASS_THROUGH_16", [
        (ATA_POS, {}), ((4, 2, 1, 1, 1, 0, 0, 2, 0x123456789A, 0x25), {"blocksize": 512, "ck_cond": 1, "device": 0x40, "control": 0, "extend": 1}),
        ((3, 0, 0, 1, 0, 0, 0, 0, 0, 0xE5), {"extend": 0}), ((5, 2, 1, 0, 0, 0, 0, 1, 7, 0x35), {"data": blk(1)}),
        ((4, 1, 0, 1, 0, 0, 24, 0, 0, 0xEC), {"extra_tl": None, "blocksize": 0, "ck_cond": 0, "device": 0, "control": 0, "data": None, "extend": 1}),
    ]),
    "extendedcopy4": ("EXTENDED_COPY", [((), {}), ((1, 0, 1, 2), {}), ((), {"list_identifier": 3, "sequential_striped": 1, "nrcr": 1, "priority": 5, "target_descriptor_list": [], "segment_descriptor_list": [], "inline_data": bytearray(b"abcd")})]),
    "extendedcopy5": ("EXTENDED_COPY", [((), {}), ((1, 2, 3, 1, 1, 9), {}), ((), {"sequential_striped": 1, "list_id_usage": 1, "priority": 2, "g_sense": 1, "immed": 1, "list_identifier": 0x7F, "cscd_descriptor_list": [], "segment_descriptor_list": [], "inline_data": bytearray(b"xyz")})]),
}
RAW_SENSE_METHODS = ("atapassthrough12", "atapassthrough16")
DECODING_METHODS = (
    "inquiry", "getlbastatus", "modeselect6", "modesense6", "modesense10", "modeselect10",
    "readcapacity10", "readcapacity16", "readcd", "readdiscinformation", "readelementstatus",
    "reportluns", "reportpriority", "reporttargetportgroups", "persistentreservein",
)
# independent numeric expectations (SBC-3 / SPC-4 / SMC-3 / MMC-6)
NUMERIC = {
    "INQUIRY": 0x12, "TEST_UNIT_READY": 0x00, "READ_CAPACITY_10": 0x25, "READ_10": 0x28, "READ_12": 0xA8,
    "READ_16": 0x88, "WRITE_10": 0x2A, "WRITE_12": 0xAA, "WRITE_16": 0x8A, "WRITE_SAME_10": 0x41,
    "WRITE_SAME_16": 0x93, "SYNCHRONIZE_CACHE_10": 0x35, "SYNCHRONIZE_CACHE_16": 0x91, "MODE_SENSE_6": 0x1A,
    "MODE_SENSE_10": 0x5A, "MODE_SELECT_6": 0x15, "MODE_SELECT_10": 0x55, "REPORT_LUNS": 0xA0,
    "PERSISTENT_RESERVE_IN": 0x5E, "PERSISTENT_RESERVE_OUT": 0x5F, "PREVENT_ALLOW_MEDIUM_REMOVAL": 0x1E,
    "EXCHANGE_MEDIUM": 0xA6, "MOVE_MEDIUM": 0xA5, "POSITION_TO_ELEMENT": 0x2B, "INITIALIZE_ELEMENT_STATUS": 0x07,
    "INITIALIZE_ELEMENT_STATUS_WITH_RANGE": 0x37, "OPEN_CLOSE_IMPORT_EXPORT_ELEMENT": 0x1B,
    "READ_ELEMENT_STATUS": 0xB8, "READ_CD": 0xBE, "READ_DISC_INFORMATION": 0x51, "ATA_PASS_THROUGH_12": 0xA1,
    "ATA_PASS_THROUGH_16": 0x85, "EXTENDED_COPY": 0x83,
}


def expected_opcode(opcodes, spec):
    """what the attached command set assigns, looked up without library helpers"""
    names = [k for k in vars(opcodes) if not k.startswith("__")]
    if isinstance(spec, tuple):
        hits = [k for k in names if k[-2:] == spec[1]]
        if not hits:
            return None
        op = vars(opcodes)[hits[0]]
        check(op.value == int(spec[1], 16), "suffix opcode %s has value %#x" % (hits[0], op.value))
        return op
    if spec not in names:
        return None
    op = vars(opcodes)[spec]
    check(op.value == NUMERIC[spec], "opcode %s = %#x, expected %#x" % (spec, op.value, NUMERIC[spec]))
    return op


# ---------------------------------------------------------------------------
# generic runner for one facade call
# ---------------------------------------------------------------------------
import copy  # noqa: E402
import inspect  # noqa: E402


def decode_kwargs(method, args, kwargs):
    if method == "inquiry":
        names = ("evpd", "page_code", "alloclen")
        bound = dict(zip(names, args))
        bound.update(kwargs)
        return {"evpd": bound.get("evpd", 0)}
    if method == "readcd":
        bound = dict(zip(("lba", "tl"), args))
        bound.update(kwargs)
        return bound
    return {}


def run_call(tag, s, dev, method, idx, args, kwargs, spec, fail_expected=False):
    key = "%s/%s/%d" % (tag, method, idx)
    args = copy.deepcopy(args)
    kwargs = copy.deepcopy(kwargs)
    del TARGET["log"][:]
    del ISCSI_EVENTS[:]
    op = expected_opcode(dev.opcodes, spec)
    try:
        ret = getattr(s, method)(*args, **kwargs)
    except BaseException as e:  # StopIteration included on purpose
        note(key, "EXC %s io=%d" % (exc_desc(e), len(TARGET["log"])))
        if op is None:
            check(len(TARGET["log"]) == 0, key + ": I/O although the command set has no such opcode")
            check(isinstance(e, (AttributeError, StopIteration)), key + ": wrong failure for missing opcode: %r" % e)
        for entry in TARGET["log"]:
            check(op is not None and entry["cdb_snapshot"][0] == op.value, key + ": wrong opcode sent before failing")
        check(len(TARGET["log"]) <= 1, key + ": more than one execution")
        return None
    log = TARGET["log"]
    check(op is not None, key + ": succeeded although the command set has no such opcode")
    check(len(log) == 1, key + ": device executed %d times" % len(log))
    if len(log) != 1 or op is None:
        note(key, "BROKEN")
        return ret
    e = log[0]
    check(isinstance(ret, SCSICommand), key + ": return value is not a SCSICommand")
    if e["kind"] == "rec":
        check(e["cmd"] is ret, key + ": the executed command is not the returned command")
        check(dev.seen_result[-1] == {}, key + ": result was already decoded when the device ran")
        check(dev.kw[-1] is (method in RAW_SENSE_METHODS), key + ": en_raw_sense=%r" % (dev.kw[-1],))
    check(e["cdb"] is ret.cdb, key + ": device saw a different cdb object")
    check(e["dataout"] is ret.dataout, key + ": device saw a different dataout buffer")
    check(e["datain"] is ret.datain, key + ": device saw a different datain buffer")
    check(bytes(ret.cdb) == e["cdb_snapshot"], key + ": cdb changed after execution")
    check(bytes(ret.datain) == e["datain_after"], key + ": datain is not as the device left it")
    check(bytes(ret.dataout) == e["dataout_snapshot"], key + ": dataout changed after execution")
    check(ret.cdb[0] == op.value, key + ": cdb[0]=%#x expected %#x" % (ret.cdb[0], op.value))
    check(ret.opcode is op, key + ": cmd.opcode is not the command set's OpCode object")
    if "data" in kwargs or (method.startswith("write") and len(args) == 3):
        data = kwargs["data"] if "data" in kwargs else args[2]
        if data is not None and not method.startswith("ata"):
            check(ret.dataout is data, key + ": dataout is not the caller's buffer")
    if method in DECODING_METHODS:
        try:
            exp = type(ret).unmarshall_datain(bytearray(e["datain_after"]), **decode_kwargs(method, args, kwargs))
            check(canon(ret.result) == canon(exp), key + ": result is not the decoding of the device's data")
        except Exception as ex:  # pragma: no cover
            check(False, key + ": facade succeeded but re-decoding failed: %r" % ex)
    else:
        check(ret.result == {}, key + ": unexpected result %r" % (ret.result,))
    note(
        key,
        "%s cdb=%s out=%s in=%s result=%s pagecode=%s sense=%s raw=%s%s"
        % (
            type(ret).__name__,
            canon(ret.cdb),
            hashlib.sha1(bytes(ret.dataout)).hexdigest()[:10] + "/%d" % len(ret.dataout),
            hashlib.sha1(bytes(ret.datain)).hexdigest()[:10] + "/%d" % len(ret.datain),
            canon(ret.result),
            canon(ret.pagecode),
            canon(ret.sense),
            canon(ret.raw_sense_data),
            " iscsi=%s" % canon([x for x in ISCSI_EVENTS if x[0] == "command"]) if e["kind"] == "iscsi" else "",
        ),
    )
    return ret


def run_catalogue(tag, s, dev, methods=None):
    for method, (spec, calls) in CATALOGUE.items():
        if methods is not None and method not in methods:
            continue
        for idx, (args, kwargs) in enumerate(calls):
            run_call(tag, s, dev, method, idx, args, kwargs, spec)


TYPE_TO_SET = {0x00: sbc, 0x04: sbc, 0x07: sbc, 0x01: ssc, 0x02: ssc, 0x09: ssc, 0x03: spc, 0x08: smc, 0x05: mmc}
INQ_CDB = bytes([0x12, 0, 0, 0, 96, 0])


def make_device(kind, initial=None):
    if kind == "rec":
        return RecDevice(initial)
    if kind == "sgio":
        return SCSIDevice("/dev/null")
    return ISCSIDevice("iscsi://10.0.0.1:3260/iqn.fake.target/3")


# ---------------------------------------------------------------------------
# suites
# ---------------------------------------------------------------------------
def suite_bare():
    for name, opcodes in SETS.items():
        dev = RecDevice(opcodes)
        s = BareSCSI(dev)
        s.blocksize = 512
        run_catalogue("bare-" + name, s, dev)


def suite_attach():
    sentinel = enum_command.Enum({"INQUIRY": spc.INQUIRY, "MARK": 1})
    for kind in ("rec", "sgio", "iscsi"):
        for devtype in range(0x20):
            TARGET["devtype"] = devtype
            del TARGET["log"][:]
            dev = make_device(kind, sentinel)
            if kind != "rec":
                check(dev.opcodes is spc, "%s device does not start with the spc command set" % kind)
                try:
                    dev.devicetype
                    check(False, "%s: devicetype readable before any INQUIRY" % kind)
                except AttributeError:
                    pass
            before = dev.opcodes
            s = SCSI(dev, 512)
            tag = "attach-%s-%02x" % (kind, devtype)
            check(len(TARGET["log"]) == 1, tag + ": %d executions while attaching" % len(TARGET["log"]))
            check(TARGET["log"][0]["cdb_snapshot"] == INQ_CDB, tag + ": attach INQUIRY cdb %r" % TARGET["log"][0]["cdb_snapshot"])
            check(dev.devicetype == devtype, tag + ": devicetype %r" % (dev.devicetype,))
            want = TYPE_TO_SET.get(devtype, before)
            check(dev.opcodes is want, tag + ": wrong command set attached")
            check(s.device is dev and s.blocksize == 512, tag + ": facade state")
            # one command through the freshly attached set
            run_call(tag, s, dev, "inquiry", 0, (), {}, "INQUIRY")
            if devtype in (0x00, 0x04, 0x07):
                run_call(tag, s, dev, "read16", 0, (devtype, 2), {"fua": 1}, "READ_16")
                run_call(tag, s, dev, "readcapacity16", 0, (), {}, ("suffix", "9E"))
            if devtype == 0x08:
                run_call(tag, s, dev, "movemedium", 0, (1, 2, 3), {"invert": 1}, "MOVE_MEDIUM")
            if devtype == 0x05:
                run_call(tag, s, dev, "readdiscinformation", 0, (0,), {}, "READ_DISC_INFORMATION")
            # re-attach through __call__
            TARGET["devtype"] = 0x08
            del TARGET["log"][:]
            dev2 = make_device(kind, sentinel)
            rv = s(dev2)
            check(rv is None, tag + ": __call__ returned %r" % (rv,))
            check(s.device is dev2 and dev2.opcodes is smc and dev2.devicetype == 8, tag + ": re-attach")
            check(len(TARGET["log"]) == 1 and TARGET["log"][0]["cdb_snapshot"] == INQ_CDB, tag + ": re-attach INQUIRY")
            check(s.blocksize == 512, tag + ": blocksize lost on re-attach")
            if kind == "sgio":
                dev.close()
                dev2.close()
    TARGET["devtype"] = 0
    # no device at all
    s = SCSI(None)
    check(s.device is None and s.blocksize == 0, "SCSI(None) state")
    try:
        s.testunitready()
        check(False, "SCSI(None).testunitready() worked")
    except AttributeError:
        pass


def suite_backends():
    for kind in ("sgio", "iscsi"):
        for devtype, name in ((0, "sbc"), (1, "ssc"), (3, "spc"), (8, "smc"), (5, "mmc")):
            TARGET["devtype"] = devtype
            dev = make_device(kind)
            s = SCSI(dev, blocksize=512)
            check(dev.opcodes is SETS[name], "%s/%s: command set" % (kind, name))
            run_catalogue("%s-%s" % (kind, name), s, dev)
            dev.close()
    TARGET["devtype"] = 0


class Boom(Exception):
    pass


SENSE = bytearray([0x70, 0, 0x05, 0, 0, 0, 0, 10, 0, 0, 0, 0, 0x24, 0x00, 0, 0, 0, 0])


def suite_failures():
    # 1. a pure python device raising: the very same exception object surfaces, one execution, nothing returned
    for name in ("sbc", "smc", "mmc"):
        dev = RecDevice(SETS[name])
        s = BareSCSI(dev)
        s.blocksize = 512
        for method, (spec, calls) in CATALOGUE.items():
            if expected_opcode(dev.opcodes, spec) is None:
                continue
            args, kwargs = copy.deepcopy(calls[0])
            boom = Boom(method)
            TARGET["fail"] = boom
            del TARGET["log"][:]
            try:
                getattr(s, method)(*args, **kwargs)
                check(False, "fail-rec-%s/%s: exception swallowed" % (name, method))
            except Boom as e:
                check(e is boom, "fail-rec-%s/%s: a different exception object surfaced" % (name, method))
            except Exception as e:
                check(False, "fail-rec-%s/%s: %r instead of Boom" % (name, method, e))
            check(len(TARGET["log"]) == 1, "fail-rec-%s/%s: %d executions" % (name, method, len(TARGET["log"])))
            TARGET["fail"] = None
    # 2. sgio check condition
    TARGET["devtype"] = 0
    dev = make_device("sgio")
    s = SCSI(dev, 512)
    for method, (spec, calls) in CATALOGUE.items():
        if expected_opcode(dev.opcodes, spec) is None:
            continue
        args, kwargs = copy.deepcopy(calls[0])
        for sense in (SENSE, None, bytearray()):
            TARGET["fail"] = CheckConditionError(sense)
            del TARGET["log"][:]
            tag = "fail-sgio/%s/%s" % (method, "none" if sense is None else len(sense))
            try:
                ret = getattr(s, method)(*args, **kwargs)
                check(method in RAW_SENSE_METHODS, tag + ": check condition swallowed")
                check(ret.raw_sense_data is sense, tag + ": raw sense data not handed over")
                note(tag, "OK result=%s" % canon(ret.result))
            except SCSIDevice.CheckCondition as e:
                check(method not in RAW_SENSE_METHODS, tag + ": ata pass through raised")
                check(isinstance(e, SCSICheckCondition), tag + ": not a SCSICheckCondition")
                check(isinstance(e.__context__, CheckConditionError), tag + ": lost the original error as context")
                note(tag, "CheckCondition %s" % str(e))
            except Exception as e:
                check(False, tag + ": %r" % e)
            check(len(TARGET["log"]) == 1, tag + ": %d executions" % len(TARGET["log"]))
            TARGET["fail"] = None
    # an error that is not a check condition passes through untouched
    boom = Boom("sg")
    TARGET["fail"] = boom
    try:
        s.testunitready()
        check(False, "sgio: foreign exception swallowed")
    except Boom as e:
        check(e is boom, "sgio: foreign exception replaced")
    TARGET["fail"] = None
    dev.close()
    # 3. iscsi status handling
    dev = make_device("iscsi")
    s = SCSI(dev, 512)
    status_map = {
        0x00: None, 0x02: "CheckCondition", 0x04: "ConditionsMet", 0x08: "BusyStatus", 0x18: "ReservationConflict",
        0x28: "TaskSetFull", 0x30: "ACAActive", 0x40: "TaskAborted", 0xFF: RuntimeError, 0x01: RuntimeError, None: RuntimeError,
    }
    for status, outcome in status_map.items():
        for method in ("testunitready", "read10", "write10", "readcapacity10", "atapassthrough16"):
            for raw in ("unset", SENSE, None):
                spec, calls = CATALOGUE[method]
                args, kwargs = copy.deepcopy(calls[0])
                TARGET["status"], TARGET["raw_sense"] = status, raw
                del TARGET["log"][:]
                tag = "iscsi-status/%s/%s/%s" % (status, method, "unset" if raw == "unset" else ("none" if raw is None else "sense"))
                try:
                    ret = getattr(s, method)(*args, **kwargs)
                    check(outcome is None, tag + ": no exception")
                    note(tag, "OK " + canon(ret.result))
                except Exception as e:
                    if outcome is None:
                        check(False, tag + ": %r" % e)
                    elif outcome is RuntimeError:
                        check(type(e) is RuntimeError, tag + ": %r" % e)
                    else:
                        check(type(e) is getattr(ISCSIDevice, outcome), tag + ": %r" % e)
                    note(tag, "%s %s" % (type(e).__name__, str(e) if status == 0x02 else ""))
                check(len(TARGET["log"]) == 1, tag + ": %d executions" % len(TARGET["log"]))
    TARGET["status"], TARGET["raw_sense"] = 0, "unset"
    # sense propagation on the command object (call the device directly with a prepared command)
    from pyscsi.pyscsi.scsi_cdb_testunitready import TestUnitReady

    for en_raw in (False, True):
        for raw in ("unset", SENSE):
            cmd = TestUnitReady(spc.TEST_UNIT_READY)
            TARGET["status"], TARGET["raw_sense"] = 0x02, raw
            try:
                dev.execute(cmd, en_raw_sense=en_raw)
                check(False, "iscsi direct: no CheckCondition")
            except ISCSIDevice.CheckCondition:
                pass
            want = None if raw == "unset" else SENSE
            check(cmd.sense is want, "iscsi direct: cmd.sense")
            check(cmd.raw_sense_data is (want if en_raw else None), "iscsi direct: cmd.raw_sense_data")
    TARGET["status"], TARGET["raw_sense"] = 0, "unset"
    dev.close()


def suite_blocksize():
    dev = RecDevice(sbc)
    for bs in (0, 1, 512, 4096, False):
        s = BareSCSI(dev)
        s.blocksize = bs
        check(s.blocksize is bs or s.blocksize == bs, "blocksize getter")
        for method in ("read10", "read12", "read16", "write10", "write12", "write16", "writesame10", "writesame16"):
            args, kwargs = ((1024, 27), {}) if method.startswith("read") else ((77, 2, blk(2, max(int(bs), 1))), {})
            del TARGET["log"][:]
            tag = "blocksize-%r/%s" % (bs, method)
            try:
                ret = getattr(s, method)(*args, **kwargs)
                check(bs != 0, tag + ": accepted without a blocksize")
                if method.startswith("read"):
                    check(len(ret.datain) == bs * args[1], tag + ": datain %d" % len(ret.datain))
                check(len(TARGET["log"]) == 1, tag + ": executions")
                note(tag, canon(ret.cdb))
            except SCSICommand.MissingBlocksizeException:
                check(bs == 0, tag + ": MissingBlocksizeException")
                check(len(TARGET["log"]) == 0, tag + ": executed although it could not be built")
                note(tag, "missing")
    # the constructor default and argument
    TARGET["devtype"] = 0
    s = SCSI(RecDevice(spc))
    check(s.blocksize == 0, "default blocksize")
    s = SCSI(RecDevice(spc), 2048)
    check(s.blocksize == 2048 and len(s.read10(0, 2).datain) == 4096, "positional blocksize")
    s = SCSI(RecDevice(spc), blocksize=520)
    check(s.blocksize == 520 and len(s.read16(0, 3).datain) == 1560, "keyword blocksize")
    # a bare facade that never got a blocksize fails before any I/O
    b = BareSCSI(RecDevice(sbc))
    del TARGET["log"][:]
    try:
        b.read10(0, 1)
        check(False, "read10 without blocksize attribute")
    except AttributeError:
        check(len(TARGET["log"]) == 0, "I/O without blocksize attribute")


def suite_bad_arguments():
    dev = RecDevice(sbc)
    s = BareSCSI(dev)
    s.blocksize = 512
    bad = [
        ("read10", (1,), {}), ("read10", (1, 2, 3), {}), ("read10", (1, 2), {"bogus": 1}), ("read10", (1, 2), {"opcode": 1}),
        ("read10", (1, 2), {"blocksize": 1}), ("write10", (1, 2), {}), ("write16", (1, 1, blk(1)), {"rarc": 1}),
        ("inquiry", (0, 0, 96, 1), {}), ("inquiry", (), {"alloc_len": 4}), ("testunitready", (1,), {}),
        ("readcapacity10", (8,), {}), ("readcapacity16", (), {"alloc_len": 4}), ("reportluns", (), {"opcode": 3}),
        ("preventallowmediumremoval", (1,), {}), ("preventallowmediumremoval", (), {"opcode": 1}),
        ("persistentreservein", (0,), {"opcode": 1}), ("persistentreservein", (), {}),
        ("persistentreserveout", (), {}), ("modesense6", (), {}), ("modesense6", (1, 2), {}),
        ("synchronizecache10", (1,), {}), ("getlbastatus", (), {}), ("getlbastatus", (1,), {"alloc": 1}),
        ("atapassthrough16", ATA_POS[:-1], {}), ("atapassthrough12", ATA_POS, {"extend": 1}),
        ("extendedcopy4", (), {"immed": 1}), ("extendedcopy5", (), {"nrcr": 1}), ("reportpriority", (1,), {}),
        ("reporttargetportgroups", (), {"priority": 1}), ("readcapacity10", (), {"opcode": sbc.READ_10}),
    ]
    for i, (method, args, kwargs) in enumerate(bad):
        del TARGET["log"][:]
        try:
            getattr(s, method)(*args, **kwargs)
            check(False, "bad-%d %s: accepted" % (i, method))
        except TypeError:
            pass
        except Exception as e:
            check(False, "bad-%d %s: %r" % (i, method, e))
        check(len(TARGET["log"]) == 0, "bad-%d %s: I/O happened" % (i, method))
    for sa in (4, 5, -1, None, "0", 0x100, 2.5):
        del TARGET["log"][:]
        try:
            s.persistentreservein(sa)
            check(False, "persistentreservein(%r) accepted" % (sa,))
        except ValueError as e:
            check(e.args == ("Invalid Service Action",), "persistentreservein(%r): %r" % (sa, e))
        check(len(TARGET["log"]) == 0, "persistentreservein(%r): I/O happened" % (sa,))
    for sa, cls in ((0.0, "PersistentReserveInReadKeys"), (True, "PersistentReserveInReadReservation"), (2.0, "PersistentReserveInReportCapabilities")):
        check(type(s.persistentreservein(sa)).__name__ == cls, "persistentreservein(%r) class" % (sa,))


def suite_context_manager():
    for kind in ("rec", "sgio", "iscsi"):
        TARGET["devtype"] = 0
        dev = make_device(kind, spc)
        with SCSI(dev, 512) as s:
            check(isinstance(s, SCSI) and s.device is dev, "with SCSI: __enter__")
            s.testunitready()
            del ISCSI_EVENTS[:]
        if kind == "rec":
            check(dev.closed == 1, "with SCSI: close called %d times" % dev.closed)
        elif kind == "sgio":
            check(dev._file.closed, "with SCSI: sgio file left open")
        else:
            check(ISCSI_EVENTS == [("disconnect",)], "with SCSI: iscsi events %r" % (ISCSI_EVENTS,))
        try:
            with SCSI(make_device(kind, spc), 512) as s2:
                d2 = s2.device
                raise Boom("inside")
        except Boom:
            if kind == "rec":
                check(d2.closed == 1, "with SCSI: not closed on error")
    # the devices are context managers themselves
    with SCSIDevice("/dev/null", readwrite=True) as d:
        check(repr(d) == "SCSIDevice" and not d._file.closed, "SCSIDevice with")
        f = d._file
    check(f.closed, "SCSIDevice with: left open")
    del ISCSI_EVENTS[:]
    with ISCSIDevice("iscsi://h:1/iqn.t/0", "iqn.me") as d:
        pass
    note("iscsi-with", canon(ISCSI_EVENTS))
    del ISCSI_EVENTS[:]
    ISCSIDevice("iscsi://h:1/iqn.t/7")
    note("iscsi-open-default", canon(ISCSI_EVENTS))
    for ctor, arg in ((SCSIDevice, "nodev"), (SCSIDevice, "iscsi://x/y/1"), (ISCSIDevice, "/dev/null"), (ISCSIDevice, "nodev")):
        try:
            ctor(arg)
            check(False, "%s(%r) accepted" % (ctor.__name__, arg))
        except NotImplementedError as e:
            check(e.args == ("No backend implemented for %s" % arg,), "backend message %r" % (e.args,))
    # replug detection re-opens the file and still executes once
    TARGET["devtype"] = 0
    d = SCSIDevice("/dev/null")
    s = SCSI(d, 512)
    old = d._file
    d._ino = -1
    del TARGET["log"][:]
    s.testunitready()
    check(old.closed and not d._file.closed and d._file is not old, "replug: file not re-opened")
    check(len(TARGET["log"]) == 1, "replug: %d executions" % len(TARGET["log"]))
    check(d._ino == os.stat("/dev/null").st_ino, "replug: inode not refreshed")
    d2 = SCSIDevice("/dev/null", detect_replugged=False)
    keep = d2._file
    d2._ino = -1
    SCSI(d2, 512).testunitready()
    check(d2._file is keep and not keep.closed, "detect_replugged=False re-opened the file")
    d.close()
    d2.close()
    # opcodes property of the devices
    d = SCSIDevice("/dev/null")
    d.opcodes = smc
    check(d.opcodes is smc, "SCSIDevice.opcodes setter")
    d.devicetype = 8
    check(d.devicetype == 8, "SCSIDevice.devicetype setter")
    d.close()
    for cls in (SCSIDevice, ISCSIDevice):
        for exc in ("CheckCondition", "ConditionsMet", "BusyStatus", "ReservationConflict", "TaskSetFull", "ACAActive", "TaskAborted",
                    "CommandNotImplemented", "MissingBlocksizeException", "OpcodeException"):
            check(isinstance(getattr(cls, exc), type) and issubclass(getattr(cls, exc), Exception), "%s.%s" % (cls.__name__, exc))
        check(issubclass(cls.CheckCondition, SCSICheckCondition), cls.__name__ + ".CheckCondition base")


# ---------------------------------------------------------------------------
# converter helpers against small reference models
# ---------------------------------------------------------------------------
def ref_int_to_ba(value, size):
    return bytearray((value >> (8 * (size - 1 - i))) & 0xFF for i in range(size))


def ref_ba_to_int(ba):
    v = 0
    for b in ba:
        v = v * 256 + b
    return v


def ref_field(mask):
    nbytes = max(1, (mask.bit_length() + 7) // 8)
    shift = (mask & -mask).bit_length() - 1
    return nbytes, shift


def ref_decode(data, layout):
    out = {}
    for k, v in layout.items():
        if len(v) == 2:
            mask, pos = v
            nbytes, shift = ref_field(mask)
            out[k] = (ref_ba_to_int(data[pos:pos + nbytes]) >> shift) & (mask >> shift)
        else:
            width = {"b": 1, "w": 2, "dw": 4}[v[0]]
            out[k] = data[v[1]:v[1] + v[2] * width]
    return out


def ref_encode(values, layout, buf):
    for k, val in values.items():
        if k not in layout:
            continue
        v = layout[k]
        if len(v) == 2:
            mask, pos = v
            nbytes, shift = ref_field(mask)
            raw = ref_int_to_ba(val << shift, nbytes)
            for i in range(nbytes):
                buf[pos + i] ^= raw[i]
        else:
            width = {"b": 1, "w": 2, "dw": 4}[v[0]]
            buf[v[1]:v[1] + v[2] * width] = val


def suite_converter():
    rnd = random.Random(1234)
    for size in range(0, 10):
        for _ in range(40):
            value = rnd.choice([0, 1, 255, 256, rnd.getrandbits(8 * size + 3), rnd.getrandbits(max(1, 8 * size)), -rnd.getrandbits(12) - 1, True])
            got = scsi_int_to_ba(value, size)
            check(type(got) is bytearray and got == ref_int_to_ba(value, size), "scsi_int_to_ba(%r, %r) = %r" % (value, size, got))
    check(scsi_int_to_ba() == bytearray(4) and scsi_int_to_ba(34) == bytearray(b'\x00\x00\x00"'), "scsi_int_to_ba defaults")
    check(scsi_int_to_ba(to_convert=0x0102, array_size=3) == bytearray(b"\x00\x01\x02"), "scsi_int_to_ba keywords")
    for n in range(0, 12):
        for _ in range(30):
            raw = bytes(rnd.randrange(256) for _ in range(n))
            for buf in (raw, bytearray(raw), memoryview(raw), list(raw)):
                got = scsi_ba_to_int(buf)
                check(type(got) is int and got == ref_ba_to_int(raw), "scsi_ba_to_int(%r)" % (buf,))
            check(scsi_int_to_ba(scsi_ba_to_int(raw), n) == raw, "int/ba round trip")
    for bad in (5, None, "ab"):
        try:
            scsi_ba_to_int(bad)
            check(False, "scsi_ba_to_int(%r) accepted" % (bad,))
        except TypeError:
            pass
    for bad in ("1", None, 1.5):
        try:
            scsi_int_to_ba(bad, 2)
            check(False, "scsi_int_to_ba(%r) accepted" % (bad,))
        except TypeError:
            pass
    # random layouts
    for trial in range(300):
        size = rnd.randrange(4, 40)
        layout = {}
        for i in range(rnd.randrange(1, 8)):
            kind = rnd.choice(["bits", "bits", "bits", "b", "w", "dw"])
            if kind == "bits":
                nbytes = rnd.choice([1, 1, 2, 3, 4, 8])
                width = rnd.randrange(1, 8 * nbytes + 1)
                shift = rnd.randrange(0, 8 * nbytes - width + 1)
                mask = ((1 << width) - 1) << shift
                if mask.bit_length() <= 8 * (nbytes - 1):
                    mask |= 1 << (8 * nbytes - 1)
                pos = rnd.randrange(0, size)
                layout["f%d" % i] = rnd.choice([list, tuple])([mask, pos])
            else:
                layout["f%d" % i] = (kind, rnd.randrange(0, size), rnd.randrange(0, 4))
        data = bytearray(rnd.randrange(256) for _ in range(size))
        for buf in (data, bytes(data)):
            got = {"keep": 1}
            decode_bits(buf, layout, got)
            exp = dict({"keep": 1}, **ref_decode(buf, layout))
            check(canon(got) == canon(exp), "decode_bits trial %d: %s != %s" % (trial, canon(got), canon(exp)))
        # encode into an all-zero buffer that is large enough, then decode again
        values = {}
        for k, v in layout.items():
            if len(v) == 2:
                nbytes, shift = ref_field(v[0])
                values[k] = rnd.getrandbits((v[0] >> shift).bit_length()) & (v[0] >> shift)
            else:
                width = {"b": 1, "w": 2, "dw": 4}[v[0]]
                values[k] = bytearray(rnd.randrange(256) for _ in range(v[2] * width))
        values["not_in_layout"] = 99
        got = bytearray(size + 16)
        exp = bytearray(size + 16)
        rv = encode_dict(values, layout, got)
        ref_encode(values, layout, exp)
        check(rv is None and got == exp, "encode_dict trial %d" % trial)
    rv = decode_bits(bytearray(4), {}, {})
    check(rv is None, "decode_bits return value")
    # short buffers: fields that start beyond the end decode as 0 / empty
    got = {}
    decode_bits(bytearray(b"\x12\x34"), {"a": [0xFFFF, 1], "b": [0xFF, 9], "c": ("b", 1, 8), "d": ("w", 5, 2)}, got)
    check(canon(got) == canon({"a": 0x34, "b": 0, "c": bytearray(b"\x34"), "d": bytearray()}), "decode_bits short buffer %s" % canon(got))
    # get_opcode
    for name, opcodes in SETS.items():
        for part in ("9E", "A3", "A4", "7F", "10", "_6", "16", "E", "", "9e", "XYZ", "IN", "UT"):
            g = get_opcode(opcodes, part)
            check(iter(g) is g and not isinstance(g, (list, tuple)), "get_opcode is not lazy")
            got = list(g)
            exp = [vars(opcodes)[k] for k in vars(opcodes) if not k.startswith("__") and k[-2:] == part and len(part) == 2]
            check(len(got) == len(exp) and all(a is b for a, b in zip(got, exp)), "get_opcode(%s, %r) -> %r" % (name, part, got))
            note("get_opcode/%s/%s" % (name, part), canon([(o.name, o.value) for o in got]))
    g = get_opcode(sbc, "9E")
    check(next(g) is sbc.SBC_OPCODE_9E, "get_opcode first hit")
    try:
        next(get_opcode(smc, "9E"))
        check(False, "smc has a 9E opcode?")
    except StopIteration:
        pass
    lazy = get_opcode(None, "9E")  # nothing is looked at before the first next()
    try:
        next(lazy)
        check(False, "get_opcode(None) produced something")
    except AttributeError:
        pass
    for name in ("scsi_int_to_ba", "scsi_ba_to_int", "decode_bits", "encode_dict", "print_data", "get_opcode", "CheckDict"):
        check(hasattr(converter, name), "pyscsi.utils.converter.%s is gone" % name)
        import pyscsi.utils

        check(getattr(pyscsi.utils, name, None) is getattr(converter, name), "pyscsi.utils.%s differs" % name)


def suite_command_api():
    from pyscsi.pyscsi.scsi_cdb_read10 import Read10
    from pyscsi.pyscsi.scsi_cdb_read16 import Read16
    from pyscsi.pyscsi.scsi_cdb_testunitready import TestUnitReady
    from pyscsi.pyscsi.scsi_opcode import OpCode

    for value in range(0, 0x100):
        op = OpCode("X", value, {})
        try:
            n = len(SCSICommand.init_cdb(op))
        except SCSICommand.OpcodeException:
            n = None
        group = value >> 5
        want = {0: 6, 1: 10, 2: 10, 4: 16, 5: 12}.get(group)
        check(n == want, "init_cdb(%#x) -> %r" % (value, n))
    for value in (-1, 0x100, 0x7F):
        try:
            SCSICommand(OpCode("X", value, {}), 0, 0)
            check(False, "SCSICommand with opcode %#x accepted" % value)
        except SCSICommand.OpcodeException:
            pass
    c = SCSICommand(sbc.READ_10, 3, 5)
    check(c.dataout == bytearray(3) and c.datain == bytearray(5) and c.result == {} and c.pagecode is None, "SCSICommand buffers")
    check(c.opcode is sbc.READ_10 and c.sense is None and c.raw_sense_data is None and len(c.cdb) == 10, "SCSICommand fields")
    check(repr(c) == "SCSICommand", "SCSICommand repr")
    for attr in ("cdb", "datain", "dataout", "sense", "raw_sense_data", "result", "pagecode", "opcode"):
        marker = object()
        setattr(c, attr, marker)
        check(getattr(c, attr) is marker, "SCSICommand.%s setter/getter" % attr)
    t = TestUnitReady(spc.TEST_UNIT_READY)
    try:
        t.unmarshall()
        check(False, "TestUnitReady.unmarshall() worked")
    except NotImplementedError as e:
        check(e.args == ("TestUnitReady has no method to unmarshall datain data",), "unmarshall message %r" % (e.args,))
    # the class level marshalling helpers follow the most recently built command
    r = Read10(sbc.READ_10, 512, 0x01020304, 7, rdprotect=3, group=9)
    d = Read10.unmarshall_cdb(r.cdb)
    check(d == {"opcode": 0x28, "rdprotect": 3, "dpo": 0, "fua": 0, "rarc": 0, "lba": 0x01020304, "group": 9, "tl": 7}, "unmarshall_cdb %r" % (d,))
    check(Read10.marshall_cdb(d) == r.cdb and type(Read10.marshall_cdb(d)) is bytearray, "marshall_cdb round trip")
    check(r.build_cdb(opcode=0x28, lba=1, tl=2) == bytearray(b"\x28\x00\x00\x00\x00\x01\x00\x00\x02\x00"), "build_cdb")
    r16 = Read16(sbc.READ_16, 512, 2 ** 33, 1)
    check(len(SCSICommand.marshall_cdb({"opcode": 0x88})) == 16, "marshall_cdb length follows the last command")
    check(Read16.unmarshall_cdb(r16.cdb)["lba"] == 2 ** 33, "unmarshall_cdb 16")
    # independent byte level expectations for the read/write family through the facade
    dev = RecDevice(sbc)
    s = BareSCSI(dev)
    s.blocksize = 512
    rnd = random.Random(99)
    for _ in range(60):
        lba32, lba64 = rnd.getrandbits(32), rnd.getrandbits(64)
        tl16 = rnd.getrandbits(4)
        prot, dpo, fua, rarc, grp = rnd.getrandbits(3), rnd.getrandbits(1), rnd.getrandbits(1), rnd.getrandbits(1), rnd.getrandbits(5)
        b1 = prot << 5 | dpo << 4 | fua << 3 | rarc << 2
        kw = dict(rdprotect=prot, dpo=dpo, fua=fua, rarc=rarc, group=grp)
        check(bytes(s.read10(lba32, tl16, **kw).cdb) == struct.pack(">BBIBHB", 0x28, b1, lba32, grp, tl16, 0), "read10 bytes")
        check(bytes(s.read12(lba32, tl16, **kw).cdb) == struct.pack(">BBIIBB", 0xA8, b1, lba32, tl16, grp, 0), "read12 bytes")
        check(bytes(s.read16(lba64, tl16, **kw).cdb) == struct.pack(">BBQIBB", 0x88, b1, lba64, tl16, grp, 0), "read16 bytes")
        b1 = prot << 5 | dpo << 4 | fua << 3
        kw = dict(wrprotect=prot, dpo=dpo, fua=fua, group=grp)
        data = blk(tl16)
        check(bytes(s.write10(lba32, tl16, data, **kw).cdb) == struct.pack(">BBIBHB", 0x2A, b1, lba32, grp, tl16, 0), "write10 bytes")
        check(bytes(s.write12(lba32, tl16, data, **kw).cdb) == struct.pack(">BBIIBB", 0xAA, b1, lba32, tl16, grp, 0), "write12 bytes")
        check(bytes(s.write16(lba64, tl16, data, **kw).cdb) == struct.pack(">BBQIBB", 0x8A, b1, lba64, tl16, grp, 0), "write16 bytes")
        immed = rnd.getrandbits(1)
        check(bytes(s.synchronizecache10(lba32, tl16, immed=immed, group=grp).cdb) == struct.pack(">BBIBHB", 0x35, immed << 1, lba32, grp, tl16, 0), "sync10 bytes")
        check(bytes(s.synchronizecache16(lba64, lba32, immed=immed, group=grp).cdb) == struct.pack(">BBQIBB", 0x91, immed << 1, lba64, lba32, grp, 0), "sync16 bytes")
        alloc = rnd.getrandbits(16)
        page = rnd.getrandbits(8)
        evpd = rnd.getrandbits(1)
        check(bytes(s.inquiry(evpd, page, alloc).cdb) == struct.pack(">BBBHB", 0x12, evpd, page, alloc, 0), "inquiry bytes")
    # decoded values come from what the device wrote
    rc = s.readcapacity10()
    check(rc.result == {"returned_lba": 0x00FFEE11, "block_length": 4096}, "readcapacity10 result %r" % (rc.result,))
    rc = s.readcapacity16()
    check(rc.result["returned_lba"] == 0x0102030405060708 and rc.result["block_length"] == 512 and rc.result["p_type"] == 5
          and rc.result["prot_en"] == 1 and rc.result["p_i_exponent"] == 3 and rc.result["lbppbe"] == 5 and rc.result["lbpme"] == 1
          and rc.result["lbprz"] == 1 and rc.result["lowest_aligned_lba"] == 0x0123, "readcapacity16 result %r" % (rc.result,))
    TARGET["devtype"] = 0x0C
    i = s.inquiry()
    check(i.result["peripheral_device_type"] == 0x0C and i.result["t10_vendor_identification"] == bytearray(b"FAKEVEND")
          and i.result["product_revision_level"] == bytearray(b"1.23") and i.result["version"] == 6 and i.result["additional_length"] == 91,
          "inquiry result %r" % (i.result,))
    TARGET["devtype"] = 0
    i = s.inquiry(1, 0x80, 64)
    check(i.result["unit_serial_number"] == bytearray(b"SERIAL0042") and i.result["page_code"] == 0x80, "vpd 0x80 %r" % (i.result,))
    lu = s.reportluns()
    check(lu.result.get("luns") == [{"lun%d" % n: n << 48} for n in range(4)], "reportluns result %r" % (lu.result,))


def suite_signatures():
    for name in sorted(dir(SCSI)):
        member = getattr(SCSI, name)
        if callable(member) and (not name.startswith("_") or name in ("__init__", "__call__", "__enter__", "__exit__")):
            note("signature/SCSI." + name, str(inspect.signature(member)))
    check(isinstance(inspect.getattr_static(SCSI, "blocksize"), property), "SCSI.blocksize is not a property")
    for name in sorted(CATALOGUE):
        check(callable(getattr(SCSI, name, None)), "SCSI.%s is gone" % name)
        note("signature-resolved/SCSI." + name, str(inspect.signature(getattr(SCSI, name))))
    for cls in (SCSIDevice, ISCSIDevice):
        for name in ("__init__", "open", "close", "execute", "__enter__", "__exit__"):
            note("signature/%s.%s" % (cls.__name__, name), str(inspect.signature(getattr(cls, name))))
        for name in ("opcodes", "devicetype"):
            check(isinstance(inspect.getattr_static(cls, name), property), "%s.%s is not a property" % (cls.__name__, name))
    for name in ("init_cdb", "marshall_cdb", "unmarshall_cdb", "build_cdb", "unmarshall", "print_cdb", "__init__"):
        note("signature/SCSICommand." + name, str(inspect.signature(getattr(SCSICommand, name))))
    for name in ("scsi_int_to_ba", "scsi_ba_to_int", "decode_bits", "encode_dict", "print_data", "get_opcode"):
        note("signature/converter." + name, str(inspect.signature(getattr(converter, name))))
    import pyscsi.pyscsi.scsi as scsi_mod

    for name in ("SCSI", "Inquiry", "Read10", "Write16", "ExtendedCopy4", "ExtendedCopy5", "PersistentReserveOut", "PersistentReserveIn",
                 "PersistentReserveInReadKeys", "PersistentReserveInReadReservation", "PersistentReserveInReportCapabilities",
                 "PersistentReserveInReadFullStatus", "ReportTargetPortGroups", "ATAPassThrough12", "ATAPassThrough16", "get_opcode",
                 "sbc", "spc", "smc", "ssc", "mmc", "ModeSelect6", "ModeSense10", "ReadCd", "ReadDiscInformation", "GetLBAStatus"):
        check(hasattr(scsi_mod, name), "pyscsi.pyscsi.scsi.%s is gone" % name)
    import pyscsi.pyscsi.scsi_device as sd
    import pyscsi.pyiscsi.iscsi_device as isd

    check(callable(sd.get_inode) and sd.get_inode("/dev/null") == os.stat("/dev/null").st_ino, "scsi_device.get_inode")
    check(sd._has_sgio is True and isd._has_iscsi is True, "backend flags")


# ---------------------------------------------------------------------------
GOLDEN_BEGIN = "# ---- GOLDEN BEGIN ----"
GOLDEN_END = "# ---- GOLDEN END ----"


def short(v):
    return hashlib.sha1(v.encode("utf-8", "backslashreplace")).hexdigest()[:8]


def main():
    for suite in (suite_bare, suite_attach, suite_backends, suite_failures, suite_blocksize, suite_bad_arguments,
                  suite_context_manager, suite_converter, suite_command_api, suite_signatures):
        try:
            suite()
        except BaseException as e:  # a crash of a suite is a failure of the property check, not of the script
            import traceback

            FAILURES.append("%s crashed: %r\n%s" % (suite.__name__, e, traceback.format_exc(limit=-4)))
        finally:
            TARGET.update(devtype=0, fail=None, status=0, raw_sense="unset")
    digest = {k: short(v) for k, v in TRANSCRIPT.items()}
    if "--dump" in sys.argv:
        for k, v in TRANSCRIPT.items():
            print(k, "=>", v)
    if "--regen" in sys.argv:
        me = os.path.abspath(__file__)
        src = open(me).read()
        head, rest = src.split(GOLDEN_BEGIN + "\n", 1)
        tail = rest.split(GOLDEN_END, 1)[1]
        body = "GOLDEN = {\n" + "".join("    %r: %r,\n" % (k, digest[k]) for k in digest) + "}\n"
        open(me, "w").write(head + GOLDEN_BEGIN + "\n" + body + GOLDEN_END + tail)
        print("regenerated %d golden entries; %d checks, %d failures" % (len(digest), CHECKS[0], len(FAILURES)))
    else:
        for k in GOLDEN:
            if k not in digest:
                FAILURES.append("observation %s is missing" % k)
            elif digest[k] != GOLDEN[k]:
                FAILURES.append("observation %s changed: now %s" % (k, TRANSCRIPT[k][:300]))
        for k in digest:
            if k not in GOLDEN:
                FAILURES.append("unexpected new observation %s" % k)
    if FAILURES:
        print("FAIL (%d problems, %d checks)" % (len(FAILURES), CHECKS[0]))
        for f in FAILURES[:60]:
            print("  -", f)
        return 1
    print("PASS (%d checks, %d recorded observations)" % (CHECKS[0], len(digest)))
    return 0


# ---- GOLDEN BEGIN ----
GOLDEN = {
    'bare-spc/inquiry/0': '87b1c7ca',
    'bare-spc/inquiry/1': '87b1c7ca',
    'bare-spc/inquiry/2': '87b1c7ca',
    'bare-spc/inquiry/3': '5e9ef7ce',
    'bare-spc/inquiry/4': 'fbc2771d',
    'bare-spc/inquiry/5': '1c6b1c5f',
    'bare-spc/inquiry/6': 'e69c83ea',
    'bare-spc/inquiry/7': '4a89c006',
    'bare-spc/inquiry/8': 'a5c0ceca',
    'bare-spc/inquiry/9': 'b95179d1',
    'bare-spc/inquiry/10': '2869a82b',
    'bare-spc/inquiry/11': 'f9bfe911',
    'bare-spc/inquiry/12': 'dc85fbe8',
    'bare-spc/inquiry/13': '9477e024',
    'bare-spc/inquiry/14': 'f6e8c7f4',
    'bare-spc/testunitready/0': 'e8677930',
    'bare-spc/readcapacity10/0': 'e26dd3fa',
    'bare-spc/readcapacity10/1': 'e26dd3fa',
    'bare-spc/readcapacity10/2': 'e26dd3fa',
    'bare-spc/readcapacity10/3': 'e26dd3fa',
    'bare-spc/readcapacity16/0': '5d0a80c7',
    'bare-spc/readcapacity16/1': '5d0a80c7',
    'bare-spc/readcapacity16/2': '5d0a80c7',
    'bare-spc/readcapacity16/3': '5d0a80c7',
    'bare-spc/getlbastatus/0': '5d0a80c7',
    'bare-spc/getlbastatus/1': '5d0a80c7',
    'bare-spc/getlbastatus/2': '5d0a80c7',
    'bare-spc/getlbastatus/3': '5d0a80c7',
    'bare-spc/read10/0': 'e26dd3fa',
    'bare-spc/read10/1': 'e26dd3fa',
    'bare-spc/read10/2': 'e26dd3fa',
    'bare-spc/read10/3': 'e26dd3fa',
    'bare-spc/read10/4': 'e26dd3fa',
    'bare-spc/read10/5': 'e26dd3fa',
    'bare-spc/read10/6': 'e26dd3fa',
    'bare-spc/read10/7': 'e26dd3fa',
    'bare-spc/read10/8': 'e26dd3fa',
    'bare-spc/read10/9': 'e26dd3fa',
    'bare-spc/read10/10': 'e26dd3fa',
    'bare-spc/read10/11': 'e26dd3fa',
    'bare-spc/read12/0': 'e26dd3fa',
    'bare-spc/read12/1': 'e26dd3fa',
    'bare-spc/read12/2': 'e26dd3fa',
    'bare-spc/read12/3': 'e26dd3fa',
    'bare-spc/read12/4': 'e26dd3fa',
    'bare-spc/read12/5': 'e26dd3fa',
    'bare-spc/read16/0': 'e26dd3fa',
    'bare-spc/read16/1': 'e26dd3fa',
    'bare-spc/read16/2': 'e26dd3fa',
    'bare-spc/read16/3': 'e26dd3fa',
    'bare-spc/read16/4': 'e26dd3fa',
    'bare-spc/write10/0': 'e26dd3fa',
    'bare-spc/write10/1': 'e26dd3fa',
    'bare-spc/write10/2': 'e26dd3fa',
    'bare-spc/write10/3': 'e26dd3fa',
    'bare-spc/write10/4': 'e26dd3fa',
    'bare-spc/write10/5': 'e26dd3fa',
    'bare-spc/write10/6': 'e26dd3fa',
    'bare-spc/write12/0': 'e26dd3fa',
    'bare-spc/write12/1': 'e26dd3fa',
    'bare-spc/write12/2': 'e26dd3fa',
    'bare-spc/write12/3': 'e26dd3fa',
    'bare-spc/write16/0': 'e26dd3fa',
    'bare-spc/write16/1': 'e26dd3fa',
    'bare-spc/write16/2': 'e26dd3fa',
    'bare-spc/write16/3': 'e26dd3fa',
    'bare-spc/writesame10/0': 'e26dd3fa',
    'bare-spc/writesame10/1': 'e26dd3fa',
    'bare-spc/writesame10/2': 'e26dd3fa',
    'bare-spc/writesame10/3': 'e26dd3fa',
    'bare-spc/writesame16/0': 'e26dd3fa',
    'bare-spc/writesame16/1': 'e26dd3fa',
    'bare-spc/writesame16/2': 'e26dd3fa',
    'bare-spc/writesame16/3': 'e26dd3fa',
    'bare-spc/synchronizecache10/0': 'e26dd3fa',
    'bare-spc/synchronizecache10/1': 'e26dd3fa',
    'bare-spc/synchronizecache10/2': 'e26dd3fa',
    'bare-spc/synchronizecache10/3': 'e26dd3fa',
    'bare-spc/synchronizecache16/0': 'e26dd3fa',
    'bare-spc/synchronizecache16/1': 'e26dd3fa',
    'bare-spc/synchronizecache16/2': 'e26dd3fa',
    'bare-spc/synchronizecache16/3': 'e26dd3fa',
    'bare-spc/modesense6/0': '8241ec3e',
    'bare-spc/modesense6/1': '894f43d9',
    'bare-spc/modesense6/2': 'c3446d95',
    'bare-spc/modesense6/3': '1c3397b9',
    'bare-spc/modesense6/4': '0f8039b6',
    'bare-spc/modesense6/5': '1845ac5d',
    'bare-spc/modesense10/0': '867f0793',
    'bare-spc/modesense10/1': 'd1676586',
    'bare-spc/modesense10/2': '8667c984',
    'bare-spc/modesense10/3': '07256736',
    'bare-spc/modesense10/4': '0a2e2367',
    'bare-spc/modeselect6/0': 'a6195ff8',
    'bare-spc/modeselect6/1': '8eebdc9f',
    'bare-spc/modeselect6/2': 'f490857e',
    'bare-spc/modeselect10/0': '540e22c6',
    'bare-spc/modeselect10/1': 'd371af31',
    'bare-spc/reportluns/0': 'c695281a',
    'bare-spc/reportluns/1': '97e3171d',
    'bare-spc/reportluns/2': 'c695281a',
    'bare-spc/reportluns/3': 'd620a672',
    'bare-spc/reportpriority/0': '9bfd2979',
    'bare-spc/reportpriority/1': '9bfd2979',
    'bare-spc/reportpriority/2': '9bfd2979',
    'bare-spc/reporttargetportgroups/0': 'f0cd18f3',
    'bare-spc/reporttargetportgroups/1': '7824f983',
    'bare-spc/reporttargetportgroups/2': 'f0cd18f3',
    'bare-spc/persistentreservein/0': '124bda2f',
    'bare-spc/persistentreservein/1': 'c0fca600',
    'bare-spc/persistentreservein/2': '6c28052f',
    'bare-spc/persistentreservein/3': '5df3e497',
    'bare-spc/persistentreservein/4': '9055c541',
    'bare-spc/persistentreservein/5': 'c0fca600',
    'bare-spc/persistentreservein/6': '5ca0bd0c',
    'bare-spc/persistentreservein/7': 'e954a17c',
    'bare-spc/persistentreservein/8': '04f2314f',
    'bare-spc/persistentreservein/9': '04f2314f',
    'bare-spc/persistentreservein/10': '04f2314f',
    'bare-spc/persistentreservein/11': '124bda2f',
    'bare-spc/persistentreservein/12': '6c28052f',
    'bare-spc/persistentreserveout/0': 'cac43c69',
    'bare-spc/persistentreserveout/1': 'fb6d1139',
    'bare-spc/persistentreserveout/2': '5616e6d9',
    'bare-spc/persistentreserveout/3': '6f4d8aed',
    'bare-spc/persistentreserveout/4': '3601ff40',
    'bare-spc/persistentreserveout/5': '499e57b2',
    'bare-spc/persistentreserveout/6': 'a39e2f57',
    'bare-spc/persistentreserveout/7': 'fed95c4f',
    'bare-spc/preventallowmediumremoval/0': '01d4e1ce',
    'bare-spc/preventallowmediumremoval/1': 'dfce32a0',
    'bare-spc/preventallowmediumremoval/2': '208cf5c2',
    'bare-spc/preventallowmediumremoval/3': '01d4e1ce',
    'bare-spc/exchangemedium/0': 'e26dd3fa',
    'bare-spc/exchangemedium/1': 'e26dd3fa',
    'bare-spc/exchangemedium/2': 'e26dd3fa',
    'bare-spc/exchangemedium/3': 'e26dd3fa',
    'bare-spc/movemedium/0': 'e26dd3fa',
    'bare-spc/movemedium/1': 'e26dd3fa',
    'bare-spc/movemedium/2': 'e26dd3fa',
    'bare-spc/positiontoelement/0': 'e26dd3fa',
    'bare-spc/positiontoelement/1': 'e26dd3fa',
    'bare-spc/positiontoelement/2': 'e26dd3fa',
    'bare-spc/initializeelementstatus/0': 'e26dd3fa',
    'bare-spc/initializeelementstatuswithrange/0': 'e26dd3fa',
    'bare-spc/initializeelementstatuswithrange/1': 'e26dd3fa',
    'bare-spc/initializeelementstatuswithrange/2': 'e26dd3fa',
    'bare-spc/initializeelementstatuswithrange/3': 'e26dd3fa',
    'bare-spc/opencloseimportexportelement/0': 'e26dd3fa',
    'bare-spc/opencloseimportexportelement/1': 'e26dd3fa',
    'bare-spc/opencloseimportexportelement/2': 'e26dd3fa',
    'bare-spc/readelementstatus/0': 'e26dd3fa',
    'bare-spc/readelementstatus/1': 'e26dd3fa',
    'bare-spc/readelementstatus/2': 'e26dd3fa',
    'bare-spc/readelementstatus/3': 'e26dd3fa',
    'bare-spc/readcd/0': 'e26dd3fa',
    'bare-spc/readcd/1': 'e26dd3fa',
    'bare-spc/readcd/2': 'e26dd3fa',
    'bare-spc/readcd/3': 'e26dd3fa',
    'bare-spc/readdiscinformation/0': 'e26dd3fa',
    'bare-spc/readdiscinformation/1': 'e26dd3fa',
    'bare-spc/readdiscinformation/2': 'e26dd3fa',
    'bare-spc/readdiscinformation/3': 'e26dd3fa',
    'bare-spc/readdiscinformation/4': 'e26dd3fa',
    'bare-spc/atapassthrough12/0': 'e26dd3fa',
    'bare-spc/atapassthrough12/1': 'e26dd3fa',
    'bare-spc/atapassthrough12/2': 'e26dd3fa',
    'bare-spc/atapassthrough12/3': 'e26dd3fa',
    'bare-spc/atapassthrough12/4': 'e26dd3fa',
    'bare-spc/atapassthrough16/0': 'e26dd3fa',
    'bare-spc/atapassthrough16/1': 'e26dd3fa',
    'bare-spc/atapassthrough16/2': 'e26dd3fa',
    'bare-spc/atapassthrough16/3': 'e26dd3fa',
    'bare-spc/atapassthrough16/4': 'e26dd3fa',
    'bare-spc/extendedcopy4/0': '549f2e9f',
    'bare-spc/extendedcopy4/1': '5cdd9157',
    'bare-spc/extendedcopy4/2': '3ca20e5b',
    'bare-spc/extendedcopy5/0': 'aa37e185',
    'bare-spc/extendedcopy5/1': 'd02d79f6',
    'bare-spc/extendedcopy5/2': 'ba0b0614',
    'bare-sbc/inquiry/0': '87b1c7ca',
    'bare-sbc/inquiry/1': '87b1c7ca',
    'bare-sbc/inquiry/2': '87b1c7ca',
    'bare-sbc/inquiry/3': '5e9ef7ce',
    'bare-sbc/inquiry/4': 'fbc2771d',
    'bare-sbc/inquiry/5': '1c6b1c5f',
    'bare-sbc/inquiry/6': 'e69c83ea',
    'bare-sbc/inquiry/7': '4a89c006',
    'bare-sbc/inquiry/8': 'a5c0ceca',
    'bare-sbc/inquiry/9': 'b95179d1',
    'bare-sbc/inquiry/10': '2869a82b',
    'bare-sbc/inquiry/11': 'f9bfe911',
    'bare-sbc/inquiry/12': 'dc85fbe8',
    'bare-sbc/inquiry/13': '9477e024',
    'bare-sbc/inquiry/14': 'f6e8c7f4',
    'bare-sbc/testunitready/0': 'e8677930',
    'bare-sbc/readcapacity10/0': '87dd2aac',
    'bare-sbc/readcapacity10/1': '87dd2aac',
    'bare-sbc/readcapacity10/2': 'd2f0335a',
    'bare-sbc/readcapacity10/3': '408d0763',
    'bare-sbc/readcapacity16/0': 'b9133356',
    'bare-sbc/readcapacity16/1': 'b9133356',
    'bare-sbc/readcapacity16/2': '67734fbe',
    'bare-sbc/readcapacity16/3': '97ed04d7',
    'bare-sbc/getlbastatus/0': 'da0af6b4',
    'bare-sbc/getlbastatus/1': '0ca73f1f',
    'bare-sbc/getlbastatus/2': '6b607f3c',
    'bare-sbc/getlbastatus/3': 'b3e6c96b',
    'bare-sbc/read10/0': '94ba89c8',
    'bare-sbc/read10/1': '659fbf76',
    'bare-sbc/read10/2': '276286ef',
    'bare-sbc/read10/3': 'c7fa5344',
    'bare-sbc/read10/4': 'af73f864',
    'bare-sbc/read10/5': '4326f9cf',
    'bare-sbc/read10/6': '2f4f91fc',
    'bare-sbc/read10/7': '5a9163ac',
    'bare-sbc/read10/8': '6cd41cd6',
    'bare-sbc/read10/9': 'ce0ec6b4',
    'bare-sbc/read10/10': '1e7b3777',
    'bare-sbc/read10/11': '1c8e7f20',
    'bare-sbc/read12/0': 'c6779dd4',
    'bare-sbc/read12/1': 'e5b132ee',
    'bare-sbc/read12/2': 'cae5a064',
    'bare-sbc/read12/3': '180db864',
    'bare-sbc/read12/4': '2f43e5a8',
    'bare-sbc/read12/5': '90e4561f',
    'bare-sbc/read16/0': 'a00b20c3',
    'bare-sbc/read16/1': '5d848ef4',
    'bare-sbc/read16/2': 'fc1120c3',
    'bare-sbc/read16/3': '43388126',
    'bare-sbc/read16/4': '718a9e94',
    'bare-sbc/write10/0': 'aff05bc1',
    'bare-sbc/write10/1': 'fd2e9a69',
    'bare-sbc/write10/2': '074f9a73',
    'bare-sbc/write10/3': 'fb139679',
    'bare-sbc/write10/4': '98b73e6f',
    'bare-sbc/write10/5': '72b14f2e',
    'bare-sbc/write10/6': '64b484d0',
    'bare-sbc/write12/0': '11ea97fc',
    'bare-sbc/write12/1': 'c71ba1f3',
    'bare-sbc/write12/2': 'a978449f',
    'bare-sbc/write12/3': '54082b92',
    'bare-sbc/write16/0': '3400a0a5',
    'bare-sbc/write16/1': '5aecaf43',
    'bare-sbc/write16/2': '71faee53',
    'bare-sbc/write16/3': '24f6d16b',
    'bare-sbc/writesame10/0': '4a7b5012',
    'bare-sbc/writesame10/1': '2f0cde6d',
    'bare-sbc/writesame10/2': '2f2d66c6',
    'bare-sbc/writesame10/3': 'd3f7a202',
    'bare-sbc/writesame16/0': '70e4247e',
    'bare-sbc/writesame16/1': '83de08d5',
    'bare-sbc/writesame16/2': 'be2869a2',
    'bare-sbc/writesame16/3': '468475e4',
    'bare-sbc/synchronizecache10/0': '29f02b4d',
    'bare-sbc/synchronizecache10/1': '249570a7',
    'bare-sbc/synchronizecache10/2': '86e4193d',
    'bare-sbc/synchronizecache10/3': '09cba03d',
    'bare-sbc/synchronizecache16/0': '5df4c1d5',
    'bare-sbc/synchronizecache16/1': '54660956',
    'bare-sbc/synchronizecache16/2': '3683169f',
    'bare-sbc/synchronizecache16/3': '3cf216da',
    'bare-sbc/modesense6/0': '8241ec3e',
    'bare-sbc/modesense6/1': '894f43d9',
    'bare-sbc/modesense6/2': 'c3446d95',
    'bare-sbc/modesense6/3': '1c3397b9',
    'bare-sbc/modesense6/4': '0f8039b6',
    'bare-sbc/modesense6/5': '1845ac5d',
    'bare-sbc/modesense10/0': '867f0793',
    'bare-sbc/modesense10/1': 'd1676586',
    'bare-sbc/modesense10/2': '8667c984',
    'bare-sbc/modesense10/3': '07256736',
    'bare-sbc/modesense10/4': '0a2e2367',
    'bare-sbc/modeselect6/0': 'a6195ff8',
    'bare-sbc/modeselect6/1': '8eebdc9f',
    'bare-sbc/modeselect6/2': 'f490857e',
    'bare-sbc/modeselect10/0': '540e22c6',
    'bare-sbc/modeselect10/1': 'd371af31',
    'bare-sbc/reportluns/0': 'c695281a',
    'bare-sbc/reportluns/1': '97e3171d',
    'bare-sbc/reportluns/2': 'c695281a',
    'bare-sbc/reportluns/3': 'd620a672',
    'bare-sbc/reportpriority/0': '9bfd2979',
    'bare-sbc/reportpriority/1': '9bfd2979',
    'bare-sbc/reportpriority/2': '9bfd2979',
    'bare-sbc/reporttargetportgroups/0': 'f0cd18f3',
    'bare-sbc/reporttargetportgroups/1': '7824f983',
    'bare-sbc/reporttargetportgroups/2': 'f0cd18f3',
    'bare-sbc/persistentreservein/0': '124bda2f',
    'bare-sbc/persistentreservein/1': 'c0fca600',
    'bare-sbc/persistentreservein/2': '6c28052f',
    'bare-sbc/persistentreservein/3': '5df3e497',
    'bare-sbc/persistentreservein/4': '9055c541',
    'bare-sbc/persistentreservein/5': 'c0fca600',
    'bare-sbc/persistentreservein/6': '5ca0bd0c',
    'bare-sbc/persistentreservein/7': 'e954a17c',
    'bare-sbc/persistentreservein/8': '04f2314f',
    'bare-sbc/persistentreservein/9': '04f2314f',
    'bare-sbc/persistentreservein/10': '04f2314f',
    'bare-sbc/persistentreservein/11': '124bda2f',
    'bare-sbc/persistentreservein/12': '6c28052f',
    'bare-sbc/persistentreserveout/0': 'cac43c69',
    'bare-sbc/persistentreserveout/1': 'fb6d1139',
    'bare-sbc/persistentreserveout/2': '5616e6d9',
    'bare-sbc/persistentreserveout/3': '6f4d8aed',
    'bare-sbc/persistentreserveout/4': '3601ff40',
    'bare-sbc/persistentreserveout/5': '499e57b2',
    'bare-sbc/persistentreserveout/6': 'a39e2f57',
    'bare-sbc/persistentreserveout/7': 'fed95c4f',
    'bare-sbc/preventallowmediumremoval/0': '01d4e1ce',
    'bare-sbc/preventallowmediumremoval/1': 'dfce32a0',
    'bare-sbc/preventallowmediumremoval/2': '208cf5c2',
    'bare-sbc/preventallowmediumremoval/3': '01d4e1ce',
    'bare-sbc/exchangemedium/0': 'e26dd3fa',
    'bare-sbc/exchangemedium/1': 'e26dd3fa',
    'bare-sbc/exchangemedium/2': 'e26dd3fa',
    'bare-sbc/exchangemedium/3': 'e26dd3fa',
    'bare-sbc/movemedium/0': 'e26dd3fa',
    'bare-sbc/movemedium/1': 'e26dd3fa',
    'bare-sbc/movemedium/2': 'e26dd3fa',
    'bare-sbc/positiontoelement/0': 'e26dd3fa',
    'bare-sbc/positiontoelement/1': 'e26dd3fa',
    'bare-sbc/positiontoelement/2': 'e26dd3fa',
    'bare-sbc/initializeelementstatus/0': 'e26dd3fa',
    'bare-sbc/initializeelementstatuswithrange/0': 'e26dd3fa',
    'bare-sbc/initializeelementstatuswithrange/1': 'e26dd3fa',
    'bare-sbc/initializeelementstatuswithrange/2': 'e26dd3fa',
    'bare-sbc/initializeelementstatuswithrange/3': 'e26dd3fa',
    'bare-sbc/opencloseimportexportelement/0': 'e26dd3fa',
    'bare-sbc/opencloseimportexportelement/1': 'e26dd3fa',
    'bare-sbc/opencloseimportexportelement/2': 'e26dd3fa',
    'bare-sbc/readelementstatus/0': 'e26dd3fa',
    'bare-sbc/readelementstatus/1': 'e26dd3fa',
    'bare-sbc/readelementstatus/2': 'e26dd3fa',
    'bare-sbc/readelementstatus/3': 'e26dd3fa',
    'bare-sbc/readcd/0': 'e26dd3fa',
    'bare-sbc/readcd/1': 'e26dd3fa',
    'bare-sbc/readcd/2': 'e26dd3fa',
    'bare-sbc/readcd/3': 'e26dd3fa',
    'bare-sbc/readdiscinformation/0': 'e26dd3fa',
    'bare-sbc/readdiscinformation/1': 'e26dd3fa',
    'bare-sbc/readdiscinformation/2': 'e26dd3fa',
    'bare-sbc/readdiscinformation/3': 'e26dd3fa',
    'bare-sbc/readdiscinformation/4': 'e26dd3fa',
    'bare-sbc/atapassthrough12/0': '9e9ff847',
    'bare-sbc/atapassthrough12/1': '1933a015',
    'bare-sbc/atapassthrough12/2': '2407b5ef',
    'bare-sbc/atapassthrough12/3': '9251f2ed',
    'bare-sbc/atapassthrough12/4': '83dda66c',
    'bare-sbc/atapassthrough16/0': '3d11e7b6',
    'bare-sbc/atapassthrough16/1': 'f4e3c303',
    'bare-sbc/atapassthrough16/2': '7dd660e3',
    'bare-sbc/atapassthrough16/3': '11da82d8',
    'bare-sbc/atapassthrough16/4': 'ad055e4d',
    'bare-sbc/extendedcopy4/0': '549f2e9f',
    'bare-sbc/extendedcopy4/1': '5cdd9157',
    'bare-sbc/extendedcopy4/2': '3ca20e5b',
    'bare-sbc/extendedcopy5/0': 'aa37e185',
    'bare-sbc/extendedcopy5/1': 'd02d79f6',
    'bare-sbc/extendedcopy5/2': 'ba0b0614',
    'bare-ssc/inquiry/0': '87b1c7ca',
    'bare-ssc/inquiry/1': '87b1c7ca',
    'bare-ssc/inquiry/2': '87b1c7ca',
    'bare-ssc/inquiry/3': '5e9ef7ce',
    'bare-ssc/inquiry/4': 'fbc2771d',
    'bare-ssc/inquiry/5': '1c6b1c5f',
    'bare-ssc/inquiry/6': 'e69c83ea',
    'bare-ssc/inquiry/7': '4a89c006',
    'bare-ssc/inquiry/8': 'a5c0ceca',
    'bare-ssc/inquiry/9': 'b95179d1',
    'bare-ssc/inquiry/10': '2869a82b',
    'bare-ssc/inquiry/11': 'f9bfe911',
    'bare-ssc/inquiry/12': 'dc85fbe8',
    'bare-ssc/inquiry/13': '9477e024',
    'bare-ssc/inquiry/14': 'f6e8c7f4',
    'bare-ssc/testunitready/0': 'e8677930',
    'bare-ssc/readcapacity10/0': 'e26dd3fa',
    'bare-ssc/readcapacity10/1': 'e26dd3fa',
    'bare-ssc/readcapacity10/2': 'e26dd3fa',
    'bare-ssc/readcapacity10/3': 'e26dd3fa',
    'bare-ssc/readcapacity16/0': '5d0a80c7',
    'bare-ssc/readcapacity16/1': '5d0a80c7',
    'bare-ssc/readcapacity16/2': '5d0a80c7',
    'bare-ssc/readcapacity16/3': '5d0a80c7',
    'bare-ssc/getlbastatus/0': '5d0a80c7',
    'bare-ssc/getlbastatus/1': '5d0a80c7',
    'bare-ssc/getlbastatus/2': '5d0a80c7',
    'bare-ssc/getlbastatus/3': '5d0a80c7',
    'bare-ssc/read10/0': 'e26dd3fa',
    'bare-ssc/read10/1': 'e26dd3fa',
    'bare-ssc/read10/2': 'e26dd3fa',
    'bare-ssc/read10/3': 'e26dd3fa',
    'bare-ssc/read10/4': 'e26dd3fa',
    'bare-ssc/read10/5': 'e26dd3fa',
    'bare-ssc/read10/6': 'e26dd3fa',
    'bare-ssc/read10/7': 'e26dd3fa',
    'bare-ssc/read10/8': 'e26dd3fa',
    'bare-ssc/read10/9': 'e26dd3fa',
    'bare-ssc/read10/10': 'e26dd3fa',
    'bare-ssc/read10/11': 'e26dd3fa',
    'bare-ssc/read12/0': 'e26dd3fa',
    'bare-ssc/read12/1': 'e26dd3fa',
    'bare-ssc/read12/2': 'e26dd3fa',
    'bare-ssc/read12/3': 'e26dd3fa',
    'bare-ssc/read12/4': 'e26dd3fa',
    'bare-ssc/read12/5': 'e26dd3fa',
    'bare-ssc/read16/0': 'a00b20c3',
    'bare-ssc/read16/1': '5d848ef4',
    'bare-ssc/read16/2': 'fc1120c3',
    'bare-ssc/read16/3': '43388126',
    'bare-ssc/read16/4': '718a9e94',
    'bare-ssc/write10/0': 'e26dd3fa',
    'bare-ssc/write10/1': 'e26dd3fa',
    'bare-ssc/write10/2': 'e26dd3fa',
    'bare-ssc/write10/3': 'e26dd3fa',
    'bare-ssc/write10/4': 'e26dd3fa',
    'bare-ssc/write10/5': 'e26dd3fa',
    'bare-ssc/write10/6': 'e26dd3fa',
    'bare-ssc/write12/0': 'e26dd3fa',
    'bare-ssc/write12/1': 'e26dd3fa',
    'bare-ssc/write12/2': 'e26dd3fa',
    'bare-ssc/write12/3': 'e26dd3fa',
    'bare-ssc/write16/0': '3400a0a5',
    'bare-ssc/write16/1': '5aecaf43',
    'bare-ssc/write16/2': '71faee53',
    'bare-ssc/write16/3': '24f6d16b',
    'bare-ssc/writesame10/0': 'e26dd3fa',
    'bare-ssc/writesame10/1': 'e26dd3fa',
    'bare-ssc/writesame10/2': 'e26dd3fa',
    'bare-ssc/writesame10/3': 'e26dd3fa',
    'bare-ssc/writesame16/0': 'e26dd3fa',
    'bare-ssc/writesame16/1': 'e26dd3fa',
    'bare-ssc/writesame16/2': 'e26dd3fa',
    'bare-ssc/writesame16/3': 'e26dd3fa',
    'bare-ssc/synchronizecache10/0': 'e26dd3fa',
    'bare-ssc/synchronizecache10/1': 'e26dd3fa',
    'bare-ssc/synchronizecache10/2': 'e26dd3fa',
    'bare-ssc/synchronizecache10/3': 'e26dd3fa',
    'bare-ssc/synchronizecache16/0': 'e26dd3fa',
    'bare-ssc/synchronizecache16/1': 'e26dd3fa',
    'bare-ssc/synchronizecache16/2': 'e26dd3fa',
    'bare-ssc/synchronizecache16/3': 'e26dd3fa',
    'bare-ssc/modesense6/0': '8241ec3e',
    'bare-ssc/modesense6/1': '894f43d9',
    'bare-ssc/modesense6/2': 'c3446d95',
    'bare-ssc/modesense6/3': '1c3397b9',
    'bare-ssc/modesense6/4': '0f8039b6',
    'bare-ssc/modesense6/5': '1845ac5d',
    'bare-ssc/modesense10/0': '867f0793',
    'bare-ssc/modesense10/1': 'd1676586',
    'bare-ssc/modesense10/2': '8667c984',
    'bare-ssc/modesense10/3': '07256736',
    'bare-ssc/modesense10/4': '0a2e2367',
    'bare-ssc/modeselect6/0': 'a6195ff8',
    'bare-ssc/modeselect6/1': '8eebdc9f',
    'bare-ssc/modeselect6/2': 'f490857e',
    'bare-ssc/modeselect10/0': '540e22c6',
    'bare-ssc/modeselect10/1': 'd371af31',
    'bare-ssc/reportluns/0': 'c695281a',
    'bare-ssc/reportluns/1': '97e3171d',
    'bare-ssc/reportluns/2': 'c695281a',
    'bare-ssc/reportluns/3': 'd620a672',
    'bare-ssc/reportpriority/0': '9bfd2979',
    'bare-ssc/reportpriority/1': '9bfd2979',
    'bare-ssc/reportpriority/2': '9bfd2979',
    'bare-ssc/reporttargetportgroups/0': 'f0cd18f3',
    'bare-ssc/reporttargetportgroups/1': '7824f983',
    'bare-ssc/reporttargetportgroups/2': 'f0cd18f3',
    'bare-ssc/persistentreservein/0': '124bda2f',
    'bare-ssc/persistentreservein/1': 'c0fca600',
    'bare-ssc/persistentreservein/2': '6c28052f',
    'bare-ssc/persistentreservein/3': '5df3e497',
    'bare-ssc/persistentreservein/4': '9055c541',
    'bare-ssc/persistentreservein/5': 'c0fca600',
    'bare-ssc/persistentreservein/6': '5ca0bd0c',
    'bare-ssc/persistentreservein/7': 'e954a17c',
    'bare-ssc/persistentreservein/8': '04f2314f',
    'bare-ssc/persistentreservein/9': '04f2314f',
    'bare-ssc/persistentreservein/10': '04f2314f',
    'bare-ssc/persistentreservein/11': '124bda2f',
    'bare-ssc/persistentreservein/12': '6c28052f',
    'bare-ssc/persistentreserveout/0': 'cac43c69',
    'bare-ssc/persistentreserveout/1': 'fb6d1139',
    'bare-ssc/persistentreserveout/2': '5616e6d9',
    'bare-ssc/persistentreserveout/3': '6f4d8aed',
    'bare-ssc/persistentreserveout/4': '3601ff40',
    'bare-ssc/persistentreserveout/5': '499e57b2',
    'bare-ssc/persistentreserveout/6': 'a39e2f57',
    'bare-ssc/persistentreserveout/7': 'fed95c4f',
    'bare-ssc/preventallowmediumremoval/0': '01d4e1ce',
    'bare-ssc/preventallowmediumremoval/1': 'dfce32a0',
    'bare-ssc/preventallowmediumremoval/2': '208cf5c2',
    'bare-ssc/preventallowmediumremoval/3': '01d4e1ce',
    'bare-ssc/exchangemedium/0': 'e26dd3fa',
    'bare-ssc/exchangemedium/1': 'e26dd3fa',
    'bare-ssc/exchangemedium/2': 'e26dd3fa',
    'bare-ssc/exchangemedium/3': 'e26dd3fa',
    'bare-ssc/movemedium/0': 'e26dd3fa',
    'bare-ssc/movemedium/1': 'e26dd3fa',
    'bare-ssc/movemedium/2': 'e26dd3fa',
    'bare-ssc/positiontoelement/0': 'e26dd3fa',
    'bare-ssc/positiontoelement/1': 'e26dd3fa',
    'bare-ssc/positiontoelement/2': 'e26dd3fa',
    'bare-ssc/initializeelementstatus/0': 'e26dd3fa',
    'bare-ssc/initializeelementstatuswithrange/0': 'e26dd3fa',
    'bare-ssc/initializeelementstatuswithrange/1': 'e26dd3fa',
    'bare-ssc/initializeelementstatuswithrange/2': 'e26dd3fa',
    'bare-ssc/initializeelementstatuswithrange/3': 'e26dd3fa',
    'bare-ssc/opencloseimportexportelement/0': 'e26dd3fa',
    'bare-ssc/opencloseimportexportelement/1': 'e26dd3fa',
    'bare-ssc/opencloseimportexportelement/2': 'e26dd3fa',
    'bare-ssc/readelementstatus/0': 'e26dd3fa',
    'bare-ssc/readelementstatus/1': 'e26dd3fa',
    'bare-ssc/readelementstatus/2': 'e26dd3fa',
    'bare-ssc/readelementstatus/3': 'e26dd3fa',
    'bare-ssc/readcd/0': 'e26dd3fa',
    'bare-ssc/readcd/1': 'e26dd3fa',
    'bare-ssc/readcd/2': 'e26dd3fa',
    'bare-ssc/readcd/3': 'e26dd3fa',
    'bare-ssc/readdiscinformation/0': 'e26dd3fa',
    'bare-ssc/readdiscinformation/1': 'e26dd3fa',
    'bare-ssc/readdiscinformation/2': 'e26dd3fa',
    'bare-ssc/readdiscinformation/3': 'e26dd3fa',
    'bare-ssc/readdiscinformation/4': 'e26dd3fa',
    'bare-ssc/atapassthrough12/0': 'e26dd3fa',
    'bare-ssc/atapassthrough12/1': 'e26dd3fa',
    'bare-ssc/atapassthrough12/2': 'e26dd3fa',
    'bare-ssc/atapassthrough12/3': 'e26dd3fa',
    'bare-ssc/atapassthrough12/4': 'e26dd3fa',
    'bare-ssc/atapassthrough16/0': 'e26dd3fa',
    'bare-ssc/atapassthrough16/1': 'e26dd3fa',
    'bare-ssc/atapassthrough16/2': 'e26dd3fa',
    'bare-ssc/atapassthrough16/3': 'e26dd3fa',
    'bare-ssc/atapassthrough16/4': 'e26dd3fa',
    'bare-ssc/extendedcopy4/0': '549f2e9f',
    'bare-ssc/extendedcopy4/1': '5cdd9157',
    'bare-ssc/extendedcopy4/2': '3ca20e5b',
    'bare-ssc/extendedcopy5/0': 'aa37e185',
    'bare-ssc/extendedcopy5/1': 'd02d79f6',
    'bare-ssc/extendedcopy5/2': 'ba0b0614',
    'bare-smc/inquiry/0': '87b1c7ca',
    'bare-smc/inquiry/1': '87b1c7ca',
    'bare-smc/inquiry/2': '87b1c7ca',
    'bare-smc/inquiry/3': '5e9ef7ce',
    'bare-smc/inquiry/4': 'fbc2771d',
    'bare-smc/inquiry/5': '1c6b1c5f',
    'bare-smc/inquiry/6': 'e69c83ea',
    'bare-smc/inquiry/7': '4a89c006',
    'bare-smc/inquiry/8': 'a5c0ceca',
    'bare-smc/inquiry/9': 'b95179d1',
    'bare-smc/inquiry/10': '2869a82b',
    'bare-smc/inquiry/11': 'f9bfe911',
    'bare-smc/inquiry/12': 'dc85fbe8',
    'bare-smc/inquiry/13': '9477e024',
    'bare-smc/inquiry/14': 'f6e8c7f4',
    'bare-smc/testunitready/0': 'e8677930',
    'bare-smc/readcapacity10/0': 'e26dd3fa',
    'bare-smc/readcapacity10/1': 'e26dd3fa',
    'bare-smc/readcapacity10/2': 'e26dd3fa',
    'bare-smc/readcapacity10/3': 'e26dd3fa',
    'bare-smc/readcapacity16/0': '5d0a80c7',
    'bare-smc/readcapacity16/1': '5d0a80c7',
    'bare-smc/readcapacity16/2': '5d0a80c7',
    'bare-smc/readcapacity16/3': '5d0a80c7',
    'bare-smc/getlbastatus/0': '5d0a80c7',
    'bare-smc/getlbastatus/1': '5d0a80c7',
    'bare-smc/getlbastatus/2': '5d0a80c7',
    'bare-smc/getlbastatus/3': '5d0a80c7',
    'bare-smc/read10/0': 'e26dd3fa',
    'bare-smc/read10/1': 'e26dd3fa',
    'bare-smc/read10/2': 'e26dd3fa',
    'bare-smc/read10/3': 'e26dd3fa',
    'bare-smc/read10/4': 'e26dd3fa',
    'bare-smc/read10/5': 'e26dd3fa',
    'bare-smc/read10/6': 'e26dd3fa',
    'bare-smc/read10/7': 'e26dd3fa',
    'bare-smc/read10/8': 'e26dd3fa',
    'bare-smc/read10/9': 'e26dd3fa',
    'bare-smc/read10/10': 'e26dd3fa',
    'bare-smc/read10/11': 'e26dd3fa',
    'bare-smc/read12/0': 'e26dd3fa',
    'bare-smc/read12/1': 'e26dd3fa',
    'bare-smc/read12/2': 'e26dd3fa',
    'bare-smc/read12/3': 'e26dd3fa',
    'bare-smc/read12/4': 'e26dd3fa',
    'bare-smc/read12/5': 'e26dd3fa',
    'bare-smc/read16/0': 'e26dd3fa',
    'bare-smc/read16/1': 'e26dd3fa',
    'bare-smc/read16/2': 'e26dd3fa',
    'bare-smc/read16/3': 'e26dd3fa',
    'bare-smc/read16/4': 'e26dd3fa',
    'bare-smc/write10/0': 'e26dd3fa',
    'bare-smc/write10/1': 'e26dd3fa',
    'bare-smc/write10/2': 'e26dd3fa',
    'bare-smc/write10/3': 'e26dd3fa',
    'bare-smc/write10/4': 'e26dd3fa',
    'bare-smc/write10/5': 'e26dd3fa',
    'bare-smc/write10/6': 'e26dd3fa',
    'bare-smc/write12/0': 'e26dd3fa',
    'bare-smc/write12/1': 'e26dd3fa',
    'bare-smc/write12/2': 'e26dd3fa',
    'bare-smc/write12/3': 'e26dd3fa',
    'bare-smc/write16/0': 'e26dd3fa',
    'bare-smc/write16/1': 'e26dd3fa',
    'bare-smc/write16/2': 'e26dd3fa',
    'bare-smc/write16/3': 'e26dd3fa',
    'bare-smc/writesame10/0': 'e26dd3fa',
    'bare-smc/writesame10/1': 'e26dd3fa',
    'bare-smc/writesame10/2': 'e26dd3fa',
    'bare-smc/writesame10/3': 'e26dd3fa',
    'bare-smc/writesame16/0': 'e26dd3fa',
    'bare-smc/writesame16/1': 'e26dd3fa',
    'bare-smc/writesame16/2': 'e26dd3fa',
    'bare-smc/writesame16/3': 'e26dd3fa',
    'bare-smc/synchronizecache10/0': 'e26dd3fa',
    'bare-smc/synchronizecache10/1': 'e26dd3fa',
    'bare-smc/synchronizecache10/2': 'e26dd3fa',
    'bare-smc/synchronizecache10/3': 'e26dd3fa',
    'bare-smc/synchronizecache16/0': 'e26dd3fa',
    'bare-smc/synchronizecache16/1': 'e26dd3fa',
    'bare-smc/synchronizecache16/2': 'e26dd3fa',
    'bare-smc/synchronizecache16/3': 'e26dd3fa',
    'bare-smc/modesense6/0': '8241ec3e',
    'bare-smc/modesense6/1': '894f43d9',
    'bare-smc/modesense6/2': 'c3446d95',
    'bare-smc/modesense6/3': '1c3397b9',
    'bare-smc/modesense6/4': '0f8039b6',
    'bare-smc/modesense6/5': '1845ac5d',
    'bare-smc/modesense10/0': '867f0793',
    'bare-smc/modesense10/1': 'd1676586',
    'bare-smc/modesense10/2': '8667c984',
    'bare-smc/modesense10/3': '07256736',
    'bare-smc/modesense10/4': '0a2e2367',
    'bare-smc/modeselect6/0': 'a6195ff8',
    'bare-smc/modeselect6/1': '8eebdc9f',
    'bare-smc/modeselect6/2': 'f490857e',
    'bare-smc/modeselect10/0': '540e22c6',
    'bare-smc/modeselect10/1': 'd371af31',
    'bare-smc/reportluns/0': 'c695281a',
    'bare-smc/reportluns/1': '97e3171d',
    'bare-smc/reportluns/2': 'c695281a',
    'bare-smc/reportluns/3': 'd620a672',
    'bare-smc/reportpriority/0': '9bfd2979',
    'bare-smc/reportpriority/1': '9bfd2979',
    'bare-smc/reportpriority/2': '9bfd2979',
    'bare-smc/reporttargetportgroups/0': 'f0cd18f3',
    'bare-smc/reporttargetportgroups/1': '7824f983',
    'bare-smc/reporttargetportgroups/2': 'f0cd18f3',
    'bare-smc/persistentreservein/0': '124bda2f',
    'bare-smc/persistentreservein/1': 'c0fca600',
    'bare-smc/persistentreservein/2': '6c28052f',
    'bare-smc/persistentreservein/3': '5df3e497',
    'bare-smc/persistentreservein/4': '9055c541',
    'bare-smc/persistentreservein/5': 'c0fca600',
    'bare-smc/persistentreservein/6': '5ca0bd0c',
    'bare-smc/persistentreservein/7': 'e954a17c',
    'bare-smc/persistentreservein/8': '04f2314f',
    'bare-smc/persistentreservein/9': '04f2314f',
    'bare-smc/persistentreservein/10': '04f2314f',
    'bare-smc/persistentreservein/11': '124bda2f',
    'bare-smc/persistentreservein/12': '6c28052f',
    'bare-smc/persistentreserveout/0': 'cac43c69',
    'bare-smc/persistentreserveout/1': 'fb6d1139',
    'bare-smc/persistentreserveout/2': '5616e6d9',
    'bare-smc/persistentreserveout/3': '6f4d8aed',
    'bare-smc/persistentreserveout/4': '3601ff40',
    'bare-smc/persistentreserveout/5': '499e57b2',
    'bare-smc/persistentreserveout/6': 'a39e2f57',
    'bare-smc/persistentreserveout/7': 'fed95c4f',
    'bare-smc/preventallowmediumremoval/0': '01d4e1ce',
    'bare-smc/preventallowmediumremoval/1': 'dfce32a0',
    'bare-smc/preventallowmediumremoval/2': '208cf5c2',
    'bare-smc/preventallowmediumremoval/3': '01d4e1ce',
    'bare-smc/exchangemedium/0': '6e083f2b',
    'bare-smc/exchangemedium/1': 'faf304e7',
    'bare-smc/exchangemedium/2': '6e083f2b',
    'bare-smc/exchangemedium/3': '8dde618a',
    'bare-smc/movemedium/0': 'ebb3aa6d',
    'bare-smc/movemedium/1': '135a9921',
    'bare-smc/movemedium/2': 'ebb3aa6d',
    'bare-smc/positiontoelement/0': '0ab5289a',
    'bare-smc/positiontoelement/1': 'de759971',
    'bare-smc/positiontoelement/2': '0ab5289a',
    'bare-smc/initializeelementstatus/0': '7c112a7f',
    'bare-smc/initializeelementstatuswithrange/0': '0bb0cd33',
    'bare-smc/initializeelementstatuswithrange/1': '9e226dd2',
    'bare-smc/initializeelementstatuswithrange/2': '0bb0cd33',
    'bare-smc/initializeelementstatuswithrange/3': 'e1ba7e25',
    'bare-smc/opencloseimportexportelement/0': '6bba1f78',
    'bare-smc/opencloseimportexportelement/1': '640be00e',
    'bare-smc/opencloseimportexportelement/2': '54546f3c',
    'bare-smc/readelementstatus/0': '2bd99ffe',
    'bare-smc/readelementstatus/1': '4c678566',
    'bare-smc/readelementstatus/2': '2bd99ffe',
    'bare-smc/readelementstatus/3': '84cceff1',
    'bare-smc/readcd/0': 'e26dd3fa',
    'bare-smc/readcd/1': 'e26dd3fa',
    'bare-smc/readcd/2': 'e26dd3fa',
    'bare-smc/readcd/3': 'e26dd3fa',
    'bare-smc/readdiscinformation/0': 'e26dd3fa',
    'bare-smc/readdiscinformation/1': 'e26dd3fa',
    'bare-smc/readdiscinformation/2': 'e26dd3fa',
    'bare-smc/readdiscinformation/3': 'e26dd3fa',
    'bare-smc/readdiscinformation/4': 'e26dd3fa',
    'bare-smc/atapassthrough12/0': 'e26dd3fa',
    'bare-smc/atapassthrough12/1': 'e26dd3fa',
    'bare-smc/atapassthrough12/2': 'e26dd3fa',
    'bare-smc/atapassthrough12/3': 'e26dd3fa',
    'bare-smc/atapassthrough12/4': 'e26dd3fa',
    'bare-smc/atapassthrough16/0': 'e26dd3fa',
    'bare-smc/atapassthrough16/1': 'e26dd3fa',
    'bare-smc/atapassthrough16/2': 'e26dd3fa',
    'bare-smc/atapassthrough16/3': 'e26dd3fa',
    'bare-smc/atapassthrough16/4': 'e26dd3fa',
    'bare-smc/extendedcopy4/0': 'e26dd3fa',
    'bare-smc/extendedcopy4/1': 'e26dd3fa',
    'bare-smc/extendedcopy4/2': 'e26dd3fa',
    'bare-smc/extendedcopy5/0': 'e26dd3fa',
    'bare-smc/extendedcopy5/1': 'e26dd3fa',
    'bare-smc/extendedcopy5/2': 'e26dd3fa',
    'bare-mmc/inquiry/0': '87b1c7ca',
    'bare-mmc/inquiry/1': '87b1c7ca',
    'bare-mmc/inquiry/2': '87b1c7ca',
    'bare-mmc/inquiry/3': '5e9ef7ce',
    'bare-mmc/inquiry/4': 'fbc2771d',
    'bare-mmc/inquiry/5': '1c6b1c5f',
    'bare-mmc/inquiry/6': 'e69c83ea',
    'bare-mmc/inquiry/7': '4a89c006',
    'bare-mmc/inquiry/8': 'a5c0ceca',
    'bare-mmc/inquiry/9': 'b95179d1',
    'bare-mmc/inquiry/10': '2869a82b',
    'bare-mmc/inquiry/11': 'f9bfe911',
    'bare-mmc/inquiry/12': 'dc85fbe8',
    'bare-mmc/inquiry/13': '9477e024',
    'bare-mmc/inquiry/14': 'f6e8c7f4',
    'bare-mmc/testunitready/0': 'e8677930',
    'bare-mmc/readcapacity10/0': 'e26dd3fa',
    'bare-mmc/readcapacity10/1': 'e26dd3fa',
    'bare-mmc/readcapacity10/2': 'e26dd3fa',
    'bare-mmc/readcapacity10/3': 'e26dd3fa',
    'bare-mmc/readcapacity16/0': '5d0a80c7',
    'bare-mmc/readcapacity16/1': '5d0a80c7',
    'bare-mmc/readcapacity16/2': '5d0a80c7',
    'bare-mmc/readcapacity16/3': '5d0a80c7',
    'bare-mmc/getlbastatus/0': '5d0a80c7',
    'bare-mmc/getlbastatus/1': '5d0a80c7',
    'bare-mmc/getlbastatus/2': '5d0a80c7',
    'bare-mmc/getlbastatus/3': '5d0a80c7',
    'bare-mmc/read10/0': '94ba89c8',
    'bare-mmc/read10/1': '659fbf76',
    'bare-mmc/read10/2': '276286ef',
    'bare-mmc/read10/3': 'c7fa5344',
    'bare-mmc/read10/4': 'af73f864',
    'bare-mmc/read10/5': '4326f9cf',
    'bare-mmc/read10/6': '2f4f91fc',
    'bare-mmc/read10/7': '5a9163ac',
    'bare-mmc/read10/8': '6cd41cd6',
    'bare-mmc/read10/9': 'ce0ec6b4',
    'bare-mmc/read10/10': '1e7b3777',
    'bare-mmc/read10/11': '1c8e7f20',
    'bare-mmc/read12/0': 'c6779dd4',
    'bare-mmc/read12/1': 'e5b132ee',
    'bare-mmc/read12/2': 'cae5a064',
    'bare-mmc/read12/3': '180db864',
    'bare-mmc/read12/4': '2f43e5a8',
    'bare-mmc/read12/5': '90e4561f',
    'bare-mmc/read16/0': 'e26dd3fa',
    'bare-mmc/read16/1': 'e26dd3fa',
    'bare-mmc/read16/2': 'e26dd3fa',
    'bare-mmc/read16/3': 'e26dd3fa',
    'bare-mmc/read16/4': 'e26dd3fa',
    'bare-mmc/write10/0': 'aff05bc1',
    'bare-mmc/write10/1': 'fd2e9a69',
    'bare-mmc/write10/2': '074f9a73',
    'bare-mmc/write10/3': 'fb139679',
    'bare-mmc/write10/4': '98b73e6f',
    'bare-mmc/write10/5': '72b14f2e',
    'bare-mmc/write10/6': '64b484d0',
    'bare-mmc/write12/0': '11ea97fc',
    'bare-mmc/write12/1': 'c71ba1f3',
    'bare-mmc/write12/2': 'a978449f',
    'bare-mmc/write12/3': '54082b92',
    'bare-mmc/write16/0': 'e26dd3fa',
    'bare-mmc/write16/1': 'e26dd3fa',
    'bare-mmc/write16/2': 'e26dd3fa',
    'bare-mmc/write16/3': 'e26dd3fa',
    'bare-mmc/writesame10/0': 'e26dd3fa',
    'bare-mmc/writesame10/1': 'e26dd3fa',
    'bare-mmc/writesame10/2': 'e26dd3fa',
    'bare-mmc/writesame10/3': 'e26dd3fa',
    'bare-mmc/writesame16/0': 'e26dd3fa',
    'bare-mmc/writesame16/1': 'e26dd3fa',
    'bare-mmc/writesame16/2': 'e26dd3fa',
    'bare-mmc/writesame16/3': 'e26dd3fa',
    'bare-mmc/synchronizecache10/0': 'e26dd3fa',
    'bare-mmc/synchronizecache10/1': 'e26dd3fa',
    'bare-mmc/synchronizecache10/2': 'e26dd3fa',
    'bare-mmc/synchronizecache10/3': 'e26dd3fa',
    'bare-mmc/synchronizecache16/0': 'e26dd3fa',
    'bare-mmc/synchronizecache16/1': 'e26dd3fa',
    'bare-mmc/synchronizecache16/2': 'e26dd3fa',
    'bare-mmc/synchronizecache16/3': 'e26dd3fa',
    'bare-mmc/modesense6/0': 'e26dd3fa',
    'bare-mmc/modesense6/1': 'e26dd3fa',
    'bare-mmc/modesense6/2': 'e26dd3fa',
    'bare-mmc/modesense6/3': 'e26dd3fa',
    'bare-mmc/modesense6/4': 'e26dd3fa',
    'bare-mmc/modesense6/5': 'e26dd3fa',
    'bare-mmc/modesense10/0': '867f0793',
    'bare-mmc/modesense10/1': 'd1676586',
    'bare-mmc/modesense10/2': '8667c984',
    'bare-mmc/modesense10/3': '07256736',
    'bare-mmc/modesense10/4': '0a2e2367',
    'bare-mmc/modeselect6/0': 'e26dd3fa',
    'bare-mmc/modeselect6/1': 'e26dd3fa',
    'bare-mmc/modeselect6/2': 'e26dd3fa',
    'bare-mmc/modeselect10/0': '540e22c6',
    'bare-mmc/modeselect10/1': 'd371af31',
    'bare-mmc/reportluns/0': 'c695281a',
    'bare-mmc/reportluns/1': '97e3171d',
    'bare-mmc/reportluns/2': 'c695281a',
    'bare-mmc/reportluns/3': 'd620a672',
    'bare-mmc/reportpriority/0': '5d0a80c7',
    'bare-mmc/reportpriority/1': '5d0a80c7',
    'bare-mmc/reportpriority/2': '5d0a80c7',
    'bare-mmc/reporttargetportgroups/0': '5d0a80c7',
    'bare-mmc/reporttargetportgroups/1': '5d0a80c7',
    'bare-mmc/reporttargetportgroups/2': '5d0a80c7',
    'bare-mmc/persistentreservein/0': 'e26dd3fa',
    'bare-mmc/persistentreservein/1': 'e26dd3fa',
    'bare-mmc/persistentreservein/2': 'e26dd3fa',
    'bare-mmc/persistentreservein/3': 'e26dd3fa',
    'bare-mmc/persistentreservein/4': 'e26dd3fa',
    'bare-mmc/persistentreservein/5': 'e26dd3fa',
    'bare-mmc/persistentreservein/6': 'e26dd3fa',
    'bare-mmc/persistentreservein/7': 'e26dd3fa',
    'bare-mmc/persistentreservein/8': 'e26dd3fa',
    'bare-mmc/persistentreservein/9': 'e26dd3fa',
    'bare-mmc/persistentreservein/10': 'e26dd3fa',
    'bare-mmc/persistentreservein/11': 'e26dd3fa',
    'bare-mmc/persistentreservein/12': 'e26dd3fa',
    'bare-mmc/persistentreserveout/0': 'e26dd3fa',
    'bare-mmc/persistentreserveout/1': 'e26dd3fa',
    'bare-mmc/persistentreserveout/2': 'e26dd3fa',
    'bare-mmc/persistentreserveout/3': 'e26dd3fa',
    'bare-mmc/persistentreserveout/4': 'e26dd3fa',
    'bare-mmc/persistentreserveout/5': 'e26dd3fa',
    'bare-mmc/persistentreserveout/6': 'e26dd3fa',
    'bare-mmc/persistentreserveout/7': 'e26dd3fa',
    'bare-mmc/preventallowmediumremoval/0': '01d4e1ce',
    'bare-mmc/preventallowmediumremoval/1': 'dfce32a0',
    'bare-mmc/preventallowmediumremoval/2': '208cf5c2',
    'bare-mmc/preventallowmediumremoval/3': '01d4e1ce',
    'bare-mmc/exchangemedium/0': 'e26dd3fa',
    'bare-mmc/exchangemedium/1': 'e26dd3fa',
    'bare-mmc/exchangemedium/2': 'e26dd3fa',
    'bare-mmc/exchangemedium/3': 'e26dd3fa',
    'bare-mmc/movemedium/0': 'e26dd3fa',
    'bare-mmc/movemedium/1': 'e26dd3fa',
    'bare-mmc/movemedium/2': 'e26dd3fa',
    'bare-mmc/positiontoelement/0': 'e26dd3fa',
    'bare-mmc/positiontoelement/1': 'e26dd3fa',
    'bare-mmc/positiontoelement/2': 'e26dd3fa',
    'bare-mmc/initializeelementstatus/0': 'e26dd3fa',
    'bare-mmc/initializeelementstatuswithrange/0': 'e26dd3fa',
    'bare-mmc/initializeelementstatuswithrange/1': 'e26dd3fa',
    'bare-mmc/initializeelementstatuswithrange/2': 'e26dd3fa',
    'bare-mmc/initializeelementstatuswithrange/3': 'e26dd3fa',
    'bare-mmc/opencloseimportexportelement/0': 'e26dd3fa',
    'bare-mmc/opencloseimportexportelement/1': 'e26dd3fa',
    'bare-mmc/opencloseimportexportelement/2': 'e26dd3fa',
    'bare-mmc/readelementstatus/0': 'e26dd3fa',
    'bare-mmc/readelementstatus/1': 'e26dd3fa',
    'bare-mmc/readelementstatus/2': 'e26dd3fa',
    'bare-mmc/readelementstatus/3': 'e26dd3fa',
    'bare-mmc/readcd/0': '2d8623ba',
    'bare-mmc/readcd/1': '5782e01d',
    'bare-mmc/readcd/2': 'dfaf4564',
    'bare-mmc/readcd/3': '6a3b8823',
    'bare-mmc/readdiscinformation/0': '213a25ca',
    'bare-mmc/readdiscinformation/1': 'a878942b',
    'bare-mmc/readdiscinformation/2': '745a7359',
    'bare-mmc/readdiscinformation/3': 'adbe29f7',
    'bare-mmc/readdiscinformation/4': 'fdd62e93',
    'bare-mmc/atapassthrough12/0': 'e26dd3fa',
    'bare-mmc/atapassthrough12/1': 'e26dd3fa',
    'bare-mmc/atapassthrough12/2': 'e26dd3fa',
    'bare-mmc/atapassthrough12/3': 'e26dd3fa',
    'bare-mmc/atapassthrough12/4': 'e26dd3fa',
    'bare-mmc/atapassthrough16/0': 'e26dd3fa',
    'bare-mmc/atapassthrough16/1': 'e26dd3fa',
    'bare-mmc/atapassthrough16/2': 'e26dd3fa',
    'bare-mmc/atapassthrough16/3': 'e26dd3fa',
    'bare-mmc/atapassthrough16/4': 'e26dd3fa',
    'bare-mmc/extendedcopy4/0': 'e26dd3fa',
    'bare-mmc/extendedcopy4/1': 'e26dd3fa',
    'bare-mmc/extendedcopy4/2': 'e26dd3fa',
    'bare-mmc/extendedcopy5/0': 'e26dd3fa',
    'bare-mmc/extendedcopy5/1': 'e26dd3fa',
    'bare-mmc/extendedcopy5/2': 'e26dd3fa',
    'attach-rec-00/inquiry/0': '87b1c7ca',
    'attach-rec-00/read16/0': '858dcdaa',
    'attach-rec-00/readcapacity16/0': 'b9133356',
    'attach-rec-01/inquiry/0': '16ac3802',
    'attach-rec-02/inquiry/0': '4716422f',
    'attach-rec-03/inquiry/0': 'f3fb48bd',
    'attach-rec-04/inquiry/0': 'dbac3d75',
    'attach-rec-04/read16/0': '30071409',
    'attach-rec-04/readcapacity16/0': 'b9133356',
    'attach-rec-05/inquiry/0': '553035c6',
    'attach-rec-05/readdiscinformation/0': '213a25ca',
    'attach-rec-06/inquiry/0': 'dd50d209',
    'attach-rec-07/inquiry/0': 'c663eee7',
    'attach-rec-07/read16/0': '53380e5b',
    'attach-rec-07/readcapacity16/0': 'b9133356',
    'attach-rec-08/inquiry/0': '65c7f018',
    'attach-rec-08/movemedium/0': '5e6be20d',
    'attach-rec-09/inquiry/0': '0483c271',
    'attach-rec-0a/inquiry/0': '02e9ee11',
    'attach-rec-0b/inquiry/0': '43abf11d',
    'attach-rec-0c/inquiry/0': 'f5e38d4f',
    'attach-rec-0d/inquiry/0': '7f6c8130',
    'attach-rec-0e/inquiry/0': 'fc07e9bf',
    'attach-rec-0f/inquiry/0': 'b4a36dc7',
    'attach-rec-10/inquiry/0': '61d7c05f',
    'attach-rec-11/inquiry/0': 'f1334d4e',
    'attach-rec-12/inquiry/0': 'aae4be94',
    'attach-rec-13/inquiry/0': '4ae05d41',
    'attach-rec-14/inquiry/0': '581ae4d7',
    'attach-rec-15/inquiry/0': 'c32603c4',
    'attach-rec-16/inquiry/0': '55a3e48f',
    'attach-rec-17/inquiry/0': '840b8df6',
    'attach-rec-18/inquiry/0': 'abc1643a',
    'attach-rec-19/inquiry/0': 'a3950463',
    'attach-rec-1a/inquiry/0': '014fa782',
    'attach-rec-1b/inquiry/0': 'fe826d47',
    'attach-rec-1c/inquiry/0': 'e0d00f92',
    'attach-rec-1d/inquiry/0': '19d6490f',
    'attach-rec-1e/inquiry/0': 'ce7770bf',
    'attach-rec-1f/inquiry/0': '69c1c3d4',
    'attach-sgio-00/inquiry/0': '87b1c7ca',
    'attach-sgio-00/read16/0': '858dcdaa',
    'attach-sgio-00/readcapacity16/0': 'b9133356',
    'attach-sgio-01/inquiry/0': '16ac3802',
    'attach-sgio-02/inquiry/0': '4716422f',
    'attach-sgio-03/inquiry/0': 'f3fb48bd',
    'attach-sgio-04/inquiry/0': 'dbac3d75',
    'attach-sgio-04/read16/0': '30071409',
    'attach-sgio-04/readcapacity16/0': 'b9133356',
    'attach-sgio-05/inquiry/0': '553035c6',
    'attach-sgio-05/readdiscinformation/0': '213a25ca',
    'attach-sgio-06/inquiry/0': 'dd50d209',
    'attach-sgio-07/inquiry/0': 'c663eee7',
    'attach-sgio-07/read16/0': '53380e5b',
    'attach-sgio-07/readcapacity16/0': 'b9133356',
    'attach-sgio-08/inquiry/0': '65c7f018',
    'attach-sgio-08/movemedium/0': '5e6be20d',
    'attach-sgio-09/inquiry/0': '0483c271',
    'attach-sgio-0a/inquiry/0': '02e9ee11',
    'attach-sgio-0b/inquiry/0': '43abf11d',
    'attach-sgio-0c/inquiry/0': 'f5e38d4f',
    'attach-sgio-0d/inquiry/0': '7f6c8130',
    'attach-sgio-0e/inquiry/0': 'fc07e9bf',
    'attach-sgio-0f/inquiry/0': 'b4a36dc7',
    'attach-sgio-10/inquiry/0': '61d7c05f',
    'attach-sgio-11/inquiry/0': 'f1334d4e',
    'attach-sgio-12/inquiry/0': 'aae4be94',
    'attach-sgio-13/inquiry/0': '4ae05d41',
    'attach-sgio-14/inquiry/0': '581ae4d7',
    'attach-sgio-15/inquiry/0': 'c32603c4',
    'attach-sgio-16/inquiry/0': '55a3e48f',
    'attach-sgio-17/inquiry/0': '840b8df6',
    'attach-sgio-18/inquiry/0': 'abc1643a',
    'attach-sgio-19/inquiry/0': 'a3950463',
    'attach-sgio-1a/inquiry/0': '014fa782',
    'attach-sgio-1b/inquiry/0': 'fe826d47',
    'attach-sgio-1c/inquiry/0': 'e0d00f92',
    'attach-sgio-1d/inquiry/0': '19d6490f',
    'attach-sgio-1e/inquiry/0': 'ce7770bf',
    'attach-sgio-1f/inquiry/0': '69c1c3d4',
    'attach-iscsi-00/inquiry/0': '24cc3100',
    'attach-iscsi-00/read16/0': 'a5811727',
    'attach-iscsi-00/readcapacity16/0': '5e963a23',
    'attach-iscsi-01/inquiry/0': '8c9f291a',
    'attach-iscsi-02/inquiry/0': '11233dc6',
    'attach-iscsi-03/inquiry/0': 'e12938a1',
    'attach-iscsi-04/inquiry/0': '78274d9f',
    'attach-iscsi-04/read16/0': '6b794c36',
    'attach-iscsi-04/readcapacity16/0': '5e963a23',
    'attach-iscsi-05/inquiry/0': 'e7473924',
    'attach-iscsi-05/readdiscinformation/0': '58a73b1e',
    'attach-iscsi-06/inquiry/0': 'f40d3f3d',
    'attach-iscsi-07/inquiry/0': '5c671a88',
    'attach-iscsi-07/read16/0': '88e30035',
    'attach-iscsi-07/readcapacity16/0': '5e963a23',
    'attach-iscsi-08/inquiry/0': 'c8e069c5',
    'attach-iscsi-08/movemedium/0': 'e3ac915f',
    'attach-iscsi-09/inquiry/0': 'ae1b47f2',
    'attach-iscsi-0a/inquiry/0': '691bc4fd',
    'attach-iscsi-0b/inquiry/0': 'b4d070e7',
    'attach-iscsi-0c/inquiry/0': 'c009545d',
    'attach-iscsi-0d/inquiry/0': '8a11d02e',
    'attach-iscsi-0e/inquiry/0': 'd2cda0f0',
    'attach-iscsi-0f/inquiry/0': '4cfadde6',
    'attach-iscsi-10/inquiry/0': '8f9a3f87',
    'attach-iscsi-11/inquiry/0': 'f6d15549',
    'attach-iscsi-12/inquiry/0': 'd27409ac',
    'attach-iscsi-13/inquiry/0': 'e14a8936',
    'attach-iscsi-14/inquiry/0': '8db25527',
    'attach-iscsi-15/inquiry/0': '49191d48',
    'attach-iscsi-16/inquiry/0': '190507bd',
    'attach-iscsi-17/inquiry/0': 'bad6b8e4',
    'attach-iscsi-18/inquiry/0': '68a05b4a',
    'attach-iscsi-19/inquiry/0': '6768682f',
    'attach-iscsi-1a/inquiry/0': 'b7ddda1d',
    'attach-iscsi-1b/inquiry/0': '84ea4c85',
    'attach-iscsi-1c/inquiry/0': 'e758967a',
    'attach-iscsi-1d/inquiry/0': '961d7469',
    'attach-iscsi-1e/inquiry/0': 'ed9ca277',
    'attach-iscsi-1f/inquiry/0': '43a315a3',
    'sgio-sbc/inquiry/0': '87b1c7ca',
    'sgio-sbc/inquiry/1': '87b1c7ca',
    'sgio-sbc/inquiry/2': '87b1c7ca',
    'sgio-sbc/inquiry/3': '5e9ef7ce',
    'sgio-sbc/inquiry/4': 'fbc2771d',
    'sgio-sbc/inquiry/5': '1c6b1c5f',
    'sgio-sbc/inquiry/6': 'e69c83ea',
    'sgio-sbc/inquiry/7': '4a89c006',
    'sgio-sbc/inquiry/8': 'a5c0ceca',
    'sgio-sbc/inquiry/9': 'b95179d1',
    'sgio-sbc/inquiry/10': '2869a82b',
    'sgio-sbc/inquiry/11': 'f9bfe911',
    'sgio-sbc/inquiry/12': 'dc85fbe8',
    'sgio-sbc/inquiry/13': '9477e024',
    'sgio-sbc/inquiry/14': 'f6e8c7f4',
    'sgio-sbc/testunitready/0': 'e8677930',
    'sgio-sbc/readcapacity10/0': '87dd2aac',
    'sgio-sbc/readcapacity10/1': '87dd2aac',
    'sgio-sbc/readcapacity10/2': 'd2f0335a',
    'sgio-sbc/readcapacity10/3': '408d0763',
    'sgio-sbc/readcapacity16/0': 'b9133356',
    'sgio-sbc/readcapacity16/1': 'b9133356',
    'sgio-sbc/readcapacity16/2': '67734fbe',
    'sgio-sbc/readcapacity16/3': '97ed04d7',
    'sgio-sbc/getlbastatus/0': 'da0af6b4',
    'sgio-sbc/getlbastatus/1': '0ca73f1f',
    'sgio-sbc/getlbastatus/2': '6b607f3c',
    'sgio-sbc/getlbastatus/3': 'b3e6c96b',
    'sgio-sbc/read10/0': '94ba89c8',
    'sgio-sbc/read10/1': '659fbf76',
    'sgio-sbc/read10/2': '276286ef',
    'sgio-sbc/read10/3': 'c7fa5344',
    'sgio-sbc/read10/4': 'af73f864',
    'sgio-sbc/read10/5': '4326f9cf',
    'sgio-sbc/read10/6': '2f4f91fc',
    'sgio-sbc/read10/7': '5a9163ac',
    'sgio-sbc/read10/8': '6cd41cd6',
    'sgio-sbc/read10/9': 'ce0ec6b4',
    'sgio-sbc/read10/10': '1e7b3777',
    'sgio-sbc/read10/11': '1c8e7f20',
    'sgio-sbc/read12/0': 'c6779dd4',
    'sgio-sbc/read12/1': 'e5b132ee',
    'sgio-sbc/read12/2': 'cae5a064',
    'sgio-sbc/read12/3': '180db864',
    'sgio-sbc/read12/4': '2f43e5a8',
    'sgio-sbc/read12/5': '90e4561f',
    'sgio-sbc/read16/0': 'a00b20c3',
    'sgio-sbc/read16/1': '5d848ef4',
    'sgio-sbc/read16/2': 'fc1120c3',
    'sgio-sbc/read16/3': '43388126',
    'sgio-sbc/read16/4': '718a9e94',
    'sgio-sbc/write10/0': 'aff05bc1',
    'sgio-sbc/write10/1': 'fd2e9a69',
    'sgio-sbc/write10/2': '074f9a73',
    'sgio-sbc/write10/3': 'fb139679',
    'sgio-sbc/write10/4': '98b73e6f',
    'sgio-sbc/write10/5': '72b14f2e',
    'sgio-sbc/write10/6': '64b484d0',
    'sgio-sbc/write12/0': '11ea97fc',
    'sgio-sbc/write12/1': 'c71ba1f3',
    'sgio-sbc/write12/2': 'a978449f',
    'sgio-sbc/write12/3': '54082b92',
    'sgio-sbc/write16/0': '3400a0a5',
    'sgio-sbc/write16/1': '5aecaf43',
    'sgio-sbc/write16/2': '71faee53',
    'sgio-sbc/write16/3': '24f6d16b',
    'sgio-sbc/writesame10/0': '4a7b5012',
    'sgio-sbc/writesame10/1': '2f0cde6d',
    'sgio-sbc/writesame10/2': '2f2d66c6',
    'sgio-sbc/writesame10/3': 'd3f7a202',
    'sgio-sbc/writesame16/0': '70e4247e',
    'sgio-sbc/writesame16/1': '83de08d5',
    'sgio-sbc/writesame16/2': 'be2869a2',
    'sgio-sbc/writesame16/3': '468475e4',
    'sgio-sbc/synchronizecache10/0': '29f02b4d',
    'sgio-sbc/synchronizecache10/1': '249570a7',
    'sgio-sbc/synchronizecache10/2': '86e4193d',
    'sgio-sbc/synchronizecache10/3': '09cba03d',
    'sgio-sbc/synchronizecache16/0': '5df4c1d5',
    'sgio-sbc/synchronizecache16/1': '54660956',
    'sgio-sbc/synchronizecache16/2': '3683169f',
    'sgio-sbc/synchronizecache16/3': '3cf216da',
    'sgio-sbc/modesense6/0': '8241ec3e',
    'sgio-sbc/modesense6/1': '894f43d9',
    'sgio-sbc/modesense6/2': 'c3446d95',
    'sgio-sbc/modesense6/3': '1c3397b9',
    'sgio-sbc/modesense6/4': '0f8039b6',
    'sgio-sbc/modesense6/5': '1845ac5d',
    'sgio-sbc/modesense10/0': '867f0793',
    'sgio-sbc/modesense10/1': 'd1676586',
    'sgio-sbc/modesense10/2': '8667c984',
    'sgio-sbc/modesense10/3': '07256736',
    'sgio-sbc/modesense10/4': '0a2e2367',
    'sgio-sbc/modeselect6/0': 'a6195ff8',
    'sgio-sbc/modeselect6/1': '8eebdc9f',
    'sgio-sbc/modeselect6/2': 'f490857e',
    'sgio-sbc/modeselect10/0': '540e22c6',
    'sgio-sbc/modeselect10/1': 'd371af31',
    'sgio-sbc/reportluns/0': 'c695281a',
    'sgio-sbc/reportluns/1': '97e3171d',
    'sgio-sbc/reportluns/2': 'c695281a',
    'sgio-sbc/reportluns/3': 'd620a672',
    'sgio-sbc/reportpriority/0': '9bfd2979',
    'sgio-sbc/reportpriority/1': '9bfd2979',
    'sgio-sbc/reportpriority/2': '9bfd2979',
    'sgio-sbc/reporttargetportgroups/0': 'f0cd18f3',
    'sgio-sbc/reporttargetportgroups/1': '7824f983',
    'sgio-sbc/reporttargetportgroups/2': 'f0cd18f3',
    'sgio-sbc/persistentreservein/0': '124bda2f',
    'sgio-sbc/persistentreservein/1': 'c0fca600',
    'sgio-sbc/persistentreservein/2': '6c28052f',
    'sgio-sbc/persistentreservein/3': '5df3e497',
    'sgio-sbc/persistentreservein/4': '9055c541',
    'sgio-sbc/persistentreservein/5': 'c0fca600',
    'sgio-sbc/persistentreservein/6': '5ca0bd0c',
    'sgio-sbc/persistentreservein/7': 'e954a17c',
    'sgio-sbc/persistentreservein/8': '04f2314f',
    'sgio-sbc/persistentreservein/9': '04f2314f',
    'sgio-sbc/persistentreservein/10': '04f2314f',
    'sgio-sbc/persistentreservein/11': '124bda2f',
    'sgio-sbc/persistentreservein/12': '6c28052f',
    'sgio-sbc/persistentreserveout/0': 'cac43c69',
    'sgio-sbc/persistentreserveout/1': 'fb6d1139',
    'sgio-sbc/persistentreserveout/2': '5616e6d9',
    'sgio-sbc/persistentreserveout/3': '6f4d8aed',
    'sgio-sbc/persistentreserveout/4': '3601ff40',
    'sgio-sbc/persistentreserveout/5': '499e57b2',
    'sgio-sbc/persistentreserveout/6': 'a39e2f57',
    'sgio-sbc/persistentreserveout/7': 'fed95c4f',
    'sgio-sbc/preventallowmediumremoval/0': '01d4e1ce',
    'sgio-sbc/preventallowmediumremoval/1': 'dfce32a0',
    'sgio-sbc/preventallowmediumremoval/2': '208cf5c2',
    'sgio-sbc/preventallowmediumremoval/3': '01d4e1ce',
    'sgio-sbc/exchangemedium/0': 'e26dd3fa',
    'sgio-sbc/exchangemedium/1': 'e26dd3fa',
    'sgio-sbc/exchangemedium/2': 'e26dd3fa',
    'sgio-sbc/exchangemedium/3': 'e26dd3fa',
    'sgio-sbc/movemedium/0': 'e26dd3fa',
    'sgio-sbc/movemedium/1': 'e26dd3fa',
    'sgio-sbc/movemedium/2': 'e26dd3fa',
    'sgio-sbc/positiontoelement/0': 'e26dd3fa',
    'sgio-sbc/positiontoelement/1': 'e26dd3fa',
    'sgio-sbc/positiontoelement/2': 'e26dd3fa',
    'sgio-sbc/initializeelementstatus/0': 'e26dd3fa',
    'sgio-sbc/initializeelementstatuswithrange/0': 'e26dd3fa',
    'sgio-sbc/initializeelementstatuswithrange/1': 'e26dd3fa',
    'sgio-sbc/initializeelementstatuswithrange/2': 'e26dd3fa',
    'sgio-sbc/initializeelementstatuswithrange/3': 'e26dd3fa',
    'sgio-sbc/opencloseimportexportelement/0': 'e26dd3fa',
    'sgio-sbc/opencloseimportexportelement/1': 'e26dd3fa',
    'sgio-sbc/opencloseimportexportelement/2': 'e26dd3fa',
    'sgio-sbc/readelementstatus/0': 'e26dd3fa',
    'sgio-sbc/readelementstatus/1': 'e26dd3fa',
    'sgio-sbc/readelementstatus/2': 'e26dd3fa',
    'sgio-sbc/readelementstatus/3': 'e26dd3fa',
    'sgio-sbc/readcd/0': 'e26dd3fa',
    'sgio-sbc/readcd/1': 'e26dd3fa',
    'sgio-sbc/readcd/2': 'e26dd3fa',
    'sgio-sbc/readcd/3': 'e26dd3fa',
    'sgio-sbc/readdiscinformation/0': 'e26dd3fa',
    'sgio-sbc/readdiscinformation/1': 'e26dd3fa',
    'sgio-sbc/readdiscinformation/2': 'e26dd3fa',
    'sgio-sbc/readdiscinformation/3': 'e26dd3fa',
    'sgio-sbc/readdiscinformation/4': 'e26dd3fa',
    'sgio-sbc/atapassthrough12/0': '9e9ff847',
    'sgio-sbc/atapassthrough12/1': '1933a015',
    'sgio-sbc/atapassthrough12/2': '2407b5ef',
    'sgio-sbc/atapassthrough12/3': '9251f2ed',
    'sgio-sbc/atapassthrough12/4': '83dda66c',
    'sgio-sbc/atapassthrough16/0': '3d11e7b6',
    'sgio-sbc/atapassthrough16/1': 'f4e3c303',
    'sgio-sbc/atapassthrough16/2': '7dd660e3',
    'sgio-sbc/atapassthrough16/3': '11da82d8',
    'sgio-sbc/atapassthrough16/4': 'ad055e4d',
    'sgio-sbc/extendedcopy4/0': '549f2e9f',
    'sgio-sbc/extendedcopy4/1': '5cdd9157',
    'sgio-sbc/extendedcopy4/2': '3ca20e5b',
    'sgio-sbc/extendedcopy5/0': 'aa37e185',
    'sgio-sbc/extendedcopy5/1': 'd02d79f6',
    'sgio-sbc/extendedcopy5/2': 'ba0b0614',
    'sgio-ssc/inquiry/0': '16ac3802',
    'sgio-ssc/inquiry/1': '16ac3802',
    'sgio-ssc/inquiry/2': '16ac3802',
    'sgio-ssc/inquiry/3': 'dedfc4b8',
    'sgio-ssc/inquiry/4': '4f3ba07c',
    'sgio-ssc/inquiry/5': '68731a62',
    'sgio-ssc/inquiry/6': '714ec5f9',
    'sgio-ssc/inquiry/7': '04d8e079',
    'sgio-ssc/inquiry/8': 'ed6f6f72',
    'sgio-ssc/inquiry/9': '5e80afe8',
    'sgio-ssc/inquiry/10': 'ef31001b',
    'sgio-ssc/inquiry/11': 'af82baf0',
    'sgio-ssc/inquiry/12': 'fe21f74c',
    'sgio-ssc/inquiry/13': '2530594e',
    'sgio-ssc/inquiry/14': 'fd82ad7f',
    'sgio-ssc/testunitready/0': 'e8677930',
    'sgio-ssc/readcapacity10/0': 'e26dd3fa',
    'sgio-ssc/readcapacity10/1': 'e26dd3fa',
    'sgio-ssc/readcapacity10/2': 'e26dd3fa',
    'sgio-ssc/readcapacity10/3': 'e26dd3fa',
    'sgio-ssc/readcapacity16/0': '5d0a80c7',
    'sgio-ssc/readcapacity16/1': '5d0a80c7',
    'sgio-ssc/readcapacity16/2': '5d0a80c7',
    'sgio-ssc/readcapacity16/3': '5d0a80c7',
    'sgio-ssc/getlbastatus/0': '5d0a80c7',
    'sgio-ssc/getlbastatus/1': '5d0a80c7',
    'sgio-ssc/getlbastatus/2': '5d0a80c7',
    'sgio-ssc/getlbastatus/3': '5d0a80c7',
    'sgio-ssc/read10/0': 'e26dd3fa',
    'sgio-ssc/read10/1': 'e26dd3fa',
    'sgio-ssc/read10/2': 'e26dd3fa',
    'sgio-ssc/read10/3': 'e26dd3fa',
    'sgio-ssc/read10/4': 'e26dd3fa',
    'sgio-ssc/read10/5': 'e26dd3fa',
    'sgio-ssc/read10/6': 'e26dd3fa',
    'sgio-ssc/read10/7': 'e26dd3fa',
    'sgio-ssc/read10/8': 'e26dd3fa',
    'sgio-ssc/read10/9': 'e26dd3fa',
    'sgio-ssc/read10/10': 'e26dd3fa',
    'sgio-ssc/read10/11': 'e26dd3fa',
    'sgio-ssc/read12/0': 'e26dd3fa',
    'sgio-ssc/read12/1': 'e26dd3fa',
    'sgio-ssc/read12/2': 'e26dd3fa',
    'sgio-ssc/read12/3': 'e26dd3fa',
    'sgio-ssc/read12/4': 'e26dd3fa',
    'sgio-ssc/read12/5': 'e26dd3fa',
    'sgio-ssc/read16/0': 'a00b20c3',
    'sgio-ssc/read16/1': '5d848ef4',
    'sgio-ssc/read16/2': 'fc1120c3',
    'sgio-ssc/read16/3': '43388126',
    'sgio-ssc/read16/4': '718a9e94',
    'sgio-ssc/write10/0': 'e26dd3fa',
    'sgio-ssc/write10/1': 'e26dd3fa',
    'sgio-ssc/write10/2': 'e26dd3fa',
    'sgio-ssc/write10/3': 'e26dd3fa',
    'sgio-ssc/write10/4': 'e26dd3fa',
    'sgio-ssc/write10/5': 'e26dd3fa',
    'sgio-ssc/write10/6': 'e26dd3fa',
    'sgio-ssc/write12/0': 'e26dd3fa',
    'sgio-ssc/write12/1': 'e26dd3fa',
    'sgio-ssc/write12/2': 'e26dd3fa',
    'sgio-ssc/write12/3': 'e26dd3fa',
    'sgio-ssc/write16/0': '3400a0a5',
    'sgio-ssc/write16/1': '5aecaf43',
    'sgio-ssc/write16/2': '71faee53',
    'sgio-ssc/write16/3': '24f6d16b',
    'sgio-ssc/writesame10/0': 'e26dd3fa',
    'sgio-ssc/writesame10/1': 'e26dd3fa',
    'sgio-ssc/writesame10/2': 'e26dd3fa',
    'sgio-ssc/writesame10/3': 'e26dd3fa',
    'sgio-ssc/writesame16/0': 'e26dd3fa',
    'sgio-ssc/writesame16/1': 'e26dd3fa',
    'sgio-ssc/writesame16/2': 'e26dd3fa',
    'sgio-ssc/writesame16/3': 'e26dd3fa',
    'sgio-ssc/synchronizecache10/0': 'e26dd3fa',
    'sgio-ssc/synchronizecache10/1': 'e26dd3fa',
    'sgio-ssc/synchronizecache10/2': 'e26dd3fa',
    'sgio-ssc/synchronizecache10/3': 'e26dd3fa',
    'sgio-ssc/synchronizecache16/0': 'e26dd3fa',
    'sgio-ssc/synchronizecache16/1': 'e26dd3fa',
    'sgio-ssc/synchronizecache16/2': 'e26dd3fa',
    'sgio-ssc/synchronizecache16/3': 'e26dd3fa',
    'sgio-ssc/modesense6/0': '8241ec3e',
    'sgio-ssc/modesense6/1': '894f43d9',
    'sgio-ssc/modesense6/2': 'c3446d95',
    'sgio-ssc/modesense6/3': '1c3397b9',
    'sgio-ssc/modesense6/4': '0f8039b6',
    'sgio-ssc/modesense6/5': '1845ac5d',
    'sgio-ssc/modesense10/0': '867f0793',
    'sgio-ssc/modesense10/1': 'd1676586',
    'sgio-ssc/modesense10/2': '8667c984',
    'sgio-ssc/modesense10/3': '07256736',
    'sgio-ssc/modesense10/4': '0a2e2367',
    'sgio-ssc/modeselect6/0': 'a6195ff8',
    'sgio-ssc/modeselect6/1': '8eebdc9f',
    'sgio-ssc/modeselect6/2': 'f490857e',
    'sgio-ssc/modeselect10/0': '540e22c6',
    'sgio-ssc/modeselect10/1': 'd371af31',
    'sgio-ssc/reportluns/0': 'c695281a',
    'sgio-ssc/reportluns/1': '97e3171d',
    'sgio-ssc/reportluns/2': 'c695281a',
    'sgio-ssc/reportluns/3': 'd620a672',
    'sgio-ssc/reportpriority/0': '9bfd2979',
    'sgio-ssc/reportpriority/1': '9bfd2979',
    'sgio-ssc/reportpriority/2': '9bfd2979',
    'sgio-ssc/reporttargetportgroups/0': 'f0cd18f3',
    'sgio-ssc/reporttargetportgroups/1': '7824f983',
    'sgio-ssc/reporttargetportgroups/2': 'f0cd18f3',
    'sgio-ssc/persistentreservein/0': '124bda2f',
    'sgio-ssc/persistentreservein/1': 'c0fca600',
    'sgio-ssc/persistentreservein/2': '6c28052f',
    'sgio-ssc/persistentreservein/3': '5df3e497',
    'sgio-ssc/persistentreservein/4': '9055c541',
    'sgio-ssc/persistentreservein/5': 'c0fca600',
    'sgio-ssc/persistentreservein/6': '5ca0bd0c',
    'sgio-ssc/persistentreservein/7': 'e954a17c',
    'sgio-ssc/persistentreservein/8': '04f2314f',
    'sgio-ssc/persistentreservein/9': '04f2314f',
    'sgio-ssc/persistentreservein/10': '04f2314f',
    'sgio-ssc/persistentreservein/11': '124bda2f',
    'sgio-ssc/persistentreservein/12': '6c28052f',
    'sgio-ssc/persistentreserveout/0': 'cac43c69',
    'sgio-ssc/persistentreserveout/1': 'fb6d1139',
    'sgio-ssc/persistentreserveout/2': '5616e6d9',
    'sgio-ssc/persistentreserveout/3': '6f4d8aed',
    'sgio-ssc/persistentreserveout/4': '3601ff40',
    'sgio-ssc/persistentreserveout/5': '499e57b2',
    'sgio-ssc/persistentreserveout/6': 'a39e2f57',
    'sgio-ssc/persistentreserveout/7': 'fed95c4f',
    'sgio-ssc/preventallowmediumremoval/0': '01d4e1ce',
    'sgio-ssc/preventallowmediumremoval/1': 'dfce32a0',
    'sgio-ssc/preventallowmediumremoval/2': '208cf5c2',
    'sgio-ssc/preventallowmediumremoval/3': '01d4e1ce',
    'sgio-ssc/exchangemedium/0': 'e26dd3fa',
    'sgio-ssc/exchangemedium/1': 'e26dd3fa',
    'sgio-ssc/exchangemedium/2': 'e26dd3fa',
    'sgio-ssc/exchangemedium/3': 'e26dd3fa',
    'sgio-ssc/movemedium/0': 'e26dd3fa',
    'sgio-ssc/movemedium/1': 'e26dd3fa',
    'sgio-ssc/movemedium/2': 'e26dd3fa',
    'sgio-ssc/positiontoelement/0': 'e26dd3fa',
    'sgio-ssc/positiontoelement/1': 'e26dd3fa',
    'sgio-ssc/positiontoelement/2': 'e26dd3fa',
    'sgio-ssc/initializeelementstatus/0': 'e26dd3fa',
    'sgio-ssc/initializeelementstatuswithrange/0': 'e26dd3fa',
    'sgio-ssc/initializeelementstatuswithrange/1': 'e26dd3fa',
    'sgio-ssc/initializeelementstatuswithrange/2': 'e26dd3fa',
    'sgio-ssc/initializeelementstatuswithrange/3': 'e26dd3fa',
    'sgio-ssc/opencloseimportexportelement/0': 'e26dd3fa',
    'sgio-ssc/opencloseimportexportelement/1': 'e26dd3fa',
    'sgio-ssc/opencloseimportexportelement/2': 'e26dd3fa',
    'sgio-ssc/readelementstatus/0': 'e26dd3fa',
    'sgio-ssc/readelementstatus/1': 'e26dd3fa',
    'sgio-ssc/readelementstatus/2': 'e26dd3fa',
    'sgio-ssc/readelementstatus/3': 'e26dd3fa',
    'sgio-ssc/readcd/0': 'e26dd3fa',
    'sgio-ssc/readcd/1': 'e26dd3fa',
    'sgio-ssc/readcd/2': 'e26dd3fa',
    'sgio-ssc/readcd/3': 'e26dd3fa',
    'sgio-ssc/readdiscinformation/0': 'e26dd3fa',
    'sgio-ssc/readdiscinformation/1': 'e26dd3fa',
    'sgio-ssc/readdiscinformation/2': 'e26dd3fa',
    'sgio-ssc/readdiscinformation/3': 'e26dd3fa',
    'sgio-ssc/readdiscinformation/4': 'e26dd3fa',
    'sgio-ssc/atapassthrough12/0': 'e26dd3fa',
    'sgio-ssc/atapassthrough12/1': 'e26dd3fa',
    'sgio-ssc/atapassthrough12/2': 'e26dd3fa',
    'sgio-ssc/atapassthrough12/3': 'e26dd3fa',
    'sgio-ssc/atapassthrough12/4': 'e26dd3fa',
    'sgio-ssc/atapassthrough16/0': 'e26dd3fa',
    'sgio-ssc/atapassthrough16/1': 'e26dd3fa',
    'sgio-ssc/atapassthrough16/2': 'e26dd3fa',
    'sgio-ssc/atapassthrough16/3': 'e26dd3fa',
    'sgio-ssc/atapassthrough16/4': 'e26dd3fa',
    'sgio-ssc/extendedcopy4/0': '549f2e9f',
    'sgio-ssc/extendedcopy4/1': '5cdd9157',
    'sgio-ssc/extendedcopy4/2': '3ca20e5b',
    'sgio-ssc/extendedcopy5/0': 'aa37e185',
    'sgio-ssc/extendedcopy5/1': 'd02d79f6',
    'sgio-ssc/extendedcopy5/2': 'ba0b0614',
    'sgio-spc/inquiry/0': 'f3fb48bd',
    'sgio-spc/inquiry/1': 'f3fb48bd',
    'sgio-spc/inquiry/2': 'f3fb48bd',
    'sgio-spc/inquiry/3': '5e28cbf1',
    'sgio-spc/inquiry/4': '479f04a9',
    'sgio-spc/inquiry/5': 'a524e18d',
    'sgio-spc/inquiry/6': '1020b3bd',
    'sgio-spc/inquiry/7': 'b246e72f',
    'sgio-spc/inquiry/8': '7867c3a9',
    'sgio-spc/inquiry/9': 'bea05498',
    'sgio-spc/inquiry/10': '09a81bae',
    'sgio-spc/inquiry/11': '69971808',
    'sgio-spc/inquiry/12': 'a8f32c32',
    'sgio-spc/inquiry/13': 'dfc78c76',
    'sgio-spc/inquiry/14': '1c9ef0a8',
    'sgio-spc/testunitready/0': 'e8677930',
    'sgio-spc/readcapacity10/0': 'e26dd3fa',
    'sgio-spc/readcapacity10/1': 'e26dd3fa',
    'sgio-spc/readcapacity10/2': 'e26dd3fa',
    'sgio-spc/readcapacity10/3': 'e26dd3fa',
    'sgio-spc/readcapacity16/0': '5d0a80c7',
    'sgio-spc/readcapacity16/1': '5d0a80c7',
    'sgio-spc/readcapacity16/2': '5d0a80c7',
    'sgio-spc/readcapacity16/3': '5d0a80c7',
    'sgio-spc/getlbastatus/0': '5d0a80c7',
    'sgio-spc/getlbastatus/1': '5d0a80c7',
    'sgio-spc/getlbastatus/2': '5d0a80c7',
    'sgio-spc/getlbastatus/3': '5d0a80c7',
    'sgio-spc/read10/0': 'e26dd3fa',
    'sgio-spc/read10/1': 'e26dd3fa',
    'sgio-spc/read10/2': 'e26dd3fa',
    'sgio-spc/read10/3': 'e26dd3fa',
    'sgio-spc/read10/4': 'e26dd3fa',
    'sgio-spc/read10/5': 'e26dd3fa',
    'sgio-spc/read10/6': 'e26dd3fa',
    'sgio-spc/read10/7': 'e26dd3fa',
    'sgio-spc/read10/8': 'e26dd3fa',
    'sgio-spc/read10/9': 'e26dd3fa',
    'sgio-spc/read10/10': 'e26dd3fa',
    'sgio-spc/read10/11': 'e26dd3fa',
    'sgio-spc/read12/0': 'e26dd3fa',
    'sgio-spc/read12/1': 'e26dd3fa',
    'sgio-spc/read12/2': 'e26dd3fa',
    'sgio-spc/read12/3': 'e26dd3fa',
    'sgio-spc/read12/4': 'e26dd3fa',
    'sgio-spc/read12/5': 'e26dd3fa',
    'sgio-spc/read16/0': 'e26dd3fa',
    'sgio-spc/read16/1': 'e26dd3fa',
    'sgio-spc/read16/2': 'e26dd3fa',
    'sgio-spc/read16/3': 'e26dd3fa',
    'sgio-spc/read16/4': 'e26dd3fa',
    'sgio-spc/write10/0': 'e26dd3fa',
    'sgio-spc/write10/1': 'e26dd3fa',
    'sgio-spc/write10/2': 'e26dd3fa',
    'sgio-spc/write10/3': 'e26dd3fa',
    'sgio-spc/write10/4': 'e26dd3fa',
    'sgio-spc/write10/5': 'e26dd3fa',
    'sgio-spc/write10/6': 'e26dd3fa',
    'sgio-spc/write12/0': 'e26dd3fa',
    'sgio-spc/write12/1': 'e26dd3fa',
    'sgio-spc/write12/2': 'e26dd3fa',
    'sgio-spc/write12/3': 'e26dd3fa',
    'sgio-spc/write16/0': 'e26dd3fa',
    'sgio-spc/write16/1': 'e26dd3fa',
    'sgio-spc/write16/2': 'e26dd3fa',
    'sgio-spc/write16/3': 'e26dd3fa',
    'sgio-spc/writesame10/0': 'e26dd3fa',
    'sgio-spc/writesame10/1': 'e26dd3fa',
    'sgio-spc/writesame10/2': 'e26dd3fa',
    'sgio-spc/writesame10/3': 'e26dd3fa',
    'sgio-spc/writesame16/0': 'e26dd3fa',
    'sgio-spc/writesame16/1': 'e26dd3fa',
    'sgio-spc/writesame16/2': 'e26dd3fa',
    'sgio-spc/writesame16/3': 'e26dd3fa',
    'sgio-spc/synchronizecache10/0': 'e26dd3fa',
    'sgio-spc/synchronizecache10/1': 'e26dd3fa',
    'sgio-spc/synchronizecache10/2': 'e26dd3fa',
    'sgio-spc/synchronizecache10/3': 'e26dd3fa',
    'sgio-spc/synchronizecache16/0': 'e26dd3fa',
    'sgio-spc/synchronizecache16/1': 'e26dd3fa',
    'sgio-spc/synchronizecache16/2': 'e26dd3fa',
    'sgio-spc/synchronizecache16/3': 'e26dd3fa',
    'sgio-spc/modesense6/0': '8241ec3e',
    'sgio-spc/modesense6/1': '894f43d9',
    'sgio-spc/modesense6/2': 'c3446d95',
    'sgio-spc/modesense6/3': '1c3397b9',
    'sgio-spc/modesense6/4': '0f8039b6',
    'sgio-spc/modesense6/5': '1845ac5d',
    'sgio-spc/modesense10/0': '867f0793',
    'sgio-spc/modesense10/1': 'd1676586',
    'sgio-spc/modesense10/2': '8667c984',
    'sgio-spc/modesense10/3': '07256736',
    'sgio-spc/modesense10/4': '0a2e2367',
    'sgio-spc/modeselect6/0': 'a6195ff8',
    'sgio-spc/modeselect6/1': '8eebdc9f',
    'sgio-spc/modeselect6/2': 'f490857e',
    'sgio-spc/modeselect10/0': '540e22c6',
    'sgio-spc/modeselect10/1': 'd371af31',
    'sgio-spc/reportluns/0': 'c695281a',
    'sgio-spc/reportluns/1': '97e3171d',
    'sgio-spc/reportluns/2': 'c695281a',
    'sgio-spc/reportluns/3': 'd620a672',
    'sgio-spc/reportpriority/0': '9bfd2979',
    'sgio-spc/reportpriority/1': '9bfd2979',
    'sgio-spc/reportpriority/2': '9bfd2979',
    'sgio-spc/reporttargetportgroups/0': 'f0cd18f3',
    'sgio-spc/reporttargetportgroups/1': '7824f983',
    'sgio-spc/reporttargetportgroups/2': 'f0cd18f3',
    'sgio-spc/persistentreservein/0': '124bda2f',
    'sgio-spc/persistentreservein/1': 'c0fca600',
    'sgio-spc/persistentreservein/2': '6c28052f',
    'sgio-spc/persistentreservein/3': '5df3e497',
    'sgio-spc/persistentreservein/4': '9055c541',
    'sgio-spc/persistentreservein/5': 'c0fca600',
    'sgio-spc/persistentreservein/6': '5ca0bd0c',
    'sgio-spc/persistentreservein/7': 'e954a17c',
    'sgio-spc/persistentreservein/8': '04f2314f',
    'sgio-spc/persistentreservein/9': '04f2314f',
    'sgio-spc/persistentreservein/10': '04f2314f',
    'sgio-spc/persistentreservein/11': '124bda2f',
    'sgio-spc/persistentreservein/12': '6c28052f',
    'sgio-spc/persistentreserveout/0': 'cac43c69',
    'sgio-spc/persistentreserveout/1': 'fb6d1139',
    'sgio-spc/persistentreserveout/2': '5616e6d9',
    'sgio-spc/persistentreserveout/3': '6f4d8aed',
    'sgio-spc/persistentreserveout/4': '3601ff40',
    'sgio-spc/persistentreserveout/5': '499e57b2',
    'sgio-spc/persistentreserveout/6': 'a39e2f57',
    'sgio-spc/persistentreserveout/7': 'fed95c4f',
    'sgio-spc/preventallowmediumremoval/0': '01d4e1ce',
    'sgio-spc/preventallowmediumremoval/1': 'dfce32a0',
    'sgio-spc/preventallowmediumremoval/2': '208cf5c2',
    'sgio-spc/preventallowmediumremoval/3': '01d4e1ce',
    'sgio-spc/exchangemedium/0': 'e26dd3fa',
    'sgio-spc/exchangemedium/1': 'e26dd3fa',
    'sgio-spc/exchangemedium/2': 'e26dd3fa',
    'sgio-spc/exchangemedium/3': 'e26dd3fa',
    'sgio-spc/movemedium/0': 'e26dd3fa',
    'sgio-spc/movemedium/1': 'e26dd3fa',
    'sgio-spc/movemedium/2': 'e26dd3fa',
    'sgio-spc/positiontoelement/0': 'e26dd3fa',
    'sgio-spc/positiontoelement/1': 'e26dd3fa',
    'sgio-spc/positiontoelement/2': 'e26dd3fa',
    'sgio-spc/initializeelementstatus/0': 'e26dd3fa',
    'sgio-spc/initializeelementstatuswithrange/0': 'e26dd3fa',
    'sgio-spc/initializeelementstatuswithrange/1': 'e26dd3fa',
    'sgio-spc/initializeelementstatuswithrange/2': 'e26dd3fa',
    'sgio-spc/initializeelementstatuswithrange/3': 'e26dd3fa',
    'sgio-spc/opencloseimportexportelement/0': 'e26dd3fa',
    'sgio-spc/opencloseimportexportelement/1': 'e26dd3fa',
    'sgio-spc/opencloseimportexportelement/2': 'e26dd3fa',
    'sgio-spc/readelementstatus/0': 'e26dd3fa',
    'sgio-spc/readelementstatus/1': 'e26dd3fa',
    'sgio-spc/readelementstatus/2': 'e26dd3fa',
    'sgio-spc/readelementstatus/3': 'e26dd3fa',
    'sgio-spc/readcd/0': 'e26dd3fa',
    'sgio-spc/readcd/1': 'e26dd3fa',
    'sgio-spc/readcd/2': 'e26dd3fa',
    'sgio-spc/readcd/3': 'e26dd3fa',
    'sgio-spc/readdiscinformation/0': 'e26dd3fa',
    'sgio-spc/readdiscinformation/1': 'e26dd3fa',
    'sgio-spc/readdiscinformation/2': 'e26dd3fa',
    'sgio-spc/readdiscinformation/3': 'e26dd3fa',
    'sgio-spc/readdiscinformation/4': 'e26dd3fa',
    'sgio-spc/atapassthrough12/0': 'e26dd3fa',
    'sgio-spc/atapassthrough12/1': 'e26dd3fa',
    'sgio-spc/atapassthrough12/2': 'e26dd3fa',
    'sgio-spc/atapassthrough12/3': 'e26dd3fa',
    'sgio-spc/atapassthrough12/4': 'e26dd3fa',
    'sgio-spc/atapassthrough16/0': 'e26dd3fa',
    'sgio-spc/atapassthrough16/1': 'e26dd3fa',
    'sgio-spc/atapassthrough16/2': 'e26dd3fa',
    'sgio-spc/atapassthrough16/3': 'e26dd3fa',
    'sgio-spc/atapassthrough16/4': 'e26dd3fa',
    'sgio-spc/extendedcopy4/0': '549f2e9f',
    'sgio-spc/extendedcopy4/1': '5cdd9157',
    'sgio-spc/extendedcopy4/2': '3ca20e5b',
    'sgio-spc/extendedcopy5/0': 'aa37e185',
    'sgio-spc/extendedcopy5/1': 'd02d79f6',
    'sgio-spc/extendedcopy5/2': 'ba0b0614',
    'sgio-smc/inquiry/0': '65c7f018',
    'sgio-smc/inquiry/1': '65c7f018',
    'sgio-smc/inquiry/2': '65c7f018',
    'sgio-smc/inquiry/3': '14dd7760',
    'sgio-smc/inquiry/4': '3f9a7455',
    'sgio-smc/inquiry/5': '168e2fb5',
    'sgio-smc/inquiry/6': 'eec75c2b',
    'sgio-smc/inquiry/7': '08805afa',
    'sgio-smc/inquiry/8': 'adff468f',
    'sgio-smc/inquiry/9': '288e9979',
    'sgio-smc/inquiry/10': 'e8358be0',
    'sgio-smc/inquiry/11': '5c055a6e',
    'sgio-smc/inquiry/12': '314d3496',
    'sgio-smc/inquiry/13': '7605e05e',
    'sgio-smc/inquiry/14': '924b0602',
    'sgio-smc/testunitready/0': 'e8677930',
    'sgio-smc/readcapacity10/0': 'e26dd3fa',
    'sgio-smc/readcapacity10/1': 'e26dd3fa',
    'sgio-smc/readcapacity10/2': 'e26dd3fa',
    'sgio-smc/readcapacity10/3': 'e26dd3fa',
    'sgio-smc/readcapacity16/0': '5d0a80c7',
    'sgio-smc/readcapacity16/1': '5d0a80c7',
    'sgio-smc/readcapacity16/2': '5d0a80c7',
    'sgio-smc/readcapacity16/3': '5d0a80c7',
    'sgio-smc/getlbastatus/0': '5d0a80c7',
    'sgio-smc/getlbastatus/1': '5d0a80c7',
    'sgio-smc/getlbastatus/2': '5d0a80c7',
    'sgio-smc/getlbastatus/3': '5d0a80c7',
    'sgio-smc/read10/0': 'e26dd3fa',
    'sgio-smc/read10/1': 'e26dd3fa',
    'sgio-smc/read10/2': 'e26dd3fa',
    'sgio-smc/read10/3': 'e26dd3fa',
    'sgio-smc/read10/4': 'e26dd3fa',
    'sgio-smc/read10/5': 'e26dd3fa',
    'sgio-smc/read10/6': 'e26dd3fa',
    'sgio-smc/read10/7': 'e26dd3fa',
    'sgio-smc/read10/8': 'e26dd3fa',
    'sgio-smc/read10/9': 'e26dd3fa',
    'sgio-smc/read10/10': 'e26dd3fa',
    'sgio-smc/read10/11': 'e26dd3fa',
    'sgio-smc/read12/0': 'e26dd3fa',
    'sgio-smc/read12/1': 'e26dd3fa',
    'sgio-smc/read12/2': 'e26dd3fa',
    'sgio-smc/read12/3': 'e26dd3fa',
    'sgio-smc/read12/4': 'e26dd3fa',
    'sgio-smc/read12/5': 'e26dd3fa',
    'sgio-smc/read16/0': 'e26dd3fa',
    'sgio-smc/read16/1': 'e26dd3fa',
    'sgio-smc/read16/2': 'e26dd3fa',
    'sgio-smc/read16/3': 'e26dd3fa',
    'sgio-smc/read16/4': 'e26dd3fa',
    'sgio-smc/write10/0': 'e26dd3fa',
    'sgio-smc/write10/1': 'e26dd3fa',
    'sgio-smc/write10/2': 'e26dd3fa',
    'sgio-smc/write10/3': 'e26dd3fa',
    'sgio-smc/write10/4': 'e26dd3fa',
    'sgio-smc/write10/5': 'e26dd3fa',
    'sgio-smc/write10/6': 'e26dd3fa',
    'sgio-smc/write12/0': 'e26dd3fa',
    'sgio-smc/write12/1': 'e26dd3fa',
    'sgio-smc/write12/2': 'e26dd3fa',
    'sgio-smc/write12/3': 'e26dd3fa',
    'sgio-smc/write16/0': 'e26dd3fa',
    'sgio-smc/write16/1': 'e26dd3fa',
    'sgio-smc/write16/2': 'e26dd3fa',
    'sgio-smc/write16/3': 'e26dd3fa',
    'sgio-smc/writesame10/0': 'e26dd3fa',
    'sgio-smc/writesame10/1': 'e26dd3fa',
    'sgio-smc/writesame10/2': 'e26dd3fa',
    'sgio-smc/writesame10/3': 'e26dd3fa',
    'sgio-smc/writesame16/0': 'e26dd3fa',
    'sgio-smc/writesame16/1': 'e26dd3fa',
    'sgio-smc/writesame16/2': 'e26dd3fa',
    'sgio-smc/writesame16/3': 'e26dd3fa',
    'sgio-smc/synchronizecache10/0': 'e26dd3fa',
    'sgio-smc/synchronizecache10/1': 'e26dd3fa',
    'sgio-smc/synchronizecache10/2': 'e26dd3fa',
    'sgio-smc/synchronizecache10/3': 'e26dd3fa',
    'sgio-smc/synchronizecache16/0': 'e26dd3fa',
    'sgio-smc/synchronizecache16/1': 'e26dd3fa',
    'sgio-smc/synchronizecache16/2': 'e26dd3fa',
    'sgio-smc/synchronizecache16/3': 'e26dd3fa',
    'sgio-smc/modesense6/0': '8241ec3e',
    'sgio-smc/modesense6/1': '894f43d9',
    'sgio-smc/modesense6/2': 'c3446d95',
    'sgio-smc/modesense6/3': '1c3397b9',
    'sgio-smc/modesense6/4': '0f8039b6',
    'sgio-smc/modesense6/5': '1845ac5d',
    'sgio-smc/modesense10/0': '867f0793',
    'sgio-smc/modesense10/1': 'd1676586',
    'sgio-smc/modesense10/2': '8667c984',
    'sgio-smc/modesense10/3': '07256736',
    'sgio-smc/modesense10/4': '0a2e2367',
    'sgio-smc/modeselect6/0': 'a6195ff8',
    'sgio-smc/modeselect6/1': '8eebdc9f',
    'sgio-smc/modeselect6/2': 'f490857e',
    'sgio-smc/modeselect10/0': '540e22c6',
    'sgio-smc/modeselect10/1': 'd371af31',
    'sgio-smc/reportluns/0': 'c695281a',
    'sgio-smc/reportluns/1': '97e3171d',
    'sgio-smc/reportluns/2': 'c695281a',
    'sgio-smc/reportluns/3': 'd620a672',
    'sgio-smc/reportpriority/0': '9bfd2979',
    'sgio-smc/reportpriority/1': '9bfd2979',
    'sgio-smc/reportpriority/2': '9bfd2979',
    'sgio-smc/reporttargetportgroups/0': 'f0cd18f3',
    'sgio-smc/reporttargetportgroups/1': '7824f983',
    'sgio-smc/reporttargetportgroups/2': 'f0cd18f3',
    'sgio-smc/persistentreservein/0': '124bda2f',
    'sgio-smc/persistentreservein/1': 'c0fca600',
    'sgio-smc/persistentreservein/2': '6c28052f',
    'sgio-smc/persistentreservein/3': '5df3e497',
    'sgio-smc/persistentreservein/4': '9055c541',
    'sgio-smc/persistentreservein/5': 'c0fca600',
    'sgio-smc/persistentreservein/6': '5ca0bd0c',
    'sgio-smc/persistentreservein/7': 'e954a17c',
    'sgio-smc/persistentreservein/8': '04f2314f',
    'sgio-smc/persistentreservein/9': '04f2314f',
    'sgio-smc/persistentreservein/10': '04f2314f',
    'sgio-smc/persistentreservein/11': '124bda2f',
    'sgio-smc/persistentreservein/12': '6c28052f',
    'sgio-smc/persistentreserveout/0': 'cac43c69',
    'sgio-smc/persistentreserveout/1': 'fb6d1139',
    'sgio-smc/persistentreserveout/2': '5616e6d9',
    'sgio-smc/persistentreserveout/3': '6f4d8aed',
    'sgio-smc/persistentreserveout/4': '3601ff40',
    'sgio-smc/persistentreserveout/5': '499e57b2',
    'sgio-smc/persistentreserveout/6': 'a39e2f57',
    'sgio-smc/persistentreserveout/7': 'fed95c4f',
    'sgio-smc/preventallowmediumremoval/0': '01d4e1ce',
    'sgio-smc/preventallowmediumremoval/1': 'dfce32a0',
    'sgio-smc/preventallowmediumremoval/2': '208cf5c2',
    'sgio-smc/preventallowmediumremoval/3': '01d4e1ce',
    'sgio-smc/exchangemedium/0': '6e083f2b',
    'sgio-smc/exchangemedium/1': 'faf304e7',
    'sgio-smc/exchangemedium/2': '6e083f2b',
    'sgio-smc/exchangemedium/3': '8dde618a',
    'sgio-smc/movemedium/0': 'ebb3aa6d',
    'sgio-smc/movemedium/1': '135a9921',
    'sgio-smc/movemedium/2': 'ebb3aa6d',
    'sgio-smc/positiontoelement/0': '0ab5289a',
    'sgio-smc/positiontoelement/1': 'de759971',
    'sgio-smc/positiontoelement/2': '0ab5289a',
    'sgio-smc/initializeelementstatus/0': '7c112a7f',
    'sgio-smc/initializeelementstatuswithrange/0': '0bb0cd33',
    'sgio-smc/initializeelementstatuswithrange/1': '9e226dd2',
    'sgio-smc/initializeelementstatuswithrange/2': '0bb0cd33',
    'sgio-smc/initializeelementstatuswithrange/3': 'e1ba7e25',
    'sgio-smc/opencloseimportexportelement/0': '6bba1f78',
    'sgio-smc/opencloseimportexportelement/1': '640be00e',
    'sgio-smc/opencloseimportexportelement/2': '54546f3c',
    'sgio-smc/readelementstatus/0': '2bd99ffe',
    'sgio-smc/readelementstatus/1': '4c678566',
    'sgio-smc/readelementstatus/2': '2bd99ffe',
    'sgio-smc/readelementstatus/3': '84cceff1',
    'sgio-smc/readcd/0': 'e26dd3fa',
    'sgio-smc/readcd/1': 'e26dd3fa',
    'sgio-smc/readcd/2': 'e26dd3fa',
    'sgio-smc/readcd/3': 'e26dd3fa',
    'sgio-smc/readdiscinformation/0': 'e26dd3fa',
    'sgio-smc/readdiscinformation/1': 'e26dd3fa',
    'sgio-smc/readdiscinformation/2': 'e26dd3fa',
    'sgio-smc/readdiscinformation/3': 'e26dd3fa',
    'sgio-smc/readdiscinformation/4': 'e26dd3fa',
    'sgio-smc/atapassthrough12/0': 'e26dd3fa',
    'sgio-smc/atapassthrough12/1': 'e26dd3fa',
    'sgio-smc/atapassthrough12/2': 'e26dd3fa',
    'sgio-smc/atapassthrough12/3': 'e26dd3fa',
    'sgio-smc/atapassthrough12/4': 'e26dd3fa',
    'sgio-smc/atapassthrough16/0': 'e26dd3fa',
    'sgio-smc/atapassthrough16/1': 'e26dd3fa',
    'sgio-smc/atapassthrough16/2': 'e26dd3fa',
    'sgio-smc/atapassthrough16/3': 'e26dd3fa',
    'sgio-smc/atapassthrough16/4': 'e26dd3fa',
    'sgio-smc/extendedcopy4/0': 'e26dd3fa',
    'sgio-smc/extendedcopy4/1': 'e26dd3fa',
    'sgio-smc/extendedcopy4/2': 'e26dd3fa',
    'sgio-smc/extendedcopy5/0': 'e26dd3fa',
    'sgio-smc/extendedcopy5/1': 'e26dd3fa',
    'sgio-smc/extendedcopy5/2': 'e26dd3fa',
    'sgio-mmc/inquiry/0': '553035c6',
    'sgio-mmc/inquiry/1': '553035c6',
    'sgio-mmc/inquiry/2': '553035c6',
    'sgio-mmc/inquiry/3': '1ecdb054',
    'sgio-mmc/inquiry/4': 'a3d18ee2',
    'sgio-mmc/inquiry/5': '60577351',
    'sgio-mmc/inquiry/6': 'dabdccfc',
    'sgio-mmc/inquiry/7': 'ee29c602',
    'sgio-mmc/inquiry/8': '6e458a60',
    'sgio-mmc/inquiry/9': '082edbff',
    'sgio-mmc/inquiry/10': 'd0390b34',
    'sgio-mmc/inquiry/11': '647908d4',
    'sgio-mmc/inquiry/12': 'a23faf40',
    'sgio-mmc/inquiry/13': 'abe72a3b',
    'sgio-mmc/inquiry/14': '2235a0a6',
    'sgio-mmc/testunitready/0': 'e8677930',
    'sgio-mmc/readcapacity10/0': 'e26dd3fa',
    'sgio-mmc/readcapacity10/1': 'e26dd3fa',
    'sgio-mmc/readcapacity10/2': 'e26dd3fa',
    'sgio-mmc/readcapacity10/3': 'e26dd3fa',
    'sgio-mmc/readcapacity16/0': '5d0a80c7',
    'sgio-mmc/readcapacity16/1': '5d0a80c7',
    'sgio-mmc/readcapacity16/2': '5d0a80c7',
    'sgio-mmc/readcapacity16/3': '5d0a80c7',
    'sgio-mmc/getlbastatus/0': '5d0a80c7',
    'sgio-mmc/getlbastatus/1': '5d0a80c7',
    'sgio-mmc/getlbastatus/2': '5d0a80c7',
    'sgio-mmc/getlbastatus/3': '5d0a80c7',
    'sgio-mmc/read10/0': '94ba89c8',
    'sgio-mmc/read10/1': '659fbf76',
    'sgio-mmc/read10/2': '276286ef',
    'sgio-mmc/read10/3': 'c7fa5344',
    'sgio-mmc/read10/4': 'af73f864',
    'sgio-mmc/read10/5': '4326f9cf',
    'sgio-mmc/read10/6': '2f4f91fc',
    'sgio-mmc/read10/7': '5a9163ac',
    'sgio-mmc/read10/8': '6cd41cd6',
    'sgio-mmc/read10/9': 'ce0ec6b4',
    'sgio-mmc/read10/10': '1e7b3777',
    'sgio-mmc/read10/11': '1c8e7f20',
    'sgio-mmc/read12/0': 'c6779dd4',
    'sgio-mmc/read12/1': 'e5b132ee',
    'sgio-mmc/read12/2': 'cae5a064',
    'sgio-mmc/read12/3': '180db864',
    'sgio-mmc/read12/4': '2f43e5a8',
    'sgio-mmc/read12/5': '90e4561f',
    'sgio-mmc/read16/0': 'e26dd3fa',
    'sgio-mmc/read16/1': 'e26dd3fa',
    'sgio-mmc/read16/2': 'e26dd3fa',
    'sgio-mmc/read16/3': 'e26dd3fa',
    'sgio-mmc/read16/4': 'e26dd3fa',
    'sgio-mmc/write10/0': 'aff05bc1',
    'sgio-mmc/write10/1': 'fd2e9a69',
    'sgio-mmc/write10/2': '074f9a73',
    'sgio-mmc/write10/3': 'fb139679',
    'sgio-mmc/write10/4': '98b73e6f',
    'sgio-mmc/write10/5': '72b14f2e',
    'sgio-mmc/write10/6': '64b484d0',
    'sgio-mmc/write12/0': '11ea97fc',
    'sgio-mmc/write12/1': 'c71ba1f3',
    'sgio-mmc/write12/2': 'a978449f',
    'sgio-mmc/write12/3': '54082b92',
    'sgio-mmc/write16/0': 'e26dd3fa',
    'sgio-mmc/write16/1': 'e26dd3fa',
    'sgio-mmc/write16/2': 'e26dd3fa',
    'sgio-mmc/write16/3': 'e26dd3fa',
    'sgio-mmc/writesame10/0': 'e26dd3fa',
    'sgio-mmc/writesame10/1': 'e26dd3fa',
    'sgio-mmc/writesame10/2': 'e26dd3fa',
    'sgio-mmc/writesame10/3': 'e26dd3fa',
    'sgio-mmc/writesame16/0': 'e26dd3fa',
    'sgio-mmc/writesame16/1': 'e26dd3fa',
    'sgio-mmc/writesame16/2': 'e26dd3fa',
    'sgio-mmc/writesame16/3': 'e26dd3fa',
    'sgio-mmc/synchronizecache10/0': 'e26dd3fa',
    'sgio-mmc/synchronizecache10/1': 'e26dd3fa',
    'sgio-mmc/synchronizecache10/2': 'e26dd3fa',
    'sgio-mmc/synchronizecache10/3': 'e26dd3fa',
    'sgio-mmc/synchronizecache16/0': 'e26dd3fa',
    'sgio-mmc/synchronizecache16/1': 'e26dd3fa',
    'sgio-mmc/synchronizecache16/2': 'e26dd3fa',
    'sgio-mmc/synchronizecache16/3': 'e26dd3fa',
    'sgio-mmc/modesense6/0': 'e26dd3fa',
    'sgio-mmc/modesense6/1': 'e26dd3fa',
    'sgio-mmc/modesense6/2': 'e26dd3fa',
    'sgio-mmc/modesense6/3': 'e26dd3fa',
    'sgio-mmc/modesense6/4': 'e26dd3fa',
    'sgio-mmc/modesense6/5': 'e26dd3fa',
    'sgio-mmc/modesense10/0': '867f0793',
    'sgio-mmc/modesense10/1': 'd1676586',
    'sgio-mmc/modesense10/2': '8667c984',
    'sgio-mmc/modesense10/3': '07256736',
    'sgio-mmc/modesense10/4': '0a2e2367',
    'sgio-mmc/modeselect6/0': 'e26dd3fa',
    'sgio-mmc/modeselect6/1': 'e26dd3fa',
    'sgio-mmc/modeselect6/2': 'e26dd3fa',
    'sgio-mmc/modeselect10/0': '540e22c6',
    'sgio-mmc/modeselect10/1': 'd371af31',
    'sgio-mmc/reportluns/0': 'c695281a',
    'sgio-mmc/reportluns/1': '97e3171d',
    'sgio-mmc/reportluns/2': 'c695281a',
    'sgio-mmc/reportluns/3': 'd620a672',
    'sgio-mmc/reportpriority/0': '5d0a80c7',
    'sgio-mmc/reportpriority/1': '5d0a80c7',
    'sgio-mmc/reportpriority/2': '5d0a80c7',
    'sgio-mmc/reporttargetportgroups/0': '5d0a80c7',
    'sgio-mmc/reporttargetportgroups/1': '5d0a80c7',
    'sgio-mmc/reporttargetportgroups/2': '5d0a80c7',
    'sgio-mmc/persistentreservein/0': 'e26dd3fa',
    'sgio-mmc/persistentreservein/1': 'e26dd3fa',
    'sgio-mmc/persistentreservein/2': 'e26dd3fa',
    'sgio-mmc/persistentreservein/3': 'e26dd3fa',
    'sgio-mmc/persistentreservein/4': 'e26dd3fa',
    'sgio-mmc/persistentreservein/5': 'e26dd3fa',
    'sgio-mmc/persistentreservein/6': 'e26dd3fa',
    'sgio-mmc/persistentreservein/7': 'e26dd3fa',
    'sgio-mmc/persistentreservein/8': 'e26dd3fa',
    'sgio-mmc/persistentreservein/9': 'e26dd3fa',
    'sgio-mmc/persistentreservein/10': 'e26dd3fa',
    'sgio-mmc/persistentreservein/11': 'e26dd3fa',
    'sgio-mmc/persistentreservein/12': 'e26dd3fa',
    'sgio-mmc/persistentreserveout/0': 'e26dd3fa',
    'sgio-mmc/persistentreserveout/1': 'e26dd3fa',
    'sgio-mmc/persistentreserveout/2': 'e26dd3fa',
    'sgio-mmc/persistentreserveout/3': 'e26dd3fa',
    'sgio-mmc/persistentreserveout/4': 'e26dd3fa',
    'sgio-mmc/persistentreserveout/5': 'e26dd3fa',
    'sgio-mmc/persistentreserveout/6': 'e26dd3fa',
    'sgio-mmc/persistentreserveout/7': 'e26dd3fa',
    'sgio-mmc/preventallowmediumremoval/0': '01d4e1ce',
    'sgio-mmc/preventallowmediumremoval/1': 'dfce32a0',
    'sgio-mmc/preventallowmediumremoval/2': '208cf5c2',
    'sgio-mmc/preventallowmediumremoval/3': '01d4e1ce',
    'sgio-mmc/exchangemedium/0': 'e26dd3fa',
    'sgio-mmc/exchangemedium/1': 'e26dd3fa',
    'sgio-mmc/exchangemedium/2': 'e26dd3fa',
    'sgio-mmc/exchangemedium/3': 'e26dd3fa',
    'sgio-mmc/movemedium/0': 'e26dd3fa',
    'sgio-mmc/movemedium/1': 'e26dd3fa',
    'sgio-mmc/movemedium/2': 'e26dd3fa',
    'sgio-mmc/positiontoelement/0': 'e26dd3fa',
    'sgio-mmc/positiontoelement/1': 'e26dd3fa',
    'sgio-mmc/positiontoelement/2': 'e26dd3fa',
    'sgio-mmc/initializeelementstatus/0': 'e26dd3fa',
    'sgio-mmc/initializeelementstatuswithrange/0': 'e26dd3fa',
    'sgio-mmc/initializeelementstatuswithrange/1': 'e26dd3fa',
    'sgio-mmc/initializeelementstatuswithrange/2': 'e26dd3fa',
    'sgio-mmc/initializeelementstatuswithrange/3': 'e26dd3fa',
    'sgio-mmc/opencloseimportexportelement/0': 'e26dd3fa',
    'sgio-mmc/opencloseimportexportelement/1': 'e26dd3fa',
    'sgio-mmc/opencloseimportexportelement/2': 'e26dd3fa',
    'sgio-mmc/readelementstatus/0': 'e26dd3fa',
    'sgio-mmc/readelementstatus/1': 'e26dd3fa',
    'sgio-mmc/readelementstatus/2': 'e26dd3fa',
    'sgio-mmc/readelementstatus/3': 'e26dd3fa',
    'sgio-mmc/readcd/0': '2d8623ba',
    'sgio-mmc/readcd/1': '5782e01d',
    'sgio-mmc/readcd/2': 'dfaf4564',
    'sgio-mmc/readcd/3': '6a3b8823',
    'sgio-mmc/readdiscinformation/0': '213a25ca',
    'sgio-mmc/readdiscinformation/1': 'a878942b',
    'sgio-mmc/readdiscinformation/2': '745a7359',
    'sgio-mmc/readdiscinformation/3': 'adbe29f7',
    'sgio-mmc/readdiscinformation/4': 'fdd62e93',
    'sgio-mmc/atapassthrough12/0': 'e26dd3fa',
    'sgio-mmc/atapassthrough12/1': 'e26dd3fa',
    'sgio-mmc/atapassthrough12/2': 'e26dd3fa',
    'sgio-mmc/atapassthrough12/3': 'e26dd3fa',
    'sgio-mmc/atapassthrough12/4': 'e26dd3fa',
    'sgio-mmc/atapassthrough16/0': 'e26dd3fa',
    'sgio-mmc/atapassthrough16/1': 'e26dd3fa',
    'sgio-mmc/atapassthrough16/2': 'e26dd3fa',
    'sgio-mmc/atapassthrough16/3': 'e26dd3fa',
    'sgio-mmc/atapassthrough16/4': 'e26dd3fa',
    'sgio-mmc/extendedcopy4/0': 'e26dd3fa',
    'sgio-mmc/extendedcopy4/1': 'e26dd3fa',
    'sgio-mmc/extendedcopy4/2': 'e26dd3fa',
    'sgio-mmc/extendedcopy5/0': 'e26dd3fa',
    'sgio-mmc/extendedcopy5/1': 'e26dd3fa',
    'sgio-mmc/extendedcopy5/2': 'e26dd3fa',
    'iscsi-sbc/inquiry/0': '24cc3100',
    'iscsi-sbc/inquiry/1': '24cc3100',
    'iscsi-sbc/inquiry/2': '24cc3100',
    'iscsi-sbc/inquiry/3': '4918ca9b',
    'iscsi-sbc/inquiry/4': '9b2fe72e',
    'iscsi-sbc/inquiry/5': '8ae8f060',
    'iscsi-sbc/inquiry/6': 'f6fa47a8',
    'iscsi-sbc/inquiry/7': '6dcf5e08',
    'iscsi-sbc/inquiry/8': 'a7916082',
    'iscsi-sbc/inquiry/9': '1885fb25',
    'iscsi-sbc/inquiry/10': '6dc02f8b',
    'iscsi-sbc/inquiry/11': '0b8f6ac2',
    'iscsi-sbc/inquiry/12': '558e677d',
    'iscsi-sbc/inquiry/13': '710a7e46',
    'iscsi-sbc/inquiry/14': 'd9ff1c84',
    'iscsi-sbc/testunitready/0': '8d82f1c1',
    'iscsi-sbc/readcapacity10/0': '1bbedd56',
    'iscsi-sbc/readcapacity10/1': '1bbedd56',
    'iscsi-sbc/readcapacity10/2': '3abc766e',
    'iscsi-sbc/readcapacity10/3': '17af73df',
    'iscsi-sbc/readcapacity16/0': '5e963a23',
    'iscsi-sbc/readcapacity16/1': '5e963a23',
    'iscsi-sbc/readcapacity16/2': '99729903',
    'iscsi-sbc/readcapacity16/3': '13b13507',
    'iscsi-sbc/getlbastatus/0': '0a4c444c',
    'iscsi-sbc/getlbastatus/1': '5490cd6a',
    'iscsi-sbc/getlbastatus/2': '1d62ee38',
    'iscsi-sbc/getlbastatus/3': '4daf7b29',
    'iscsi-sbc/read10/0': 'd756a53f',
    'iscsi-sbc/read10/1': '501b70ce',
    'iscsi-sbc/read10/2': '1588345a',
    'iscsi-sbc/read10/3': '8e035487',
    'iscsi-sbc/read10/4': 'fa4d8b5d',
    'iscsi-sbc/read10/5': '61b3a08c',
    'iscsi-sbc/read10/6': 'd376aab1',
    'iscsi-sbc/read10/7': 'b2540254',
    'iscsi-sbc/read10/8': 'b6905de9',
    'iscsi-sbc/read10/9': '72f004cf',
    'iscsi-sbc/read10/10': '763f2224',
    'iscsi-sbc/read10/11': '9cb077c7',
    'iscsi-sbc/read12/0': 'e50491c2',
    'iscsi-sbc/read12/1': '75c75b44',
    'iscsi-sbc/read12/2': 'eb04f741',
    'iscsi-sbc/read12/3': '962aae83',
    'iscsi-sbc/read12/4': '5736cdba',
    'iscsi-sbc/read12/5': '47537b5e',
    'iscsi-sbc/read16/0': 'b9dde663',
    'iscsi-sbc/read16/1': '91c3fa7b',
    'iscsi-sbc/read16/2': '1c706fe7',
    'iscsi-sbc/read16/3': 'f8f5ad2d',
    'iscsi-sbc/read16/4': '20b92ba4',
    'iscsi-sbc/write10/0': 'fd7420f5',
    'iscsi-sbc/write10/1': 'dacac30b',
    'iscsi-sbc/write10/2': '6c26f6ff',
    'iscsi-sbc/write10/3': '95c57408',
    'iscsi-sbc/write10/4': '0b98eb19',
    'iscsi-sbc/write10/5': 'ee9d99a4',
    'iscsi-sbc/write10/6': 'dcad7f97',
    'iscsi-sbc/write12/0': '5532d5c3',
    'iscsi-sbc/write12/1': '3eb1ad34',
    'iscsi-sbc/write12/2': '462efc9e',
    'iscsi-sbc/write12/3': '42243baa',
    'iscsi-sbc/write16/0': 'e76125fc',
    'iscsi-sbc/write16/1': 'd675029c',
    'iscsi-sbc/write16/2': 'ee01ce5f',
    'iscsi-sbc/write16/3': '0ac98b2c',
    'iscsi-sbc/writesame10/0': '220677df',
    'iscsi-sbc/writesame10/1': '19be6073',
    'iscsi-sbc/writesame10/2': '6163ebb7',
    'iscsi-sbc/writesame10/3': 'af6ddc49',
    'iscsi-sbc/writesame16/0': '6d70ab35',
    'iscsi-sbc/writesame16/1': '8e4f01e9',
    'iscsi-sbc/writesame16/2': '062d7008',
    'iscsi-sbc/writesame16/3': '80901384',
    'iscsi-sbc/synchronizecache10/0': '83743a29',
    'iscsi-sbc/synchronizecache10/1': '9aa5af86',
    'iscsi-sbc/synchronizecache10/2': '8320ea66',
    'iscsi-sbc/synchronizecache10/3': '391df38b',
    'iscsi-sbc/synchronizecache16/0': '589fe74d',
    'iscsi-sbc/synchronizecache16/1': '293e1c4d',
    'iscsi-sbc/synchronizecache16/2': '72a74462',
    'iscsi-sbc/synchronizecache16/3': 'f59386b3',
    'iscsi-sbc/modesense6/0': '2007579a',
    'iscsi-sbc/modesense6/1': 'deeeda5e',
    'iscsi-sbc/modesense6/2': 'cee25b7a',
    'iscsi-sbc/modesense6/3': '6cf7ea4a',
    'iscsi-sbc/modesense6/4': 'e3474502',
    'iscsi-sbc/modesense6/5': 'ba0aee7c',
    'iscsi-sbc/modesense10/0': '90e12d8c',
    'iscsi-sbc/modesense10/1': 'e3714172',
    'iscsi-sbc/modesense10/2': 'a00ec283',
    'iscsi-sbc/modesense10/3': 'c5c68df9',
    'iscsi-sbc/modesense10/4': '187353f9',
    'iscsi-sbc/modeselect6/0': '7d7461be',
    'iscsi-sbc/modeselect6/1': '34f94899',
    'iscsi-sbc/modeselect6/2': 'bb824093',
    'iscsi-sbc/modeselect10/0': '4bae1346',
    'iscsi-sbc/modeselect10/1': 'd953a4eb',
    'iscsi-sbc/reportluns/0': '74d8ebb1',
    'iscsi-sbc/reportluns/1': '8a6f7bb6',
    'iscsi-sbc/reportluns/2': '74d8ebb1',
    'iscsi-sbc/reportluns/3': '659813e0',
    'iscsi-sbc/reportpriority/0': '9bfd2979',
    'iscsi-sbc/reportpriority/1': '9bfd2979',
    'iscsi-sbc/reportpriority/2': '9bfd2979',
    'iscsi-sbc/reporttargetportgroups/0': '1b53a741',
    'iscsi-sbc/reporttargetportgroups/1': 'b778937f',
    'iscsi-sbc/reporttargetportgroups/2': '1b53a741',
    'iscsi-sbc/persistentreservein/0': '24732334',
    'iscsi-sbc/persistentreservein/1': '6b412f91',
    'iscsi-sbc/persistentreservein/2': 'af22f038',
    'iscsi-sbc/persistentreservein/3': '3dfe9df8',
    'iscsi-sbc/persistentreservein/4': 'a8f694a2',
    'iscsi-sbc/persistentreservein/5': '6b412f91',
    'iscsi-sbc/persistentreservein/6': 'cf516038',
    'iscsi-sbc/persistentreservein/7': 'c1a01206',
    'iscsi-sbc/persistentreservein/8': '04f2314f',
    'iscsi-sbc/persistentreservein/9': '04f2314f',
    'iscsi-sbc/persistentreservein/10': '04f2314f',
    'iscsi-sbc/persistentreservein/11': '24732334',
    'iscsi-sbc/persistentreservein/12': 'af22f038',
    'iscsi-sbc/persistentreserveout/0': 'c2de066c',
    'iscsi-sbc/persistentreserveout/1': '5fbcff5f',
    'iscsi-sbc/persistentreserveout/2': '764b86dc',
    'iscsi-sbc/persistentreserveout/3': 'a2d7cb4e',
    'iscsi-sbc/persistentreserveout/4': 'd0d8af89',
    'iscsi-sbc/persistentreserveout/5': 'bb552fae',
    'iscsi-sbc/persistentreserveout/6': '35e684e5',
    'iscsi-sbc/persistentreserveout/7': '2c91e522',
    'iscsi-sbc/preventallowmediumremoval/0': '3c4a6b55',
    'iscsi-sbc/preventallowmediumremoval/1': 'eb82fd00',
    'iscsi-sbc/preventallowmediumremoval/2': '4957650e',
    'iscsi-sbc/preventallowmediumremoval/3': '3c4a6b55',
    'iscsi-sbc/exchangemedium/0': 'e26dd3fa',
    'iscsi-sbc/exchangemedium/1': 'e26dd3fa',
    'iscsi-sbc/exchangemedium/2': 'e26dd3fa',
    'iscsi-sbc/exchangemedium/3': 'e26dd3fa',
    'iscsi-sbc/movemedium/0': 'e26dd3fa',
    'iscsi-sbc/movemedium/1': 'e26dd3fa',
    'iscsi-sbc/movemedium/2': 'e26dd3fa',
    'iscsi-sbc/positiontoelement/0': 'e26dd3fa',
    'iscsi-sbc/positiontoelement/1': 'e26dd3fa',
    'iscsi-sbc/positiontoelement/2': 'e26dd3fa',
    'iscsi-sbc/initializeelementstatus/0': 'e26dd3fa',
    'iscsi-sbc/initializeelementstatuswithrange/0': 'e26dd3fa',
    'iscsi-sbc/initializeelementstatuswithrange/1': 'e26dd3fa',
    'iscsi-sbc/initializeelementstatuswithrange/2': 'e26dd3fa',
    'iscsi-sbc/initializeelementstatuswithrange/3': 'e26dd3fa',
    'iscsi-sbc/opencloseimportexportelement/0': 'e26dd3fa',
    'iscsi-sbc/opencloseimportexportelement/1': 'e26dd3fa',
    'iscsi-sbc/opencloseimportexportelement/2': 'e26dd3fa',
    'iscsi-sbc/readelementstatus/0': 'e26dd3fa',
    'iscsi-sbc/readelementstatus/1': 'e26dd3fa',
    'iscsi-sbc/readelementstatus/2': 'e26dd3fa',
    'iscsi-sbc/readelementstatus/3': 'e26dd3fa',
    'iscsi-sbc/readcd/0': 'e26dd3fa',
    'iscsi-sbc/readcd/1': 'e26dd3fa',
    'iscsi-sbc/readcd/2': 'e26dd3fa',
    'iscsi-sbc/readcd/3': 'e26dd3fa',
    'iscsi-sbc/readdiscinformation/0': 'e26dd3fa',
    'iscsi-sbc/readdiscinformation/1': 'e26dd3fa',
    'iscsi-sbc/readdiscinformation/2': 'e26dd3fa',
    'iscsi-sbc/readdiscinformation/3': 'e26dd3fa',
    'iscsi-sbc/readdiscinformation/4': 'e26dd3fa',
    'iscsi-sbc/atapassthrough12/0': '59d6df06',
    'iscsi-sbc/atapassthrough12/1': 'bf2ef81f',
    'iscsi-sbc/atapassthrough12/2': '57a1db83',
    'iscsi-sbc/atapassthrough12/3': '49c0cc53',
    'iscsi-sbc/atapassthrough12/4': 'a77d505f',
    'iscsi-sbc/atapassthrough16/0': '6da07857',
    'iscsi-sbc/atapassthrough16/1': 'bb3b063d',
    'iscsi-sbc/atapassthrough16/2': 'de265c97',
    'iscsi-sbc/atapassthrough16/3': 'b16748a0',
    'iscsi-sbc/atapassthrough16/4': '73256b73',
    'iscsi-sbc/extendedcopy4/0': '8f9934a4',
    'iscsi-sbc/extendedcopy4/1': '716bde23',
    'iscsi-sbc/extendedcopy4/2': '9840541c',
    'iscsi-sbc/extendedcopy5/0': '10892d65',
    'iscsi-sbc/extendedcopy5/1': 'c230f207',
    'iscsi-sbc/extendedcopy5/2': '0647551b',
    'iscsi-ssc/inquiry/0': '8c9f291a',
    'iscsi-ssc/inquiry/1': '8c9f291a',
    'iscsi-ssc/inquiry/2': '8c9f291a',
    'iscsi-ssc/inquiry/3': '087f5e0c',
    'iscsi-ssc/inquiry/4': '71bffa5c',
    'iscsi-ssc/inquiry/5': '49a62bc9',
    'iscsi-ssc/inquiry/6': '752f315e',
    'iscsi-ssc/inquiry/7': '5461c91a',
    'iscsi-ssc/inquiry/8': '6adcc438',
    'iscsi-ssc/inquiry/9': '03653f49',
    'iscsi-ssc/inquiry/10': '08c50239',
    'iscsi-ssc/inquiry/11': '2fca154b',
    'iscsi-ssc/inquiry/12': '7d6ab5e0',
    'iscsi-ssc/inquiry/13': '3fb09fbb',
    'iscsi-ssc/inquiry/14': '8d5e7e10',
    'iscsi-ssc/testunitready/0': '8d82f1c1',
    'iscsi-ssc/readcapacity10/0': 'e26dd3fa',
    'iscsi-ssc/readcapacity10/1': 'e26dd3fa',
    'iscsi-ssc/readcapacity10/2': 'e26dd3fa',
    'iscsi-ssc/readcapacity10/3': 'e26dd3fa',
    'iscsi-ssc/readcapacity16/0': '5d0a80c7',
    'iscsi-ssc/readcapacity16/1': '5d0a80c7',
    'iscsi-ssc/readcapacity16/2': '5d0a80c7',
    'iscsi-ssc/readcapacity16/3': '5d0a80c7',
    'iscsi-ssc/getlbastatus/0': '5d0a80c7',
    'iscsi-ssc/getlbastatus/1': '5d0a80c7',
    'iscsi-ssc/getlbastatus/2': '5d0a80c7',
    'iscsi-ssc/getlbastatus/3': '5d0a80c7',
    'iscsi-ssc/read10/0': 'e26dd3fa',
    'iscsi-ssc/read10/1': 'e26dd3fa',
    'iscsi-ssc/read10/2': 'e26dd3fa',
    'iscsi-ssc/read10/3': 'e26dd3fa',
    'iscsi-ssc/read10/4': 'e26dd3fa',
    'iscsi-ssc/read10/5': 'e26dd3fa',
    'iscsi-ssc/read10/6': 'e26dd3fa',
    'iscsi-ssc/read10/7': 'e26dd3fa',
    'iscsi-ssc/read10/8': 'e26dd3fa',
    'iscsi-ssc/read10/9': 'e26dd3fa',
    'iscsi-ssc/read10/10': 'e26dd3fa',
    'iscsi-ssc/read10/11': 'e26dd3fa',
    'iscsi-ssc/read12/0': 'e26dd3fa',
    'iscsi-ssc/read12/1': 'e26dd3fa',
    'iscsi-ssc/read12/2': 'e26dd3fa',
    'iscsi-ssc/read12/3': 'e26dd3fa',
    'iscsi-ssc/read12/4': 'e26dd3fa',
    'iscsi-ssc/read12/5': 'e26dd3fa',
    'iscsi-ssc/read16/0': 'b9dde663',
    'iscsi-ssc/read16/1': '91c3fa7b',
    'iscsi-ssc/read16/2': '1c706fe7',
    'iscsi-ssc/read16/3': 'f8f5ad2d',
    'iscsi-ssc/read16/4': '20b92ba4',
    'iscsi-ssc/write10/0': 'e26dd3fa',
    'iscsi-ssc/write10/1': 'e26dd3fa',
    'iscsi-ssc/write10/2': 'e26dd3fa',
    'iscsi-ssc/write10/3': 'e26dd3fa',
    'iscsi-ssc/write10/4': 'e26dd3fa',
    'iscsi-ssc/write10/5': 'e26dd3fa',
    'iscsi-ssc/write10/6': 'e26dd3fa',
    'iscsi-ssc/write12/0': 'e26dd3fa',
    'iscsi-ssc/write12/1': 'e26dd3fa',
    'iscsi-ssc/write12/2': 'e26dd3fa',
    'iscsi-ssc/write12/3': 'e26dd3fa',
    'iscsi-ssc/write16/0': 'e76125fc',
    'iscsi-ssc/write16/1': 'd675029c',
    'iscsi-ssc/write16/2': 'ee01ce5f',
    'iscsi-ssc/write16/3': '0ac98b2c',
    'iscsi-ssc/writesame10/0': 'e26dd3fa',
    'iscsi-ssc/writesame10/1': 'e26dd3fa',
    'iscsi-ssc/writesame10/2': 'e26dd3fa',
    'iscsi-ssc/writesame10/3': 'e26dd3fa',
    'iscsi-ssc/writesame16/0': 'e26dd3fa',
    'iscsi-ssc/writesame16/1': 'e26dd3fa',
    'iscsi-ssc/writesame16/2': 'e26dd3fa',
    'iscsi-ssc/writesame16/3': 'e26dd3fa',
    'iscsi-ssc/synchronizecache10/0': 'e26dd3fa',
    'iscsi-ssc/synchronizecache10/1': 'e26dd3fa',
    'iscsi-ssc/synchronizecache10/2': 'e26dd3fa',
    'iscsi-ssc/synchronizecache10/3': 'e26dd3fa',
    'iscsi-ssc/synchronizecache16/0': 'e26dd3fa',
    'iscsi-ssc/synchronizecache16/1': 'e26dd3fa',
    'iscsi-ssc/synchronizecache16/2': 'e26dd3fa',
    'iscsi-ssc/synchronizecache16/3': 'e26dd3fa',
    'iscsi-ssc/modesense6/0': '2007579a',
    'iscsi-ssc/modesense6/1': 'deeeda5e',
    'iscsi-ssc/modesense6/2': 'cee25b7a',
    'iscsi-ssc/modesense6/3': '6cf7ea4a',
    'iscsi-ssc/modesense6/4': 'e3474502',
    'iscsi-ssc/modesense6/5': 'ba0aee7c',
    'iscsi-ssc/modesense10/0': '90e12d8c',
    'iscsi-ssc/modesense10/1': 'e3714172',
    'iscsi-ssc/modesense10/2': 'a00ec283',
    'iscsi-ssc/modesense10/3': 'c5c68df9',
    'iscsi-ssc/modesense10/4': '187353f9',
    'iscsi-ssc/modeselect6/0': '7d7461be',
    'iscsi-ssc/modeselect6/1': '34f94899',
    'iscsi-ssc/modeselect6/2': 'bb824093',
    'iscsi-ssc/modeselect10/0': '4bae1346',
    'iscsi-ssc/modeselect10/1': 'd953a4eb',
    'iscsi-ssc/reportluns/0': '74d8ebb1',
    'iscsi-ssc/reportluns/1': '8a6f7bb6',
    'iscsi-ssc/reportluns/2': '74d8ebb1',
    'iscsi-ssc/reportluns/3': '659813e0',
    'iscsi-ssc/reportpriority/0': '9bfd2979',
    'iscsi-ssc/reportpriority/1': '9bfd2979',
    'iscsi-ssc/reportpriority/2': '9bfd2979',
    'iscsi-ssc/reporttargetportgroups/0': '1b53a741',
    'iscsi-ssc/reporttargetportgroups/1': 'b778937f',
    'iscsi-ssc/reporttargetportgroups/2': '1b53a741',
    'iscsi-ssc/persistentreservein/0': '24732334',
    'iscsi-ssc/persistentreservein/1': '6b412f91',
    'iscsi-ssc/persistentreservein/2': 'af22f038',
    'iscsi-ssc/persistentreservein/3': '3dfe9df8',
    'iscsi-ssc/persistentreservein/4': 'a8f694a2',
    'iscsi-ssc/persistentreservein/5': '6b412f91',
    'iscsi-ssc/persistentreservein/6': 'cf516038',
    'iscsi-ssc/persistentreservein/7': 'c1a01206',
    'iscsi-ssc/persistentreservein/8': '04f2314f',
    'iscsi-ssc/persistentreservein/9': '04f2314f',
    'iscsi-ssc/persistentreservein/10': '04f2314f',
    'iscsi-ssc/persistentreservein/11': '24732334',
    'iscsi-ssc/persistentreservein/12': 'af22f038',
    'iscsi-ssc/persistentreserveout/0': 'c2de066c',
    'iscsi-ssc/persistentreserveout/1': '5fbcff5f',
    'iscsi-ssc/persistentreserveout/2': '764b86dc',
    'iscsi-ssc/persistentreserveout/3': 'a2d7cb4e',
    'iscsi-ssc/persistentreserveout/4': 'd0d8af89',
    'iscsi-ssc/persistentreserveout/5': 'bb552fae',
    'iscsi-ssc/persistentreserveout/6': '35e684e5',
    'iscsi-ssc/persistentreserveout/7': '2c91e522',
    'iscsi-ssc/preventallowmediumremoval/0': '3c4a6b55',
    'iscsi-ssc/preventallowmediumremoval/1': 'eb82fd00',
    'iscsi-ssc/preventallowmediumremoval/2': '4957650e',
    'iscsi-ssc/preventallowmediumremoval/3': '3c4a6b55',
    'iscsi-ssc/exchangemedium/0': 'e26dd3fa',
    'iscsi-ssc/exchangemedium/1': 'e26dd3fa',
    'iscsi-ssc/exchangemedium/2': 'e26dd3fa',
    'iscsi-ssc/exchangemedium/3': 'e26dd3fa',
    'iscsi-ssc/movemedium/0': 'e26dd3fa',
    'iscsi-ssc/movemedium/1': 'e26dd3fa',
    'iscsi-ssc/movemedium/2': 'e26dd3fa',
    'iscsi-ssc/positiontoelement/0': 'e26dd3fa',
    'iscsi-ssc/positiontoelement/1': 'e26dd3fa',
    'iscsi-ssc/positiontoelement/2': 'e26dd3fa',
    'iscsi-ssc/initializeelementstatus/0': 'e26dd3fa',
    'iscsi-ssc/initializeelementstatuswithrange/0': 'e26dd3fa',
    'iscsi-ssc/initializeelementstatuswithrange/1': 'e26dd3fa',
    'iscsi-ssc/initializeelementstatuswithrange/2': 'e26dd3fa',
    'iscsi-ssc/initializeelementstatuswithrange/3': 'e26dd3fa',
    'iscsi-ssc/opencloseimportexportelement/0': 'e26dd3fa',
    'iscsi-ssc/opencloseimportexportelement/1': 'e26dd3fa',
    'iscsi-ssc/opencloseimportexportelement/2': 'e26dd3fa',
    'iscsi-ssc/readelementstatus/0': 'e26dd3fa',
    'iscsi-ssc/readelementstatus/1': 'e26dd3fa',
    'iscsi-ssc/readelementstatus/2': 'e26dd3fa',
    'iscsi-ssc/readelementstatus/3': 'e26dd3fa',
    'iscsi-ssc/readcd/0': 'e26dd3fa',
    'iscsi-ssc/readcd/1': 'e26dd3fa',
    'iscsi-ssc/readcd/2': 'e26dd3fa',
    'iscsi-ssc/readcd/3': 'e26dd3fa',
    'iscsi-ssc/readdiscinformation/0': 'e26dd3fa',
    'iscsi-ssc/readdiscinformation/1': 'e26dd3fa',
    'iscsi-ssc/readdiscinformation/2': 'e26dd3fa',
    'iscsi-ssc/readdiscinformation/3': 'e26dd3fa',
    'iscsi-ssc/readdiscinformation/4': 'e26dd3fa',
    'iscsi-ssc/atapassthrough12/0': 'e26dd3fa',
    'iscsi-ssc/atapassthrough12/1': 'e26dd3fa',
    'iscsi-ssc/atapassthrough12/2': 'e26dd3fa',
    'iscsi-ssc/atapassthrough12/3': 'e26dd3fa',
    'iscsi-ssc/atapassthrough12/4': 'e26dd3fa',
    'iscsi-ssc/atapassthrough16/0': 'e26dd3fa',
    'iscsi-ssc/atapassthrough16/1': 'e26dd3fa',
    'iscsi-ssc/atapassthrough16/2': 'e26dd3fa',
    'iscsi-ssc/atapassthrough16/3': 'e26dd3fa',
    'iscsi-ssc/atapassthrough16/4': 'e26dd3fa',
    'iscsi-ssc/extendedcopy4/0': '8f9934a4',
    'iscsi-ssc/extendedcopy4/1': '716bde23',
    'iscsi-ssc/extendedcopy4/2': '9840541c',
    'iscsi-ssc/extendedcopy5/0': '10892d65',
    'iscsi-ssc/extendedcopy5/1': 'c230f207',
    'iscsi-ssc/extendedcopy5/2': '0647551b',
    'iscsi-spc/inquiry/0': 'e12938a1',
    'iscsi-spc/inquiry/1': 'e12938a1',
    'iscsi-spc/inquiry/2': 'e12938a1',
    'iscsi-spc/inquiry/3': 'e29ace1e',
    'iscsi-spc/inquiry/4': '818ec414',
    'iscsi-spc/inquiry/5': 'a1c03828',
    'iscsi-spc/inquiry/6': '984d88ac',
    'iscsi-spc/inquiry/7': 'c018d81b',
    'iscsi-spc/inquiry/8': 'f5689d71',
    'iscsi-spc/inquiry/9': '33d7fc79',
    'iscsi-spc/inquiry/10': '6c14887f',
    'iscsi-spc/inquiry/11': 'f5be6ec4',
    'iscsi-spc/inquiry/12': 'ccd07657',
    'iscsi-spc/inquiry/13': '4c7dfd7d',
    'iscsi-spc/inquiry/14': 'd94550d1',
    'iscsi-spc/testunitready/0': '8d82f1c1',
    'iscsi-spc/readcapacity10/0': 'e26dd3fa',
    'iscsi-spc/readcapacity10/1': 'e26dd3fa',
    'iscsi-spc/readcapacity10/2': 'e26dd3fa',
    'iscsi-spc/readcapacity10/3': 'e26dd3fa',
    'iscsi-spc/readcapacity16/0': '5d0a80c7',
    'iscsi-spc/readcapacity16/1': '5d0a80c7',
    'iscsi-spc/readcapacity16/2': '5d0a80c7',
    'iscsi-spc/readcapacity16/3': '5d0a80c7',
    'iscsi-spc/getlbastatus/0': '5d0a80c7',
    'iscsi-spc/getlbastatus/1': '5d0a80c7',
    'iscsi-spc/getlbastatus/2': '5d0a80c7',
    'iscsi-spc/getlbastatus/3': '5d0a80c7',
    'iscsi-spc/read10/0': 'e26dd3fa',
    'iscsi-spc/read10/1': 'e26dd3fa',
    'iscsi-spc/read10/2': 'e26dd3fa',
    'iscsi-spc/read10/3': 'e26dd3fa',
    'iscsi-spc/read10/4': 'e26dd3fa',
    'iscsi-spc/read10/5': 'e26dd3fa',
    'iscsi-spc/read10/6': 'e26dd3fa',
    'iscsi-spc/read10/7': 'e26dd3fa',
    'iscsi-spc/read10/8': 'e26dd3fa',
    'iscsi-spc/read10/9': 'e26dd3fa',
    'iscsi-spc/read10/10': 'e26dd3fa',
    'iscsi-spc/read10/11': 'e26dd3fa',
    'iscsi-spc/read12/0': 'e26dd3fa',
    'iscsi-spc/read12/1': 'e26dd3fa',
    'iscsi-spc/read12/2': 'e26dd3fa',
    'iscsi-spc/read12/3': 'e26dd3fa',
    'iscsi-spc/read12/4': 'e26dd3fa',
    'iscsi-spc/read12/5': 'e26dd3fa',
    'iscsi-spc/read16/0': 'e26dd3fa',
    'iscsi-spc/read16/1': 'e26dd3fa',
    'iscsi-spc/read16/2': 'e26dd3fa',
    'iscsi-spc/read16/3': 'e26dd3fa',
    'iscsi-spc/read16/4': 'e26dd3fa',
    'iscsi-spc/write10/0': 'e26dd3fa',
    'iscsi-spc/write10/1': 'e26dd3fa',
    'iscsi-spc/write10/2': 'e26dd3fa',
    'iscsi-spc/write10/3': 'e26dd3fa',
    'iscsi-spc/write10/4': 'e26dd3fa',
    'iscsi-spc/write10/5': 'e26dd3fa',
    'iscsi-spc/write10/6': 'e26dd3fa',
    'iscsi-spc/write12/0': 'e26dd3fa',
    'iscsi-spc/write12/1': 'e26dd3fa',
    'iscsi-spc/write12/2': 'e26dd3fa',
    'iscsi-spc/write12/3': 'e26dd3fa',
    'iscsi-spc/write16/0': 'e26dd3fa',
    'iscsi-spc/write16/1': 'e26dd3fa',
    'iscsi-spc/write16/2': 'e26dd3fa',
    'iscsi-spc/write16/3': 'e26dd3fa',
    'iscsi-spc/writesame10/0': 'e26dd3fa',
    'iscsi-spc/writesame10/1': 'e26dd3fa',
    'iscsi-spc/writesame10/2': 'e26dd3fa',
    'iscsi-spc/writesame10/3': 'e26dd3fa',
    'iscsi-spc/writesame16/0': 'e26dd3fa',
    'iscsi-spc/writesame16/1': 'e26dd3fa',
    'iscsi-spc/writesame16/2': 'e26dd3fa',
    'iscsi-spc/writesame16/3': 'e26dd3fa',
    'iscsi-spc/synchronizecache10/0': 'e26dd3fa',
    'iscsi-spc/synchronizecache10/1': 'e26dd3fa',
    'iscsi-spc/synchronizecache10/2': 'e26dd3fa',
    'iscsi-spc/synchronizecache10/3': 'e26dd3fa',
    'iscsi-spc/synchronizecache16/0': 'e26dd3fa',
    'iscsi-spc/synchronizecache16/1': 'e26dd3fa',
    'iscsi-spc/synchronizecache16/2': 'e26dd3fa',
    'iscsi-spc/synchronizecache16/3': 'e26dd3fa',
    'iscsi-spc/modesense6/0': '2007579a',
    'iscsi-spc/modesense6/1': 'deeeda5e',
    'iscsi-spc/modesense6/2': 'cee25b7a',
    'iscsi-spc/modesense6/3': '6cf7ea4a',
    'iscsi-spc/modesense6/4': 'e3474502',
    'iscsi-spc/modesense6/5': 'ba0aee7c',
    'iscsi-spc/modesense10/0': '90e12d8c',
    'iscsi-spc/modesense10/1': 'e3714172',
    'iscsi-spc/modesense10/2': 'a00ec283',
    'iscsi-spc/modesense10/3': 'c5c68df9',
    'iscsi-spc/modesense10/4': '187353f9',
    'iscsi-spc/modeselect6/0': '7d7461be',
    'iscsi-spc/modeselect6/1': '34f94899',
    'iscsi-spc/modeselect6/2': 'bb824093',
    'iscsi-spc/modeselect10/0': '4bae1346',
    'iscsi-spc/modeselect10/1': 'd953a4eb',
    'iscsi-spc/reportluns/0': '74d8ebb1',
    'iscsi-spc/reportluns/1': '8a6f7bb6',
    'iscsi-spc/reportluns/2': '74d8ebb1',
    'iscsi-spc/reportluns/3': '659813e0',
    'iscsi-spc/reportpriority/0': '9bfd2979',
    'iscsi-spc/reportpriority/1': '9bfd2979',
    'iscsi-spc/reportpriority/2': '9bfd2979',
    'iscsi-spc/reporttargetportgroups/0': '1b53a741',
    'iscsi-spc/reporttargetportgroups/1': 'b778937f',
    'iscsi-spc/reporttargetportgroups/2': '1b53a741',
    'iscsi-spc/persistentreservein/0': '24732334',
    'iscsi-spc/persistentreservein/1': '6b412f91',
    'iscsi-spc/persistentreservein/2': 'af22f038',
    'iscsi-spc/persistentreservein/3': '3dfe9df8',
    'iscsi-spc/persistentreservein/4': 'a8f694a2',
    'iscsi-spc/persistentreservein/5': '6b412f91',
    'iscsi-spc/persistentreservein/6': 'cf516038',
    'iscsi-spc/persistentreservein/7': 'c1a01206',
    'iscsi-spc/persistentreservein/8': '04f2314f',
    'iscsi-spc/persistentreservein/9': '04f2314f',
    'iscsi-spc/persistentreservein/10': '04f2314f',
    'iscsi-spc/persistentreservein/11': '24732334',
    'iscsi-spc/persistentreservein/12': 'af22f038',
    'iscsi-spc/persistentreserveout/0': 'c2de066c',
    'iscsi-spc/persistentreserveout/1': '5fbcff5f',
    'iscsi-spc/persistentreserveout/2': '764b86dc',
    'iscsi-spc/persistentreserveout/3': 'a2d7cb4e',
    'iscsi-spc/persistentreserveout/4': 'd0d8af89',
    'iscsi-spc/persistentreserveout/5': 'bb552fae',
    'iscsi-spc/persistentreserveout/6': '35e684e5',
    'iscsi-spc/persistentreserveout/7': '2c91e522',
    'iscsi-spc/preventallowmediumremoval/0': '3c4a6b55',
    'iscsi-spc/preventallowmediumremoval/1': 'eb82fd00',
    'iscsi-spc/preventallowmediumremoval/2': '4957650e',
    'iscsi-spc/preventallowmediumremoval/3': '3c4a6b55',
    'iscsi-spc/exchangemedium/0': 'e26dd3fa',
    'iscsi-spc/exchangemedium/1': 'e26dd3fa',
    'iscsi-spc/exchangemedium/2': 'e26dd3fa',
    'iscsi-spc/exchangemedium/3': 'e26dd3fa',
    'iscsi-spc/movemedium/0': 'e26dd3fa',
    'iscsi-spc/movemedium/1': 'e26dd3fa',
    'iscsi-spc/movemedium/2': 'e26dd3fa',
    'iscsi-spc/positiontoelement/0': 'e26dd3fa',
    'iscsi-spc/positiontoelement/1': 'e26dd3fa',
    'iscsi-spc/positiontoelement/2': 'e26dd3fa',
    'iscsi-spc/initializeelementstatus/0': 'e26dd3fa',
    'iscsi-spc/initializeelementstatuswithrange/0': 'e26dd3fa',
    'iscsi-spc/initializeelementstatuswithrange/1': 'e26dd3fa',
    'iscsi-spc/initializeelementstatuswithrange/2': 'e26dd3fa',
    'iscsi-spc/initializeelementstatuswithrange/3': 'e26dd3fa',
    'iscsi-spc/opencloseimportexportelement/0': 'e26dd3fa',
    'iscsi-spc/opencloseimportexportelement/1': 'e26dd3fa',
    'iscsi-spc/opencloseimportexportelement/2': 'e26dd3fa',
    'iscsi-spc/readelementstatus/0': 'e26dd3fa',
    'iscsi-spc/readelementstatus/1': 'e26dd3fa',
    'iscsi-spc/readelementstatus/2': 'e26dd3fa',
    'iscsi-spc/readelementstatus/3': 'e26dd3fa',
    'iscsi-spc/readcd/0': 'e26dd3fa',
    'iscsi-spc/readcd/1': 'e26dd3fa',
    'iscsi-spc/readcd/2': 'e26dd3fa',
    'iscsi-spc/readcd/3': 'e26dd3fa',
    'iscsi-spc/readdiscinformation/0': 'e26dd3fa',
    'iscsi-spc/readdiscinformation/1': 'e26dd3fa',
    'iscsi-spc/readdiscinformation/2': 'e26dd3fa',
    'iscsi-spc/readdiscinformation/3': 'e26dd3fa',
    'iscsi-spc/readdiscinformation/4': 'e26dd3fa',
    'iscsi-spc/atapassthrough12/0': 'e26dd3fa',
    'iscsi-spc/atapassthrough12/1': 'e26dd3fa',
    'iscsi-spc/atapassthrough12/2': 'e26dd3fa',
    'iscsi-spc/atapassthrough12/3': 'e26dd3fa',
    'iscsi-spc/atapassthrough12/4': 'e26dd3fa',
    'iscsi-spc/atapassthrough16/0': 'e26dd3fa',
    'iscsi-spc/atapassthrough16/1': 'e26dd3fa',
    'iscsi-spc/atapassthrough16/2': 'e26dd3fa',
    'iscsi-spc/atapassthrough16/3': 'e26dd3fa',
    'iscsi-spc/atapassthrough16/4': 'e26dd3fa',
    'iscsi-spc/extendedcopy4/0': '8f9934a4',
    'iscsi-spc/extendedcopy4/1': '716bde23',
    'iscsi-spc/extendedcopy4/2': '9840541c',
    'iscsi-spc/extendedcopy5/0': '10892d65',
    'iscsi-spc/extendedcopy5/1': 'c230f207',
    'iscsi-spc/extendedcopy5/2': '0647551b',
    'iscsi-smc/inquiry/0': 'c8e069c5',
    'iscsi-smc/inquiry/1': 'c8e069c5',
    'iscsi-smc/inquiry/2': 'c8e069c5',
    'iscsi-smc/inquiry/3': 'bae67a5e',
    'iscsi-smc/inquiry/4': 'c3a57389',
    'iscsi-smc/inquiry/5': '45cabdef',
    'iscsi-smc/inquiry/6': '1377dc4b',
    'iscsi-smc/inquiry/7': 'ffd3f98b',
    'iscsi-smc/inquiry/8': '753ea6a6',
    'iscsi-smc/inquiry/9': '227f51d8',
    'iscsi-smc/inquiry/10': 'a7e40712',
    'iscsi-smc/inquiry/11': 'ffb8a1fb',
    'iscsi-smc/inquiry/12': '32716e58',
    'iscsi-smc/inquiry/13': '1347bec3',
    'iscsi-smc/inquiry/14': 'ea66c7c7',
    'iscsi-smc/testunitready/0': '8d82f1c1',
    'iscsi-smc/readcapacity10/0': 'e26dd3fa',
    'iscsi-smc/readcapacity10/1': 'e26dd3fa',
    'iscsi-smc/readcapacity10/2': 'e26dd3fa',
    'iscsi-smc/readcapacity10/3': 'e26dd3fa',
    'iscsi-smc/readcapacity16/0': '5d0a80c7',
    'iscsi-smc/readcapacity16/1': '5d0a80c7',
    'iscsi-smc/readcapacity16/2': '5d0a80c7',
    'iscsi-smc/readcapacity16/3': '5d0a80c7',
    'iscsi-smc/getlbastatus/0': '5d0a80c7',
    'iscsi-smc/getlbastatus/1': '5d0a80c7',
    'iscsi-smc/getlbastatus/2': '5d0a80c7',
    'iscsi-smc/getlbastatus/3': '5d0a80c7',
    'iscsi-smc/read10/0': 'e26dd3fa',
    'iscsi-smc/read10/1': 'e26dd3fa',
    'iscsi-smc/read10/2': 'e26dd3fa',
    'iscsi-smc/read10/3': 'e26dd3fa',
    'iscsi-smc/read10/4': 'e26dd3fa',
    'iscsi-smc/read10/5': 'e26dd3fa',
    'iscsi-smc/read10/6': 'e26dd3fa',
    'iscsi-smc/read10/7': 'e26dd3fa',
    'iscsi-smc/read10/8': 'e26dd3fa',
    'iscsi-smc/read10/9': 'e26dd3fa',
    'iscsi-smc/read10/10': 'e26dd3fa',
    'iscsi-smc/read10/11': 'e26dd3fa',
    'iscsi-smc/read12/0': 'e26dd3fa',
    'iscsi-smc/read12/1': 'e26dd3fa',
    'iscsi-smc/read12/2': 'e26dd3fa',
    'iscsi-smc/read12/3': 'e26dd3fa',
    'iscsi-smc/read12/4': 'e26dd3fa',
    'iscsi-smc/read12/5': 'e26dd3fa',
    'iscsi-smc/read16/0': 'e26dd3fa',
    'iscsi-smc/read16/1': 'e26dd3fa',
    'iscsi-smc/read16/2': 'e26dd3fa',
    'iscsi-smc/read16/3': 'e26dd3fa',
    'iscsi-smc/read16/4': 'e26dd3fa',
    'iscsi-smc/write10/0': 'e26dd3fa',
    'iscsi-smc/write10/1': 'e26dd3fa',
    'iscsi-smc/write10/2': 'e26dd3fa',
    'iscsi-smc/write10/3': 'e26dd3fa',
    'iscsi-smc/write10/4': 'e26dd3fa',
    'iscsi-smc/write10/5': 'e26dd3fa',
    'iscsi-smc/write10/6': 'e26dd3fa',
    'iscsi-smc/write12/0': 'e26dd3fa',
    'iscsi-smc/write12/1': 'e26dd3fa',
    'iscsi-smc/write12/2': 'e26dd3fa',
    'iscsi-smc/write12/3': 'e26dd3fa',
    'iscsi-smc/write16/0': 'e26dd3fa',
    'iscsi-smc/write16/1': 'e26dd3fa',
    'iscsi-smc/write16/2': 'e26dd3fa',
    'iscsi-smc/write16/3': 'e26dd3fa',
    'iscsi-smc/writesame10/0': 'e26dd3fa',
    'iscsi-smc/writesame10/1': 'e26dd3fa',
    'iscsi-smc/writesame10/2': 'e26dd3fa',
    'iscsi-smc/writesame10/3': 'e26dd3fa',
    'iscsi-smc/writesame16/0': 'e26dd3fa',
    'iscsi-smc/writesame16/1': 'e26dd3fa',
    'iscsi-smc/writesame16/2': 'e26dd3fa',
    'iscsi-smc/writesame16/3': 'e26dd3fa',
    'iscsi-smc/synchronizecache10/0': 'e26dd3fa',
    'iscsi-smc/synchronizecache10/1': 'e26dd3fa',
    'iscsi-smc/synchronizecache10/2': 'e26dd3fa',
    'iscsi-smc/synchronizecache10/3': 'e26dd3fa',
    'iscsi-smc/synchronizecache16/0': 'e26dd3fa',
    'iscsi-smc/synchronizecache16/1': 'e26dd3fa',
    'iscsi-smc/synchronizecache16/2': 'e26dd3fa',
    'iscsi-smc/synchronizecache16/3': 'e26dd3fa',
    'iscsi-smc/modesense6/0': '2007579a',
    'iscsi-smc/modesense6/1': 'deeeda5e',
    'iscsi-smc/modesense6/2': 'cee25b7a',
    'iscsi-smc/modesense6/3': '6cf7ea4a',
    'iscsi-smc/modesense6/4': 'e3474502',
    'iscsi-smc/modesense6/5': 'ba0aee7c',
    'iscsi-smc/modesense10/0': '90e12d8c',
    'iscsi-smc/modesense10/1': 'e3714172',
    'iscsi-smc/modesense10/2': 'a00ec283',
    'iscsi-smc/modesense10/3': 'c5c68df9',
    'iscsi-smc/modesense10/4': '187353f9',
    'iscsi-smc/modeselect6/0': '7d7461be',
    'iscsi-smc/modeselect6/1': '34f94899',
    'iscsi-smc/modeselect6/2': 'bb824093',
    'iscsi-smc/modeselect10/0': '4bae1346',
    'iscsi-smc/modeselect10/1': 'd953a4eb',
    'iscsi-smc/reportluns/0': '74d8ebb1',
    'iscsi-smc/reportluns/1': '8a6f7bb6',
    'iscsi-smc/reportluns/2': '74d8ebb1',
    'iscsi-smc/reportluns/3': '659813e0',
    'iscsi-smc/reportpriority/0': '9bfd2979',
    'iscsi-smc/reportpriority/1': '9bfd2979',
    'iscsi-smc/reportpriority/2': '9bfd2979',
    'iscsi-smc/reporttargetportgroups/0': '1b53a741',
    'iscsi-smc/reporttargetportgroups/1': 'b778937f',
    'iscsi-smc/reporttargetportgroups/2': '1b53a741',
    'iscsi-smc/persistentreservein/0': '24732334',
    'iscsi-smc/persistentreservein/1': '6b412f91',
    'iscsi-smc/persistentreservein/2': 'af22f038',
    'iscsi-smc/persistentreservein/3': '3dfe9df8',
    'iscsi-smc/persistentreservein/4': 'a8f694a2',
    'iscsi-smc/persistentreservein/5': '6b412f91',
    'iscsi-smc/persistentreservein/6': 'cf516038',
    'iscsi-smc/persistentreservein/7': 'c1a01206',
    'iscsi-smc/persistentreservein/8': '04f2314f',
    'iscsi-smc/persistentreservein/9': '04f2314f',
    'iscsi-smc/persistentreservein/10': '04f2314f',
    'iscsi-smc/persistentreservein/11': '24732334',
    'iscsi-smc/persistentreservein/12': 'af22f038',
    'iscsi-smc/persistentreserveout/0': 'c2de066c',
    'iscsi-smc/persistentreserveout/1': '5fbcff5f',
    'iscsi-smc/persistentreserveout/2': '764b86dc',
    'iscsi-smc/persistentreserveout/3': 'a2d7cb4e',
    'iscsi-smc/persistentreserveout/4': 'd0d8af89',
    'iscsi-smc/persistentreserveout/5': 'bb552fae',
    'iscsi-smc/persistentreserveout/6': '35e684e5',
    'iscsi-smc/persistentreserveout/7': '2c91e522',
    'iscsi-smc/preventallowmediumremoval/0': '3c4a6b55',
    'iscsi-smc/preventallowmediumremoval/1': 'eb82fd00',
    'iscsi-smc/preventallowmediumremoval/2': '4957650e',
    'iscsi-smc/preventallowmediumremoval/3': '3c4a6b55',
    'iscsi-smc/exchangemedium/0': '045403cd',
    'iscsi-smc/exchangemedium/1': '0c27357b',
    'iscsi-smc/exchangemedium/2': '045403cd',
    'iscsi-smc/exchangemedium/3': '61320801',
    'iscsi-smc/movemedium/0': 'd3ce8b3e',
    'iscsi-smc/movemedium/1': '946e5b3b',
    'iscsi-smc/movemedium/2': 'd3ce8b3e',
    'iscsi-smc/positiontoelement/0': 'b48ca372',
    'iscsi-smc/positiontoelement/1': '0184aa7f',
    'iscsi-smc/positiontoelement/2': 'b48ca372',
    'iscsi-smc/initializeelementstatus/0': 'e97a9c89',
    'iscsi-smc/initializeelementstatuswithrange/0': 'b14ba382',
    'iscsi-smc/initializeelementstatuswithrange/1': '80b68363',
    'iscsi-smc/initializeelementstatuswithrange/2': 'b14ba382',
    'iscsi-smc/initializeelementstatuswithrange/3': '706d0b2e',
    'iscsi-smc/opencloseimportexportelement/0': 'eb5c9942',
    'iscsi-smc/opencloseimportexportelement/1': '1b57b09b',
    'iscsi-smc/opencloseimportexportelement/2': '11c22471',
    'iscsi-smc/readelementstatus/0': 'c2f0620d',
    'iscsi-smc/readelementstatus/1': 'dc1bb419',
    'iscsi-smc/readelementstatus/2': 'c2f0620d',
    'iscsi-smc/readelementstatus/3': '50d831c5',
    'iscsi-smc/readcd/0': 'e26dd3fa',
    'iscsi-smc/readcd/1': 'e26dd3fa',
    'iscsi-smc/readcd/2': 'e26dd3fa',
    'iscsi-smc/readcd/3': 'e26dd3fa',
    'iscsi-smc/readdiscinformation/0': 'e26dd3fa',
    'iscsi-smc/readdiscinformation/1': 'e26dd3fa',
    'iscsi-smc/readdiscinformation/2': 'e26dd3fa',
    'iscsi-smc/readdiscinformation/3': 'e26dd3fa',
    'iscsi-smc/readdiscinformation/4': 'e26dd3fa',
    'iscsi-smc/atapassthrough12/0': 'e26dd3fa',
    'iscsi-smc/atapassthrough12/1': 'e26dd3fa',
    'iscsi-smc/atapassthrough12/2': 'e26dd3fa',
    'iscsi-smc/atapassthrough12/3': 'e26dd3fa',
    'iscsi-smc/atapassthrough12/4': 'e26dd3fa',
    'iscsi-smc/atapassthrough16/0': 'e26dd3fa',
    'iscsi-smc/atapassthrough16/1': 'e26dd3fa',
    'iscsi-smc/atapassthrough16/2': 'e26dd3fa',
    'iscsi-smc/atapassthrough16/3': 'e26dd3fa',
    'iscsi-smc/atapassthrough16/4': 'e26dd3fa',
    'iscsi-smc/extendedcopy4/0': 'e26dd3fa',
    'iscsi-smc/extendedcopy4/1': 'e26dd3fa',
    'iscsi-smc/extendedcopy4/2': 'e26dd3fa',
    'iscsi-smc/extendedcopy5/0': 'e26dd3fa',
    'iscsi-smc/extendedcopy5/1': 'e26dd3fa',
    'iscsi-smc/extendedcopy5/2': 'e26dd3fa',
    'iscsi-mmc/inquiry/0': 'e7473924',
    'iscsi-mmc/inquiry/1': 'e7473924',
    'iscsi-mmc/inquiry/2': 'e7473924',
    'iscsi-mmc/inquiry/3': 'aac20cb4',
    'iscsi-mmc/inquiry/4': '29416a92',
    'iscsi-mmc/inquiry/5': '66a23fe9',
    'iscsi-mmc/inquiry/6': '11cfcf7a',
    'iscsi-mmc/inquiry/7': '94b73ba5',
    'iscsi-mmc/inquiry/8': 'c2738d40',
    'iscsi-mmc/inquiry/9': 'dbd2a5d9',
    'iscsi-mmc/inquiry/10': '22834d31',
    'iscsi-mmc/inquiry/11': '0e4b9fbb',
    'iscsi-mmc/inquiry/12': 'e0c5e9bb',
    'iscsi-mmc/inquiry/13': '01f9b57e',
    'iscsi-mmc/inquiry/14': 'a7d76286',
    'iscsi-mmc/testunitready/0': '8d82f1c1',
    'iscsi-mmc/readcapacity10/0': 'e26dd3fa',
    'iscsi-mmc/readcapacity10/1': 'e26dd3fa',
    'iscsi-mmc/readcapacity10/2': 'e26dd3fa',
    'iscsi-mmc/readcapacity10/3': 'e26dd3fa',
    'iscsi-mmc/readcapacity16/0': '5d0a80c7',
    'iscsi-mmc/readcapacity16/1': '5d0a80c7',
    'iscsi-mmc/readcapacity16/2': '5d0a80c7',
    'iscsi-mmc/readcapacity16/3': '5d0a80c7',
    'iscsi-mmc/getlbastatus/0': '5d0a80c7',
    'iscsi-mmc/getlbastatus/1': '5d0a80c7',
    'iscsi-mmc/getlbastatus/2': '5d0a80c7',
    'iscsi-mmc/getlbastatus/3': '5d0a80c7',
    'iscsi-mmc/read10/0': 'd756a53f',
    'iscsi-mmc/read10/1': '501b70ce',
    'iscsi-mmc/read10/2': '1588345a',
    'iscsi-mmc/read10/3': '8e035487',
    'iscsi-mmc/read10/4': 'fa4d8b5d',
    'iscsi-mmc/read10/5': '61b3a08c',
    'iscsi-mmc/read10/6': 'd376aab1',
    'iscsi-mmc/read10/7': 'b2540254',
    'iscsi-mmc/read10/8': 'b6905de9',
    'iscsi-mmc/read10/9': '72f004cf',
    'iscsi-mmc/read10/10': '763f2224',
    'iscsi-mmc/read10/11': '9cb077c7',
    'iscsi-mmc/read12/0': 'e50491c2',
    'iscsi-mmc/read12/1': '75c75b44',
    'iscsi-mmc/read12/2': 'eb04f741',
    'iscsi-mmc/read12/3': '962aae83',
    'iscsi-mmc/read12/4': '5736cdba',
    'iscsi-mmc/read12/5': '47537b5e',
    'iscsi-mmc/read16/0': 'e26dd3fa',
    'iscsi-mmc/read16/1': 'e26dd3fa',
    'iscsi-mmc/read16/2': 'e26dd3fa',
    'iscsi-mmc/read16/3': 'e26dd3fa',
    'iscsi-mmc/read16/4': 'e26dd3fa',
    'iscsi-mmc/write10/0': 'fd7420f5',
    'iscsi-mmc/write10/1': 'dacac30b',
    'iscsi-mmc/write10/2': '6c26f6ff',
    'iscsi-mmc/write10/3': '95c57408',
    'iscsi-mmc/write10/4': '0b98eb19',
    'iscsi-mmc/write10/5': 'ee9d99a4',
    'iscsi-mmc/write10/6': 'dcad7f97',
    'iscsi-mmc/write12/0': '5532d5c3',
    'iscsi-mmc/write12/1': '3eb1ad34',
    'iscsi-mmc/write12/2': '462efc9e',
    'iscsi-mmc/write12/3': '42243baa',
    'iscsi-mmc/write16/0': 'e26dd3fa',
    'iscsi-mmc/write16/1': 'e26dd3fa',
    'iscsi-mmc/write16/2': 'e26dd3fa',
    'iscsi-mmc/write16/3': 'e26dd3fa',
    'iscsi-mmc/writesame10/0': 'e26dd3fa',
    'iscsi-mmc/writesame10/1': 'e26dd3fa',
    'iscsi-mmc/writesame10/2': 'e26dd3fa',
    'iscsi-mmc/writesame10/3': 'e26dd3fa',
    'iscsi-mmc/writesame16/0': 'e26dd3fa',
    'iscsi-mmc/writesame16/1': 'e26dd3fa',
    'iscsi-mmc/writesame16/2': 'e26dd3fa',
    'iscsi-mmc/writesame16/3': 'e26dd3fa',
    'iscsi-mmc/synchronizecache10/0': 'e26dd3fa',
    'iscsi-mmc/synchronizecache10/1': 'e26dd3fa',
    'iscsi-mmc/synchronizecache10/2': 'e26dd3fa',
    'iscsi-mmc/synchronizecache10/3': 'e26dd3fa',
    'iscsi-mmc/synchronizecache16/0': 'e26dd3fa',
    'iscsi-mmc/synchronizecache16/1': 'e26dd3fa',
    'iscsi-mmc/synchronizecache16/2': 'e26dd3fa',
    'iscsi-mmc/synchronizecache16/3': 'e26dd3fa',
    'iscsi-mmc/modesense6/0': 'e26dd3fa',
    'iscsi-mmc/modesense6/1': 'e26dd3fa',
    'iscsi-mmc/modesense6/2': 'e26dd3fa',
    'iscsi-mmc/modesense6/3': 'e26dd3fa',
    'iscsi-mmc/modesense6/4': 'e26dd3fa',
    'iscsi-mmc/modesense6/5': 'e26dd3fa',
    'iscsi-mmc/modesense10/0': '90e12d8c',
    'iscsi-mmc/modesense10/1': 'e3714172',
    'iscsi-mmc/modesense10/2': 'a00ec283',
    'iscsi-mmc/modesense10/3': 'c5c68df9',
    'iscsi-mmc/modesense10/4': '187353f9',
    'iscsi-mmc/modeselect6/0': 'e26dd3fa',
    'iscsi-mmc/modeselect6/1': 'e26dd3fa',
    'iscsi-mmc/modeselect6/2': 'e26dd3fa',
    'iscsi-mmc/modeselect10/0': '4bae1346',
    'iscsi-mmc/modeselect10/1': 'd953a4eb',
    'iscsi-mmc/reportluns/0': '74d8ebb1',
    'iscsi-mmc/reportluns/1': '8a6f7bb6',
    'iscsi-mmc/reportluns/2': '74d8ebb1',
    'iscsi-mmc/reportluns/3': '659813e0',
    'iscsi-mmc/reportpriority/0': '5d0a80c7',
    'iscsi-mmc/reportpriority/1': '5d0a80c7',
    'iscsi-mmc/reportpriority/2': '5d0a80c7',
    'iscsi-mmc/reporttargetportgroups/0': '5d0a80c7',
    'iscsi-mmc/reporttargetportgroups/1': '5d0a80c7',
    'iscsi-mmc/reporttargetportgroups/2': '5d0a80c7',
    'iscsi-mmc/persistentreservein/0': 'e26dd3fa',
    'iscsi-mmc/persistentreservein/1': 'e26dd3fa',
    'iscsi-mmc/persistentreservein/2': 'e26dd3fa',
    'iscsi-mmc/persistentreservein/3': 'e26dd3fa',
    'iscsi-mmc/persistentreservein/4': 'e26dd3fa',
    'iscsi-mmc/persistentreservein/5': 'e26dd3fa',
    'iscsi-mmc/persistentreservein/6': 'e26dd3fa',
    'iscsi-mmc/persistentreservein/7': 'e26dd3fa',
    'iscsi-mmc/persistentreservein/8': 'e26dd3fa',
    'iscsi-mmc/persistentreservein/9': 'e26dd3fa',
    'iscsi-mmc/persistentreservein/10': 'e26dd3fa',
    'iscsi-mmc/persistentreservein/11': 'e26dd3fa',
    'iscsi-mmc/persistentreservein/12': 'e26dd3fa',
    'iscsi-mmc/persistentreserveout/0': 'e26dd3fa',
    'iscsi-mmc/persistentreserveout/1': 'e26dd3fa',
    'iscsi-mmc/persistentreserveout/2': 'e26dd3fa',
    'iscsi-mmc/persistentreserveout/3': 'e26dd3fa',
    'iscsi-mmc/persistentreserveout/4': 'e26dd3fa',
    'iscsi-mmc/persistentreserveout/5': 'e26dd3fa',
    'iscsi-mmc/persistentreserveout/6': 'e26dd3fa',
    'iscsi-mmc/persistentreserveout/7': 'e26dd3fa',
    'iscsi-mmc/preventallowmediumremoval/0': '3c4a6b55',
    'iscsi-mmc/preventallowmediumremoval/1': 'eb82fd00',
    'iscsi-mmc/preventallowmediumremoval/2': '4957650e',
    'iscsi-mmc/preventallowmediumremoval/3': '3c4a6b55',
    'iscsi-mmc/exchangemedium/0': 'e26dd3fa',
    'iscsi-mmc/exchangemedium/1': 'e26dd3fa',
    'iscsi-mmc/exchangemedium/2': 'e26dd3fa',
    'iscsi-mmc/exchangemedium/3': 'e26dd3fa',
    'iscsi-mmc/movemedium/0': 'e26dd3fa',
    'iscsi-mmc/movemedium/1': 'e26dd3fa',
    'iscsi-mmc/movemedium/2': 'e26dd3fa',
    'iscsi-mmc/positiontoelement/0': 'e26dd3fa',
    'iscsi-mmc/positiontoelement/1': 'e26dd3fa',
    'iscsi-mmc/positiontoelement/2': 'e26dd3fa',
    'iscsi-mmc/initializeelementstatus/0': 'e26dd3fa',
    'iscsi-mmc/initializeelementstatuswithrange/0': 'e26dd3fa',
    'iscsi-mmc/initializeelementstatuswithrange/1': 'e26dd3fa',
    'iscsi-mmc/initializeelementstatuswithrange/2': 'e26dd3fa',
    'iscsi-mmc/initializeelementstatuswithrange/3': 'e26dd3fa',
    'iscsi-mmc/opencloseimportexportelement/0': 'e26dd3fa',
    'iscsi-mmc/opencloseimportexportelement/1': 'e26dd3fa',
    'iscsi-mmc/opencloseimportexportelement/2': 'e26dd3fa',
    'iscsi-mmc/readelementstatus/0': 'e26dd3fa',
    'iscsi-mmc/readelementstatus/1': 'e26dd3fa',
    'iscsi-mmc/readelementstatus/2': 'e26dd3fa',
    'iscsi-mmc/readelementstatus/3': 'e26dd3fa',
    'iscsi-mmc/readcd/0': 'f9944002',
    'iscsi-mmc/readcd/1': 'a876e481',
    'iscsi-mmc/readcd/2': '2f47c3cf',
    'iscsi-mmc/readcd/3': '7062f333',
    'iscsi-mmc/readdiscinformation/0': '58a73b1e',
    'iscsi-mmc/readdiscinformation/1': 'a878942b',
    'iscsi-mmc/readdiscinformation/2': 'a696adcd',
    'iscsi-mmc/readdiscinformation/3': 'adbe29f7',
    'iscsi-mmc/readdiscinformation/4': 'fdd62e93',
    'iscsi-mmc/atapassthrough12/0': 'e26dd3fa',
    'iscsi-mmc/atapassthrough12/1': 'e26dd3fa',
    'iscsi-mmc/atapassthrough12/2': 'e26dd3fa',
    'iscsi-mmc/atapassthrough12/3': 'e26dd3fa',
    'iscsi-mmc/atapassthrough12/4': 'e26dd3fa',
    'iscsi-mmc/atapassthrough16/0': 'e26dd3fa',
    'iscsi-mmc/atapassthrough16/1': 'e26dd3fa',
    'iscsi-mmc/atapassthrough16/2': 'e26dd3fa',
    'iscsi-mmc/atapassthrough16/3': 'e26dd3fa',
    'iscsi-mmc/atapassthrough16/4': 'e26dd3fa',
    'iscsi-mmc/extendedcopy4/0': 'e26dd3fa',
    'iscsi-mmc/extendedcopy4/1': 'e26dd3fa',
    'iscsi-mmc/extendedcopy4/2': 'e26dd3fa',
    'iscsi-mmc/extendedcopy5/0': 'e26dd3fa',
    'iscsi-mmc/extendedcopy5/1': 'e26dd3fa',
    'iscsi-mmc/extendedcopy5/2': 'e26dd3fa',
    'fail-sgio/inquiry/18': '33a76676',
    'fail-sgio/inquiry/none': '5cbfd8af',
    'fail-sgio/inquiry/0': '5cbfd8af',
    'fail-sgio/testunitready/18': '33a76676',
    'fail-sgio/testunitready/none': '5cbfd8af',
    'fail-sgio/testunitready/0': '5cbfd8af',
    'fail-sgio/readcapacity10/18': '33a76676',
    'fail-sgio/readcapacity10/none': '5cbfd8af',
    'fail-sgio/readcapacity10/0': '5cbfd8af',
    'fail-sgio/readcapacity16/18': '33a76676',
    'fail-sgio/readcapacity16/none': '5cbfd8af',
    'fail-sgio/readcapacity16/0': '5cbfd8af',
    'fail-sgio/getlbastatus/18': '33a76676',
    'fail-sgio/getlbastatus/none': '5cbfd8af',
    'fail-sgio/getlbastatus/0': '5cbfd8af',
    'fail-sgio/read10/18': '33a76676',
    'fail-sgio/read10/none': '5cbfd8af',
    'fail-sgio/read10/0': '5cbfd8af',
    'fail-sgio/read12/18': '33a76676',
    'fail-sgio/read12/none': '5cbfd8af',
    'fail-sgio/read12/0': '5cbfd8af',
    'fail-sgio/read16/18': '33a76676',
    'fail-sgio/read16/none': '5cbfd8af',
    'fail-sgio/read16/0': '5cbfd8af',
    'fail-sgio/write10/18': '33a76676',
    'fail-sgio/write10/none': '5cbfd8af',
    'fail-sgio/write10/0': '5cbfd8af',
    'fail-sgio/write12/18': '33a76676',
    'fail-sgio/write12/none': '5cbfd8af',
    'fail-sgio/write12/0': '5cbfd8af',
    'fail-sgio/write16/18': '33a76676',
    'fail-sgio/write16/none': '5cbfd8af',
    'fail-sgio/write16/0': '5cbfd8af',
    'fail-sgio/writesame10/18': '33a76676',
    'fail-sgio/writesame10/none': '5cbfd8af',
    'fail-sgio/writesame10/0': '5cbfd8af',
    'fail-sgio/writesame16/18': '33a76676',
    'fail-sgio/writesame16/none': '5cbfd8af',
    'fail-sgio/writesame16/0': '5cbfd8af',
    'fail-sgio/synchronizecache10/18': '33a76676',
    'fail-sgio/synchronizecache10/none': '5cbfd8af',
    'fail-sgio/synchronizecache10/0': '5cbfd8af',
    'fail-sgio/synchronizecache16/18': '33a76676',
    'fail-sgio/synchronizecache16/none': '5cbfd8af',
    'fail-sgio/synchronizecache16/0': '5cbfd8af',
    'fail-sgio/modesense6/18': '33a76676',
    'fail-sgio/modesense6/none': '5cbfd8af',
    'fail-sgio/modesense6/0': '5cbfd8af',
    'fail-sgio/modesense10/18': '33a76676',
    'fail-sgio/modesense10/none': '5cbfd8af',
    'fail-sgio/modesense10/0': '5cbfd8af',
    'fail-sgio/modeselect6/18': '33a76676',
    'fail-sgio/modeselect6/none': '5cbfd8af',
    'fail-sgio/modeselect6/0': '5cbfd8af',
    'fail-sgio/modeselect10/18': '33a76676',
    'fail-sgio/modeselect10/none': '5cbfd8af',
    'fail-sgio/modeselect10/0': '5cbfd8af',
    'fail-sgio/reportluns/18': '33a76676',
    'fail-sgio/reportluns/none': '5cbfd8af',
    'fail-sgio/reportluns/0': '5cbfd8af',
    'fail-sgio/reportpriority/18': '33a76676',
    'fail-sgio/reportpriority/none': '5cbfd8af',
    'fail-sgio/reportpriority/0': '5cbfd8af',
    'fail-sgio/reporttargetportgroups/18': '33a76676',
    'fail-sgio/reporttargetportgroups/none': '5cbfd8af',
    'fail-sgio/reporttargetportgroups/0': '5cbfd8af',
    'fail-sgio/persistentreservein/18': '33a76676',
    'fail-sgio/persistentreservein/none': '5cbfd8af',
    'fail-sgio/persistentreservein/0': '5cbfd8af',
    'fail-sgio/persistentreserveout/18': '33a76676',
    'fail-sgio/persistentreserveout/none': '5cbfd8af',
    'fail-sgio/persistentreserveout/0': '5cbfd8af',
    'fail-sgio/preventallowmediumremoval/18': '33a76676',
    'fail-sgio/preventallowmediumremoval/none': '5cbfd8af',
    'fail-sgio/preventallowmediumremoval/0': '5cbfd8af',
    'fail-sgio/atapassthrough12/18': '2d569f88',
    'fail-sgio/atapassthrough12/none': '2d569f88',
    'fail-sgio/atapassthrough12/0': '2d569f88',
    'fail-sgio/atapassthrough16/18': '2d569f88',
    'fail-sgio/atapassthrough16/none': '2d569f88',
    'fail-sgio/atapassthrough16/0': '2d569f88',
    'fail-sgio/extendedcopy4/18': '33a76676',
    'fail-sgio/extendedcopy4/none': '5cbfd8af',
    'fail-sgio/extendedcopy4/0': '5cbfd8af',
    'fail-sgio/extendedcopy5/18': '33a76676',
    'fail-sgio/extendedcopy5/none': '5cbfd8af',
    'fail-sgio/extendedcopy5/0': '5cbfd8af',
    'iscsi-status/0/testunitready/unset': '820ec52a',
    'iscsi-status/0/testunitready/sense': '820ec52a',
    'iscsi-status/0/testunitready/none': '820ec52a',
    'iscsi-status/0/read10/unset': '820ec52a',
    'iscsi-status/0/read10/sense': '820ec52a',
    'iscsi-status/0/read10/none': '820ec52a',
    'iscsi-status/0/write10/unset': '820ec52a',
    'iscsi-status/0/write10/sense': '820ec52a',
    'iscsi-status/0/write10/none': '820ec52a',
    'iscsi-status/0/readcapacity10/unset': 'cd8c4259',
    'iscsi-status/0/readcapacity10/sense': 'cd8c4259',
    'iscsi-status/0/readcapacity10/none': 'cd8c4259',
    'iscsi-status/0/atapassthrough16/unset': '820ec52a',
    'iscsi-status/0/atapassthrough16/sense': '820ec52a',
    'iscsi-status/0/atapassthrough16/none': '820ec52a',
    'iscsi-status/2/testunitready/unset': '5cbfd8af',
    'iscsi-status/2/testunitready/sense': '33a76676',
    'iscsi-status/2/testunitready/none': '5cbfd8af',
    'iscsi-status/2/read10/unset': '5cbfd8af',
    'iscsi-status/2/read10/sense': '33a76676',
    'iscsi-status/2/read10/none': '5cbfd8af',
    'iscsi-status/2/write10/unset': '5cbfd8af',
    'iscsi-status/2/write10/sense': '33a76676',
    'iscsi-status/2/write10/none': '5cbfd8af',
    'iscsi-status/2/readcapacity10/unset': '5cbfd8af',
    'iscsi-status/2/readcapacity10/sense': '33a76676',
    'iscsi-status/2/readcapacity10/none': '5cbfd8af',
    'iscsi-status/2/atapassthrough16/unset': '5cbfd8af',
    'iscsi-status/2/atapassthrough16/sense': '33a76676',
    'iscsi-status/2/atapassthrough16/none': '5cbfd8af',
    'iscsi-status/4/testunitready/unset': '575ccb7d',
    'iscsi-status/4/testunitready/sense': '575ccb7d',
    'iscsi-status/4/testunitready/none': '575ccb7d',
    'iscsi-status/4/read10/unset': '575ccb7d',
    'iscsi-status/4/read10/sense': '575ccb7d',
    'iscsi-status/4/read10/none': '575ccb7d',
    'iscsi-status/4/write10/unset': '575ccb7d',
    'iscsi-status/4/write10/sense': '575ccb7d',
    'iscsi-status/4/write10/none': '575ccb7d',
    'iscsi-status/4/readcapacity10/unset': '575ccb7d',
    'iscsi-status/4/readcapacity10/sense': '575ccb7d',
    'iscsi-status/4/readcapacity10/none': '575ccb7d',
    'iscsi-status/4/atapassthrough16/unset': '575ccb7d',
    'iscsi-status/4/atapassthrough16/sense': '575ccb7d',
    'iscsi-status/4/atapassthrough16/none': '575ccb7d',
    'iscsi-status/8/testunitready/unset': '4abbdfb9',
    'iscsi-status/8/testunitready/sense': '4abbdfb9',
    'iscsi-status/8/testunitready/none': '4abbdfb9',
    'iscsi-status/8/read10/unset': '4abbdfb9',
    'iscsi-status/8/read10/sense': '4abbdfb9',
    'iscsi-status/8/read10/none': '4abbdfb9',
    'iscsi-status/8/write10/unset': '4abbdfb9',
    'iscsi-status/8/write10/sense': '4abbdfb9',
    'iscsi-status/8/write10/none': '4abbdfb9',
    'iscsi-status/8/readcapacity10/unset': '4abbdfb9',
    'iscsi-status/8/readcapacity10/sense': '4abbdfb9',
    'iscsi-status/8/readcapacity10/none': '4abbdfb9',
    'iscsi-status/8/atapassthrough16/unset': '4abbdfb9',
    'iscsi-status/8/atapassthrough16/sense': '4abbdfb9',
    'iscsi-status/8/atapassthrough16/none': '4abbdfb9',
    'iscsi-status/24/testunitready/unset': 'e43d7628',
    'iscsi-status/24/testunitready/sense': 'e43d7628',
    'iscsi-status/24/testunitready/none': 'e43d7628',
    'iscsi-status/24/read10/unset': 'e43d7628',
    'iscsi-status/24/read10/sense': 'e43d7628',
    'iscsi-status/24/read10/none': 'e43d7628',
    'iscsi-status/24/write10/unset': 'e43d7628',
    'iscsi-status/24/write10/sense': 'e43d7628',
    'iscsi-status/24/write10/none': 'e43d7628',
    'iscsi-status/24/readcapacity10/unset': 'e43d7628',
    'iscsi-status/24/readcapacity10/sense': 'e43d7628',
    'iscsi-status/24/readcapacity10/none': 'e43d7628',
    'iscsi-status/24/atapassthrough16/unset': 'e43d7628',
    'iscsi-status/24/atapassthrough16/sense': 'e43d7628',
    'iscsi-status/24/atapassthrough16/none': 'e43d7628',
    'iscsi-status/40/testunitready/unset': 'ed355b49',
    'iscsi-status/40/testunitready/sense': 'ed355b49',
    'iscsi-status/40/testunitready/none': 'ed355b49',
    'iscsi-status/40/read10/unset': 'ed355b49',
    'iscsi-status/40/read10/sense': 'ed355b49',
    'iscsi-status/40/read10/none': 'ed355b49',
    'iscsi-status/40/write10/unset': 'ed355b49',
    'iscsi-status/40/write10/sense': 'ed355b49',
    'iscsi-status/40/write10/none': 'ed355b49',
    'iscsi-status/40/readcapacity10/unset': 'ed355b49',
    'iscsi-status/40/readcapacity10/sense': 'ed355b49',
    'iscsi-status/40/readcapacity10/none': 'ed355b49',
    'iscsi-status/40/atapassthrough16/unset': 'ed355b49',
    'iscsi-status/40/atapassthrough16/sense': 'ed355b49',
    'iscsi-status/40/atapassthrough16/none': 'ed355b49',
    'iscsi-status/48/testunitready/unset': '00a7ecd9',
    'iscsi-status/48/testunitready/sense': '00a7ecd9',
    'iscsi-status/48/testunitready/none': '00a7ecd9',
    'iscsi-status/48/read10/unset': '00a7ecd9',
    'iscsi-status/48/read10/sense': '00a7ecd9',
    'iscsi-status/48/read10/none': '00a7ecd9',
    'iscsi-status/48/write10/unset': '00a7ecd9',
    'iscsi-status/48/write10/sense': '00a7ecd9',
    'iscsi-status/48/write10/none': '00a7ecd9',
    'iscsi-status/48/readcapacity10/unset': '00a7ecd9',
    'iscsi-status/48/readcapacity10/sense': '00a7ecd9',
    'iscsi-status/48/readcapacity10/none': '00a7ecd9',
    'iscsi-status/48/atapassthrough16/unset': '00a7ecd9',
    'iscsi-status/48/atapassthrough16/sense': '00a7ecd9',
    'iscsi-status/48/atapassthrough16/none': '00a7ecd9',
    'iscsi-status/64/testunitready/unset': '1cfbbbac',
    'iscsi-status/64/testunitready/sense': '1cfbbbac',
    'iscsi-status/64/testunitready/none': '1cfbbbac',
    'iscsi-status/64/read10/unset': '1cfbbbac',
    'iscsi-status/64/read10/sense': '1cfbbbac',
    'iscsi-status/64/read10/none': '1cfbbbac',
    'iscsi-status/64/write10/unset': '1cfbbbac',
    'iscsi-status/64/write10/sense': '1cfbbbac',
    'iscsi-status/64/write10/none': '1cfbbbac',
    'iscsi-status/64/readcapacity10/unset': '1cfbbbac',
    'iscsi-status/64/readcapacity10/sense': '1cfbbbac',
    'iscsi-status/64/readcapacity10/none': '1cfbbbac',
    'iscsi-status/64/atapassthrough16/unset': '1cfbbbac',
    'iscsi-status/64/atapassthrough16/sense': '1cfbbbac',
    'iscsi-status/64/atapassthrough16/none': '1cfbbbac',
    'iscsi-status/255/testunitready/unset': '7cfcf634',
    'iscsi-status/255/testunitready/sense': '7cfcf634',
    'iscsi-status/255/testunitready/none': '7cfcf634',
    'iscsi-status/255/read10/unset': '7cfcf634',
    'iscsi-status/255/read10/sense': '7cfcf634',
    'iscsi-status/255/read10/none': '7cfcf634',
    'iscsi-status/255/write10/unset': '7cfcf634',
    'iscsi-status/255/write10/sense': '7cfcf634',
    'iscsi-status/255/write10/none': '7cfcf634',
    'iscsi-status/255/readcapacity10/unset': '7cfcf634',
    'iscsi-status/255/readcapacity10/sense': '7cfcf634',
    'iscsi-status/255/readcapacity10/none': '7cfcf634',
    'iscsi-status/255/atapassthrough16/unset': '7cfcf634',
    'iscsi-status/255/atapassthrough16/sense': '7cfcf634',
    'iscsi-status/255/atapassthrough16/none': '7cfcf634',
    'iscsi-status/1/testunitready/unset': '7cfcf634',
    'iscsi-status/1/testunitready/sense': '7cfcf634',
    'iscsi-status/1/testunitready/none': '7cfcf634',
    'iscsi-status/1/read10/unset': '7cfcf634',
    'iscsi-status/1/read10/sense': '7cfcf634',
    'iscsi-status/1/read10/none': '7cfcf634',
    'iscsi-status/1/write10/unset': '7cfcf634',
    'iscsi-status/1/write10/sense': '7cfcf634',
    'iscsi-status/1/write10/none': '7cfcf634',
    'iscsi-status/1/readcapacity10/unset': '7cfcf634',
    'iscsi-status/1/readcapacity10/sense': '7cfcf634',
    'iscsi-status/1/readcapacity10/none': '7cfcf634',
    'iscsi-status/1/atapassthrough16/unset': '7cfcf634',
    'iscsi-status/1/atapassthrough16/sense': '7cfcf634',
    'iscsi-status/1/atapassthrough16/none': '7cfcf634',
    'iscsi-status/None/testunitready/unset': '7cfcf634',
    'iscsi-status/None/testunitready/sense': '7cfcf634',
    'iscsi-status/None/testunitready/none': '7cfcf634',
    'iscsi-status/None/read10/unset': '7cfcf634',
    'iscsi-status/None/read10/sense': '7cfcf634',
    'iscsi-status/None/read10/none': '7cfcf634',
    'iscsi-status/None/write10/unset': '7cfcf634',
    'iscsi-status/None/write10/sense': '7cfcf634',
    'iscsi-status/None/write10/none': '7cfcf634',
    'iscsi-status/None/readcapacity10/unset': '7cfcf634',
    'iscsi-status/None/readcapacity10/sense': '7cfcf634',
    'iscsi-status/None/readcapacity10/none': '7cfcf634',
    'iscsi-status/None/atapassthrough16/unset': '7cfcf634',
    'iscsi-status/None/atapassthrough16/sense': '7cfcf634',
    'iscsi-status/None/atapassthrough16/none': '7cfcf634',
    'blocksize-0/read10': '5a013c49',
    'blocksize-0/read12': '5a013c49',
    'blocksize-0/read16': '5a013c49',
    'blocksize-0/write10': '5a013c49',
    'blocksize-0/write12': '5a013c49',
    'blocksize-0/write16': '5a013c49',
    'blocksize-0/writesame10': '5a013c49',
    'blocksize-0/writesame16': '5a013c49',
    'blocksize-1/read10': '06d488fb',
    'blocksize-1/read12': '1bae69ca',
    'blocksize-1/read16': '497d284e',
    'blocksize-1/write10': '8cdcc2ef',
    'blocksize-1/write12': '6bb3c6c5',
    'blocksize-1/write16': '7f5a1ed6',
    'blocksize-1/writesame10': 'fc9f50a4',
    'blocksize-1/writesame16': '289dc35d',
    'blocksize-512/read10': '06d488fb',
    'blocksize-512/read12': '1bae69ca',
    'blocksize-512/read16': '497d284e',
    'blocksize-512/write10': '8cdcc2ef',
    'blocksize-512/write12': '6bb3c6c5',
    'blocksize-512/write16': '7f5a1ed6',
    'blocksize-512/writesame10': 'fc9f50a4',
    'blocksize-512/writesame16': '289dc35d',
    'blocksize-4096/read10': '06d488fb',
    'blocksize-4096/read12': '1bae69ca',
    'blocksize-4096/read16': '497d284e',
    'blocksize-4096/write10': '8cdcc2ef',
    'blocksize-4096/write12': '6bb3c6c5',
    'blocksize-4096/write16': '7f5a1ed6',
    'blocksize-4096/writesame10': 'fc9f50a4',
    'blocksize-4096/writesame16': '289dc35d',
    'blocksize-False/read10': '5a013c49',
    'blocksize-False/read12': '5a013c49',
    'blocksize-False/read16': '5a013c49',
    'blocksize-False/write10': '5a013c49',
    'blocksize-False/write12': '5a013c49',
    'blocksize-False/write16': '5a013c49',
    'blocksize-False/writesame10': '5a013c49',
    'blocksize-False/writesame16': '5a013c49',
    'iscsi-with': 'c242602c',
    'iscsi-open-default': '621e2f0d',
    'get_opcode/spc/9E': '97d170e1',
    'get_opcode/spc/A3': 'a8b7351a',
    'get_opcode/spc/A4': 'fddfe19f',
    'get_opcode/spc/7F': '97d170e1',
    'get_opcode/spc/10': '3f72c0e5',
    'get_opcode/spc/_6': 'ebc61f77',
    'get_opcode/spc/16': '4fc1d8d3',
    'get_opcode/spc/E': '97d170e1',
    'get_opcode/spc/': '97d170e1',
    'get_opcode/spc/9e': '97d170e1',
    'get_opcode/spc/XYZ': '97d170e1',
    'get_opcode/spc/IN': '597c905b',
    'get_opcode/spc/UT': '35e50ae5',
    'get_opcode/sbc/9E': '2b784fbe',
    'get_opcode/sbc/A3': '31129af2',
    'get_opcode/sbc/A4': 'fb0c853f',
    'get_opcode/sbc/7F': '78f60fd5',
    'get_opcode/sbc/10': 'c6528987',
    'get_opcode/sbc/_6': '008ee8ad',
    'get_opcode/sbc/16': '82c1b377',
    'get_opcode/sbc/E': '97d170e1',
    'get_opcode/sbc/': '97d170e1',
    'get_opcode/sbc/9e': '97d170e1',
    'get_opcode/sbc/XYZ': '97d170e1',
    'get_opcode/sbc/IN': '515307d3',
    'get_opcode/sbc/UT': '44bab27c',
    'get_opcode/ssc/9E': '97d170e1',
    'get_opcode/ssc/A3': '79e4f11e',
    'get_opcode/ssc/A4': '80237da2',
    'get_opcode/ssc/7F': '97d170e1',
    'get_opcode/ssc/10': '3f72c0e5',
    'get_opcode/ssc/_6': '274e6d2d',
    'get_opcode/ssc/16': 'a9123c4e',
    'get_opcode/ssc/E': '97d170e1',
    'get_opcode/ssc/': '97d170e1',
    'get_opcode/ssc/9e': '97d170e1',
    'get_opcode/ssc/XYZ': '97d170e1',
    'get_opcode/ssc/IN': '597c905b',
    'get_opcode/ssc/UT': '35e50ae5',
    'get_opcode/smc/9E': '97d170e1',
    'get_opcode/smc/A3': '9749253c',
    'get_opcode/smc/A4': '51610ccb',
    'get_opcode/smc/7F': '97d170e1',
    'get_opcode/smc/10': 'c5122531',
    'get_opcode/smc/_6': '587e2a53',
    'get_opcode/smc/16': '4fc1d8d3',
    'get_opcode/smc/E': '97d170e1',
    'get_opcode/smc/': '97d170e1',
    'get_opcode/smc/9e': '97d170e1',
    'get_opcode/smc/XYZ': '97d170e1',
    'get_opcode/smc/IN': '4f88b186',
    'get_opcode/smc/UT': '703e67cf',
    'get_opcode/mmc/9E': '97d170e1',
    'get_opcode/mmc/A3': '97d170e1',
    'get_opcode/mmc/A4': '97d170e1',
    'get_opcode/mmc/7F': '97d170e1',
    'get_opcode/mmc/10': '3536b4e0',
    'get_opcode/mmc/_6': '97d170e1',
    'get_opcode/mmc/16': '4fc1d8d3',
    'get_opcode/mmc/E': '97d170e1',
    'get_opcode/mmc/': '97d170e1',
    'get_opcode/mmc/9e': '97d170e1',
    'get_opcode/mmc/XYZ': '97d170e1',
    'get_opcode/mmc/IN': 'cb1cc138',
    'get_opcode/mmc/UT': 'cb964a57',
    'signature/SCSI.__call__': '8f1bed0f',
    'signature/SCSI.__enter__': 'fd48c105',
    'signature/SCSI.__exit__': '14a9532f',
    'signature/SCSI.__init__': '0220b9f6',
    'signature/SCSI.atapassthrough12': '03f6787d',
    'signature/SCSI.atapassthrough16': '03f6787d',
    'signature/SCSI.exchangemedium': '9cd4acc8',
    'signature/SCSI.execute': 'b23ae469',
    'signature/SCSI.extendedcopy4': '802f837e',
    'signature/SCSI.extendedcopy5': 'b6c0671d',
    'signature/SCSI.getlbastatus': 'cbd39ca3',
    'signature/SCSI.initializeelementstatus': 'fd48c105',
    'signature/SCSI.initializeelementstatuswithrange': 'e6a572b7',
    'signature/SCSI.inquiry': 'c23e6058',
    'signature/SCSI.modeselect10': '83636e1f',
    'signature/SCSI.modeselect6': '83636e1f',
    'signature/SCSI.modesense10': '7b541357',
    'signature/SCSI.modesense6': '7b541357',
    'signature/SCSI.movemedium': '0cbcfb33',
    'signature/SCSI.opencloseimportexportelement': '2b308e7a',
    'signature/SCSI.persistentreservein': 'b25e9fee',
    'signature/SCSI.persistentreserveout': 'bcd8381e',
    'signature/SCSI.positiontoelement': '66281db0',
    'signature/SCSI.preventallowmediumremoval': '3ae55df6',
    'signature/SCSI.read10': '1cbcde68',
    'signature/SCSI.read12': '1cbcde68',
    'signature/SCSI.read16': '1cbcde68',
    'signature/SCSI.readcapacity10': '3ae55df6',
    'signature/SCSI.readcapacity16': '3ae55df6',
    'signature/SCSI.readcd': '1cbcde68',
    'signature/SCSI.readdiscinformation': '5e1b58a4',
    'signature/SCSI.readelementstatus': 'f71f0f2a',
    'signature/SCSI.reportluns': '3ae55df6',
    'signature/SCSI.reportpriority': '3ae55df6',
    'signature/SCSI.reporttargetportgroups': '3ae55df6',
    'signature/SCSI.synchronizecache10': '60db81ef',
    'signature/SCSI.synchronizecache16': '60db81ef',
    'signature/SCSI.testunitready': 'fd48c105',
    'signature/SCSI.write10': '4caac6af',
    'signature/SCSI.write12': '4caac6af',
    'signature/SCSI.write16': '4caac6af',
    'signature/SCSI.writesame10': 'dafb0af5',
    'signature/SCSI.writesame16': 'dafb0af5',
    'signature-resolved/SCSI.atapassthrough12': '03f6787d',
    'signature-resolved/SCSI.atapassthrough16': '03f6787d',
    'signature-resolved/SCSI.exchangemedium': '9cd4acc8',
    'signature-resolved/SCSI.extendedcopy4': '802f837e',
    'signature-resolved/SCSI.extendedcopy5': 'b6c0671d',
    'signature-resolved/SCSI.getlbastatus': 'cbd39ca3',
    'signature-resolved/SCSI.initializeelementstatus': 'fd48c105',
    'signature-resolved/SCSI.initializeelementstatuswithrange': 'e6a572b7',
    'signature-resolved/SCSI.inquiry': 'c23e6058',
    'signature-resolved/SCSI.modeselect10': '83636e1f',
    'signature-resolved/SCSI.modeselect6': '83636e1f',
    'signature-resolved/SCSI.modesense10': '7b541357',
    'signature-resolved/SCSI.modesense6': '7b541357',
    'signature-resolved/SCSI.movemedium': '0cbcfb33',
    'signature-resolved/SCSI.opencloseimportexportelement': '2b308e7a',
    'signature-resolved/SCSI.persistentreservein': 'b25e9fee',
    'signature-resolved/SCSI.persistentreserveout': 'bcd8381e',
    'signature-resolved/SCSI.positiontoelement': '66281db0',
    'signature-resolved/SCSI.preventallowmediumremoval': '3ae55df6',
    'signature-resolved/SCSI.read10': '1cbcde68',
    'signature-resolved/SCSI.read12': '1cbcde68',
    'signature-resolved/SCSI.read16': '1cbcde68',
    'signature-resolved/SCSI.readcapacity10': '3ae55df6',
    'signature-resolved/SCSI.readcapacity16': '3ae55df6',
    'signature-resolved/SCSI.readcd': '1cbcde68',
    'signature-resolved/SCSI.readdiscinformation': '5e1b58a4',
    'signature-resolved/SCSI.readelementstatus': 'f71f0f2a',
    'signature-resolved/SCSI.reportluns': '3ae55df6',
    'signature-resolved/SCSI.reportpriority': '3ae55df6',
    'signature-resolved/SCSI.reporttargetportgroups': '3ae55df6',
    'signature-resolved/SCSI.synchronizecache10': '60db81ef',
    'signature-resolved/SCSI.synchronizecache16': '60db81ef',
    'signature-resolved/SCSI.testunitready': 'fd48c105',
    'signature-resolved/SCSI.write10': '4caac6af',
    'signature-resolved/SCSI.write12': '4caac6af',
    'signature-resolved/SCSI.write16': '4caac6af',
    'signature-resolved/SCSI.writesame10': 'dafb0af5',
    'signature-resolved/SCSI.writesame16': 'dafb0af5',
    'signature/SCSIDevice.__init__': '88ddd0b2',
    'signature/SCSIDevice.open': 'fd48c105',
    'signature/SCSIDevice.close': 'fd48c105',
    'signature/SCSIDevice.execute': 'b23ae469',
    'signature/SCSIDevice.__enter__': 'fd48c105',
    'signature/SCSIDevice.__exit__': '14a9532f',
    'signature/ISCSIDevice.__init__': '4b58724e',
    'signature/ISCSIDevice.open': '903410f2',
    'signature/ISCSIDevice.close': 'fd48c105',
    'signature/ISCSIDevice.execute': 'b23ae469',
    'signature/ISCSIDevice.__enter__': 'fd48c105',
    'signature/ISCSIDevice.__exit__': '14a9532f',
    'signature/SCSICommand.init_cdb': '5d812f37',
    'signature/SCSICommand.marshall_cdb': '05892d02',
    'signature/SCSICommand.unmarshall_cdb': '05892d02',
    'signature/SCSICommand.build_cdb': '3ae55df6',
    'signature/SCSICommand.unmarshall': '3ae55df6',
    'signature/SCSICommand.print_cdb': 'fd48c105',
    'signature/SCSICommand.__init__': 'da2b6be5',
    'signature/converter.scsi_int_to_ba': '28d9ddaa',
    'signature/converter.scsi_ba_to_int': 'e4265967',
    'signature/converter.decode_bits': 'd4fd5c71',
    'signature/converter.encode_dict': '18346128',
    'signature/converter.print_data': 'c2d98d0e',
    'signature/converter.get_opcode': 'acdfbe5d',
}
# ---- GOLDEN END ----

if __name__ == "__main__":
    sys.exit(main())
