#!/usr/bin/env python
# coding: utf-8
"""
Demo / behaviour check for property C16:

  Attaching the SCSI facade to a device issues exactly one standard INQUIRY
  and selects the command set matching the reported peripheral device type;
  processor / unrecognised types keep a set with the primary commands;
  re-attaching repeats the selection and leaks nothing.

Run as:
  cd /tmp/seed/C16t && PYTHONPATH=/tmp/seed/C16t /venv/bin/python SEED/demo.py
"""
import hashlib
import sys
import types

# --------------------------------------------------------------------------
# fake external bindings (sgio, iscsi) -- installed before the library import
# --------------------------------------------------------------------------
WIRE = {"type_byte": 0x00, "log": [], "fail": None}


def _fill(datain, cdb):
    """emulate a target: answer INQUIRY with the configured byte 0"""
    if len(datain) and cdb[0] == 0x12:
        datain[0] = WIRE["type_byte"]
        if len(datain) > 4:
            datain[4] = len(datain) - 5


sgio = types.ModuleType("sgio")


class CheckConditionError(Exception):
    def __init__(self, sense=b""):
        Exception.__init__(self)
        self.sense = sense


def _sgio_execute(fobj, cdb, dataout, datain, *args, **kwargs):
    WIRE["last_file"] = fobj
    WIRE["log"].append(("sgio", fobj.name, bytes(cdb), bytes(dataout), len(datain)))
    if WIRE["fail"] is not None:
        raise WIRE["fail"]
    _fill(datain, cdb)
    return 0


sgio.CheckConditionError = CheckConditionError
sgio.execute = _sgio_execute
sys.modules["sgio"] = sgio

iscsi = types.ModuleType("iscsi")
iscsi.SCSI_XFER_NONE = 0
iscsi.SCSI_XFER_READ = 1
iscsi.SCSI_XFER_WRITE = 2
iscsi.ISCSI_SESSION_NORMAL = 2
iscsi.ISCSI_HEADER_DIGEST_NONE_CRC32C = 1


class _Ctx(object):
    def __init__(self, name):
        self.name = name
        self.connected = False

    def set_targetname(self, t):
        pass

    def set_session_type(self, t):
        pass

    def set_header_digest(self, t):
        pass

    def connect(self, portal, lun):
        self.connected = True

    def disconnect(self):
        self.connected = False

    def command(self, lun, task, dataout, datain):
        WIRE["log"].append(
            ("iscsi", self.name, bytes(task.cdb), bytes(dataout), len(datain))
        )
        if WIRE["fail"] is not None:
            raise WIRE["fail"]
        _fill(datain, task.cdb)
        task.status = 0


class _URL(object):
    def __init__(self, ctx, url):
        self.target = "iqn.fake"
        self.portal = "127.0.0.1"
        self.lun = 0


class _Task(object):
    def __init__(self, cdb, direction, xferlen):
        self.cdb = cdb
        self.status = 0
        self.raw_sense = None


iscsi.Context = _Ctx
iscsi.URL = _URL
iscsi.Task = _Task
sys.modules["iscsi"] = iscsi

# --------------------------------------------------------------------------
from pyscsi.pyiscsi.iscsi_device import ISCSIDevice  # noqa: E402
from pyscsi.pyscsi import scsi_enum_command  # noqa: E402
from pyscsi.pyscsi.scsi import SCSI  # noqa: E402
from pyscsi.pyscsi.scsi_device import SCSIDevice  # noqa: E402
from pyscsi.pyscsi.scsi_enum_command import mmc, sbc, smc, spc, ssc  # noqa: E402

CHECKS = [0]


def check(cond, msg):
    CHECKS[0] += 1
    if not cond:
        print("FAIL: %s" % (msg,))
        sys.exit(1)


SET_NAMES = {id(spc): "spc", id(sbc): "sbc", id(ssc): "ssc", id(smc): "smc", id(mmc): "mmc"}


def nm(x):
    return SET_NAMES.get(id(x), repr(x))


# what the property promises, written down independently of the code
EXPECT = {
    0x00: sbc,
    0x04: sbc,
    0x07: sbc,
    0x01: ssc,
    0x02: ssc,
    0x09: ssc,
    0x03: spc,
    0x08: smc,
    0x05: mmc,
}
STD_INQUIRY_CDB = bytes([0x12, 0x00, 0x00, 0x00, 0x60, 0x00])


def expected_for(devtype, default):
    return EXPECT.get(devtype, default)


# --------------------------------------------------------------------------
# 0. the five command-set tables themselves are unchanged
# --------------------------------------------------------------------------
def dump_sets():
    out = []
    for label, enum in (("spc", spc), ("sbc", sbc), ("ssc", ssc), ("smc", smc), ("mmc", mmc)):
        out.append("[%s] %s %r" % (label, enum.__name__, type(enum).__name__))
        for key in enum.keys:
            op = getattr(enum, key)
            sa = op.serviceaction
            out.append(
                "%s|%s|%r|%s|%s|%s"
                % (
                    key,
                    op.name,
                    op.value,
                    str(op),
                    type(op).__name__,
                    ",".join("%s=%r" % (k, getattr(sa, k)) for k in sa.keys),
                )
            )
    return "\n".join(out)


DUMP = dump_sets()
DIGEST = hashlib.sha256(DUMP.encode()).hexdigest()
EXPECTED_DIGEST = "9872c0eb50fc56479beb3cf31fa96a0a177fc3ee838e6d90a578f761d84824ba"
check(DIGEST == EXPECTED_DIGEST, "command set tables changed: %s" % DIGEST)

# all OpCode objects are distinct between the sets
_all_ops = [getattr(e, k) for e in (spc, sbc, ssc, smc, mmc) for k in e.keys]
check(len(set(map(id, _all_ops))) == len(_all_ops), "OpCode objects shared")
check(len({id(e) for e in (spc, sbc, ssc, smc, mmc)}) == 5, "sets not distinct")
check(
    [len(e.keys) for e in (spc, sbc, ssc, smc, mmc)] == [27, 77, 51, 46, 48],
    "set sizes %r" % ([len(e.keys) for e in (spc, sbc, ssc, smc, mmc)],),
)
for e in (spc, sbc, ssc, smc, mmc):
    check(e.INQUIRY.value == 0x12, "INQUIRY opcode")
    check(e.TEST_UNIT_READY.value == 0x00, "TUR opcode")
    check(e.REPORT_LUNS.value == 0xA0, "REPORT LUNS opcode")
    check(e[0x12] == "", "Enum item lookup of a number")
    check(e[e.INQUIRY] == "INQUIRY", "Enum reverse lookup")
check(scsi_enum_command.spc is spc and scsi_enum_command.mmc is mmc, "module attrs")
check(scsi_enum_command.SCSI_STATUS.CHECK_CONDITION == 2, "status enum")
check(scsi_enum_command.OPCODE.INQUIRY == 0x12, "obsolete enum")
check(scsi_enum_command.SERVICE_ACTION_IN.READ_CAPACITY_16 == 0x10, "obsolete sa enum")
for dname in ("spc_opcodes", "sbc_opcodes", "ssc_opcodes", "smc_opcodes", "mmc_opcodes"):
    d = getattr(scsi_enum_command, dname)
    e = getattr(scsi_enum_command, dname[:3])
    check(type(d) is dict and list(d) == e.keys, "dict %s vs enum keys" % dname)
    check(all(d[k] is getattr(e, k) for k in d), "dict %s objects" % dname)


# --------------------------------------------------------------------------
# duck-typed device: records everything the facade does to it
# --------------------------------------------------------------------------
class Sentinel(object):
    """a caller supplied command set (has the primary commands)"""

    def __init__(self):
        self.INQUIRY = spc.INQUIRY
        self.TEST_UNIT_READY = spc.TEST_UNIT_READY
        self.REPORT_LUNS = spc.REPORT_LUNS


class DuckDevice(object):
    def __init__(self, type_byte, opcodes=spc, fail=None):
        self.events = []
        self._type_byte = type_byte
        self._oc = opcodes
        self._fail = fail
        self.closed = 0

    @property
    def opcodes(self):
        return self._oc

    @opcodes.setter
    def opcodes(self, value):
        self.events.append(("set_opcodes", value))
        self._oc = value

    @property
    def devicetype(self):
        return self._dt

    @devicetype.setter
    def devicetype(self, value):
        self.events.append(("set_devicetype", value))
        self._dt = value

    def execute(self, cmd, en_raw_sense=False):
        self.events.append(
            ("execute", bytes(cmd.cdb), bytes(cmd.dataout), len(cmd.datain), en_raw_sense)
        )
        if self._fail is not None:
            raise self._fail
        if cmd.cdb[0] == 0x12 and len(cmd.datain):
            cmd.datain[0] = self._type_byte
            if len(cmd.datain) > 4:
                cmd.datain[4] = len(cmd.datain) - 5

    def close(self):
        self.closed += 1


def executes(dev):
    return [e for e in dev.events if e[0] == "execute"]


def check_attach_events(dev, devtype, default, label):
    """exactly: one standard INQUIRY, then devicetype, then (maybe) opcodes"""
    ev = dev.events
    check(len(ev) >= 2, "%s: events %r" % (label, ev))
    check(
        ev[0] == ("execute", STD_INQUIRY_CDB, b"", 96, False),
        "%s: first event %r" % (label, ev[0]),
    )
    check(ev[1] == ("set_devicetype", devtype), "%s: second event %r" % (label, ev[1]))
    check(type(ev[1][1]) is int, "%s: devicetype type" % label)
    if devtype in EXPECT:
        check(len(ev) == 3, "%s: events %r" % (label, ev))
        check(
            ev[2][0] == "set_opcodes" and ev[2][1] is EXPECT[devtype],
            "%s: third event %s" % (label, nm(ev[2][1])),
        )
    else:
        check(len(ev) == 2, "%s: events %r" % (label, ev))
    check(dev.opcodes is expected_for(devtype, default), "%s: opcodes %s" % (label, nm(dev.opcodes)))
    check(dev.devicetype == devtype, "%s: devicetype" % label)
    check(dev.closed == 0, "%s: closed" % label)


def check_primary(s, dev, label):
    """the selected set still offers INQUIRY / TEST UNIT READY / REPORT LUNS"""
    oc = dev.opcodes
    check(oc.INQUIRY.value == 0x12, label + ": INQUIRY")
    check(oc.TEST_UNIT_READY.value == 0x00, label + ": TUR")
    check(oc.REPORT_LUNS.value == 0xA0, label + ": REPORT_LUNS")
    n = len(dev.events)
    i = s.inquiry()
    check(bytes(i.cdb) == STD_INQUIRY_CDB, label + ": inquiry cdb")
    check(i.result["peripheral_device_type"] == dev.devicetype, label + ": inquiry result")
    t = s.testunitready()
    check(bytes(t.cdb) == bytes(6), label + ": tur cdb")
    r = s.reportluns()
    check(
        bytes(r.cdb) == bytes([0xA0, 0, 0, 0, 0, 0, 0, 0, 0, 0x60, 0, 0]),
        label + ": report luns cdb %r" % bytes(r.cdb),
    )
    i2 = s.inquiry(evpd=1, page_code=0x80, alloclen=200)
    check(bytes(i2.cdb) == bytes([0x12, 1, 0x80, 0, 200, 0]), label + ": vpd inquiry cdb")
    check(len(dev.events) == n + 4, label + ": 4 commands executed")
    check(all(e[0] == "execute" for e in dev.events[n:]), label + ": no reselection by commands")


# which facade commands work with which set (probe attribute -> sets that have it)
CAPS = [
    ("read10", (0, 1), 0x28, {sbc, mmc}),
    ("read16", (0, 1), 0x88, {sbc, ssc}),
    ("readcapacity10", (), 0x25, {sbc}),
    ("readcapacity16", (), 0x9E, {sbc}),
    ("movemedium", (0, 1, 2), 0xA5, {smc}),
    ("readelementstatus", (0, 1), 0xB8, {smc}),
    ("initializeelementstatus", (), 0x07, {smc}),
    ("readcd", (0, 1), 0xBE, {mmc}),
    ("readdiscinformation", (0,), 0x51, {mmc}),
    ("modesense6", (0x3F,), 0x1A, {spc, sbc, ssc, smc}),
    ("modesense10", (0x3F,), 0x5A, {spc, sbc, ssc, smc, mmc}),
    ("reportpriority", (), 0xA3, {spc, sbc, ssc, smc}),
    ("synchronizecache10", (0, 1), 0x35, {sbc}),
    ("preventallowmediumremoval", (), 0x1E, {spc, sbc, ssc, smc, mmc}),
]


def check_caps(s, dev, label):
    oc = dev.opcodes
    if not any(oc is e for e in (spc, sbc, ssc, smc, mmc)):
        return
    s.blocksize = 512
    for meth, args, opc, sets in CAPS:
        n = len(executes(dev))
        try:
            getattr(s, meth)(*args)
            ok = True
        except (AttributeError, StopIteration):
            ok = False
        except Exception:
            # unmarshalling an all-zero answer may fail; the command was sent
            ok = len(executes(dev)) == n + 1
        check(ok == (oc in sets), "%s: %s availability %r with %s" % (label, meth, ok, nm(oc)))
        if ok:
            check(executes(dev)[-1][1][0] == opc, "%s: %s opcode" % (label, meth))
        else:
            check(len(executes(dev)) == n, "%s: %s must not send" % (label, meth))


# --------------------------------------------------------------------------
# 1. attaching duck devices: every type x every qualifier x several defaults
# --------------------------------------------------------------------------
for default_name, mk_default in (
    ("spc", lambda: spc),
    ("sentinel", Sentinel),
    ("smc", lambda: smc),
):
    for devtype in range(32):
        for qual in range(8):
            default = mk_default()
            dev = DuckDevice((qual << 5) | devtype, opcodes=default)
            s = SCSI(dev)
            label = "attach duck type=%#x qual=%d default=%s" % (devtype, qual, default_name)
            check(s.device is dev, label + ": device")
            check(s.blocksize == 0, label + ": blocksize")
            check_attach_events(dev, devtype, default, label)
            if qual in (0, 3, 7):
                check_primary(s, dev, label)
            if qual == 0:
                check_caps(s, dev, label)

# blocksize argument is kept and does not disturb the selection
for bs in (0, 512, 4096, None, "x"):
    dev = DuckDevice(0x05)
    s = SCSI(dev, bs)
    check(s.blocksize == bs and dev.opcodes is mmc, "blocksize positional %r" % (bs,))
    dev = DuckDevice(0x08)
    s = SCSI(dev, blocksize=bs)
    check(s.blocksize == bs and dev.opcodes is smc, "blocksize keyword %r" % (bs,))
    s.blocksize = 1234
    check(s.blocksize == 1234 and len(dev.events) == 3, "blocksize setter")
dev = DuckDevice(0x01)
s = SCSI(dev=dev)
check(dev.opcodes is ssc, "dev keyword")

# --------------------------------------------------------------------------
# 2. no device: nothing is sent, nothing fails
# --------------------------------------------------------------------------
s = SCSI(None)
check(s.device is None and s.blocksize == 0, "SCSI(None)")
s = SCSI(None, 512)
check(s.device is None and s.blocksize == 512, "SCSI(None, 512)")
check(s(None) is None and s.device is None, "call with None")
dev = DuckDevice(0x08)
check(s(dev) is None, "__call__ returns None")
check(s.device is dev and s.blocksize == 512, "attach after None")
check_attach_events(dev, 0x08, spc, "attach after None")
n = len(dev.events)
s(None)
check(s.device is None and len(dev.events) == n and dev.opcodes is smc, "detach with None")
for falsy in (0, "", [], False):
    # only None means "no device"
    try:
        SCSI(falsy)
        check(False, "falsy device %r accepted" % (falsy,))
    except AttributeError:
        check(True, "")

# --------------------------------------------------------------------------
# 3. re-attaching: all ordered pairs of types
# --------------------------------------------------------------------------
for t1 in range(32):
    for t2 in range(32):
        d1 = DuckDevice(t1)
        d2 = DuckDevice(0x60 | t2)
        s = SCSI(d1, 512)
        n1 = len(d1.events)
        oc1 = d1.opcodes
        r = s(d2)
        label = "reattach %#x -> %#x" % (t1, t2)
        check(r is None, label + ": return value")
        check(s.device is d2, label + ": device")
        check(s.blocksize == 512, label + ": blocksize")
        check(len(d1.events) == n1, label + ": first device touched")
        check(d1.opcodes is oc1 and d1.devicetype == t1, label + ": first device changed")
        check_attach_events(d2, t2, spc, label)
        check(d2.opcodes is expected_for(t2, spc), label + ": leak")
        # and back again: the first device is probed anew
        s(d1)
        check(s.device is d1, label + ": back device")
        check(len(d2.events) == (3 if t2 in EXPECT else 2), label + ": second touched")
        back = d1.events[n1:]
        check(back[0] == ("execute", STD_INQUIRY_CDB, b"", 96, False), label + ": back inquiry")
        check(back[1] == ("set_devicetype", t1), label + ": back devicetype")
        check(len(back) == (3 if t1 in EXPECT else 2), label + ": back events")
        check(d1.opcodes is expected_for(t1, spc), label + ": back opcodes")

# a long chain over one facade, also attaching the same device repeatedly
s = SCSI(None)
chain = [DuckDevice(t) for t in (0, 5, 0x1F, 8, 3, 1, 0x0C, 4, 5, 5, 0x0D, 7, 2, 9, 6, 0x11)]
for idx, dev in enumerate(chain):
    s(dev)
    s(dev)
    check(len(executes(dev)) == 2, "chain: two probes")
    check(dev.opcodes is expected_for(dev.devicetype, spc), "chain %d" % idx)
    check_primary(s, dev, "chain %d" % idx)
    for other in chain[:idx]:
        check(other.opcodes is expected_for(other.devicetype, spc), "chain: earlier device")
        check(len(executes(other)) == 6, "chain: earlier device untouched")

# a device that changes its type between two attachments
dev = DuckDevice(0x00)
s = SCSI(dev)
check(dev.opcodes is sbc, "changing device 1")
dev._type_byte = 0x05
s(dev)
check(dev.opcodes is mmc and dev.devicetype == 5, "changing device 2")
dev._type_byte = 0x1E
s(dev)
check(dev.opcodes is mmc and dev.devicetype == 0x1E, "changing device 3 (keeps the device's set)")
check_primary(s, dev, "changing device 3")
dev._type_byte = 0x03
s(dev)
check(dev.opcodes is spc and dev.devicetype == 3, "changing device 4")

# two facades on one device
dev = DuckDevice(0x08)
sa = SCSI(dev)
sb = SCSI(dev)
check(dev.opcodes is smc and len(executes(dev)) == 2, "two facades")

# --------------------------------------------------------------------------
# 4. failures while probing
# --------------------------------------------------------------------------
class Boom(Exception):
    pass


for exc in (Boom("x"), ValueError("v"), KeyError("k"), IndexError("i"), TypeError("t"), AttributeError("a"), LookupError("l")):
    sent = Sentinel()
    dev = DuckDevice(0x05, opcodes=sent, fail=exc)
    try:
        SCSI(dev)
        check(False, "constructor swallowed %r" % (exc,))
    except type(exc) as got:
        check(got is exc, "constructor exception identity")
    check(dev.opcodes is sent, "failed probe changed opcodes")
    check(len(dev.events) == 1 and dev.events[0][0] == "execute", "failed probe events")
    check(not hasattr(dev, "_dt"), "failed probe set devicetype")

    good = DuckDevice(0x01)
    s = SCSI(good, 7)
    try:
        s(dev)
        check(False, "call swallowed %r" % (exc,))
    except type(exc) as got:
        check(got is exc, "call exception identity")
    check(s.device is dev, "facade device after failed re-attach")
    check(s.blocksize == 7, "blocksize after failed re-attach")
    check(dev.opcodes is sent and len(dev.events) == 2, "failed re-attach device state")
    check(good.opcodes is ssc and len(good.events) == 3, "previous device after failed re-attach")
    s(good)
    check(s.device is good and good.opcodes is ssc and len(executes(good)) == 2, "recover")


class RefusingDevice(DuckDevice):
    """setters that refuse: errors must surface, in the original order"""

    def __init__(self, type_byte, refuse):
        DuckDevice.__init__(self, type_byte)
        self._refuse = refuse

    @property
    def opcodes(self):
        return self._oc

    @opcodes.setter
    def opcodes(self, value):
        self.events.append(("set_opcodes", value))
        if self._refuse == "opcodes":
            raise ValueError("no opcodes")
        self._oc = value

    @property
    def devicetype(self):
        return self._dt

    @devicetype.setter
    def devicetype(self, value):
        self.events.append(("set_devicetype", value))
        if self._refuse == "devicetype":
            raise ValueError("no devicetype")
        self._dt = value


for devtype in range(12):
    dev = RefusingDevice(devtype, "opcodes")
    try:
        SCSI(dev)
        check(devtype not in EXPECT, "refused opcodes swallowed %#x" % devtype)
    except ValueError as e:
        check(devtype in EXPECT and str(e) == "no opcodes", "refused opcodes raised %#x" % devtype)
    check(dev.opcodes is spc and dev.devicetype == devtype, "refusing device state")
    dev = RefusingDevice(devtype, "devicetype")
    try:
        SCSI(dev)
        check(False, "refused devicetype swallowed")
    except ValueError as e:
        check(str(e) == "no devicetype", "refused devicetype message")
    check(len(dev.events) == 2 and dev.opcodes is spc, "refused devicetype: no opcodes set")

# --------------------------------------------------------------------------
# 5. subclasses: the probe goes through the public inquiry()/execute() methods
# --------------------------------------------------------------------------
class FakeInquiry(object):
    def __init__(self, value):
        self.result = {"peripheral_device_type": value}


class ScriptedSCSI(SCSI):
    """a facade whose inquiry() answers are scripted"""

    script = None
    calls = None

    def inquiry(self, *args, **kwargs):
        self.calls.append((args, kwargs))
        return FakeInquiry(self.script.pop(0))


class Weird(object):
    def __eq__(self, other):
        return False

    __hash__ = None


UNUSUAL = [
    (True, ssc),
    (False, sbc),
    (0.0, sbc),
    (5.0, mmc),
    (8.0, smc),
    (3.0, spc),
    (9.0, ssc),
    (4 + 0j, sbc),
    (7.0000001, None),
    (-1, None),
    (-0.0, sbc),
    (6, None),
    (10, None),
    (0x1F, None),
    (32, None),
    (256, None),
    (2 ** 70, None),
    ("5", None),
    ("", None),
    (b"\x05", None),
    (None, None),
    ([5], None),
    ((5,), None),
    ({5}, None),
    ({"a": 5}, None),
    (Weird(), None),
    (float("nan"), None),
    (float("inf"), None),
]
for value, want in UNUSUAL:
    for default in (spc, smc):
        ScriptedSCSI.script = [value]
        ScriptedSCSI.calls = []
        dev = DuckDevice(0x00, opcodes=default)
        s = ScriptedSCSI(dev)
        label = "scripted %r" % (value,)
        check(ScriptedSCSI.calls == [((), {})], label + ": inquiry call %r" % (ScriptedSCSI.calls,))
        check(executes(dev) == [], label + ": nothing sent")
        check(dev.events[0][0] == "set_devicetype" and dev.events[0][1] is value, label + ": devicetype")
        if want is None:
            check(len(dev.events) == 1 and dev.opcodes is default, label + ": kept default")
        else:
            check(
                len(dev.events) == 2 and dev.events[1][1] is want and dev.opcodes is want,
                label + ": got %s" % nm(dev.opcodes),
            )

# scripted re-attachment sequence
ScriptedSCSI.script = [0, 5, 99, 8, 3, 1, 4, 7, 2, 9, 6]
ScriptedSCSI.calls = []
s = ScriptedSCSI(DuckDevice(0))
for want_type in (5, 99, 8, 3, 1, 4, 7, 2, 9, 6):
    dev = DuckDevice(0)
    s(dev)
    check(dev.devicetype == want_type, "scripted chain type")
    check(dev.opcodes is expected_for(want_type, spc), "scripted chain %d" % want_type)
check(ScriptedSCSI.script == [] and len(ScriptedSCSI.calls) == 11, "scripted chain calls")


class CountingSCSI(SCSI):
    """counts what goes through the facade's own execute()"""

    def execute(self, cmd, en_raw_sense=False):
        self.__dict__.setdefault("seen", []).append(bytes(cmd.cdb))
        return SCSI.execute(self, cmd, en_raw_sense=en_raw_sense)


for devtype in range(32):
    dev = DuckDevice(devtype)
    s = CountingSCSI(dev)
    check(s.seen == [STD_INQUIRY_CDB], "counting facade %#x" % devtype)
    d2 = DuckDevice(0x08)
    s(d2)
    check(s.seen == [STD_INQUIRY_CDB] * 2, "counting facade re-attach")
    check(dev.opcodes is expected_for(devtype, spc) and d2.opcodes is smc, "counting facade sets")


class LateSCSI(SCSI):
    """like tests/mock_device.MockSCSI: constructor does not probe"""

    def __init__(self, dev):
        self.device = dev


dev = DuckDevice(0x05)
s = LateSCSI(dev)
check(dev.events == [] and dev.opcodes is spc, "late facade: no probe in constructor")
s(dev)
check(dev.opcodes is mmc and len(dev.events) == 3, "late facade: probe on call")
d2 = DuckDevice(0x02)
s(d2)
check(d2.opcodes is ssc and s.device is d2 and len(dev.events) == 3, "late facade: re-attach")

# --------------------------------------------------------------------------
# 6. context manager use
# --------------------------------------------------------------------------
dev = DuckDevice(0x08)
with SCSI(dev) as s:
    check(s.device is dev and dev.opcodes is smc and dev.closed == 0, "with: inside")
    d2 = DuckDevice(0x05)
    s(d2)
check(dev.closed == 0 and d2.closed == 1 and d2.opcodes is mmc, "with: closes current device")

# --------------------------------------------------------------------------
# 7. the real device classes on top of the fake bindings
# --------------------------------------------------------------------------
def fresh_sg(path="/dev/null"):
    return SCSIDevice(path)


def fresh_iscsi(url="iscsi://127.0.0.1/iqn.fake/0"):
    return ISCSIDevice(url)


for maker, kind, ident in (
    (fresh_sg, "sgio", "/dev/null"),
    (fresh_iscsi, "iscsi", "iscsi://127.0.0.1/iqn.fake/0"),
):
    # a new device carries the primary command set and no device type yet
    dev = maker()
    check(dev.opcodes is spc, kind + ": default opcodes")
    try:
        dev.devicetype
        check(False, kind + ": devicetype before attach")
    except AttributeError as e:
        check("_devicetype" in str(e), kind + ": devicetype error text %s" % e)
    dev.opcodes = smc
    check(dev.opcodes is smc, kind + ": opcodes setter")
    dev.devicetype = 0x33
    check(dev.devicetype == 0x33, kind + ": devicetype setter")
    dev.close()

    for devtype in range(32):
        for qual in (0, 1, 3, 7):
            WIRE["type_byte"] = (qual << 5) | devtype
            WIRE["log"] = []
            dev = maker()
            check(WIRE["log"] == [], kind + ": opening sends nothing")
            s = SCSI(dev)
            label = "%s type=%#x qual=%d" % (kind, devtype, qual)
            check(
                WIRE["log"] == [(kind, ident, STD_INQUIRY_CDB, b"", 96)],
                label + ": wire %r" % (WIRE["log"],),
            )
            check(dev.devicetype == devtype, label + ": devicetype")
            check(dev.opcodes is expected_for(devtype, spc), label + ": opcodes %s" % nm(dev.opcodes))
            oc = dev.opcodes
            check(oc.INQUIRY.value == 0x12 and oc.TEST_UNIT_READY.value == 0 and oc.REPORT_LUNS.value == 0xA0, label + ": primary")
            s.testunitready()
            s.reportluns()
            i = s.inquiry()
            check(i.result["peripheral_device_type"] == devtype, label + ": inquiry again")
            check(i.result["peripheral_qualifier"] == qual, label + ": qualifier")
            check([e[2][0] for e in WIRE["log"]] == [0x12, 0x00, 0xA0, 0x12], label + ": wire opcodes")
            check(dev.opcodes is oc, label + ": commands do not reselect")
            dev.close()

    # re-attaching across real devices (and mixing with the other kind)
    WIRE["type_byte"] = 0x00
    first = maker()
    s = SCSI(first, 512)
    check(first.opcodes is sbc, kind + ": first")
    for devtype in list(range(32)) + [5, 0x1F, 0, 0x10, 8]:
        WIRE["type_byte"] = devtype
        WIRE["log"] = []
        nxt = maker()
        s(nxt)
        label = "%s re-attach %#x" % (kind, devtype)
        check(len(WIRE["log"]) == 1 and WIRE["log"][0][2] == STD_INQUIRY_CDB, label + ": one inquiry")
        check(s.device is nxt and s.blocksize == 512, label + ": facade")
        check(nxt.opcodes is expected_for(devtype, spc), label + ": opcodes %s" % nm(nxt.opcodes))
        check(nxt.devicetype == devtype, label + ": devicetype")
        check(first.opcodes is sbc and first.devicetype == 0, label + ": first untouched")
        nxt.close()
    first.close()

    # failures of the transport surface and leave the default in place
    WIRE["type_byte"] = 0x05
    WIRE["fail"] = Boom("wire")
    dev = maker()
    try:
        SCSI(dev)
        check(False, kind + ": wire failure swallowed")
    except Boom:
        check(True, "")
    WIRE["fail"] = None
    check(dev.opcodes is spc, kind + ": default after failure")
    try:
        dev.devicetype
        check(False, kind + ": devicetype after failure")
    except AttributeError:
        check(True, "")
    s = SCSI(dev)
    check(dev.opcodes is mmc and dev.devicetype == 5, kind + ": retry")
    dev.close()

# CHECK CONDITION on the probing INQUIRY (sgio)
WIRE["fail"] = CheckConditionError(bytes([0x70, 0, 0x05, 0, 0, 0, 0, 10, 0, 0, 0, 0, 0x20, 0, 0, 0, 0, 0]))
dev = SCSIDevice("/dev/null")
try:
    SCSI(dev)
    check(False, "check condition swallowed")
except SCSIDevice.CheckCondition:
    check(True, "")
WIRE["fail"] = None
check(dev.opcodes is spc, "check condition: default kept")
dev.close()

# mixed kinds under one facade
WIRE["type_byte"] = 0x01
a = SCSIDevice("/dev/null")
s = SCSI(a)
WIRE["type_byte"] = 0x08
b = ISCSIDevice("iscsi://127.0.0.1/iqn.fake/0")
s(b)
WIRE["type_byte"] = 0x0E
c = SCSIDevice("/dev/zero", readwrite=False, detect_replugged=False)
s(c)
d = DuckDevice(0x05)
s(d)
check(
    (a.opcodes, b.opcodes, c.opcodes, d.opcodes) == (ssc, smc, spc, mmc),
    "mixed kinds: %s" % ([nm(x.opcodes) for x in (a, b, c, d)],),
)
check((a.devicetype, b.devicetype, c.devicetype, d.devicetype) == (1, 8, 0x0E, 5), "mixed devicetypes")
a.close()
b.close()
c.close()

# unsupported device names are rejected before anything is sent
WIRE["log"] = []
for cls, bad in (
    (SCSIDevice, "iscsi://127.0.0.1/iqn.fake/0"),
    (SCSIDevice, "dev/null"),
    (SCSIDevice, ""),
    (ISCSIDevice, "/dev/null"),
    (ISCSIDevice, "iscsi:/x"),
    (ISCSIDevice, ""),
):
    try:
        cls(bad)
        check(False, "bad name accepted %r" % bad)
    except NotImplementedError as e:
        check(str(e) == "No backend implemented for %s" % bad, "bad name message %r" % str(e))
check(WIRE["log"] == [], "bad names: nothing sent")
check(repr(SCSIDevice("/dev/null")) == "SCSIDevice", "repr")
x = ISCSIDevice("iscsi://127.0.0.1/iqn.fake/0", initiator_name="iqn.me")
WIRE["type_byte"] = 0x09
WIRE["log"] = []
SCSI(x)
check(WIRE["log"] == [("iscsi", "iqn.me", STD_INQUIRY_CDB, b"", 96)], "initiator name")
check(x.opcodes is ssc, "initiator name: opcodes")
with SCSIDevice("/dev/null") as dv:
    WIRE["type_byte"] = 0x07
    with SCSI(dv) as s:
        check(dv.opcodes is sbc, "nested with")
check(WIRE["last_file"].closed, "nested with closed")

print("PASS (%d checks)" % CHECKS[0])
