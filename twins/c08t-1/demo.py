#!/usr/bin/env python
# coding: utf-8
"""
Property C08 demo.

For every sense buffer a target can return (fixed / descriptor, current /
deferred, any sense key, any ASC/ASCQ -- assigned, unassigned, vendor
specific), the CheckCondition error can be built, converted to text and
printed without raising; the sense key / ASC / ASCQ reported are the values at
the SPC positions for the format, and assigned codes carry their T10 text.

Run as:
    cd /tmp/seed/C08t && PYTHONPATH=/tmp/seed/C08t /venv/bin/python SEED/demo.py
"""
import contextlib
import io
import random
import sys
import traceback
import types

# --------------------------------------------------------------------------
# fake external bindings (not installed): sgio and iscsi
# --------------------------------------------------------------------------
_sgio = types.ModuleType("sgio")


class _SgioCheckConditionError(Exception):
    def __init__(self, sense):
        Exception.__init__(self, "check condition")
        self.sense = sense


_sgio.CheckConditionError = _SgioCheckConditionError
_sgio.next_sense = None


def _sgio_execute(fobj, cdb, dataout, datain, *args, **kwargs):
    if _sgio.next_sense is not _sgio:
        raise _SgioCheckConditionError(_sgio.next_sense)
    return 0


_sgio.execute = _sgio_execute
_sgio.next_sense = _sgio  # sentinel: "no error"
sys.modules["sgio"] = _sgio

_iscsi = types.ModuleType("iscsi")
_iscsi.SCSI_XFER_NONE = 0
_iscsi.SCSI_XFER_READ = 1
_iscsi.SCSI_XFER_WRITE = 2
_iscsi.ISCSI_SESSION_NORMAL = 2
_iscsi.ISCSI_HEADER_DIGEST_NONE_CRC32C = 1
_iscsi.next_status = 0
_iscsi.next_sense = None
_iscsi.omit_sense = False


class _IscsiContext(object):
    def __init__(self, name):
        self.name = name

    def set_targetname(self, t):
        pass

    def set_session_type(self, t):
        pass

    def set_header_digest(self, t):
        pass

    def connect(self, portal, lun):
        pass

    def disconnect(self):
        pass

    def command(self, lun, task, dataout, datain):
        task.status = _iscsi.next_status
        if not _iscsi.omit_sense:
            task.raw_sense = _iscsi.next_sense


class _IscsiURL(object):
    def __init__(self, ctx, url):
        self.target = "iqn.fake:target"
        self.portal = "127.0.0.1"
        self.lun = 0


class _IscsiTask(object):
    def __init__(self, cdb, direction, xferlen):
        self.cdb = cdb
        self.status = 0


_iscsi.Context = _IscsiContext
_iscsi.URL = _IscsiURL
_iscsi.Task = _IscsiTask
sys.modules["iscsi"] = _iscsi

from pyscsi.pyiscsi.iscsi_device import ISCSIDevice  # noqa: E402
from pyscsi.pyscsi import scsi_sense  # noqa: E402
from pyscsi.pyscsi.scsi_device import SCSIDevice  # noqa: E402
from pyscsi.pyscsi.scsi_enum_command import SCSI_STATUS  # noqa: E402
from pyscsi.pyscsi.scsi_sense import SCSICheckCondition  # noqa: E402
from pyscsi.utils.converter import decode_bits, scsi_ba_to_int  # noqa: E402

FAILURES = []
CHECKS = [0]


def check(cond, msg):
    CHECKS[0] += 1
    if not cond:
        FAILURES.append(msg)
        if len(FAILURES) > 40:
            finish()


def finish():
    if FAILURES:
        print("FAIL (%d failures of %d checks)" % (len(FAILURES), CHECKS[0]))
        for f in FAILURES[:40]:
            print("  - " + f)
        sys.exit(1)
    print("PASS (%d checks)" % CHECKS[0])
    sys.exit(0)


# --------------------------------------------------------------------------
# an independent oracle
# --------------------------------------------------------------------------
SENSE_KEY_TEXT = {
    0x0: "No Sense",
    0x1: "Recovered Error",
    0x2: "Not Ready",
    0x3: "Medium Error",
    0x4: "Hardware Error",
    0x5: "Illegal Request",
    0x6: "Unit Attention",
    0x7: "Data Protect",
    0x8: "Blank Check",
    0x9: "Vendor Specific",
    0xA: "Copy Aborted",
    0xB: "Aborted Command",
    0xC: "Reserved",
    0xD: "Volume Overflow",
    0xE: "Miscompare",
    0xF: "Completed",
}

# a few well known T10 assignments (upper-cased for the comparison)
T10_SAMPLES = {
    0x0000: "NO ADDITIONAL SENSE INFORMATION",
    0x0001: "FILEMARK DETECTED",
    0x0002: "END-OF-PARTITION/MEDIUM DETECTED",
    0x0003: "SETMARK DETECTED",
    0x0401: "LOGICAL UNIT IS IN PROCESS OF BECOMING READY",
    0x0406: "LOGICAL UNIT NOT READY, RECALCULATION IN PROGRESS",
    0x1100: "UNRECOVERED READ ERROR",
    0x2000: "INVALID COMMAND OPERATION CODE",
    0x2100: "LOGICAL BLOCK ADDRESS OUT OF RANGE",
    0x2400: "INVALID FIELD IN CDB",
    0x2500: "LOGICAL UNIT NOT SUPPORTED",
    0x2900: "POWER ON, RESET, OR BUS DEVICE RESET OCCURRED",
    0x2A01: "MODE PARAMETERS CHANGED",
    0x3A00: "MEDIUM NOT PRESENT",
    0x3F0E: "REPORTED LUNS DATA HAS CHANGED",
    0x4700: "SCSI PARITY ERROR",
    0x5D00: "FAILURE PREDICTION THRESHOLD EXCEEDED",
}

# (name, mask, first byte) in the order the library reports the fields
FIXED_LAYOUT = [
    ("valid", 0x80, 0),
    ("response_code", 0x7F, 0),
    ("filemark", 0x80, 2),
    ("eom", 0x40, 2),
    ("ili", 0x20, 2),
    ("sdat_ovfl", 0x10, 2),
    ("sense_key", 0x0F, 2),
    ("information", 0xFFFFFFFF, 3),
    ("additional_sense_len", 0xFF, 7),
    ("command_specific_information", 0xFFFFFFFF, 8),
    ("additional_sense_code", 0xFF, 12),
    ("additional_sense_code_qualifier", 0xFF, 13),
    ("field_replaceable_unit_code", 0xFF, 14),
    ("sksv", 0x80, 15),
    ("sense_key_specific_information", 0x7FFFFF, 15),
]
DESC_LAYOUT = [
    ("response_code", 0x7F, 0),
    ("sdat_ovfl", 0x80, 4),
    ("sense_key", 0x0F, 1),
    ("additional_sense_code", 0xFF, 2),
    ("additional_sense_code_qualifier", 0xFF, 3),
    ("additional_sense_len", 0xFF, 7),
]


def oracle_field(buf, mask, pos):
    nbytes = 1
    while mask >> (8 * nbytes):
        nbytes += 1
    raw = 0
    for b in list(buf)[pos : pos + nbytes]:
        raw = raw * 256 + b
    raw &= mask
    while not mask & 1:
        mask >>= 1
        raw >>= 1
    return raw


def oracle(sense):
    """-> (valid, response_code, data(list of pairs), key, asc, ascq, text)"""
    buf = list(sense) if sense else [0]
    valid = buf[0] & 0x80
    rc = buf[0] & 0x7F
    if rc in (0x70, 0x71):
        layout = FIXED_LAYOUT
    elif rc in (0x72, 0x73):
        layout = DESC_LAYOUT
    else:
        layout = []
    data = [(n, oracle_field(buf, m, p)) for n, m, p in layout]
    d = dict(data)
    key = d.get("sense_key", 0)
    asc = d.get("additional_sense_code", 0)
    ascq = d.get("additional_sense_code_qualifier", 0)
    if asc >= 0x80:
        desc = "Vendor specific ASC"
    elif ascq >= 0x80:
        desc = "Vendor specific ASCQ"
    elif (asc << 8 | ascq) in scsi_sense.sense_ascq_dict:
        desc = scsi_sense.sense_ascq_dict[asc << 8 | ascq]
    else:
        desc = "Unknown ASC/ASCQ"
    text = "Check Condition: %s(0x%02X) ASC+Q:%s(0x%04X)" % (
        SENSE_KEY_TEXT[key],
        key,
        desc,
        asc * 256 + ascq,
    )
    return valid, rc, data, key, asc, ascq, text


def spc_positions(sense):
    """sense key/asc/ascq straight from the SPC positions (full size buffers)"""
    rc = sense[0] & 0x7F
    if rc in (0x70, 0x71):
        return sense[2] & 0x0F, sense[12], sense[13]
    return sense[1] & 0x0F, sense[2], sense[3]


def verify(sense, label, cls=SCSICheckCondition, with_print=False, deep=True):
    """build, str, print an error for one buffer and compare with the oracle"""
    try:
        exp_valid, exp_rc, exp_data, key, asc, ascq, text = oracle(sense)
    except Exception as e:  # pragma: no cover - oracle bug
        check(False, "%s: oracle failed %r" % (label, e))
        return None
    try:
        exc = cls(sense)
    except Exception as e:
        check(False, "%s: construction raised %r" % (label, e))
        return None
    try:
        got = str(exc)
    except Exception as e:
        check(False, "%s: str() raised %r" % (label, e))
        return None
    check(got == text, "%s: text %r != %r" % (label, got, text))
    check(
        type(exc.asc) is int and exc.asc == asc,
        "%s: asc %r != %r" % (label, exc.asc, asc),
    )
    check(
        type(exc.ascq) is int and exc.ascq == ascq,
        "%s: ascq %r != %r" % (label, exc.ascq, ascq),
    )
    check(
        exc.data.get("sense_key", 0) == key,
        "%s: key %r != %r" % (label, exc.data.get("sense_key"), key),
    )
    if not deep:
        return exc
    check(isinstance(exc, Exception), "%s: not an Exception" % label)
    check(exc.valid == exp_valid and type(exc.valid) is int, "%s: valid" % label)
    check(
        exc.response_code == exp_rc and type(exc.response_code) is int,
        "%s: response_code" % label,
    )
    check(exc.show_data is False, "%s: show_data default" % label)
    check(type(exc.data) is dict, "%s: data type" % label)
    check(
        list(exc.data.items()) == exp_data,
        "%s: data %r != %r" % (label, list(exc.data.items()), exp_data),
    )
    check(
        all(type(v) is int for v in exc.data.values()), "%s: data value types" % label
    )
    check(exc.args == (sense,), "%s: args %r" % (label, exc.args))
    # str() is stable and has no side effect on stdout when print_data is off
    out = io.StringIO()
    with contextlib.redirect_stdout(out):
        again = str(exc)
        print(exc)
    check(again == text, "%s: second str() differs" % label)
    check(out.getvalue() == text + "\n", "%s: print(exc) %r" % (label, out.getvalue()))
    check("%s" % exc == text and "{}".format(exc) == text, "%s: formatting" % label)
    if with_print:
        exp_lines = "".join("%s -> 0x%02X\n" % (k, v) for k, v in exp_data)
        # explicit print_data()
        out = io.StringIO()
        with contextlib.redirect_stdout(out):
            ret = exc.print_data()
        check(ret is None, "%s: print_data return" % label)
        check(out.getvalue() == exp_lines, "%s: print_data() output" % label)
        # print_data=True: the fields are printed whenever converted to text
        for mk in (
            lambda: cls(sense, True),
            lambda: cls(sense, print_data=True),
            lambda: cls(sense=sense, print_data=True),
        ):
            try:
                exc2 = mk()
                out = io.StringIO()
                with contextlib.redirect_stdout(out):
                    t2 = str(exc2)
                check(exc2.show_data is True, "%s: show_data" % label)
                check(t2 == text, "%s: text with print_data" % label)
                check(
                    out.getvalue() == exp_lines,
                    "%s: printed fields %r" % (label, out.getvalue()),
                )
                out = io.StringIO()
                with contextlib.redirect_stdout(out):
                    print(exc2)
                check(
                    out.getvalue() == exp_lines + text + "\n",
                    "%s: print with print_data" % label,
                )
            except Exception as e:
                check(False, "%s: print_data variant raised %r" % (label, e))
        # traceback rendering (what an uncaught error looks like)
        try:
            raise exc
        except SCSICheckCondition as caught:
            check(caught is exc, "%s: caught object" % label)
            lines = traceback.format_exception_only(type(caught), caught)
            prefix = cls.__qualname__
            if cls.__module__ not in ("__main__", "builtins"):
                prefix = cls.__module__ + "." + prefix
            check(
                lines[-1] == "%s: %s\n" % (prefix, text),
                "%s: traceback line %r" % (label, lines[-1]),
            )
            full = traceback.format_exc()
            check(full.endswith(text + "\n"), "%s: format_exc" % label)
    return exc


def fixed(rc, key, asc, ascq, valid=0, flags=0, info=0, csi=0, fru=0, sks=0, length=18):
    b = bytearray(max(length, 18))
    b[0] = (valid & 0x80) | rc
    b[2] = (flags & 0xF0) | key
    b[3:7] = info.to_bytes(4, "big")
    b[7] = max(length, 18) - 8
    b[8:12] = csi.to_bytes(4, "big")
    b[12] = asc
    b[13] = ascq
    b[14] = fru
    b[15:18] = sks.to_bytes(3, "big")
    return b


def descriptor(rc, key, asc, ascq, ovfl=0, descs=b"", hibits=0):
    b = bytearray(8)
    b[0] = rc | (0x80 if hibits else 0)
    b[1] = key | (0xF0 if hibits else 0)
    b[2] = asc
    b[3] = ascq
    b[4] = 0x80 if ovfl else 0
    b[7] = len(descs)
    return b + bytearray(descs)


def main():
    rnd = random.Random(0xC08)

    # ---- 0. the tables the text comes from are sane --------------------
    check(dict(scsi_sense.sense_key_dict) == {
        k: v for k, v in SENSE_KEY_TEXT.items() if k != 0xC
    }, "sense_key_dict content")
    for code, txt in T10_SAMPLES.items():
        check(
            scsi_sense.sense_ascq_dict.get(code, "").upper() == txt,
            "T10 text for %04X" % code,
        )
    check(len(scsi_sense.sense_ascq_dict) >= 700, "ASC/ASCQ table size")
    check(
        all(
            type(k) is int and 0 <= k <= 0xFFFF and type(v) is str and v
            for k, v in scsi_sense.sense_ascq_dict.items()
        ),
        "ASC/ASCQ table shape",
    )
    check(scsi_sense.SENSE_FORMAT_CURRENT_FIXED == 0x70, "const 70")
    check(scsi_sense.SENSE_FORMAT_DEFERRED_FIXED == 0x71, "const 71")
    check(scsi_sense.SENSE_FORMAT_CURRENT_DESCRIPTOR == 0x72, "const 72")
    check(scsi_sense.SENSE_FORMAT_DEFERRED_DESCRIPTOR == 0x73, "const 73")

    # ---- 1. every ASC/ASCQ pair, both format families ------------------
    rcs = (0x70, 0x71, 0x72, 0x73)
    n = 0
    for asc in range(256):
        for ascq in range(256):
            for fam in (0, 2):
                rc = rcs[fam + (n & 1)]
                key = (n * 7 + asc + ascq) & 0x0F
                n += 1
                if fam == 0:
                    s = fixed(rc, key, asc, ascq, valid=0x80 if n % 3 == 0 else 0)
                else:
                    s = descriptor(rc, key, asc, ascq)
                exc = verify(s, "all-ascq rc=%02X %02X/%02X" % (rc, asc, ascq), deep=False)
                if exc is None:
                    continue
                k, a, q = spc_positions(s)
                check(
                    (exc.data["sense_key"], exc.asc, exc.ascq) == (k, a, q),
                    "positions rc=%02X %02X/%02X" % (rc, asc, ascq),
                )
                code = asc << 8 | ascq
                if asc < 0x80 and ascq < 0x80 and code in scsi_sense.sense_ascq_dict:
                    check(
                        ":%s(0x%04X)" % (scsi_sense.sense_ascq_dict[code], code)
                        in str(exc),
                        "assigned text %04X" % code,
                    )

    # ---- 2. every key x format x interesting ASC/ASCQ, in depth --------
    interesting = sorted(T10_SAMPLES) + [
        0x0100, 0x7F7F, 0x7F00, 0x007F, 0x0080, 0x00FF, 0x8000, 0x80FF, 0xFF00,
        0xFFFF, 0xFF7F, 0x7FFF, 0x7F80, 0x807F, 0x8080, 0x0D0D, 0x4098, 0x4080,
        0x407F, 0x2A7F, 0x7E00,
    ]
    for rc in rcs:
        for key in range(16):
            for code in interesting:
                asc, ascq = code >> 8, code & 0xFF
                if rc in (0x70, 0x71):
                    s = fixed(
                        rc, key, asc, ascq,
                        valid=rnd.choice((0, 0x80)),
                        flags=rnd.choice((0, 0x80, 0x40, 0x20, 0x10, 0xF0)),
                        info=rnd.getrandbits(32),
                        csi=rnd.getrandbits(32),
                        fru=rnd.getrandbits(8),
                        sks=rnd.getrandbits(24),
                        length=rnd.choice((18, 18, 24, 32, 96, 252)),
                    )
                else:
                    descs = bytes(rnd.getrandbits(8) for _ in range(rnd.choice((0, 4, 12, 32, 244))))
                    s = descriptor(rc, key, asc, ascq, ovfl=rnd.getrandbits(1),
                                   descs=descs, hibits=rnd.getrandbits(1))
                verify(s, "deep rc=%02X key=%X %04X" % (rc, key, code),
                       with_print=(key in (0, 5, 0xC, 0xF) or code in (0x2400, 0xFFFF)))

    # text spot checks written out in full
    spot = [
        (fixed(0x70, 5, 0x24, 0x00), "Check Condition: Illegal Request(0x05) ASC+Q:%s(0x2400)" % scsi_sense.sense_ascq_dict[0x2400]),
        (fixed(0x71, 2, 0x04, 0x01), "Check Condition: Not Ready(0x02) ASC+Q:LOGICAL UNIT IS IN PROCESS OF BECOMING READY(0x0401)"),
        (descriptor(0x72, 6, 0x29, 0x00), "Check Condition: Unit Attention(0x06) ASC+Q:POWER ON, RESET, OR BUS DEVICE RESET OCCURRED(0x2900)"),
        (descriptor(0x73, 3, 0x11, 0x00), "Check Condition: Medium Error(0x03) ASC+Q:UNRECOVERED READ ERROR(0x1100)"),
        (descriptor(0x72, 0xC, 0x7E, 0x7E), "Check Condition: Reserved(0x0C) ASC+Q:Unknown ASC/ASCQ(0x7E7E)"),
        (fixed(0x70, 9, 0x80, 0x01), "Check Condition: Vendor Specific(0x09) ASC+Q:Vendor specific ASC(0x8001)"),
        (fixed(0x70, 4, 0x44, 0x80), "Check Condition: Hardware Error(0x04) ASC+Q:Vendor specific ASCQ(0x4480)"),
        (fixed(0xF0, 0, 0x00, 0x00), "Check Condition: No Sense(0x00) ASC+Q:NO ADDITIONAL SENSE INFORMATION(0x0000)"),
        (descriptor(0x72, 0xF, 0xFF, 0xFF), "Check Condition: Completed(0x0F) ASC+Q:Vendor specific ASC(0xFFFF)"),
        (bytearray(b"\x00" * 18), "Check Condition: No Sense(0x00) ASC+Q:NO ADDITIONAL SENSE INFORMATION(0x0000)"),
    ]
    for s, text in spot:
        try:
            check(str(SCSICheckCondition(s)) == text, "spot %r" % text)
        except Exception as e:
            check(False, "spot %r raised %r" % (text, e))

    # ---- 3. unusual buffers: none/empty/short/long/other types ---------
    for s in (None, b"", bytearray(), [], ()):
        verify(s, "empty %r" % (s,), with_print=True)
    base_f = fixed(0x70, 5, 0x24, 0x00, valid=0x80, flags=0xF0, info=0xDEADBEEF,
                   csi=0x01020304, fru=0x7F, sks=0xC12345, length=40)
    base_d = descriptor(0x72, 6, 0x29, 0x00, ovfl=1, descs=bytes(range(1, 41)))
    for base in (base_f, base_d):
        for rc in (base[0], base[0] ^ 1, (base[0] ^ 1) | 0x80):
            for ln in range(1, len(base) + 1):
                s = bytearray(base[:ln])
                s[0] = rc
                verify(s, "truncated rc=%02X len=%d" % (rc, ln), with_print=(ln < 20))
    big = fixed(0x71, 0xB, 0x47, 0x00, length=252) + bytearray(rnd.getrandbits(8) for _ in range(4000))
    verify(big, "oversized fixed", with_print=True)
    verify(descriptor(0x73, 0xB, 0x47, 0x00) + bytes(5000), "oversized descriptor", with_print=True)
    for make in (bytes, bytearray, list, tuple, memoryview):
        for base in (base_f, base_d, bytearray(b"\x70"), bytearray(b"\xf3\xff"),
                     bytearray(b"\x05\x01\x02\x03")):
            src = bytes(base) if make is memoryview else base
            verify(make(src), "type %s %s" % (make.__name__, bytes(base[:4]).hex()),
                   with_print=True)
    # response codes that are not sense data formats: nothing decoded
    for first in range(256):
        s = bytearray(rnd.getrandbits(8) for _ in range(rnd.choice((1, 2, 8, 18, 32))))
        s[0] = first
        exc = verify(s, "response code %02X" % first, with_print=(first % 16 == 0))
        if exc is not None and (first & 0x7F) not in rcs:
            check(exc.data == {} and exc.asc == 0 and exc.ascq == 0, "non-sense rc %02X" % first)
            check(str(exc) == "Check Condition: No Sense(0x00) ASC+Q:NO ADDITIONAL SENSE INFORMATION(0x0000)",
                  "non-sense text %02X" % first)

    # ---- 4. random buffers ---------------------------------------------
    for i in range(6000):
        ln = rnd.choice((1, 2, 3, 4, 7, 8, 12, 13, 14, 15, 16, 17, 18, 19, 24, 32, 64, 255))
        s = bytearray(rnd.getrandbits(8) for _ in range(ln))
        if i % 4:
            s[0] = rnd.choice(rcs) | rnd.choice((0, 0x80))
        if i % 5 == 0:
            s = bytes(s)
        verify(s, "random #%d %s" % (i, bytes(s[:20]).hex()), with_print=(i % 50 == 0))

    # ---- 5. the public unmarshallers ------------------------------------
    for i in range(400):
        s = bytearray(rnd.getrandbits(8) for _ in range(rnd.choice((0, 1, 5, 13, 18, 40))))
        buf = list(s)
        for holder in (SCSICheckCondition, SCSICheckCondition(s or None), SCSIDevice.CheckCondition):
            try:
                f = holder.unmarshall_fixed_format_sense_data(s)
                d = holder.unmarshall_desc_format_sense_data(s)
                f2 = holder.unmarshall_fixed_format_sense_data(data=s)
            except Exception as e:
                check(False, "unmarshall raised %r" % e)
                continue
            check(list(f.items()) == [(n_, oracle_field(buf, m, p)) for n_, m, p in FIXED_LAYOUT],
                  "unmarshall fixed #%d" % i)
            check(list(d.items()) == [(n_, oracle_field(buf, m, p)) for n_, m, p in DESC_LAYOUT],
                  "unmarshall desc #%d" % i)
            check(f == f2 and f is not f2, "unmarshall returns fresh dicts")

    # ---- 6. the converter helpers this rests on -------------------------
    for i in range(3000):
        ln = rnd.choice((0, 1, 2, 3, 4, 8, 16, 33))
        raw = bytes(rnd.getrandbits(8) for _ in range(ln))
        want = int.from_bytes(raw, "big")
        for make in (bytes, bytearray, list):
            got = scsi_ba_to_int(make(raw))
            check(got == want and type(got) is int, "scsi_ba_to_int %s %s" % (make.__name__, raw.hex()))
    for i in range(3000):
        data = bytearray(rnd.getrandbits(8) for _ in range(rnd.choice((0, 1, 3, 8, 20, 40))))
        layout = {}
        expect = []
        for j in range(rnd.randint(0, 8)):
            name = "f%d" % j
            kind = rnd.randrange(5)
            if kind <= 1:
                width = rnd.randint(1, 8 * rnd.choice((1, 1, 2, 3, 4, 8, 16)))
                low = rnd.randint(0, 7)
                mask = ((1 << width) - 1) << low
                if rnd.getrandbits(1):
                    mask &= rnd.getrandbits(width + low) | (1 << low)
                pos = rnd.randint(0, 44)
                layout[name] = rnd.choice((list, tuple))((mask, pos))
                expect.append((name, oracle_field(data, mask, pos)))
            else:
                tag, mul = (("b", 1), ("w", 2), ("dw", 4))[kind - 2]
                off, cnt = rnd.randint(0, 44), rnd.randint(0, 12)
                layout[name] = (tag, off, cnt)
                expect.append((name, data[off : off + cnt * mul]))
        res = {"keep": "me"}
        try:
            ret = decode_bits(data, layout, res)
        except Exception as e:
            check(False, "decode_bits raised %r for %r" % (e, layout))
            continue
        check(ret is None, "decode_bits return")
        check(list(res.items()) == [("keep", "me")] + expect,
              "decode_bits %r over %s: %r" % (layout, data.hex(), res))
        check(all(type(res[k]) is type(v) for k, v in expect), "decode_bits result types")

    # ---- 7. through the devices (fake transports) -----------------------
    class Cmd(object):
        cdb = bytearray(6)
        dataout = bytearray()
        datain = bytearray()

    check(issubclass(SCSIDevice.CheckCondition, SCSICheckCondition), "SCSIDevice.CheckCondition base")
    check(issubclass(ISCSIDevice.CheckCondition, SCSICheckCondition), "ISCSIDevice.CheckCondition base")
    check(SCSIDevice.CheckCondition is not ISCSIDevice.CheckCondition, "distinct classes")
    for dev_cls in (SCSIDevice, ISCSIDevice):
        for name in ("CheckCondition", "ConditionsMet", "BusyStatus", "ReservationConflict",
                     "TaskSetFull", "ACAActive", "TaskAborted", "CommandNotImplemented",
                     "MissingBlocksizeException", "OpcodeException"):
            c = getattr(dev_cls, name, None)
            check(isinstance(c, type) and issubclass(c, Exception) and c.__name__ == name,
                  "%s.%s" % (dev_cls.__name__, name))
            check(c is not None and c.__module__ == "pyscsi.pyscsi.scsi_exception",
                  "%s.%s module" % (dev_cls.__name__, name))

    samples = [None, b"", bytearray(1)] + [s for s, _ in spot] + [base_f, base_d, bytes(base_f[:5]), bytes(base_d[:3])]
    for i in range(300):
        s = bytearray(rnd.getrandbits(8) for _ in range(rnd.choice((1, 4, 8, 14, 18, 32))))
        s[0] = rnd.choice(rcs) | rnd.choice((0, 0x80))
        samples.append(s)

    sdev = SCSIDevice("/dev/null")
    try:
        for idx, s in enumerate(samples):
            _sgio.next_sense = s
            cmd = Cmd()
            try:
                sdev.execute(cmd)
                check(False, "SCSIDevice.execute did not raise")
            except SCSIDevice.CheckCondition as e:
                check(type(e) is SCSIDevice.CheckCondition, "sgio: class")
                check(str(e) == oracle(s)[6], "sgio: text #%d" % idx)
                check((e.asc, e.ascq) == oracle(s)[4:6], "sgio: asc/ascq #%d" % idx)
            except Exception as e:
                check(False, "sgio: unexpected %r for %r" % (e, s))
            verify(s, "sgio class #%d" % idx, cls=SCSIDevice.CheckCondition, with_print=(idx % 10 == 0))
            cmd = Cmd()
            try:
                sdev.execute(cmd, en_raw_sense=True)
                check(cmd.raw_sense_data is s, "sgio: raw sense kept")
            except Exception as e:
                check(False, "sgio: en_raw_sense raised %r" % e)
        _sgio.next_sense = _sgio
        try:
            sdev.execute(Cmd())
        except Exception as e:
            check(False, "sgio: good status raised %r" % e)
    finally:
        _sgio.next_sense = _sgio
        sdev.close()

    idev = ISCSIDevice("iscsi://127.0.0.1/iqn.fake:target/0")
    _iscsi.next_status = SCSI_STATUS.CHECK_CONDITION
    for idx, s in enumerate(samples):
        _iscsi.next_sense = s
        cmd = Cmd()
        try:
            idev.execute(cmd, en_raw_sense=bool(idx & 1))
            check(False, "ISCSIDevice.execute did not raise")
        except ISCSIDevice.CheckCondition as e:
            check(type(e) is ISCSIDevice.CheckCondition, "iscsi: class")
            check(str(e) == oracle(s)[6], "iscsi: text #%d" % idx)
            check((e.asc, e.ascq) == oracle(s)[4:6], "iscsi: asc/ascq #%d" % idx)
            check(cmd.sense is s, "iscsi: cmd.sense")
        except Exception as e:
            check(False, "iscsi: unexpected %r for %r" % (e, s))
        verify(s, "iscsi class #%d" % idx, cls=ISCSIDevice.CheckCondition, with_print=(idx % 10 == 0))
    _iscsi.omit_sense = True
    try:
        idev.execute(Cmd())
        check(False, "iscsi: no raw_sense did not raise")
    except ISCSIDevice.CheckCondition as e:
        check(str(e) == oracle(None)[6] and e.data == {}, "iscsi: missing sense text")
    except Exception as e:
        check(False, "iscsi: missing sense raised %r" % e)
    _iscsi.omit_sense = False
    for status, name in (
        (SCSI_STATUS.RESERVATION_CONFLICT, "ReservationConflict"),
        (SCSI_STATUS.TASK_ABORTED, "TaskAborted"),
        (SCSI_STATUS.BUSY, "BusyStatus"),
        (SCSI_STATUS.TASK_SET_FULL, "TaskSetFull"),
        (SCSI_STATUS.ACA_ACTIVE, "ACAActive"),
        (SCSI_STATUS.CONDITIONS_MET, "ConditionsMet"),
    ):
        _iscsi.next_status = status
        try:
            idev.execute(Cmd())
            check(False, "iscsi: %s not raised" % name)
        except Exception as e:
            check(type(e) is getattr(ISCSIDevice, name), "iscsi: %s -> %r" % (name, e))
    _iscsi.next_status = SCSI_STATUS.GOOD
    try:
        check(idev.execute(Cmd()) is None, "iscsi: good")
    except Exception as e:
        check(False, "iscsi: good raised %r" % e)
    idev.close()

    # ---- 8. a user subclass keeps working ------------------------------
    class MyCheck(SCSICheckCondition):
        pass

    verify(base_f, "subclass fixed", cls=MyCheck, with_print=True)
    verify(base_d, "subclass desc", cls=MyCheck, with_print=True)

    finish()


if __name__ == "__main__":
    main()
