#!/usr/bin/env python
# Standalone check of property C17:
#
#   A block transfer requested without a block size, an operation code without
#   a fixed CDB length, an unknown PERSISTENT RESERVE IN service action, an
#   EXTENDED COPY descriptor with unknown keys or type codes, and an
#   inconsistent TransportID are each refused with their specific error.  In
#   all these cases no command reaches the device and no partially initialised
#   command object is returned.
#
# Run as:  cd <worktree> && PYTHONPATH=<worktree> python SEED/demo.py
# Exits 0 and prints PASS when the property holds.

import sys
import types
from decimal import Decimal
from fractions import Fraction

# --------------------------------------------------------------------------
# the external bindings are not installed: provide small fakes
# --------------------------------------------------------------------------
for _name in ("sgio", "iscsi"):
    if _name not in sys.modules:
        try:
            __import__(_name)
        except ImportError:
            _mod = types.ModuleType(_name)
            if _name == "sgio":

                class CheckConditionError(Exception):
                    def __init__(self, sense=b""):
                        Exception.__init__(self, sense)
                        self.sense = sense

                def _execute(*args, **kwargs):
                    raise AssertionError("the fake sgio must never be reached")

                _mod.CheckConditionError = CheckConditionError
                _mod.execute = _execute
            sys.modules[_name] = _mod

from pyscsi.pyscsi.scsi import SCSI
from pyscsi.pyscsi.scsi_cdb_atapassthrough12 import ATAPassThrough12
from pyscsi.pyscsi.scsi_cdb_atapassthrough16 import ATAPassThrough16
from pyscsi.pyscsi.scsi_cdb_extended_copy_spc4 import ExtendedCopy as ExtendedCopy4
from pyscsi.pyscsi.scsi_cdb_extended_copy_spc5 import ExtendedCopy as ExtendedCopy5
from pyscsi.pyscsi.scsi_cdb_inquiry import Inquiry
from pyscsi.pyscsi.scsi_cdb_persistentreservein import (
    PersistentReserveIn,
    PersistentReserveInReadFullStatus,
    PersistentReserveInReadKeys,
    PersistentReserveInReadReservation,
    PersistentReserveInReportCapabilities,
)
from pyscsi.pyscsi.scsi_cdb_persistentreserveout import PersistentReserveOut
from pyscsi.pyscsi.scsi_cdb_read10 import Read10
from pyscsi.pyscsi.scsi_cdb_read12 import Read12
from pyscsi.pyscsi.scsi_cdb_read16 import Read16
from pyscsi.pyscsi.scsi_cdb_testunitready import TestUnitReady
from pyscsi.pyscsi.scsi_cdb_write10 import Write10
from pyscsi.pyscsi.scsi_cdb_write12 import Write12
from pyscsi.pyscsi.scsi_cdb_write16 import Write16
from pyscsi.pyscsi.scsi_cdb_writesame10 import WriteSame10
from pyscsi.pyscsi.scsi_cdb_writesame16 import WriteSame16
from pyscsi.pyscsi.scsi_command import SCSICommand
from pyscsi.pyscsi.scsi_enum_command import mmc, sbc, smc, spc, ssc
from pyscsi.pyscsi.scsi_enum_persistentreserve import PROTOCOL_ID
from pyscsi.pyscsi.scsi_opcode import OpCode
from pyscsi.utils.enum import Enum

FAILURES = []
CHECKS = [0]


def check(cond, what):
    CHECKS[0] += 1
    if not cond:
        FAILURES.append(what)


def check_eq(got, want, what):
    CHECKS[0] += 1
    if not (got == want and type(got) is type(want)):
        FAILURES.append("%s: got %r, want %r" % (what, got, want))


def refused(what, exc_type, fn, args=None, msg=None):
    """
    fn() must raise exactly exc_type (not a subclass, not another class of the
    same name) and must not return anything.  Returns the exception.
    """
    CHECKS[0] += 1
    try:
        res = fn()
    except BaseException as e:  # noqa
        if type(e) is not exc_type:
            FAILURES.append(
                "%s: raised %s.%s %r, want %s"
                % (what, type(e).__module__, type(e).__qualname__, e.args, exc_type)
            )
            return e
        if args is not None and e.args != args:
            FAILURES.append("%s: args %r, want %r" % (what, e.args, args))
        if msg is not None and str(e) != msg:
            FAILURES.append("%s: message %r, want %r" % (what, str(e), msg))
        if e.__context__ is not None or e.__cause__ is not None:
            FAILURES.append(
                "%s: chained to %r / %r" % (what, e.__context__, e.__cause__)
            )
        return e
    FAILURES.append("%s: returned %r instead of raising %s" % (what, res, exc_type))
    return None


class Dev(object):
    """a device that records everything that reaches it"""

    def __init__(self, opcodes, fill=None):
        self.opcodes = opcodes
        self.log = []
        self.closed = 0
        self.fill = fill

    def execute(self, cmd, en_raw_sense=False):
        self.log.append(
            (
                cmd,
                en_raw_sense,
                bytes(cmd.cdb),
                None if cmd.dataout is None else bytes(cmd.dataout),
                len(cmd.datain),
            )
        )
        if self.fill is not None:
            cmd.datain[: len(self.fill)] = self.fill

    def open(self):
        pass

    def close(self):
        self.closed += 1


DEFAULT = object()


def make(opcodes, blocksize=DEFAULT, fill=None):
    dev = Dev(opcodes, fill)
    if blocksize is DEFAULT:
        s = SCSI(None)
    else:
        s = SCSI(None, blocksize)
    s.device = dev
    return s, dev


def quiet(dev, what):
    check(dev.log == [], "%s: a command reached the device: %r" % (what, dev.log))
    del dev.log[:]


MBE = SCSICommand.MissingBlocksizeException
OPE = SCSICommand.OpcodeException


# --------------------------------------------------------------------------
# 0. the specific errors themselves
# --------------------------------------------------------------------------
def section_errors():
    for name in ("MissingBlocksizeException", "OpcodeException", "CommandNotImplemented"):
        exc = getattr(SCSICommand, name)
        check(isinstance(exc, type) and issubclass(exc, Exception), name + " is an Exception")
        check(exc.__bases__ == (Exception,), name + " derives directly from Exception")
        check_eq(exc.__name__, name, name + ".__name__")
        check_eq(exc.__module__, "pyscsi.pyscsi.scsi_exception", name + ".__module__")
        check_eq(
            exc.__qualname__,
            "SCSICommandExceptionMeta.__new__.<locals>." + name,
            name + ".__qualname__",
        )
        # every command class carries exception classes of its own: the one that
        # is raised is the one of SCSICommand
        for klass in (Read10, Write10, WriteSame16, ATAPassThrough16, ExtendedCopy4,
                      ExtendedCopy5, PersistentReserveIn, PersistentReserveInReadKeys):
            other = getattr(klass, name)
            check(other is not exc, "%s.%s is a class of its own" % (klass.__name__, name))
            check(not issubclass(other, exc) and not issubclass(exc, other),
                  "%s.%s unrelated" % (klass.__name__, name))
            check_eq(other.__name__, name, "%s.%s.__name__" % (klass.__name__, name))
    check(MBE is not OPE, "distinct exception classes")
    check(not issubclass(MBE, ValueError) and not issubclass(OPE, ValueError),
          "not ValueErrors")
    for name in ("CheckCondition", "ConditionsMet", "BusyStatus", "ReservationConflict",
                 "TaskSetFull", "ACAActive", "TaskAborted"):
        check(issubclass(getattr(SCSICommand, name), Exception), name + " still present")
    check_eq(
        [k for k in vars(SCSICommand) if k.endswith("Exception") or k == "CommandNotImplemented"],
        ["CommandNotImplemented", "MissingBlocksizeException", "OpcodeException"],
        "exception attributes order",
    )


# --------------------------------------------------------------------------
# 1. block transfer without a block size
# --------------------------------------------------------------------------
ZEROS = [0, 0.0, False, -0.0, 0j, Decimal(0), Fraction(0, 1)]


def section_blocksize():
    data = bytearray(b"\xAA" * 16)

    # -- through the SCSI facade
    facade = [
        ("read10", lambda s: s.read10(1024, 27)),
        ("read10kw", lambda s: s.read10(lba=1, tl=2, rdprotect=1, dpo=1, fua=1, rarc=1, group=3)),
        ("read10tl0", lambda s: s.read10(0, 0)),
        ("read12", lambda s: s.read12(1024, 27)),
        ("read16", lambda s: s.read16(1024, 27)),
        ("write10", lambda s: s.write10(1024, 27, data)),
        ("write10kw", lambda s: s.write10(lba=5, tl=1, data=data, wrprotect=2, dpo=1, fua=1, group=9)),
        ("write10none", lambda s: s.write10(0, 0, None)),
        ("write12", lambda s: s.write12(1024, 27, data)),
        ("write16", lambda s: s.write16(1024, 27, data)),
        ("writesame10", lambda s: s.writesame10(1024, 27, data)),
        ("writesame16", lambda s: s.writesame16(1024, 27, data)),
        ("writesame16ndob0", lambda s: s.writesame16(1024, 27, data, ndob=0)),
        ("writesame16ndobF", lambda s: s.writesame16(1024, 27, data, ndob=False, unmap=1)),
    ]
    # other false NDOB values: the data-out buffer is needed, hence the block size
    for nd in (None, [], "", 0.0, ()):
        s, dev = make(sbc)
        refused("facade writesame16 ndob=%r" % (nd,), MBE,
                lambda: s.writesame16(1024, 27, data, ndob=nd), args=())
        quiet(dev, "facade writesame16 ndob=%r" % (nd,))
    for opcodes in (sbc,):
        for name, call in facade:
            s, dev = make(opcodes)  # default block size
            check_eq(s.blocksize, 0, "default block size")
            refused("facade %s default blocksize" % name, MBE, lambda: call(s), args=())
            quiet(dev, "facade %s default blocksize" % name)
            for z in ZEROS:
                s, dev = make(opcodes, z)
                refused("facade %s blocksize %r" % (name, z), MBE, lambda: call(s), args=())
                quiet(dev, "facade %s blocksize %r" % (name, z))
                # via the setter
                s, dev = make(opcodes, 512)
                s.blocksize = z
                refused("facade %s blocksize set to %r" % (name, z), MBE, lambda: call(s), args=())
                quiet(dev, "facade %s blocksize set to %r" % (name, z))
            # the same object works once a block size is known
            s.blocksize = 512
            cmd = call(s)
            check(len(dev.log) == 1 and dev.log[0][0] is cmd and dev.log[0][1] is False,
                  "facade %s with block size executes once" % name)
            check(isinstance(cmd, SCSICommand), "facade %s returns a command" % name)

    # -- not "missing", just wrong: still nothing reaches the device
    for bad in (None, "", "512", 1.5, object()):
        s, dev = make(sbc, bad)
        refused("read10 blocksize %r" % (bad,), TypeError, lambda: s.read10(0, 1))
        quiet(dev, "read10 blocksize %r" % (bad,))
        s, dev = make(sbc, bad)
        refused("write10 blocksize %r" % (bad,), TypeError, lambda: s.write10(0, 1, data))
        quiet(dev, "write10 blocksize %r" % (bad,))
    s, dev = make(sbc, None)
    refused("writesame16 blocksize None", TypeError, lambda: s.writesame16(0, 1, data))
    quiet(dev, "writesame16 blocksize None")

    # -- the constructors
    op = sbc
    ctors = [
        ("Read10", lambda b: Read10(op.READ_10, b, 1024, 27)),
        ("Read10kw", lambda b: Read10(opcode=op.READ_10, blocksize=b, lba=1, tl=1, group=1)),
        ("Read10badop", lambda b: Read10(OpCode("X", 0x7F, {}), b, 1, 1)),
        ("Read10noneop", lambda b: Read10(None, b, 1, 1)),
        ("Read12", lambda b: Read12(op.READ_12, b, 1024, 27)),
        ("Read16", lambda b: Read16(op.READ_16, b, 1024, 27)),
        ("Write10", lambda b: Write10(op.WRITE_10, b, 1024, 27, data)),
        ("Write10kw", lambda b: Write10(opcode=op.WRITE_10, blocksize=b, lba=1, tl=1, data=None)),
        ("Write10badop", lambda b: Write10(OpCode("X", 0xC0, {}), b, 1, 1, data)),
        ("Write12", lambda b: Write12(op.WRITE_12, b, 1024, 27, data)),
        ("Write16", lambda b: Write16(op.WRITE_16, b, 1024, 27, data)),
        ("WriteSame10", lambda b: WriteSame10(op.WRITE_SAME_10, b, 1024, 27, data)),
        ("WriteSame16", lambda b: WriteSame16(op.WRITE_SAME_16, b, 1024, 27, data)),
        ("WriteSame16kw", lambda b: WriteSame16(opcode=op.WRITE_SAME_16, blocksize=b, lba=1, nb=1,
                                               data=data, ndob=0, anchor=1)),
        ("WriteSame16badop", lambda b: WriteSame16(OpCode("X", 0xFF, {}), b, 1, 1, data)),
    ]
    for name, ctor in ctors:
        for z in ZEROS:
            # the class-wide CDB template must not be touched by the refused request
            Inquiry(spc.INQUIRY)
            before = bytes(SCSICommand.marshall_cdb({"opcode": 0x12, "evpd": 1, "alloc_len": 0x1234}))
            refused("%s(blocksize=%r)" % (name, z), MBE, lambda: ctor(z), args=())
            after = bytes(SCSICommand.marshall_cdb({"opcode": 0x12, "evpd": 1, "alloc_len": 0x1234}))
            check_eq(before, bytes.fromhex("120100123400"), "%s template before" % name)
            check_eq(after, before, "%s(blocksize=%r) left the CDB template alone" % (name, z))

    # the error is catchable only as the SCSICommand one
    try:
        Read10(op.READ_10, 0, 1, 1)
    except Read10.MissingBlocksizeException:
        check(False, "caught as Read10.MissingBlocksizeException")
    except SCSICommand.MissingBlocksizeException:
        check(True, "")
    try:
        WriteSame16(op.WRITE_SAME_16, 0, 1, 1, None)
    except (WriteSame16.MissingBlocksizeException, ValueError, TypeError):
        check(False, "caught as something else")
    except SCSICommand.MissingBlocksizeException as e:
        check(e.__cause__ is None and e.__context__ is None, "no chained exception")

    # -- WRITE SAME(16) with NDOB needs no block size
    for nd in (1, True, 2, "x", [0]):
        for bs in (0, 512, None):
            s, dev = make(sbc, bs)
            if nd == 1 or nd is True:
                cmd = s.writesame16(7, 9, data, ndob=nd)
                check(type(cmd) is WriteSame16, "writesame16 ndob type")
                check_eq(cmd.dataout, bytearray(0), "writesame16 ndob=%r dataout" % (nd,))
                check_eq(cmd.datain, bytearray(0), "writesame16 ndob=%r datain" % (nd,))
                check_eq(bytes(cmd.cdb), bytes.fromhex("93010000000000000007000000090000"),
                         "writesame16 ndob cdb")
                check(len(dev.log) == 1 and dev.log[0][0] is cmd, "writesame16 ndob executed once")
            else:
                # a block size is not needed to get past the check
                e = None
                try:
                    WriteSame16(sbc.WRITE_SAME_16, bs, 7, 9, data, ndob=nd)
                except Exception as ex:  # encoding odd ndob values may fail later
                    e = ex
                check(not isinstance(e, MBE), "ndob=%r never asks for a block size" % (nd,))

    # -- normal behaviour with a block size
    s, dev = make(sbc, 512)
    cmd = s.read10(1024, 27, rdprotect=2, dpo=1, fua=1, rarc=1, group=19)
    check_eq(bytes(cmd.cdb), bytes.fromhex("285c000004001300 1b00".replace(" ", "")), "read10 cdb")
    check_eq(len(cmd.datain), 512 * 27, "read10 datain")
    check_eq(cmd.dataout, bytearray(0), "read10 dataout")
    check(cmd.opcode is sbc.READ_10 and cmd.result == {} and cmd.pagecode is None, "read10 fields")
    cmd = s.write10(1024, 27, data, wrprotect=2, dpo=1, fua=1, group=19)
    check_eq(bytes(cmd.cdb), bytes.fromhex("2a580000040013001b00"), "write10 cdb")
    check(cmd.dataout is data, "write10 dataout is the caller's buffer")
    check_eq(cmd.datain, bytearray(0), "write10 datain")
    cmd = s.writesame16(1024, 27, data, wrprotect=2, anchor=1, group=19)
    check_eq(bytes(cmd.cdb), bytes.fromhex("935000000000000004000000001b1300"), "writesame16 cdb")
    check(cmd.dataout is data, "writesame16 dataout is the caller's buffer")
    check_eq(len(dev.log), 3, "three commands executed")
    for bs in (1, 2048, True, 4.0):
        s, dev = make(sbc, bs)
        if isinstance(bs, float):
            refused("read10 float block size", TypeError, lambda: s.read10(0, 2))
            quiet(dev, "read10 float block size")
            continue
        cmd = s.read10(0, 2)
        check_eq(len(cmd.datain), int(bs) * 2, "read10 datain with block size %r" % (bs,))
        check_eq(len(dev.log), 1, "read10 executed")


def section_ata():
    # ATA PASS-THROUGH: the block size is only needed for one combination
    dataobj = bytearray(b"\x55" * 8)
    for klass, opname, facade in (
        (ATAPassThrough16, "ATA_PASS_THROUGH_16", "atapassthrough16"),
        (ATAPassThrough12, "ATA_PASS_THROUGH_12", "atapassthrough12"),
    ):
        opcode = getattr(sbc, opname)
        for byte_block in (0, 1):
            for t_type in (0, 1):
                for t_length in (0, 1, 2, 3):
                    for t_dir in (0, 1):
                        for extra_tl in (None, 5, 0):
                            for bs_kw in ({}, {"blocksize": 0}, {"blocksize": 0.0},
                                          {"blocksize": False}, {"blocksize": 4096}):
                                for data in (None, dataobj):
                                    kw = dict(bs_kw)
                                    if extra_tl is not None:
                                        kw["extra_tl"] = extra_tl
                                    if data is not None:
                                        kw["data"] = data
                                    what = "%s bb=%d tt=%d tl=%d dir=%d %r" % (
                                        facade, byte_block, t_type, t_length, t_dir, sorted(kw))
                                    pos = (4, t_length, byte_block, t_dir, t_type, 0, 3, 2,
                                           0x112233445566, 0xEC)
                                    s, dev = make(sbc)
                                    blocksize = kw.get("blocksize", 0)
                                    need = bool(byte_block and t_type and t_length)
                                    if need and blocksize == 0:
                                        refused(what, MBE, lambda: getattr(s, facade)(*pos, **kw), args=())
                                        quiet(dev, what)
                                        refused(what + " ctor", MBE, lambda: klass(opcode, *pos, **kw), args=())
                                        continue
                                    cmd = getattr(s, facade)(*pos, **kw)
                                    check(type(cmd) is klass, what + " type")
                                    check(len(dev.log) == 1 and dev.log[0][0] is cmd
                                          and dev.log[0][1] is True, what + " executed once with raw sense")
                                    tl = {0: 0, 1: 3, 2: 2, 3: extra_tl or 0}[t_length]
                                    if not t_length:
                                        eff = 0
                                    elif not byte_block:
                                        eff = 1
                                    elif not t_type:
                                        eff = 512
                                    else:
                                        eff = blocksize
                                    n = tl * eff
                                    if t_dir == 0:
                                        if data:
                                            check(cmd.dataout is data, what + " dataout is caller's")
                                        else:
                                            check_eq(len(cmd.dataout), n, what + " dataout len")
                                        check_eq(len(cmd.datain), 0, what + " datain len")
                                    else:
                                        if data:
                                            check(cmd.datain is data, what + " datain is caller's")
                                        else:
                                            check_eq(len(cmd.datain), n, what + " datain len")
                                        check_eq(len(cmd.dataout), 0, what + " dataout len")
                                    check_eq(cmd.cdb[0], opcode.value, what + " cdb[0]")
                                    check_eq(cmd.cdb[2], t_length | (byte_block << 2) | (t_dir << 3)
                                             | (t_type << 4), what + " cdb[2]")
    # explicit block size by keyword through the facade and positionally in the ctor
    op = sbc.ATA_PASS_THROUGH_16
    refused("ATA16 positional blocksize 0", MBE,
            lambda: ATAPassThrough16(op, 4, 2, 1, 1, 1, 0, 0, 1, 0, 0xEC, 0), args=())
    cmd = ATAPassThrough16(op, 4, 2, 1, 1, 1, 0, 0, 3, 0, 0xEC, 4096)
    check_eq(len(cmd.datain), 3 * 4096, "ATA16 positional blocksize")
    check_eq(bytes(cmd.cdb), bytes.fromhex("85091e00000003000000000000 00ec00".replace(" ", "")),
             "ATA16 cdb")
    refused("ATA16 blocksize None", TypeError,
            lambda: ATAPassThrough16(op, 4, 2, 1, 1, 1, 0, 0, 1, 0, 0xEC, None))


# --------------------------------------------------------------------------
# 2. operation code without a fixed CDB length
# --------------------------------------------------------------------------
def cdb_len(v):
    if 0x00 <= v <= 0x1F:
        return 6
    if 0x20 <= v <= 0x5F:
        return 10
    if 0x80 <= v <= 0x9F:
        return 16
    if 0xA0 <= v <= 0xBF:
        return 12
    return None


def section_opcode():
    values = list(range(-3, 0x104)) + [0.0, 31.0, 31.5, 32.0, 95.0, 95.5, 96.0, 127.5, 128.0,
                                        159.5, 160.0, 191.0, 191.5, 192.0, float("nan"),
                                        float("inf"), float("-inf"), True, False, 10 ** 20,
                                        -(10 ** 20), Decimal(16), Fraction(257, 2)]
    for v in values:
        op = OpCode("X", v, {})
        n = cdb_len(v)
        if n is None:
            refused("init_cdb(%r)" % (v,), OPE, lambda: SCSICommand.init_cdb(op), args=())
            refused("Read10.init_cdb(%r)" % (v,), OPE, lambda: Read10.init_cdb(op), args=())
        else:
            check_eq(SCSICommand.init_cdb(op), bytearray(n), "init_cdb(%r)" % (v,))
            check_eq(TestUnitReady.init_cdb(op), bytearray(n), "TestUnitReady.init_cdb(%r)" % (v,))
    for bad in (None, "12", b"\x12", [0x12], (0x12,)):
        refused("init_cdb value %r" % (bad,), TypeError,
                lambda: SCSICommand.init_cdb(OpCode("X", bad, {})))
    refused("init_cdb(None)", AttributeError, lambda: SCSICommand.init_cdb(None))
    refused("init_cdb(0x28)", AttributeError, lambda: SCSICommand.init_cdb(0x28))

    class Duck(object):
        value = 0x7E

    refused("init_cdb(duck 0x7e)", OPE, lambda: SCSICommand.init_cdb(Duck()), args=())
    Duck.value = 0x88
    check_eq(SCSICommand.init_cdb(Duck()), bytearray(16), "init_cdb(duck 0x88)")

    # every opcode the library knows
    for enum in (spc, sbc, ssc, smc, mmc):
        for key in enum.keys:
            op = getattr(enum, key)
            n = cdb_len(op.value)
            if n is None:
                refused("init_cdb(%s)" % key, OPE, lambda: SCSICommand.init_cdb(op), args=())
            else:
                check_eq(len(SCSICommand.init_cdb(op)), n, "init_cdb(%s)" % key)
    check_eq(cdb_len(sbc.SBC_OPCODE_7F.value), None, "0x7f has no fixed length")

    # commands built on such an opcode are refused, whatever the command
    bad_values = (0x60, 0x7F, 0xC0, 0xFF, 0x100, -1)
    data = bytearray(4)
    for v in bad_values:
        op = OpCode("BAD", v, {"READ_KEYS": 0, "READ_RESERVATION": 1,
                               "REPORT_CAPABILITIES": 2, "READ_FULL_STATUS": 3})
        ctors = [
            ("SCSICommand", lambda: SCSICommand(op, 0, 0)),
            ("TestUnitReady", lambda: TestUnitReady(op)),
            ("Inquiry", lambda: Inquiry(op)),
            ("Read10", lambda: Read10(op, 512, 0, 1)),
            ("Write10", lambda: Write10(op, 512, 0, 1, data)),
            ("WriteSame16", lambda: WriteSame16(op, 512, 0, 1, data)),
            ("WriteSame16ndob", lambda: WriteSame16(op, 0, 0, 1, None, ndob=1)),
            ("ATA16", lambda: ATAPassThrough16(op, 4, 2, 1, 1, 0, 0, 0, 1, 0, 0xEC)),
            ("ExtendedCopy4", lambda: ExtendedCopy4(op)),
            ("ExtendedCopy5", lambda: ExtendedCopy5(op)),
            ("PersistentReserveIn", lambda: PersistentReserveIn(op, 0)),
            ("PRInReadKeys", lambda: PersistentReserveInReadKeys(op)),
            ("PRInReadFullStatus", lambda: PersistentReserveInReadFullStatus(op, alloclen=8)),
        ]
        for name, ctor in ctors:
            refused("%s on opcode %#x" % (name, v), OPE, ctor, args=())
        # through the facade, on a device that maps the commands to that opcode
        names = ["READ_10", "WRITE_10", "WRITE_SAME_16", "ATA_PASS_THROUGH_16", "EXTENDED_COPY",
                 "PERSISTENT_RESERVE_IN", "TEST_UNIT_READY", "INQUIRY"]
        opcodes = Enum(dict((n, op) for n in names))
        calls = [
            ("read10", lambda s: s.read10(0, 1)),
            ("write10", lambda s: s.write10(0, 1, data)),
            ("writesame16", lambda s: s.writesame16(0, 1, data)),
            ("writesame16 ndob", lambda s: s.writesame16(0, 1, None, ndob=1)),
            ("atapassthrough16", lambda s: s.atapassthrough16(4, 2, 1, 1, 0, 0, 0, 1, 0, 0xEC)),
            ("extendedcopy4", lambda s: s.extendedcopy4()),
            ("extendedcopy5", lambda s: s.extendedcopy5()),
            ("persistentreservein0", lambda s: s.persistentreservein(0)),
            ("persistentreservein3", lambda s: s.persistentreservein(3, alloclen=16)),
            ("testunitready", lambda s: s.testunitready()),
            ("inquiry", lambda s: s.inquiry()),
        ]
        for name, call in calls:
            s, dev = make(opcodes, 512)
            refused("facade %s on opcode %#x" % (name, v), OPE, lambda: call(s), args=())
            quiet(dev, "facade %s on opcode %#x" % (name, v))
        # a missing block size is noticed before the opcode is looked at
        s, dev = make(opcodes, 0)
        refused("facade read10 no blocksize, opcode %#x" % v, MBE, lambda: s.read10(0, 1), args=())
        quiet(dev, "facade read10 no blocksize, bad opcode")
        # and an unknown service action before a command object is built
        s, dev = make(opcodes, 0)
        refused("facade persistentreservein(9), opcode %#x" % v, ValueError,
                lambda: s.persistentreservein(9), args=("Invalid Service Action",))
        quiet(dev, "facade persistentreservein(9), bad opcode")
        # opening a device on such an INQUIRY opcode fails before anything is sent
        dev = Dev(opcodes)
        refused("SCSI(dev) with INQUIRY on opcode %#x" % v, OPE, lambda: SCSI(dev), args=())
        quiet(dev, "SCSI(dev) with bad INQUIRY opcode")

    try:
        TestUnitReady(OpCode("X", 0x7F, {}))
    except TestUnitReady.OpcodeException:
        check(False, "caught as TestUnitReady.OpcodeException")
    except SCSICommand.OpcodeException:
        check(True, "")

    # good opcodes give a complete object
    for v, n in ((0x00, 6), (0x28, 10), (0x88, 16), (0xA8, 12)):
        cmd = SCSICommand(OpCode("X", v, {}), 3, 5)
        check_eq(cmd.cdb, bytearray(n), "SCSICommand cdb for %#x" % v)
        check_eq(cmd.dataout, bytearray(3), "SCSICommand dataout")
        check_eq(cmd.datain, bytearray(5), "SCSICommand datain")
        check(cmd.result == {} and cmd.opcode.value == v, "SCSICommand fields")
    # opening a normal device sends exactly the INQUIRY
    dev = Dev(spc)
    s = SCSI(dev, 512)
    check(len(dev.log) == 1 and type(dev.log[0][0]) is Inquiry and dev.opcodes is sbc
          and dev.devicetype == 0, "SCSI(dev) sends an INQUIRY")


# --------------------------------------------------------------------------
# 3. unknown PERSISTENT RESERVE IN service action
# --------------------------------------------------------------------------
class Weird(object):
    def __init__(self, eq_to):
        self.eq_to = eq_to
        self.asked = []

    def __eq__(self, other):
        self.asked.append(other)
        return other == self.eq_to

    __hash__ = None


def section_prin():
    classes = {
        0: PersistentReserveInReadKeys,
        1: PersistentReserveInReadReservation,
        2: PersistentReserveInReportCapabilities,
        3: PersistentReserveInReadFullStatus,
    }
    unknown = [4, 5, 6, 7, 0x1F, 0x20, 0x100, -1, -4, None, "0", "1", "READ_KEYS", "", b"\x00",
               0.5, 3.5, float("nan"), [], [0], {}, {0: 0}, (0,), (), set(), object(), Ellipsis,
               0x03 + 0x20, Decimal("1.5"), Weird(17), SCSICommand, 1j]
    for opcodes in (spc, sbc, ssc, smc):
        for sa in unknown:
            for kw in ({}, {"alloclen": 256}, {"alloclen": 0}, {"bogus": 1}):
                s, dev = make(opcodes, 512)
                what = "persistentreservein(%r, %r)" % (sa, kw)
                refused(what, ValueError, lambda: s.persistentreservein(sa, **kw),
                        args=("Invalid Service Action",))
                refused(what + " kw", ValueError, lambda: s.persistentreservein(service_action=sa, **kw),
                        args=("Invalid Service Action",))
                quiet(dev, what)
        for sa, klass in classes.items():
            for alias in (sa, float(sa), bool(sa) if sa < 2 else sa, Decimal(sa), Fraction(sa),
                          complex(sa), Weird(sa)):
                s, dev = make(opcodes, 512)
                cmd = s.persistentreservein(alias, alloclen=264)
                what = "persistentreservein(%r)" % (alias,)
                check(type(cmd) is klass, what + " class")
                check(len(dev.log) == 1 and dev.log[0][0] is cmd and dev.log[0][1] is False,
                      what + " executed once")
                check_eq(dev.log[0][2], bytes([0x5E, sa, 0, 0, 0, 0, 0, 1, 8, 0]), what + " cdb")
                check_eq(len(cmd.datain), 264, what + " datain")
                check(isinstance(cmd.result, dict), what + " unmarshalled")
            s, dev = make(opcodes, 512)
            cmd = s.persistentreservein(sa)
            check_eq(len(cmd.datain), 1024, "default alloclen")
    # the comparisons are made in the documented order and stop at the first match
    w = Weird(2)
    s, dev = make(spc)
    s.persistentreservein(w)
    check_eq(w.asked, [0, 1, 2], "service action compared in order until it matches")
    w = Weird(99)
    refused("Weird(99)", ValueError, lambda: s.persistentreservein(w), args=("Invalid Service Action",))
    check_eq(w.asked, [0, 1, 2, 3], "service action compared with all four")

    # a device type without the command
    s, dev = make(mmc)
    for sa in (0, 9):
        refused("persistentreservein on mmc", AttributeError, lambda: s.persistentreservein(sa))
    quiet(dev, "persistentreservein on mmc")

    # a device that only knows part of the service actions
    op = OpCode("PERSISTENT_RESERVE_IN", 0x5E, {"READ_KEYS": 0, "READ_RESERVATION": 1})
    s, dev = make(Enum({"PERSISTENT_RESERVE_IN": op}))
    check(type(s.persistentreservein(0)) is PersistentReserveInReadKeys, "partial enum, READ KEYS")
    check(type(s.persistentreservein(1)) is PersistentReserveInReadReservation,
          "partial enum, READ RESERVATION")
    del dev.log[:]
    for sa in (2, 3, 4, None):
        refused("partial enum, %r" % (sa,), AttributeError, lambda: s.persistentreservein(sa))
        quiet(dev, "partial enum, %r" % (sa,))
    # remapped service action codes are honoured
    op = OpCode("PERSISTENT_RESERVE_IN", 0x5E, {"READ_KEYS": 10, "READ_RESERVATION": 11,
                                               "REPORT_CAPABILITIES": 12, "READ_FULL_STATUS": 13})
    s, dev = make(Enum({"PERSISTENT_RESERVE_IN": op}))
    for sa in (0, 1, 2, 3, 9, 14):
        refused("remapped, %r" % sa, ValueError, lambda: s.persistentreservein(sa),
                args=("Invalid Service Action",))
    quiet(dev, "remapped")
    for sa, klass in ((10, classes[0]), (11, classes[1]), (12, classes[2]), (13, classes[3])):
        cmd = s.persistentreservein(sa)
        check(type(cmd) is klass and cmd.cdb[1] == sa, "remapped %d" % sa)
    # duplicated codes: first one in the documented order wins
    op = OpCode("PERSISTENT_RESERVE_IN", 0x5E, {"READ_KEYS": 1, "READ_RESERVATION": 1,
                                               "REPORT_CAPABILITIES": 3, "READ_FULL_STATUS": 3})
    s, dev = make(Enum({"PERSISTENT_RESERVE_IN": op}))
    check(type(s.persistentreservein(1)) is classes[0], "duplicate codes 1")
    check(type(s.persistentreservein(3)) is classes[2], "duplicate codes 3")

    # unknown keyword arguments with a known service action are swallowed (as before)
    s, dev = make(spc)
    cmd = s.persistentreservein(0, bogus=1)
    check(type(cmd) is classes[0] and len(dev.log) == 1, "extra kwargs accepted")
    # the generic class accepts any service action code: only the facade refuses
    cmd = PersistentReserveIn(spc.PERSISTENT_RESERVE_IN, 0x1F, 4)
    check_eq(bytes(cmd.cdb), bytes([0x5E, 0x1F, 0, 0, 0, 0, 0, 0, 4, 0]), "generic PR IN cdb")


# --------------------------------------------------------------------------
# 4. EXTENDED COPY descriptors
# --------------------------------------------------------------------------
def invalid_key_message(provided_dict, valid_keys):
    # what the library reports: the first key of the set of supplied keys
    key = next(iter(set(provided_dict.keys())))
    return "Invalid key supplied: %s (should be one of %s)" % (key, valid_keys)


class XC(object):
    def __init__(self, gen):
        self.gen = gen
        if gen == 4:
            self.klass = ExtendedCopy4
            self.word = "target"
            self.facade = "extendedcopy4"
            self.listkw = "target_descriptor_list"
            self.marshall = ExtendedCopy4.marshall_target
            self.marshall_params = ExtendedCopy4.marshall_target_descriptor_parameters
            self.id_name = "Identification descriptor target descriptor"
            self.fc_name = "Fibre Channel N_Port_Name target descriptor"
            self.header = 16
            self.unknown_types = [0xEB, 0xEC, 0xFE]
            self.unknown_devs = [0x02, 0x06, 0x08, 0x1F, 0x0D]
            self.block_devs = [0x00, 0x04, 0x05, 0x07, 0x0E]
            self.unknown_segs = [0x16, 0x17, 0x18, 0x19, 0xBE, 0xBF]
            self.src = "source_target_descriptor_id"
            self.dst = "destination_target_descriptor_id"
        else:
            self.klass = ExtendedCopy5
            self.word = "cscd"
            self.facade = "extendedcopy5"
            self.listkw = "cscd_descriptor_list"
            self.marshall = ExtendedCopy5.marshall_cscd
            self.marshall_params = ExtendedCopy5.marshall_cscd_descriptor_parameters
            self.id_name = "Identification Descriptor CSCD descriptor"
            self.fc_name = "Fibre Channel N_Port_Name CSCD descriptor"
            self.header = 48
            self.unknown_types = [0xE3]
            self.unknown_devs = [0x02, 0x04, 0x07, 0x06, 0x1F]
            self.block_devs = [0x00, 0x05, 0x0E]
            self.unknown_segs = [0x11, 0x12]
            self.src = "source_cscd_descriptor_id"
            self.dst = "destination_cscd_descriptor_id"
        self.params = self.word + "_descriptor_parameters"
        self.other_params = ("cscd" if gen == 4 else "target") + "_descriptor_parameters"
        self.valid_desc_keys = set(
            ["descriptor_type_code", "peripheral_device_type", "lu_id_type",
             "relative_initiator_port_identifier"]
        ).union([self.params, "device_type_specific_parameters"])

    def good_desc(self, **extra):
        d = {
            "descriptor_type_code": 0xE4,
            "peripheral_device_type": 0,
            self.params: {
                "code_set": 1,
                "designator_type": 0,
                "designator": {"vendor_specific": bytearray.fromhex("deadbeef")},
            },
        }
        d.update(extra)
        return d

    def good_seg(self, **extra):
        d = {
            "descriptor_type_code": 0x02,
            self.src: 0,
            self.dst: 1,
            "block_device_number_of_blocks": 4,
            "source_block_device_logical_block_address": 1,
            "destination_block_device_logical_block_address": 10,
        }
        d.update(extra)
        return d

    def ways(self, descs=None, segs=None):
        """all public routes that turn descriptor lists into a command"""
        descs = [] if descs is None else descs
        segs = [] if segs is None else segs
        out = []

        def via_facade():
            s, dev = make(spc)
            try:
                return getattr(s, self.facade)(**{self.listkw: descs, "segment_descriptor_list": segs})
            finally:
                via_facade.dev = dev

        def via_ctor():
            if self.gen == 4:
                return ExtendedCopy4(spc.EXTENDED_COPY, 0, 0, 0, 0, descs, segs)
            return ExtendedCopy5(spc.EXTENDED_COPY, 0, 0, 0, 0, 0, 0, descs, segs)

        def via_list():
            if self.gen == 4:
                return ExtendedCopy4.marshall_parameter_list(0, 0, 0, 0, descs, segs, bytearray(0))
            return ExtendedCopy5.marshall_parameter_list(0, 0, 0, 0, 0, 0, descs, segs, bytearray(0))

        out.append(("facade", via_facade))
        out.append(("ctor", via_ctor))
        out.append(("list", via_list))
        return out


def xc_refused(x, what, exc_type, descs=None, segs=None, msg=None, msgfn=None, single=None):
    """
    the descriptor lists are refused with exc_type / message on every public
    route; nothing reaches the device.  Fresh copies of the descriptors are
    used for every route; the (possibly updated) copies are returned.
    """
    import copy

    last = None
    for i in range(3):
        d = copy.deepcopy(descs)
        g = copy.deepcopy(segs)
        name, fn = x.ways(d, g)[i]
        m = msgfn(d, g) if msgfn else msg
        refused("xcopy%d %s via %s" % (x.gen, what, name), exc_type, fn, msg=m)
        if name == "facade":
            quiet(fn.dev, "xcopy%d %s via %s" % (x.gen, what, name))
        last = (d, g)
    if single is not None:
        fn, arg = single
        a = copy.deepcopy(arg)
        m = msgfn([a], [a]) if msgfn else msg
        refused("xcopy%d %s single" % (x.gen, what), exc_type, lambda: fn(a), msg=m)
    return last


def section_xcopy(gen):
    x = XC(gen)
    K = x.klass
    valid = x.valid_desc_keys
    # the valid key set is built the same way the library documents it
    lib_valid = set(
        ["descriptor_type_code", "peripheral_device_type", "lu_id_type",
         "relative_initiator_port_identifier"]
    )
    check(lib_valid.union([x.params, "device_type_specific_parameters"]) == valid, "valid keys")

    def desc_valid_keys_str():
        # order of a set's repr depends on how it was built: build it like the library
        bits = {"descriptor_type_code": 0, "peripheral_device_type": 0, "lu_id_type": 0,
                "relative_initiator_port_identifier": 0}
        return set(bits.keys()).union([x.params, "device_type_specific_parameters"])

    # ---- CSCD / target descriptors with unknown keys
    bad_keys = ["bogus", "", "Descriptor_Type_Code", "descriptor_type_code ", x.other_params,
                "device_specific_parameters", "pad", "disk_block_length", 0, None, (1, 2), 3.5,
                "descriptor_length", "cat"]
    for bk in bad_keys:
        for base in (x.good_desc(), {}, {"descriptor_type_code": 0xFF},
                     {"descriptor_type_code": 0xE4, "peripheral_device_type": 0x1F, "lu_id_type": 3}):
            d = dict(base)
            d[bk] = 1

            def msgfn(descs, segs, _v=desc_valid_keys_str):
                return invalid_key_message(descs[-1], _v())

            xc_refused(x, "descriptor key %r" % (bk,), ValueError, descs=[d], msgfn=msgfn,
                       single=(x.marshall, d))
            # after a good descriptor, and before a bad segment
            xc_refused(x, "2nd descriptor key %r" % (bk,), ValueError, descs=[x.good_desc(), d],
                       segs=[{"descriptor_type_code": 0x77}], msgfn=msgfn)
    # message details: the key named is one of the supplied keys, the set is the valid set
    d = x.good_desc(bogus=1)
    e = refused("descriptor bogus key", ValueError, lambda: x.marshall(d))
    if e is not None:
        text = str(e)
        check(text.startswith("Invalid key supplied: "), "message prefix")
        named = text[len("Invalid key supplied: "):text.index(" (should be one of ")]
        check(named in d, "the key named is one of the supplied keys")
        inner = text[text.index(" (should be one of ") + len(" (should be one of "):-1]
        check_eq(eval(inner), valid, "the valid keys are listed")
        check_eq(len(e.args), 1, "one argument")

    # ---- unknown descriptor type codes
    codes = x.unknown_types + [0x00, 0x01, 0xDF, 0xED, 0xFD, 0xFF, 0x100, -1, 0xE4 + 0.5,
                               "bogus", "", "0xE4", "e4", x.id_name.upper(), x.id_name + " ",
                               b"\xe4", (0xE4,), 3 + 0j]
    for code in codes:
        for extra in ({}, {"lu_id_type": 1}, {"peripheral_device_type": 0x1F}):
            d = x.good_desc(descriptor_type_code=code, **extra)
            msg = "Invalid descriptor_type_code provided: %s" % (code,)
            xc_refused(x, "descriptor type %r" % (code,), ValueError, descs=[d], msg=msg,
                       single=(x.marshall, d))
    for d in ({"peripheral_device_type": 0}, {"descriptor_type_code": None, "peripheral_device_type": 0},
              {}):
        xc_refused(x, "descriptor without type code", ValueError, descs=[d],
                   msg="Invalid descriptor_type_code provided: None", single=(x.marshall, d))
    for code in ([0xE4], {0xE4: 1}, {0xE4}):
        d = x.good_desc(descriptor_type_code=code)
        xc_refused(x, "descriptor unhashable type %r" % (code,), TypeError, descs=[d],
                   single=(x.marshall, d))

    # ---- unknown peripheral device types
    for dev_t in x.unknown_devs + [-1, 0x20, 0xFF, "Disk", "block", "", 0.5, b"\x00", (0,)]:
        d = x.good_desc(peripheral_device_type=dev_t)
        xc_refused(x, "device type %r" % (dev_t,), ValueError, descs=[d],
                   msg="Invalid peripheral_device_type provided: %s" % (dev_t,), single=(x.marshall, d))
    d = x.good_desc()
    del d["peripheral_device_type"]
    xc_refused(x, "no device type", ValueError, descs=[d],
               msg="Invalid peripheral_device_type provided: None", single=(x.marshall, d))
    # the type code is looked at first
    d = x.good_desc(descriptor_type_code=0x55, peripheral_device_type=0x1F)
    xc_refused(x, "both unknown", ValueError, descs=[d],
               msg="Invalid descriptor_type_code provided: 85", single=(x.marshall, d))

    # ---- lu_id_type
    for lu in (1, 2, 3, -1, True, 1.9):
        d = x.good_desc(lu_id_type=lu)
        xc_refused(x, "lu_id_type %r" % (lu,), ValueError, descs=[d],
                   msg="Invalid lu_id_type provided: %d" % lu, single=(x.marshall, d))
    for lu in ("1", None, [1]):
        d = x.good_desc(lu_id_type=lu)
        xc_refused(x, "lu_id_type %r" % (lu,), TypeError, descs=[d], single=(x.marshall, d))
    for lu in (0, False):
        d = x.good_desc(lu_id_type=lu)
        check_eq(len(x.marshall(d)), 32, "lu_id_type %r accepted" % (lu,))

    # ---- known type codes whose parameters are not implemented
    table = K._target_descriptor_type_codes if gen == 4 else K._cscd_descriptor_type_codes
    for code, entry in sorted(table.items()):
        if code == 0xE4:
            continue
        for sel in (code, entry["name"]):
            d = x.good_desc(descriptor_type_code=sel)
            if code == 0xE3:
                xc_refused(x, "type 0xe3", ValueError, descs=[d],
                           msg="Invalid descriptor type code: 227", single=(x.marshall, d))
            else:
                xc_refused(x, "type %#x" % code, NotImplementedError, descs=[d],
                           msg="CSCD descriptor parameter not yet implemented for %s (%s)"
                           % (hex(code), entry["name"]), single=(x.marshall, d))
    # the parameter marshaller on its own
    for code in range(0, 0x101):
        buf = bytearray(64)
        what = "marshall params %#x" % code
        if code == 0xE4:
            continue
        if code in (0xE0, 0xE1, 0xE2, 0xE5, 0xE6, 0xE7, 0xE8, 0xE9, 0xEA, 0xEB, 0xEC, 0xFE):
            if code in table:
                refused(what, NotImplementedError, lambda: x.marshall_params(code, buf, {}),
                        msg="CSCD descriptor parameter not yet implemented for %s (%s)"
                        % (hex(code), table[code]["name"]))
            else:
                refused(what, KeyError, lambda: x.marshall_params(code, buf, {}), args=(code,))
        else:
            refused(what, ValueError, lambda: x.marshall_params(code, buf, {}),
                    msg="Invalid descriptor type code: %s" % code)
        check_eq(buf, bytearray(64), what + " left the buffer alone")
    for code in ("0xE4", None, -1, 0xE4 + 0.5):
        refused("marshall params %r" % (code,), ValueError,
                lambda: x.marshall_params(code, bytearray(32), {}),
                msg="Invalid descriptor type code: %s" % (code,))
    # identification descriptor without the parameters it needs
    for p in ({}, {"designator": {}}, {"designator_type": 0}):
        d = x.good_desc()
        d[x.params] = p
        xc_refused(x, "identification params %r" % (p,), KeyError, descs=[d], single=(x.marshall, d))
    d = x.good_desc()
    del d[x.params]
    xc_refused(x, "identification without params", KeyError, descs=[d], single=(x.marshall, d))

    # ---- segment descriptors: unknown type codes
    seg_table = K._segment_descriptor_type_codes
    codes = x.unknown_segs + [0x1A, 0x20, 0xFF, 0x100, -1, 1.5, "bogus", "", "block->block",
                              "Block -> Block", b"\x02", (2,), "0x02"]
    for code in codes:
        g = x.good_seg(descriptor_type_code=code)
        msg = "Invalid descriptor_type_code provided: %s" % (code,)
        last = xc_refused(x, "segment type %r" % (code,), ValueError, descs=[x.good_desc()], segs=[g],
                          msg=msg, single=(K.marshall_segment, g))
        check_eq(last[1], [g], "refused segment left untouched")
        xc_refused(x, "segment type %r, no descriptors" % (code,), ValueError, segs=[g], msg=msg)
    for g in ({}, {"descriptor_type_code": None}, {"cat": 1}):
        xc_refused(x, "segment without type", ValueError, segs=[g],
                   msg="Invalid descriptor_type_code provided: None", single=(K.marshall_segment, g))
    g = x.good_seg(descriptor_type_code=[2])
    xc_refused(x, "segment unhashable type", TypeError, segs=[g], single=(K.marshall_segment, g))
    # known, but not implemented
    for code, entry in sorted(seg_table.items()):
        if code in (0x00, 0x0B, 0x01, 0x0C, 0x02, 0x0D):
            continue
        sels = [code, entry["name"], entry["description"]]
        for sel in sels:
            g = {"descriptor_type_code": sel}
            last = xc_refused(x, "segment %#x" % code, NotImplementedError, segs=[g],
                              msg="segment descriptor parameter not yet implemented for %s (%s)"
                              % (hex(code), entry["name"]), single=(K.marshall_segment, g))
            check_eq(last[1], [{"descriptor_type_code": code}], "type code normalised in place")

    # ---- segment descriptors: unknown keys
    b2s = ["descriptor_type_code", "cat", "descriptor_length", x.src, x.dst,
           "stream_device_transfer_length", "block_device_number_of_blocks",
           "block_device_logical_block_address"]
    b2b = ["descriptor_type_code", "cat", "dc"] + (["fco"] if gen == 5 else []) + [
        "descriptor_length", x.src, x.dst, "block_device_number_of_blocks",
        "source_block_device_logical_block_address",
        "destination_block_device_logical_block_address"]
    other_src = "source_cscd_descriptor_id" if gen == 4 else "source_target_descriptor_id"
    layouts = {0x00: (b2s, 24), 0x0B: (b2s, 24), 0x01: (b2s, 24), 0x0C: (b2s, 24),
               0x02: (b2b, 28), 0x0D: (b2b, 28)}
    for code, (keys, size) in sorted(layouts.items()):
        entry = seg_table[code]
        bits = dict((k, 0) for k in keys)
        bad = ["bogus", "", other_src, "Cat", 0, None, (1,)]
        if "dc" not in keys:
            bad.append("dc")
            bad.append("source_block_device_logical_block_address")
        if "fco" not in keys:
            bad.append("fco")
        if "stream_device_transfer_length" not in keys:
            bad.append("stream_device_transfer_length")
            bad.append("block_device_logical_block_address")
        for bk in bad:
            for sel in (code, entry["name"], entry["description"]):
                g = {"descriptor_type_code": sel, "cat": 1, bk: 1}

                def msgfn(descs, segs, _bits=bits, _code=code, _size=size):
                    # by the time the keys are checked the library has normalised the
                    # descriptor in place
                    seen = dict(segs[-1])
                    seen["descriptor_type_code"] = _code
                    seen["descriptor_length"] = _size - 4
                    return invalid_key_message(seen, set(_bits.keys()))

                last = xc_refused(x, "segment %#x key %r" % (code, bk), ValueError,
                                  descs=[x.good_desc()], segs=[g], msgfn=msgfn,
                                  single=(K.marshall_segment, g))
                want = dict(g)
                want["descriptor_type_code"] = code
                want["descriptor_length"] = size - 4
                check_eq(last[1], [want], "segment %#x normalised in place before refusal" % code)
        # all known keys are accepted
        g = dict((k, 1) for k in keys)
        g["descriptor_type_code"] = code
        out = K.marshall_segment(g)
        check_eq(len(out), size, "segment %#x size" % code)
        check_eq(out[0:4], bytearray([code, out[1], 0, size - 4]), "segment %#x header" % code)
    # encode_segment_dict on its own
    for keys, size in ((b2s, 24), (b2b, 28)):
        cd = (K._segment_descriptor_bits_block_to_stream if keys is b2s
              else K._segment_descriptor_bits_block_to_block)
        check_eq(list(cd.keys()), keys, "segment layout keys")
        g = {"descriptor_type_code": 2, "nonsense": 1}
        seen = dict(g)
        seen["descriptor_length"] = size - 4
        refused("encode_segment_dict", ValueError, lambda: K.encode_segment_dict(g, cd, size),
                msg=invalid_key_message(seen, set(cd.keys())))
        check_eq(g, seen, "encode_segment_dict sets the length first")
    # a caller-supplied descriptor_length is overwritten, not refused
    g = x.good_seg(descriptor_length=99)
    out = K.marshall_segment(g)
    check_eq(out[2:4], bytearray([0, 24]), "descriptor_length overwritten")
    check_eq(g["descriptor_length"], 24, "descriptor_length overwritten in place")

    # ---- order of processing: descriptors first, then segments, first failure wins
    bad_d = x.good_desc(bogus=1)
    bad_g = x.good_seg(bogus=1)
    good_g = x.good_seg(descriptor_type_code="block -> block")
    last = xc_refused(x, "bad descriptor and bad segment", ValueError, descs=[bad_d],
                      segs=[good_g, bad_g],
                      msgfn=lambda descs, segs: invalid_key_message(descs[0], desc_valid_keys_str()))
    check_eq(last[1], [good_g, bad_g], "segments untouched when a descriptor is refused")
    last = xc_refused(x, "good then bad segment", ValueError, descs=[x.good_desc()],
                      segs=[good_g, bad_g, x.good_seg(descriptor_type_code=0x99)])
    check_eq(last[1][0]["descriptor_type_code"], 2, "first segment was processed")
    check_eq(last[1][0]["descriptor_length"], 24, "first segment was processed (length)")
    check_eq(last[1][1]["descriptor_length"], 24, "second segment was being processed")
    check_eq(last[1][2], x.good_seg(descriptor_type_code=0x99), "third segment never looked at")
    last = xc_refused(x, "unknown type then unknown key", ValueError, descs=[],
                      segs=[x.good_seg(descriptor_type_code=0x99), bad_g],
                      msg="Invalid descriptor_type_code provided: 153")
    check_eq(last[1][1], bad_g, "second segment never looked at")
    # wrong container types
    for descs in (5, 2.5, object()):
        refused("descriptor list %r" % (descs,), TypeError, x.ways(descs, [])[1][1])
    refused("descriptor list of non-dicts", AttributeError, x.ways([1], [])[1][1])
    refused("segment list of non-dicts", AttributeError, x.ways([], [1])[1][1])

    # ---- the good cases still produce complete commands
    s, dev = make(spc)
    cmd = getattr(s, x.facade)()
    check(type(cmd) is K and len(dev.log) == 1 and dev.log[0][0] is cmd, "empty xcopy executed")
    check_eq(len(cmd.dataout), x.header, "empty xcopy parameter list")
    check_eq(bytes(cmd.cdb), bytes.fromhex("83%02x0000000000000000000000%02x0000"
                                           % (0 if gen == 4 else 1, x.header)), "empty xcopy cdb")
    for dev_t in x.block_devs + [0x01, 0x03]:
        for sel_d in (0xE4, x.id_name):
            for sel_g in (0x02, "block -> block", "Copy from block device to block device"):
                s, dev = make(spc)
                d0 = x.good_desc(descriptor_type_code=sel_d, peripheral_device_type=dev_t,
                                 relative_initiator_port_identifier=0x1234, lu_id_type=0,
                                 device_type_specific_parameters={"pad": 1, "disk_block_length": 512,
                                                                  "stream_block_length": 0x010203,
                                                                  "fixed": 1})
                d1 = x.good_desc(peripheral_device_type=dev_t)
                g0 = x.good_seg(descriptor_type_code=sel_g, dc=1, cat=1)
                kw = {x.listkw: [d0, d1], "segment_descriptor_list": [g0],
                      "inline_data": bytearray(b"xyz"), "priority": 3, "list_identifier": 0x34}
                cmd = getattr(s, x.facade)(**kw)
                check(len(dev.log) == 1 and dev.log[0][0] is cmd, "xcopy executed once")
                n = x.header + 64 + 28 + 3
                check_eq(len(cmd.dataout), n, "xcopy parameter list length")
                check_eq(cmd.cdb[10:14], bytearray([0, 0, 0, n]), "xcopy cdb length")
                t0 = bytes(cmd.dataout[x.header:x.header + 32])
                if dev_t in x.block_devs:
                    tail = "04000200"
                elif dev_t == 0x01:
                    tail = "05010203"
                else:
                    tail = "04000000"
                check_eq(t0.hex(), "e4%02x1234" % dev_t + "01000004deadbeef" + "00" * 16 + tail,
                         "xcopy descriptor bytes")
                g = bytes(cmd.dataout[x.header + 64:x.header + 92])
                check_eq(g.hex(), "02030018" + "00000001" + "0000" + "0004"
                         + "0000000000000001" + "000000000000000a", "xcopy segment bytes")
                check_eq(bytes(cmd.dataout[-3:]), b"xyz", "inline data")
                check_eq(g0["descriptor_type_code"], 2, "segment type normalised")
                check_eq(d0["descriptor_type_code"], sel_d, "descriptor left as supplied")

    # ---- get_code_int
    t = {0: {"name": "zero", "description": "the zero"}, 5: {"name": "five"},
         "k": {"description": "five"}, 9: {"name": "the zero", "description": "dup"}}
    for value, want in ((0, 0), (5, 5), ("k", "k"), ("zero", 0), ("the zero", 0), ("five", 5),
                        ("dup", 9), (0.0, 0.0), (False, False), (5.0, 5.0), (9, 9)):
        got = K.get_code_int("x", {"x": value}, t)
        check(got == want and type(got) is type(want), "get_code_int(%r) -> %r" % (value, got))
    for value in (1, "Zero", "", None, "name", 2.5, (0,)):
        refused("get_code_int(%r)" % (value,), ValueError,
                lambda: K.get_code_int("the_key", {"the_key": value, "other": 0}, t),
                msg="Invalid the_key provided: %s" % (value,))
    refused("get_code_int missing", ValueError, lambda: K.get_code_int("k", {}, t),
            msg="Invalid k provided: None")
    refused("get_code_int empty table", ValueError, lambda: K.get_code_int("k", {"k": 0}, {}),
            msg="Invalid k provided: 0")
    refused("get_code_int unhashable", TypeError, lambda: K.get_code_int("k", {"k": []}, t))


# --------------------------------------------------------------------------
# 5. TransportID
# --------------------------------------------------------------------------
def section_transportid():
    M = PersistentReserveInReadFullStatus.marshall_transport_id
    U = PersistentReserveInReadFullStatus.unmarshall_transport_id
    I = PROTOCOL_ID.ISCSI
    name = "iqn.1993-08.org.debian:01:abc"

    # -- marshalling: inconsistent iSCSI TransportIDs
    need_sid = [
        {"protocol_id": I, "tpid_format": 1, "iscsi_name": name},
        {"protocol_id": I, "tpid_format": 1},
        {"protocol_id": I, "tpid_format": 2, "iscsi_name": name},
        {"protocol_id": I, "tpid_format": 3, "iscsi_name": name, "iscsi_initiator_session_id": ""},
        {"protocol_id": I, "tpid_format": 1, "iscsi_name": name, "iscsi_initiator_session_id": None},
        {"protocol_id": I, "tpid_format": 1, "iscsi_name": name, "iscsi_initiator_session_id": 0},
        {"protocol_id": I, "tpid_format": True, "iscsi_name": name},
        {"protocol_id": I, "tpid_format": "1", "iscsi_name": name},
        {"protocol_id": 5.0, "tpid_format": 1, "iscsi_name": name},
    ]
    need_fmt = [
        {"protocol_id": I, "iscsi_name": name, "iscsi_initiator_session_id": "ab12"},
        {"protocol_id": I, "tpid_format": 0, "iscsi_name": name, "iscsi_initiator_session_id": "ab12"},
        {"protocol_id": I, "tpid_format": None, "iscsi_name": name, "iscsi_initiator_session_id": "1"},
        {"protocol_id": I, "tpid_format": False, "iscsi_initiator_session_id": "1"},
        {"protocol_id": I, "iscsi_initiator_session_id": 7},
        {"protocol_id": I, "tpid_format": "", "iscsi_name": name, "iscsi_initiator_session_id": "0"},
    ]
    cases = [(d, "Must specify iscsi_initiator_session_id") for d in need_sid]
    cases += [(d, "Must specify tpid_format=1") for d in need_fmt]
    P = spc.PERSISTENT_RESERVE_OUT
    for d, msg in cases:
        snapshot = dict(d)
        refused("marshall_transport_id(%r)" % (d,), ValueError, lambda: M(d), args=(msg,))
        check_eq(d, snapshot, "TransportID left as supplied")
        # ... and so is every command that would have carried it
        routes = [
            ("REGISTER", lambda s: s.persistentreserveout(P.serviceaction.REGISTER, spec_i_pt=1,
                                                          transport_ids=[d])),
            ("REGISTER 2nd", lambda s: s.persistentreserveout(
                P.serviceaction.REGISTER, spec_i_pt=1, reservation_key=1,
                transport_ids=[{"protocol_id": PROTOCOL_ID.SAS, "sas_address": bytearray(8)}, d])),
            ("REGISTER AND MOVE", lambda s: s.persistentreserveout(
                P.serviceaction.REGISTER_AND_MOVE, 0, 1, transport_id=d, relative_target_port_id=1)),
        ]
        for rname, call in routes:
            for opcodes in (spc, sbc):
                s, dev = make(opcodes)
                refused("%s with %r" % (rname, d), ValueError, lambda: call(s), args=(msg,))
                quiet(dev, "%s with %r" % (rname, d))
        refused("PersistentReserveOut ctor", ValueError,
                lambda: PersistentReserveOut(P, P.serviceaction.REGISTER_AND_MOVE, transport_id=d),
                args=(msg,))
        refused("marshall_dataout", ValueError,
                lambda: PersistentReserveOut.marshall_dataout(P, 0, {"spec_i_pt": 1,
                                                                     "transport_ids": [d]}),
                args=(msg,))
    # where the TransportID is not used, it is not looked at
    s, dev = make(spc)
    cmd = s.persistentreserveout(P.serviceaction.REGISTER, transport_ids=[need_sid[0]])
    check(len(dev.log) == 1 and len(cmd.dataout) == 24, "transport_ids ignored without spec_i_pt")
    cmd = s.persistentreserveout(P.serviceaction.RESERVE, spec_i_pt=1, transport_ids=[need_sid[0]])
    check(len(dev.log) == 2 and len(cmd.dataout) == 24, "transport_ids ignored for RESERVE")

    # -- marshalling: incomplete TransportIDs
    incomplete = [
        ({}, KeyError, ("protocol_id",)),
        ({"tpid_format": 1}, KeyError, ("protocol_id",)),
        ({"protocol_id": PROTOCOL_ID.FIBRE_CHANNEL}, KeyError, ("n_port_name",)),
        ({"protocol_id": PROTOCOL_ID.IEEE_1394, "n_port_name": b"x" * 8}, KeyError, ("eui64_name",)),
        ({"protocol_id": PROTOCOL_ID.RDMA}, KeyError, ("initiator_port_identifier",)),
        ({"protocol_id": PROTOCOL_ID.SAS, "routing_id": b"x" * 8}, KeyError, ("sas_address",)),
        ({"protocol_id": PROTOCOL_ID.SOP, "sas_address": b"x" * 8}, KeyError, ("routing_id",)),
        ({"protocol_id": I}, KeyError, ("iscsi_name",)),
        ({"protocol_id": I, "tpid_format": 0}, KeyError, ("iscsi_name",)),
        ({"protocol_id": I, "tpid_format": 1, "iscsi_initiator_session_id": "1"}, KeyError,
         ("iscsi_name",)),
    ]
    for d, exc, args in incomplete:
        refused("marshall_transport_id(%r)" % (d,), exc, lambda: M(d), args=args)
        s, dev = make(spc)
        if d:  # an empty TransportID means "none" for REGISTER AND MOVE
            refused("REGISTER AND MOVE with %r" % (d,), exc,
                    lambda: s.persistentreserveout(P.serviceaction.REGISTER_AND_MOVE, transport_id=d),
                    args=args)
            quiet(dev, "REGISTER AND MOVE with %r" % (d,))
    refused("marshall_transport_id(None)", TypeError, lambda: M(None))

    # -- marshalling: consistent TransportIDs
    eight = bytearray(b"\x01\x02\x03\x04\x05\x06\x07\x08")
    sixteen = bytearray(range(0x10, 0x20))
    good = [
        ({"protocol_id": PROTOCOL_ID.FIBRE_CHANNEL, "n_port_name": eight},
         "00" + "00" * 7 + eight.hex() + "00" * 8),
        ({"protocol_id": PROTOCOL_ID.FIBRE_CHANNEL, "n_port_name": eight + b"\xff\xff"},
         "00" + "00" * 7 + eight.hex() + "00" * 8),
        ({"protocol_id": PROTOCOL_ID.IEEE_1394, "eui64_name": eight},
         "03" + "00" * 7 + eight.hex() + "00" * 8),
        ({"protocol_id": PROTOCOL_ID.RDMA, "initiator_port_identifier": sixteen},
         "04" + "00" * 7 + sixteen.hex()),
        ({"protocol_id": PROTOCOL_ID.SAS, "sas_address": eight, "tpid_format": 0},
         "06" + "00" * 3 + eight.hex() + "00" * 12),
        ({"protocol_id": PROTOCOL_ID.SOP, "routing_id": eight},
         "0a" + "00" * 3 + eight.hex() + "00" * 12),
        ({"protocol_id": PROTOCOL_ID.SOP, "routing_id": eight, "tpid_format": 3,
          "iscsi_initiator_session_id": "zz"},
         "ca" + "00" * 3 + eight.hex() + "00" * 12),
        # unknown protocols get the bare header
        ({"protocol_id": 7}, "07" + "00" * 23),
        ({"protocol_id": 1, "tpid_format": 1, "iscsi_initiator_session_id": "1"}, "41" + "00" * 23),
        ({"protocol_id": 0x0F, "n_port_name": eight}, "0f" + "00" * 23),
        ({"protocol_id": I, "iscsi_name": "abc"}, "05000004" + b"abc\0".hex()),
        ({"protocol_id": I, "iscsi_name": "abcd"}, "05000008" + b"abcd\0\0\0\0".hex()),
        ({"protocol_id": I, "iscsi_name": ""}, "05000004" + "00000000"),
        ({"protocol_id": I, "tpid_format": 0, "iscsi_name": "abcdefg",
          "iscsi_initiator_session_id": ""}, "05000008" + b"abcdefg\0".hex()),
        ({"protocol_id": I, "tpid_format": 1, "iscsi_name": "ab", "iscsi_initiator_session_id": "9f"},
         "4500000c" + b"ab,i,0x9f\0\0\0".hex()),
        ({"protocol_id": I, "tpid_format": 1, "iscsi_name": "a", "iscsi_initiator_session_id": 5},
         "45000008" + b"a,i,0x5\0".hex()),
        ({"protocol_id": I, "tpid_format": 2, "iscsi_name": "a", "iscsi_initiator_session_id": "5"},
         "85000008" + b"a,i,0x5\0".hex()),
        ({"protocol_id": I, "tpid_format": 1, "iscsi_name": name,
          "iscsi_initiator_session_id": "23d000001"},
         "4500002c" + (name + ",i,0x23d000001").encode().hex() + "00"),
    ]
    for d, want in good:
        snapshot = dict(d)
        got = M(d)
        check(type(got) is bytearray, "marshall_transport_id returns a bytearray")
        check_eq(bytes(got).hex(), want, "marshall_transport_id(%r)" % (d,))
        check_eq(d, snapshot, "TransportID left as supplied")
        # carried by REGISTER AND MOVE
        s, dev = make(spc)
        cmd = s.persistentreserveout(P.serviceaction.REGISTER_AND_MOVE, transport_id=d)
        check(len(dev.log) == 1 and dev.log[0][0] is cmd, "REGISTER AND MOVE executed once")
        check_eq(bytes(cmd.dataout[24:]).hex(), want, "REGISTER AND MOVE payload")
        check_eq(cmd.dataout[20:24], bytearray([0, 0, 0, len(want) // 2]), "TransportID length")

    # -- unmarshalling
    pad = "00" * 24
    for pid in range(16):
        for fmt in range(4):
            head = bytearray.fromhex("%02x" % ((fmt << 6) | pid) + "aa" + "0008" + pad)
            head[4:12] = b"ab,i,0x9"
            head[12:24] = bytes(range(0x21, 0x2D))
            what = "unmarshall_transport_id pid=%d fmt=%d" % (pid, fmt)
            base = {"tpid_format": fmt, "protocol_id": pid}
            if pid == 0:
                base["n_port_name"] = head[8:16]
            elif pid == 3:
                base["eui64_name"] = head[8:16]
            elif pid == 4:
                base["initiator_port_identifier"] = head[8:24]
            elif pid == 6:
                base["sas_address"] = head[4:12]
            elif pid == 10:
                base["routing_id"] = head[4:12]
            elif pid == 5:
                if fmt == 0:
                    base["iscsi_name"] = "ab,i,0x9"
                elif fmt == 1:
                    base["iscsi_name"] = "ab"
                    base["iscsi_initiator_session_id"] = "9"
                else:
                    refused(what, ValueError, lambda: U(head), args=("Invalid TPID FORMAT: %d" % fmt,))
                    continue
            else:
                refused(what, ValueError, lambda: U(head), args=("Invalid PROTOCOL ID: %d" % pid,))
                refused(what + " bytes", ValueError, lambda: U(bytes(head)),
                        args=("Invalid PROTOCOL ID: %d" % pid,))
                continue
            got = U(head)
            check_eq(got, base, what)
            check_eq(list(got.keys())[:2], ["tpid_format", "protocol_id"], what + " key order")
    # iSCSI format 1 without the separator, or with two of them
    for text in (b"abcdefgh", b"a,i,0x1,i,0x2\0\0\0"):
        head = bytearray.fromhex("4500%04x" % len(text)) + text
        refused("unmarshall iSCSI %r" % text, ValueError, lambda: U(head))
    head = bytearray.fromhex("45000004") + b"\xff\xfe\0\0"
    refused("unmarshall iSCSI bad utf-8", UnicodeDecodeError, lambda: U(head))
    refused("unmarshall None", TypeError, lambda: U(None))
    # round trips
    for d, want in good:
        if d["protocol_id"] in (7, 1, 0x0F):
            refused("round trip of unknown protocol", ValueError, lambda: U(M(d)),
                    args=("Invalid PROTOCOL ID: %d" % d["protocol_id"],))
            continue
        if d["protocol_id"] == I and d.get("tpid_format") == 2:
            refused("round trip of tpid_format 2", ValueError, lambda: U(M(d)),
                    args=("Invalid TPID FORMAT: 2",))
            continue
        back = U(M(d))
        check_eq(back["protocol_id"], d["protocol_id"], "round trip protocol")
        check_eq(back["tpid_format"], d.get("tpid_format", 0), "round trip format")
        for k in ("iscsi_name",):
            if k in d:
                check_eq(back[k], d[k], "round trip %s" % k)
        if d.get("iscsi_initiator_session_id") and d["protocol_id"] == I:
            check_eq(back["iscsi_initiator_session_id"], str(d["iscsi_initiator_session_id"]),
                     "round trip session id")

    # -- READ FULL STATUS data carrying TransportIDs
    def full_status(*tids):
        body = bytearray()
        for i, t in enumerate(tids):
            desc = bytearray(24)
            desc[0:8] = bytes([0, 0, 0, 0, 0, 0, 0, i + 1])
            desc[12] = 0x01
            desc[13] = 0x03
            desc[18:20] = bytes([0, i + 1])
            desc[20:24] = bytes([0, 0, 0, len(t)])
            body += desc + t
        return bytearray([0, 0, 0, 9]) + bytearray([0, 0, (len(body) >> 8) & 0xFF, len(body) & 0xFF]) + body

    t_good = M({"protocol_id": PROTOCOL_ID.SAS, "sas_address": eight})
    t_iscsi = M({"protocol_id": I, "tpid_format": 1, "iscsi_name": "ab",
                 "iscsi_initiator_session_id": "9f"})
    t_bad_proto = bytearray.fromhex("07" + "00" * 23)
    t_bad_fmt = bytearray.fromhex("85000008") + b"a,i,0x5\0"
    UD = PersistentReserveInReadFullStatus.unmarshall_datain
    res = UD(full_status(t_good, t_iscsi))
    check_eq(res["pr_generation"], 9, "full status generation")
    check_eq(len(res["full_status"]), 2, "full status entries")
    check_eq(res["full_status"][0]["transport_id"],
             {"tpid_format": 0, "protocol_id": 6, "sas_address": eight}, "full status SAS")
    check_eq(res["full_status"][1]["transport_id"],
             {"tpid_format": 1, "protocol_id": 5, "iscsi_name": "ab",
              "iscsi_initiator_session_id": "9f"}, "full status iSCSI")
    check_eq(res["full_status"][1]["reservation_key"], 2, "full status key")
    for bad, msg in ((t_bad_proto, "Invalid PROTOCOL ID: 7"), (t_bad_fmt, "Invalid TPID FORMAT: 2")):
        for data in (full_status(bad), full_status(t_good, bad), full_status(bad, t_good)):
            refused("full status with bad TransportID", ValueError, lambda: UD(data), args=(msg,))
            # no half-filled command comes back from the facade either
            s, dev = make(spc, fill=bytes(data))
            refused("persistentreservein(3) with bad TransportID", ValueError,
                    lambda: s.persistentreservein(3), args=(msg,))
            check_eq(len(dev.log), 1, "the READ FULL STATUS itself was sent once")
    s, dev = make(spc, fill=bytes(full_status(t_good, t_iscsi)))
    cmd = s.persistentreservein(3)
    check_eq(cmd.result, res, "facade result")


def main():
    section_errors()
    section_blocksize()
    section_ata()
    section_opcode()
    section_prin()
    section_xcopy(4)
    section_xcopy(5)
    section_transportid()
    if FAILURES:
        print("FAIL: %d of %d checks failed" % (len(FAILURES), CHECKS[0]))
        for f in FAILURES[:40]:
            print("  - " + f)
        return 1
    print("PASS (%d checks)" % CHECKS[0])
    return 0


if __name__ == "__main__":
    sys.exit(main())
