#!/usr/bin/env python
# coding: utf-8
"""
Demo / checker for property C06:

  For every parameter-data structure the library can both build and parse,
  parsing what it built returns the original values.  Conversely, rebuilding
  what it parsed from a canonical device response reproduces that response byte
  for byte, so reading a mode page, changing one field and writing it back
  changes only that field's bits.

Run as
    cd /tmp/seed/C06u && PYTHONPATH=/tmp/seed/C06u /venv/bin/python SEED/demo.py

Everything is exercised through the public API of the library (the command
classes' marshall_* / unmarshall_* class methods, the SCSI convenience class
with a fake device and tools/swp.py with a fake device).  An independent
reference encoder / decoder written here, driven by its own copy of the field
layouts, is used to cross-check the bytes and the values.  On top of the
explicit checks every observed outcome (result or exception type) is folded
into a fingerprint that is compared with the value recorded on the unmodified
library.
"""
import contextlib
import hashlib
import importlib.util
import io
import os
import random
import sys
import types

# --------------------------------------------------------------------------
# fake external bindings (not installed): only needed so that importing
# the device modules / tools never fails.
# --------------------------------------------------------------------------
for _name in ("sgio", "iscsi"):
    if _name not in sys.modules:
        try:
            __import__(_name)
        except ImportError:
            _m = types.ModuleType(_name)

            class _CheckConditionError(Exception):
                sense = b""

            _m.CheckConditionError = _CheckConditionError
            _m.UnspecifiedError = type("UnspecifiedError", (Exception,), {})
            _m.execute = lambda *a, **k: 0
            sys.modules[_name] = _m

from pyscsi.pyscsi import scsi_enum_inquiry as INQ
from pyscsi.pyscsi import scsi_enum_modesense as MS
from pyscsi.pyscsi.scsi import SCSI
from pyscsi.pyscsi.scsi_cdb_getlbastatus import GetLBAStatus
from pyscsi.pyscsi.scsi_cdb_inquiry import Inquiry
from pyscsi.pyscsi.scsi_cdb_modesense6 import ModeSelect6, ModeSense6
from pyscsi.pyscsi.scsi_cdb_modesense10 import ModeSelect10, ModeSense10
from pyscsi.pyscsi.scsi_cdb_persistentreservein import (
    PersistentReserveIn,
    PersistentReserveInReadFullStatus,
    PersistentReserveInReadKeys,
    PersistentReserveInReadReservation,
    PersistentReserveInReportCapabilities,
)
from pyscsi.pyscsi.scsi_cdb_readcapacity10 import ReadCapacity10
from pyscsi.pyscsi.scsi_cdb_readcapacity16 import ReadCapacity16
from pyscsi.pyscsi.scsi_cdb_readcd import ReadCd
from pyscsi.pyscsi.scsi_cdb_readdiscinformation import ReadDiscInformation
from pyscsi.pyscsi.scsi_cdb_readelementstatus import ReadElementStatus
from pyscsi.pyscsi.scsi_cdb_report_luns import ReportLuns
from pyscsi.pyscsi.scsi_cdb_report_priority import ReportPriority
from pyscsi.pyscsi.scsi_cdb_report_target_port_groups import ReportTargetPortGroups
from pyscsi.pyscsi.scsi_command import SCSICommand
from pyscsi.pyscsi.scsi_enum_command import mmc, sbc, smc, spc
from pyscsi.pyscsi.scsi_enum_persistentreserve import PROTOCOL_ID
from pyscsi.pyscsi.scsi_enum_readelementstatus import ELEMENT_TYPE
from pyscsi.pyscsi.scsi_enum_report_target_port_groups import DATA_FORMAT_TYPE

RNG = random.Random(0xC06)
FAILURES = []
CHECKS = [0]


def check(cond, msg):
    CHECKS[0] += 1
    if not cond:
        FAILURES.append(msg)
        if len(FAILURES) <= 40:
            print("FAIL:", msg)


# --------------------------------------------------------------------------
# fingerprint of everything we observe
# --------------------------------------------------------------------------
_H = hashlib.sha256()


def _norm(o):
    if isinstance(o, (bytes, bytearray)):
        return (type(o).__name__, bytes(o).hex())
    if isinstance(o, memoryview):
        return ("memoryview", bytes(o).hex())
    if isinstance(o, dict):
        return ("dict", [(_norm(k), _norm(v)) for k, v in o.items()])
    if isinstance(o, (list, tuple)):
        return (type(o).__name__, [_norm(i) for i in o])
    if isinstance(o, bool):
        return ("bool", o)
    if isinstance(o, int):
        return ("int", int(o))
    if o is None or isinstance(o, (str, float)):
        return (type(o).__name__, o)
    return ("obj", type(o).__name__)


def note(tag, obj):
    _H.update(repr((tag, _norm(obj))).encode("utf-8"))
    _H.update(b"\n")


def attempt(tag, fn, *args, **kwargs):
    """call fn, fold the outcome in the fingerprint, return (ok, value)"""
    try:
        r = fn(*args, **kwargs)
    except Exception as e:  # noqa - the *type* of failure is part of the behaviour
        note(tag, ("EXC", type(e).__name__))
        return False, e
    note(tag, ("OK", r))
    return True, r


# --------------------------------------------------------------------------
# independent reference encoder / decoder
# --------------------------------------------------------------------------
def _shift(mask):
    s = 0
    while not (mask >> s) & 1:
        s += 1
    return s


def _nbytes(mask):
    n = 1
    while mask >> (8 * n):
        n += 1
    return n


def fmax(spec):
    """largest value a (mask, offset) field can hold"""
    return spec[0] >> _shift(spec[0])


def ref_encode(values, layout, buf, base=0):
    """OR the values into buf (a bytearray of zeros at the field positions)"""
    for name, spec in layout.items():
        if name not in values:
            continue
        v = values[name]
        if len(spec) == 2:
            mask, off = spec
            n = _nbytes(mask)
            word = (v << _shift(mask)) & ((1 << (8 * n)) - 1)
            for i in range(n):
                buf[base + off + i] |= (word >> (8 * (n - 1 - i))) & 0xFF
        else:
            kind, off, length = spec
            length *= {"b": 1, "w": 2, "dw": 4}[kind]
            buf[base + off : base + off + length] = v
    return buf


def ref_decode(buf, layout, base=0):
    out = {}
    for name, spec in layout.items():
        if len(spec) == 2:
            mask, off = spec
            n = _nbytes(mask)
            word = int.from_bytes(bytes(buf[base + off : base + off + n]), "big")
            out[name] = (word & mask) >> _shift(mask)
        else:
            kind, off, length = spec
            length *= {"b": 1, "w": 2, "dw": 4}[kind]
            out[name] = buf[base + off : base + off + length]
    return out


def rand_values(layout, mode="rand", skip=()):
    out = {}
    for name, spec in layout.items():
        if name in skip:
            continue
        if len(spec) == 2:
            top = fmax(spec)
            if mode == "zero":
                out[name] = 0
            elif mode == "max":
                out[name] = top
            elif mode == "one":
                out[name] = 1
            else:
                out[name] = RNG.choice((0, top, RNG.randint(0, top), RNG.randint(0, top)))
        else:
            kind, off, length = spec
            length *= {"b": 1, "w": 2, "dw": 4}[kind]
            if mode == "zero":
                out[name] = bytearray(length)
            elif mode == "max":
                out[name] = bytearray([0xFF] * length)
            else:
                out[name] = bytearray(RNG.randrange(256) for _ in range(length))
    return out


def rbytes(n):
    return bytearray(RNG.randrange(256) for _ in range(n))


def be(v, n):
    return bytearray(v.to_bytes(n, "big"))


MODES = ["zero", "max", "one"] + ["rand"] * 12


def roundtrip_dict(tag, cls, d, **kw):
    """build -> parse gives the original values back"""
    ok, b = attempt(tag + ":marshall", cls.marshall_datain, d)
    check(ok, "%s: marshall_datain raised %r" % (tag, b))
    if not ok:
        return None
    check(isinstance(b, bytearray), "%s: marshall_datain returns a bytearray" % tag)
    ok, d2 = attempt(tag + ":unmarshall", cls.unmarshall_datain, b, **kw)
    check(ok, "%s: unmarshall_datain raised %r" % (tag, d2))
    if ok:
        check(d2 == d, "%s: parse(build(d)) != d\n   d =%r\n   d2=%r" % (tag, d, d2))
        # immutable input must parse to the same values
        ok3, d3 = attempt(tag + ":unmarshall-bytes", cls.unmarshall_datain, bytes(b), **kw)
        check(ok3 and d3 == d, "%s: parsing a bytes object differs" % tag)
        # and building again what we parsed is stable
        ok4, b4 = attempt(tag + ":re-marshall", cls.marshall_datain, d2)
        check(ok4 and b4 == b, "%s: build(parse(build(d))) != build(d)" % tag)
    return b


def roundtrip_bytes(tag, cls, b, **kw):
    """parse -> build reproduces a canonical response byte for byte"""
    orig = bytes(b)
    ok, d = attempt(tag + ":unmarshall", cls.unmarshall_datain, b, **kw)
    check(ok, "%s: unmarshall_datain raised %r" % (tag, d))
    check(bytes(b) == orig, "%s: unmarshall_datain modified its input" % tag)
    if not ok:
        return None
    ok, b2 = attempt(tag + ":marshall", cls.marshall_datain, d)
    check(ok, "%s: marshall_datain raised %r" % (tag, b2))
    if ok:
        check(
            bytes(b2) == orig,
            "%s: build(parse(b)) != b\n   b =%s\n   b2=%s" % (tag, orig.hex(), bytes(b2).hex()),
        )
    return d


# ---- reference field layouts (name -> (mask, byte offset) or (kind, offset, length)),
# ---- copied from the SCSI standards tables the library implements
INQ_ATA_IDENTIFY_BITS = {'general_config': (4294967295, 0),
 'specific_config': (4294967295, 4),
 'serial_number': ('w', 20, 10),
 'firmware_rev': ('w', 46, 4),
 'model_number': ('w', 54, 20)}
INQ_ATA_IDENTIFY_GEN_CONF_BITS = {'ata_device': (128, 1), 'respose_incomplete': (4, 0)}
INQ_ATA_INFORMATION_BITS = {'sat_vendor_identification': ('b', 8, 8),
 'sat_product_identification': ('b', 16, 16),
 'sat_product_rev_lvl': ('b', 32, 4)}
INQ_ATA_SIGNATURE_BITS = {'sector_count': (255, 12),
 'lba_low': (255, 4),
 'lba_mid': (255, 5),
 'lba_high': (255, 6),
 'device': (255, 7)}
INQ_BLOCK_DEV_CHAR_BITS = {'medium_rotation_rate': (65535, 4),
 'product_type': (255, 6),
 'wabereq': (192, 7),
 'wacereq': (48, 7),
 'nominal_form_factor': (15, 7),
 'fuab': (2, 8),
 'vbuls': (1, 8)}
INQ_BLOCK_LIMITS_BITS = {'wsnz': (1, 4),
 'ugavalid': (128, 32),
 'max_caw_len': (255, 5),
 'opt_xfer_len_gran': (65535, 6),
 'max_xfer_len': (4294967295, 8),
 'opt_xfer_len': (4294967295, 12),
 'max_pfetch_len': (4294967295, 16),
 'max_unmap_lba_count': (4294967295, 20),
 'max_unmap_bd_count': (4294967295, 24),
 'opt_unmap_gran': (4294967295, 28),
 'unmap_gran_alignment': (2147483647, 32),
 'max_ws_len': (18446744073709551615, 36)}
INQ_DATAIN_BITS = {'peripheral_qualifier': (224, 0), 'peripheral_device_type': (31, 0)}
INQ_DESIGNATOR_BITS = {'protocol_identifier': (240, 0),
 'code_set': (15, 0),
 'piv': (128, 1),
 'association': (48, 1),
 'designator_type': (15, 1),
 'designator_length': (255, 3)}
INQ_EXTENDED_BITS = {'activate_microcode': (192, 4),
 'spt': (56, 4),
 'grd_chk': (4, 4),
 'app_chk': (2, 4),
 'ref_chk': (1, 4),
 'uask_sup': (32, 5),
 'group_sup': (16, 5),
 'prior_sup': (8, 5),
 'headsup': (4, 5),
 'ordsup': (2, 5),
 'simpsup': (1, 5),
 'wu_sup': (8, 6),
 'crd_sup': (4, 6),
 'nv_sup': (2, 6),
 'v_sup': (1, 6),
 'p_i_i_sup': (16, 7),
 'luiclr': (1, 7),
 'r_sup': (16, 8),
 'cbcs': (1, 8),
 'multi_it_nexus_microcode_download': (15, 9),
 'extended_self_test_completion_minutes': (65535, 10),
 'poa_sup': (128, 12),
 'hra_sup': (64, 12),
 'vsa_sup': (32, 12),
 'maximum_supported_sense_data_length': (255, 13)}
INQ_LOGICAL_BLOCK_PROVISIONING_BITS = {'threshold_exponent': (255, 4),
 'lbpu': (128, 5),
 'lpbws': (64, 5),
 'lbpws10': (32, 5),
 'lbprz': (4, 5),
 'anc_sup': (2, 5),
 'dp': (1, 5),
 'provisioning_type': (7, 6)}
INQ_LOGICAL_UNIT_GROUP_BITS = {'logical_unit_group': (65535, 2)}
INQ_NAA_IEEE_EXTENDED_BITS = {'vendor_specific_identifier_a': (4095, 0),
 'ieee_company_id': (16777215, 2),
 'vendor_specific_identifier_b': (16777215, 5)}
INQ_NAA_IEEE_REGISTERED_BITS = {'ieee_company_id': (268435440, 0), 'vendor_specific_identifier': (68719476735, 3)}
INQ_NAA_IEEE_REGISTERED_EXTENDED_BITS = {'ieee_company_id': (268435440, 0),
 'vendor_specific_identifier': (68719476735, 3),
 'vendor_specific_identifier_extension': (18446744073709551615, 8)}
INQ_NAA_LOCALLY_ASSIGNED_BITS = {'locally_administered_value': (1152921504606846975, 0)}
INQ_NAA_TYPE_BITS = {'naa': (240, 0)}
INQ_PAGECODE_BITS = {'page_code': (255, 1)}
INQ_PCI_EXPRESS_ROUTING_ID_BITS = {'pci_express_routing_id': (65535, 0)}
INQ_REFERRALS_BITS = {'user_data_segment_size': (4294967295, 8), 'user_data_segment_multiplier': (4294967295, 12)}
INQ_RELATIVE_PORT_BITS = {'relative_port': (65535, 2)}
INQ_STANDARD_BITS = {'rmb': (128, 1),
 'version': (255, 2),
 'normaca': (32, 3),
 'hisup': (16, 3),
 'response_data_format': (15, 3),
 'additional_length': (255, 4),
 'sccs': (128, 5),
 'acc': (64, 5),
 'tpgs': (48, 5),
 '3pc': (8, 5),
 'protect': (1, 5),
 'encserv': (64, 6),
 'vs': (32, 6),
 'multip': (16, 6),
 'addr16': (1, 6),
 'wbus16': (32, 7),
 'sync': (16, 7),
 'cmdque': (2, 7),
 'vs2': (1, 7),
 't10_vendor_identification': ('b', 8, 8),
 'product_identification': ('b', 16, 16),
 'product_revision_level': ('b', 32, 4),
 'clocking': (12, 56),
 'qas': (2, 56),
 'ius': (1, 56)}
INQ_TARGET_PORTAL_GROUP_BITS = {'target_portal_group': (65535, 2)}
MS_MODE_PARAMETER_HEADER6_BITS = {'medium_type': (255, 1), 'device_specific_parameter': (255, 2)}
MS_MODE_PARAMETER_HEADER10_BITS = {'medium_type': (255, 2), 'device_specific_parameter': (255, 3), 'longlba': (1, 4)}
MS_PAGE_ZERO_BITS = {'ps': (128, 0), 'spf': (64, 0), 'page_code': (63, 0)}
MS_SUB_PAGE_BITS = {'ps': (128, 0), 'spf': (64, 0), 'page_code': (63, 0), 'sub_page_code': (255, 1)}
MS_ELEMENT_ADDRESS_BITS = {'first_medium_transport_element_address': (65535, 0),
 'num_medium_transport_elements': (65535, 2),
 'first_storage_element_address': (65535, 4),
 'num_storage_elements': (65535, 6),
 'first_import_element_address': (65535, 8),
 'num_import_elements': (65535, 10),
 'first_data_transfer_element_address': (65535, 12),
 'num_data_transfer_elements': (65535, 14)}
MS_CONTROL_BITS = {'tst': (224, 0),
 'tmf_only': (16, 0),
 'dpicz': (8, 0),
 'd_sense': (4, 0),
 'gltsd': (2, 0),
 'rlec': (1, 0),
 'queue_algorithm_modifier': (240, 1),
 'nuar': (8, 1),
 'qerr': (6, 1),
 'vs': (128, 2),
 'rac': (64, 2),
 'ua_intlck_ctrl': (48, 2),
 'swp': (8, 2),
 'ato': (128, 3),
 'tas': (64, 3),
 'atmpe': (32, 3),
 'rwwp': (16, 3),
 'autoload_mode': (7, 3),
 'busy_timeout_period': (65535, 6),
 'extended_self_test_completion_time': (65535, 8)}
MS_CONTROL_EXTENSION_1_BITS = {'tcmos': (4, 0),
 'scsip': (2, 0),
 'ialuae': (1, 0),
 'initial_command_priority': (15, 1),
 'maximum_sense_data_length': (255, 2)}
MS_DISCONNECT_RECONNECT_BITS = {'buffer_full_ratio': (255, 0),
 'buffer_empty_ratio': (255, 1),
 'bus_inactivity_limit': (65535, 2),
 'disconnect_time_limit': (65535, 4),
 'connect_time_limit': (65535, 6),
 'maximum_burst_size': (65535, 8),
 'emdp': (128, 10),
 'fair_arbitration': (112, 10),
 'dimm': (8, 10),
 'dtdc': (7, 10),
 'first_burst_size': (65535, 12)}
MS_POWER_CONDITION_BITS = {'pm_bg_precedence': (192, 2),
 'standby_y': (1, 1),
 'idle_c': (8, 3),
 'idle_b': (4, 3),
 'idle_a': (2, 3),
 'standby_z': (1, 2),
 'idle_a_condition_timer': (4294967295, 4),
 'idle_b_condition_timer': (4294967295, 12),
 'idle_c_condition_timer': (4294967295, 16),
 'standby_y_condition_timer': (4294967295, 20),
 'standby_z_condition_timer': (4294967295, 8),
 'ccf_idle': (192, 39),
 'ccf_standby': (48, 39),
 'ccf_stopped': (12, 39)}
MS_POWER_CONSUMPTION_BITS = {'POWER_CONSUMPTION_IDENTIFIER': (255, 7)}
MS_PROTOCOL_SPECIFIC_LOGICAL_UNIT_BITS = {'protocol_specific_mode_parameters': (240, 2), 'protocol_identifier': (15, 2)}
RES_DATA_TRANSFER_DESCRIPTOR_BITS = {'access': (8, 2)}
RES_DATAIN_BITS = {'first_element_address': (65535, 0), 'num_elements': (65535, 2)}
RES_ELEMENT_STATUS_DESCRIPTOR_BITS = {'element_address': (65535, 0),
 'except': (4, 2),
 'full': (1, 2),
 'additional_sense_code': (255, 4),
 'additional_sense_code_qualifier': (255, 5),
 'svalid': (128, 9),
 'invert': (64, 9),
 'ed': (8, 9),
 'medium_type': (7, 9),
 'source_storage_element_address': (65535, 10)}
RES_ELEMENT_STATUS_PAGE_BITS = {'element_type': (15, 0), 'pvoltag': (128, 1), 'avoltag': (64, 1)}
RES_IMPORT_EXPORT_DESCRIPTOR_BITS = {'oir': (128, 2),
 'cmc': (64, 2),
 'inenab': (32, 2),
 'exenab': (16, 2),
 'access': (8, 2),
 'impexp': (2, 2)}
RES_STORAGE_DESCRIPTOR_BITS = {'access': (8, 2)}
TPG_EXT_HDR_BITS = {'format_type': (112, 0), 'implicit_transition_time': (255, 1)}
TPG_TPGD_BITS = {'asymmetric_access_state': (15, 0),
 'pref': (128, 0),
 'ao_sup': (1, 1),
 'an_sup': (2, 1),
 's_sup': (4, 1),
 'u_sup': (8, 1),
 'o_sup': (64, 1),
 't_sup': (128, 1),
 'target_port_group': (65535, 2),
 'status_code': (255, 5),
 'vendor': (255, 6),
 'target_port_count': (255, 7)}
RC16_DATAIN_BITS = {'returned_lba': (18446744073709551615, 0),
 'block_length': (4294967295, 8),
 'p_type': (14, 12),
 'prot_en': (1, 12),
 'p_i_exponent': (240, 13),
 'lbppbe': (15, 13),
 'lbpme': (128, 14),
 'lbprz': (64, 14),
 'lowest_aligned_lba': (16383, 14)}
RDI_POW_BITS = {'disc_information_length': (65535, 0),
 'disc_information_data_type': (224, 2),
 'remaining_pow_replacements': (4294967295, 4),
 'remaining_pow_reallocation_map_entries': (4294967295, 8),
 'number_of_remaining_pow_updates': (4294967295, 12)}
RDI_SDI_BITS = {'disc_information_length': (65535, 0),
 'disc_information_data_type': (224, 2),
 'erasable': (16, 2),
 'state_of_last_session': (12, 2),
 'disc_status': (3, 2),
 'number_of_first_track_on_disc': (255, 3),
 'number_of_sessions_lsb': (255, 4),
 'first_track_number_in_last_session_lsb': (255, 5),
 'last_track_number_in_last_session_lsb': (255, 6),
 'did_v': (128, 7),
 'dbc_v': (64, 7),
 'uru': (32, 7),
 'dac_v': (16, 7),
 'legacy': (4, 7),
 'bg_format_status': (3, 7),
 'disc_type': (255, 8),
 'number_of_sessions_msb': (255, 9),
 'first_track_number_in_last_session_msb': (255, 10),
 'last_track_number_in_last_session_msb': (255, 11),
 'disc_identification': (4294967295, 12),
 'last_session_lead_in_start_address': ('b', 16, 4),
 'last_possible_lead_out_start_address': ('b', 20, 4),
 'disc_bar_code': ('b', 24, 8),
 'disc_application_code': (255, 32),
 'number_of_opc_tables': (255, 33)}
RDI_TRI_BITS = {'disc_information_length': (65535, 0),
 'disc_information_data_type': (224, 2),
 'maximum_possible_number_of_the_tracks': (65535, 4),
 'number_of_the_assigned_tracks': (65535, 6),
 'maximum_possible_number_of_appendable_tracks': (65535, 8),
 'current_number_of_appendable_tracks': (65535, 10)}
PRR_BITS = {'reservation_key': (18446744073709551615, 8), 'scope': (240, 21), 'type': (15, 21)}
PRC_BITS = {'length': (65535, 0),
 'ptpl_c': (1, 2),
 'atp_c': (4, 2),
 'sip_c': (8, 2),
 'crh': (16, 2),
 'rlr_c': (128, 2),
 'ptpl_a': (1, 3),
 'allow_commands': (112, 3),
 'tmv': (128, 3),
 'pr_type_mask': (65535, 4)}
PRC_PR_TYPE_MASK_BITS = {'wr_ex': (2, 4),
 'ex_ac': (8, 4),
 'wr_ex_ro': (32, 4),
 'ex_ac_ro': (64, 4),
 'wr_ex_ar': (128, 4),
 'ex_ac_ar': (1, 5)}
PRF_FULL_STATUS_DESC_BITS = {'reservation_key': (18446744073709551615, 0),
 'r_holder': (1, 12),
 'all_tg_pt': (2, 12),
 'scope': (240, 13),
 'type': (15, 13),
 'relative_target_port_id': (65535, 18),
 'additional_desc_length': (4294967295, 20)}
PRF_TRANSPORT_ID_BITS = {'tpid_format': (192, 0), 'protocol_id': (15, 0)}

# ==========================================================================
# 1. fixed layouts: READ CAPACITY (10) / (16)
# ==========================================================================
RC10_BITS = {"returned_lba": (0xFFFFFFFF, 0), "block_length": (0xFFFFFFFF, 4)}


def test_readcapacity():
    for cls, layout, size, name in (
        (ReadCapacity10, RC10_BITS, 8, "rc10"),
        (ReadCapacity16, RC16_DATAIN_BITS, 32, "rc16"),
    ):
        for n, mode in enumerate(MODES):
            d = rand_values(layout, mode)
            b = roundtrip_dict("%s.%d" % (name, n), cls, d)
            ref = ref_encode(d, layout, bytearray(size))
            check(b == ref, "%s: built bytes differ from the reference" % name)
            roundtrip_bytes("%s.b%d" % (name, n), cls, bytearray(ref))
            check(
                cls.unmarshall_datain(ref) == ref_decode(ref, layout),
                "%s: parsed values differ from the reference" % name,
            )
            # a device may return more than the structure: extra bytes are ignored
            check(
                cls.unmarshall_datain(ref + rbytes(7)) == d,
                "%s: trailing bytes change the parsed values" % name,
            )
        # partial dictionaries only touch their own bits
        for key in layout:
            d = {key: fmax(layout[key])}
            ok, b = attempt(name + ".partial." + key, cls.marshall_datain, d)
            check(ok and b == ref_encode(d, layout, bytearray(size)), "%s partial %s" % (name, key))
        # unknown keys are ignored
        ok, b = attempt(name + ".unknown", cls.marshall_datain, {"nonsense": 5, "block_length": 512})
        check(ok and b == ref_encode({"block_length": 512}, layout, bytearray(size)), name + " unknown key")
        # unusual input: truncated / empty / wrong type
        for t in (0, 1, 3, size - 1):
            attempt("%s.trunc%d" % (name, t), cls.unmarshall_datain, bytearray(range(1, t + 1)))
        attempt(name + ".list", cls.unmarshall_datain, list(range(size)))
        attempt(name + ".none", cls.unmarshall_datain, None)
        attempt(name + ".mnone", cls.marshall_datain, None)
        attempt(name + ".mstr", cls.marshall_datain, {"block_length": "x"})
        attempt(name + ".mneg", cls.marshall_datain, {"block_length": -1})
        attempt(name + ".mbig", cls.marshall_datain, {"block_length": 1 << 40})


# ==========================================================================
# 2. lists of fixed size descriptors: GET LBA STATUS, REPORT LUNS
# ==========================================================================
LBA_BITS = {
    "lba": (0xFFFFFFFFFFFFFFFF, 0),
    "num_blocks": (0xFFFFFFFF, 8),
    "p_status": (0x0F, 12),
}
LUN_BITS = {"lun": (0xFFFFFFFFFFFFFFFF, 0)}


def test_getlbastatus():
    for n, count in enumerate((0, 1, 2, 3, 7, 64, 1100)):
        for mode in ("zero", "max", "rand", "rand"):
            descs = [rand_values(LBA_BITS, mode) for _ in range(count)]
            d = {"lbas": descs}
            ref = bytearray(8)
            for x in descs:
                ref += ref_encode(x, LBA_BITS, bytearray(16))
            ref[0:4] = be(len(ref) - 4, 4)
            b = roundtrip_dict("lba.%d.%s" % (n, mode), GetLBAStatus, d)
            check(b == ref, "getlbastatus: built bytes differ from the reference (%d)" % count)
            roundtrip_bytes("lba.b%d.%s" % (n, mode), GetLBAStatus, bytearray(ref))
            # data beyond the announced length is not part of the response
            check(
                GetLBAStatus.unmarshall_datain(ref + rbytes(24)) == d,
                "getlbastatus: bytes beyond the data length were parsed",
            )
    ok, b = attempt("lba.nokey", GetLBAStatus.marshall_datain, {})
    check(ok and b == bytearray(b"\x00\x00\x00\x04\x00\x00\x00\x00"), "getlbastatus: empty dict")
    ok, d = attempt("lba.hdr", GetLBAStatus.unmarshall_datain, b)
    check(ok and d == {"lbas": []}, "getlbastatus: header only")
    # unusual: a generator / tuple of descriptors, truncated last descriptor
    descs = [rand_values(LBA_BITS) for _ in range(3)]
    ok, b1 = attempt("lba.tuple", GetLBAStatus.marshall_datain, {"lbas": tuple(descs)})
    ok2, b2 = attempt("lba.gen", GetLBAStatus.marshall_datain, {"lbas": (x for x in descs)})
    check(ok and ok2 and b1 == b2 == GetLBAStatus.marshall_datain({"lbas": descs}), "getlbastatus: iterable kinds")
    t = GetLBAStatus.marshall_datain({"lbas": descs})
    t[0:4] = be(len(t) - 4 - 5, 4)
    attempt("lba.partial", GetLBAStatus.unmarshall_datain, t)
    attempt("lba.short", GetLBAStatus.unmarshall_datain, bytearray(3))
    attempt("lba.empty", GetLBAStatus.unmarshall_datain, bytearray())
    attempt("lba.bad", GetLBAStatus.marshall_datain, {"lbas": 5})
    attempt("lba.bad2", GetLBAStatus.marshall_datain, {"lbas": [None]})
    attempt("lba.extra", GetLBAStatus.marshall_datain, {"lbas": [{"lba": 1, "zzz": 3}]})


def test_reportluns():
    for n, count in enumerate((0, 1, 2, 5, 11, 300, 1100)):
        for mode in ("zero", "max", "rand"):
            vals = [rand_values(LUN_BITS, mode)["lun"] for _ in range(count)]
            d = {"luns": [{"lun%d" % i: v} for i, v in enumerate(vals)]}
            ref = bytearray(8)
            for v in vals:
                ref += be(v, 8)
            ref[0:4] = be(len(ref) - 8, 4)
            b = roundtrip_dict("luns.%d.%s" % (n, mode), ReportLuns, d)
            check(b == ref, "reportluns: built bytes differ from the reference (%d)" % count)
            roundtrip_bytes("luns.b%d.%s" % (n, mode), ReportLuns, bytearray(ref))
            check(
                ReportLuns.unmarshall_datain(ref + rbytes(9)) == d,
                "reportluns: bytes beyond the list length were parsed",
            )
    ok, b = attempt("luns.nokey", ReportLuns.marshall_datain, {})
    check(ok and b == bytearray(8), "reportluns: empty dict")
    ok, d = attempt("luns.hdr", ReportLuns.unmarshall_datain, b)
    check(ok and d == {"luns": []}, "reportluns: header only")
    attempt("luns.wrongkey", ReportLuns.marshall_datain, {"luns": [{"lun1": 4}]})
    attempt("luns.tuple", ReportLuns.marshall_datain, {"luns": ({"lun0": 4}, {"lun1": 1 << 63})})
    attempt("luns.short", ReportLuns.unmarshall_datain, bytearray(b"\x00\x00\x00\x10\x00\x00"))
    t = bytearray(8) + rbytes(16)
    t[0:4] = be(13, 4)
    attempt("luns.partial", ReportLuns.unmarshall_datain, t)
    attempt("luns.bad", ReportLuns.marshall_datain, {"luns": None})


# ==========================================================================
# 3. REPORT TARGET PORT GROUPS
# ==========================================================================
def _rand_tpg(mode, nports):
    g = rand_values(TPG_TPGD_BITS, mode, skip=("target_port_count",))
    g["target_port_count"] = nports
    g["target_ports"] = [
        {"relative_target_port_id": RNG.choice((0, 1, 0xFFFF, RNG.randint(0, 0xFFFF)))}
        for _ in range(nports)
    ]
    return g


def _ref_tpg(d):
    ref = bytearray(4)
    if d.get("format_type") == 1:
        ref += ref_encode(d, TPG_EXT_HDR_BITS, bytearray(4))
    for g in d["target_port_group_descriptors"]:
        ref += ref_encode(g, TPG_TPGD_BITS, bytearray(8))
        for p in g["target_ports"]:
            ref += bytearray(2) + be(p["relative_target_port_id"], 2)
    ref[0:4] = be(len(ref) - 4, 4)
    return ref


def test_rtpg():
    n = 0
    for fmt in (0, 1):
        for shape in ((), (0,), (1,), (3,), (0, 2, 0), (1, 1, 1, 1), (255,), tuple([2] * 400)):
            for mode in ("zero", "max", "rand", "rand"):
                n += 1
                d = {"format_type": fmt}
                if fmt == 1:
                    d["implicit_transition_time"] = RNG.choice((0, 255, RNG.randint(0, 255)))
                groups = [_rand_tpg(mode, k) for k in shape]
                d["target_port_group_descriptors"] = groups
                ref = _ref_tpg(d)
                tag = "rtpg.%d" % n
                if fmt == 0 and not groups:
                    # length-only header without descriptors
                    ok, b = attempt(tag, ReportTargetPortGroups.marshall_datain, d)
                    check(ok and b == ref == bytearray(4), "rtpg: empty length-only response")
                    ok, d2 = attempt(tag + "u", ReportTargetPortGroups.unmarshall_datain, b)
                    check(ok and d2 == d, "rtpg: empty length-only response parse")
                    continue
                b = roundtrip_dict(tag, ReportTargetPortGroups, d)
                check(b == ref, "rtpg: built bytes differ from the reference %r" % (shape,))
                roundtrip_bytes(tag + "b", ReportTargetPortGroups, bytearray(ref))
                check(
                    ReportTargetPortGroups.unmarshall_datain(ref + rbytes(12)) == d,
                    "rtpg: bytes beyond the data length were parsed",
                )
    # no format_type key means length-only
    g = [_rand_tpg("rand", 2)]
    ok, b = attempt("rtpg.nofmt", ReportTargetPortGroups.marshall_datain, {"target_port_group_descriptors": g})
    check(ok and b == _ref_tpg({"target_port_group_descriptors": g}), "rtpg: no format type")
    attempt("rtpg.nodesc", ReportTargetPortGroups.marshall_datain, {"format_type": 1})
    attempt("rtpg.short", ReportTargetPortGroups.unmarshall_datain, bytearray(b"\x00\x00\x00\x02\x01\x02"))
    attempt("rtpg.empty", ReportTargetPortGroups.unmarshall_datain, bytearray())
    # fewer port descriptors than announced
    t = _ref_tpg({"target_port_group_descriptors": [_rand_tpg("rand", 3)]})
    t = t[:-4]
    t[0:4] = be(len(t) - 4, 4)
    attempt("rtpg.fewer", ReportTargetPortGroups.unmarshall_datain, t)
    t = t[:-2]
    t[0:4] = be(len(t) - 4, 4)
    attempt("rtpg.partial", ReportTargetPortGroups.unmarshall_datain, t)


# ==========================================================================
# 4. READ ELEMENT STATUS
# ==========================================================================
_RES_EXTRA = {
    ELEMENT_TYPE.DATA_TRANSFER: RES_DATA_TRANSFER_DESCRIPTOR_BITS,
    ELEMENT_TYPE.STORAGE: RES_STORAGE_DESCRIPTOR_BITS,
    ELEMENT_TYPE.IMPORT_EXPORT: RES_IMPORT_EXPORT_DESCRIPTOR_BITS,
}


def _rand_page(etype, pvol, avol, count, mode):
    page = {"element_type": etype, "pvoltag": pvol, "avoltag": avol}
    eds = []
    for _ in range(count):
        ed = rand_values(RES_ELEMENT_STATUS_DESCRIPTOR_BITS, mode)
        if pvol:
            ed["primary_volume_tag"] = rbytes(36)
        if avol:
            ed["alternate_volume_tag"] = rbytes(36)
        ed.update(rand_values(_RES_EXTRA.get(etype, {}), mode))
        eds.append(ed)
    page["element_descriptors"] = eds
    return page


def _ref_res(d):
    ref = ref_encode(d, RES_DATAIN_BITS, bytearray(8))
    for page in d["element_status_pages"]:
        p = ref_encode(page, RES_ELEMENT_STATUS_PAGE_BITS, bytearray(8))
        edl = 16 + (36 if page["pvoltag"] else 0) + (36 if page["avoltag"] else 0)
        for ed in page["element_descriptors"]:
            e = ref_encode(ed, RES_ELEMENT_STATUS_DESCRIPTOR_BITS, bytearray(12))
            ref_encode(ed, _RES_EXTRA.get(page["element_type"], {}), e)
            if page["pvoltag"]:
                e += ed["primary_volume_tag"]
            if page["avoltag"]:
                e += ed["alternate_volume_tag"]
            e += bytearray(4)
            assert len(e) == edl
            p += e
        p[2:4] = be(edl, 2)
        p[5:8] = be(len(p) - 8, 3)
        ref += p
    ref[5:8] = be(len(ref) - 8, 3)
    return ref


def test_readelementstatus():
    n = 0
    shapes = [
        [],
        [(1, 0, 0, 1)],
        [(2, 1, 0, 2)],
        [(3, 0, 1, 2)],
        [(4, 1, 1, 3)],
        [(0, 0, 0, 2)],
        [(1, 0, 0, 0), (2, 1, 1, 0)],
        [(1, 0, 0, 1), (2, 1, 0, 4), (3, 1, 1, 2), (4, 0, 1, 1)],
        [(2, 0, 0, 1200)],
        [(2, 0, 0, 1)] * 120,
    ]
    for shape in shapes:
        for mode in ("zero", "max", "rand", "rand"):
            n += 1
            d = rand_values(RES_DATAIN_BITS, mode)
            d["element_status_pages"] = [_rand_page(*s, mode=mode) for s in shape]
            ref = _ref_res(d)
            b = roundtrip_dict("res.%d" % n, ReadElementStatus, d)
            check(b == ref, "readelementstatus: built bytes differ from the reference (%d)" % n)
            roundtrip_bytes("res.b%d" % n, ReadElementStatus, bytearray(ref))
            check(
                ReadElementStatus.unmarshall_datain(ref + rbytes(20)) == d,
                "readelementstatus: bytes beyond the byte count were parsed",
            )
    # a volume tag that is not given is sent as zeros
    d = {"first_element_address": 1, "num_elements": 1, "element_status_pages": [_rand_page(2, 1, 1, 1, "rand")]}
    ed = d["element_status_pages"][0]["element_descriptors"][0]
    del ed["primary_volume_tag"]
    del ed["alternate_volume_tag"]
    ok, b = attempt("res.notag", ReadElementStatus.marshall_datain, d)
    ed["primary_volume_tag"] = bytearray(36)
    ed["alternate_volume_tag"] = bytearray(36)
    check(ok and b == _ref_res(d), "readelementstatus: missing volume tag")
    check(ok and ReadElementStatus.unmarshall_datain(b) == d, "readelementstatus: missing volume tag parse")
    attempt("res.nopages", ReadElementStatus.marshall_datain, {"num_elements": 3})
    attempt("res.short", ReadElementStatus.unmarshall_datain, bytearray(5))
    attempt("res.empty", ReadElementStatus.unmarshall_datain, bytearray())
    # descriptor length zero with descriptors present -> refused
    t = _ref_res({"element_status_pages": [_rand_page(2, 0, 0, 1, "rand")]})
    t[10:12] = bytearray(2)
    ok, e = attempt("res.edl0", ReadElementStatus.unmarshall_datain, t)
    check(not ok and isinstance(e, ValueError), "readelementstatus: zero descriptor length")
    # truncated in the middle of a descriptor
    t = _ref_res({"element_status_pages": [_rand_page(3, 1, 0, 2, "rand")]})
    attempt("res.trunc", ReadElementStatus.unmarshall_datain, t[:-30])

# ==========================================================================
# 5. INQUIRY: standard data and VPD pages
# ==========================================================================
def _hdr(d, page_code=None):
    """peripheral byte (+ page code) of a reference response"""
    b = ref_encode(d, INQ_DATAIN_BITS, bytearray(4))
    if page_code is not None:
        b[1] = page_code
    return b


def _rand_designator(dtype, variant, mode):
    """returns (designator dict, reference bytes)"""
    D = INQ.DESIGNATOR
    if dtype == D.VENDOR_SPECIFIC:
        v = rbytes(variant)
        return {"vendor_specific": v}, bytearray(v)
    if dtype == D.T10_VENDOR_ID:
        a, b = rbytes(8), rbytes(variant)
        return {"t10_vendor_id": a, "vendor_specific_id": b}, a + b
    if dtype == D.EUI_64:
        cid = rand_values({"c": (0xFFFFFF, 0)}, mode)["c"]
        ext = rbytes(5)
        if variant == 8:
            return {"ieee_company_id": cid, "vendor_specific_extension_id": ext}, be(cid, 3) + ext
        if variant == 12:
            did = rbytes(4)
            return (
                {"ieee_company_id": cid, "vendor_specific_extension_id": ext, "directory_id": did},
                be(cid, 3) + ext + did,
            )
        ie = rbytes(8)
        return (
            {"identifier_extension": ie, "ieee_company_id": cid, "vendor_specific_extension_id": ext},
            ie + be(cid, 3) + ext,
        )
    if dtype == D.NAA:
        layout, size = {
            INQ.NAA.IEEE_EXTENDED: (INQ_NAA_IEEE_EXTENDED_BITS, 8),
            INQ.NAA.LOCALLY_ASSIGNED: (INQ_NAA_LOCALLY_ASSIGNED_BITS, 8),
            INQ.NAA.IEEE_REGISTERED: (INQ_NAA_IEEE_REGISTERED_BITS, 8),
            INQ.NAA.IEEE_REGISTERED_EXTENDED: (INQ_NAA_IEEE_REGISTERED_EXTENDED_BITS, 16),
        }[variant]
        d = {"naa": variant}
        d.update(rand_values(layout, mode))
        ref = ref_encode(d, INQ_NAA_TYPE_BITS, bytearray(size))
        ref_encode(d, layout, ref)
        return d, ref
    simple = {
        D.RELATIVE_TARGET_PORT_IDENTIFIER: (INQ_RELATIVE_PORT_BITS, 4),
        D.TARGET_PORTAL_GROUP: (INQ_TARGET_PORTAL_GROUP_BITS, 4),
        D.LOGICAL_UNIT_GROUP: (INQ_LOGICAL_UNIT_GROUP_BITS, 4),
        D.PCI_EXPRESS_ROUTING_ID: (INQ_PCI_EXPRESS_ROUTING_ID_BITS, 8),
    }
    if dtype in simple:
        layout, size = simple[dtype]
        d = rand_values(layout, mode)
        return d, ref_encode(d, layout, bytearray(size))
    if dtype == D.MD5_LOGICAL_IDENTIFIER:
        v = rbytes(16)
        return {"md5_logical_identifier": v}, bytearray(v)
    if dtype == D.SCSI_NAME_STRING:
        v = bytearray(b"naa.") + rbytes(variant)
        return {"scsi_name_string": v}, bytearray(v)
    raise AssertionError(dtype)


DESIGNATOR_KINDS = [
    (0, 0), (0, 1), (0, 13),
    (1, 0), (1, 9),
    (2, 8), (2, 12), (2, 16),
    (3, 2), (3, 3), (3, 5), (3, 6),
    (4, None), (5, None), (6, None), (7, None), (8, 0), (8, 32), (9, None),
]


def _rand_descriptor(dtype, variant, mode):
    """returns (designation descriptor dict, reference bytes)"""
    des, body = _rand_designator(dtype, variant, mode)
    dd = rand_values(INQ_DESIGNATOR_BITS, mode, skip=("designator_type", "designator_length"))
    dd["designator_type"] = dtype
    dd["designator_length"] = len(body)
    ref = ref_encode(dd, INQ_DESIGNATOR_BITS, bytearray(4)) + body
    if dd["piv"] == 0 or dd["association"] not in (1, 2):
        # the protocol identifier is only meaningful (and only reported) with PIV
        # set for a target port / target device association
        del dd["protocol_identifier"]
        ref[0] &= 0x0F
    dd["designator"] = des
    return dd, ref


def test_inquiry():
    # ---- standard inquiry data
    layout = dict(INQ_DATAIN_BITS)
    layout.update(INQ_STANDARD_BITS)
    for n, mode in enumerate(MODES):
        d = rand_values(layout, mode)
        b = roundtrip_dict("inq.std%d" % n, Inquiry, d)
        ref = ref_encode(d, layout, bytearray(96))
        check(b == ref, "inquiry: standard data differs from the reference")
        roundtrip_bytes("inq.stdb%d" % n, Inquiry, bytearray(ref))
        check(Inquiry.unmarshall_datain(ref, evpd=0) == d, "inquiry: explicit evpd=0")
        check(Inquiry.unmarshall_datain(ref, 0) == d, "inquiry: positional evpd")
    ok, b = attempt("inq.empty", Inquiry.marshall_datain, {})
    check(ok and b == bytearray(96), "inquiry: empty standard data")
    attempt("inq.short", Inquiry.unmarshall_datain, bytearray(5))
    attempt("inq.short36", Inquiry.unmarshall_datain, rbytes(36))
    attempt("inq.none", Inquiry.unmarshall_datain, bytearray())

    # ---- VPD pages with a fixed layout that can be built and parsed
    for page_code, body_layout, size, name in (
        (INQ.VPD.LOGICAL_BLOCK_PROVISIONING, INQ_LOGICAL_BLOCK_PROVISIONING_BITS, 8, "lbp"),
        (INQ.VPD.REFERRALS, INQ_REFERRALS_BITS, 16, "ref"),
        (INQ.VPD.EXTENDED_INQUIRY_DATA, INQ_EXTENDED_BITS, 64, "ext"),
    ):
        for n, mode in enumerate(MODES):
            d = rand_values(INQ_DATAIN_BITS, mode)
            d["page_code"] = page_code
            d.update(rand_values(body_layout, mode))
            ref = _hdr(d, page_code) + bytearray(size - 4)
            ref_encode(d, body_layout, ref)
            ref[2:4] = be(size - 4, 2)
            b = roundtrip_dict("inq.%s%d" % (name, n), Inquiry, d, evpd=1)
            check(b == ref, "inquiry %s: built bytes differ from the reference" % name)
            roundtrip_bytes("inq.%sb%d" % (name, n), Inquiry, bytearray(ref), evpd=1)
            check(
                Inquiry.unmarshall_datain(ref + rbytes(10), evpd=1) == d,
                "inquiry %s: bytes beyond the page length were parsed" % name,
            )

    # ---- unit serial number
    for n, ln in enumerate((0, 1, 4, 20, 251)):
        d = rand_values(INQ_DATAIN_BITS)
        d["page_code"] = INQ.VPD.UNIT_SERIAL_NUMBER
        d["unit_serial_number"] = rbytes(ln)
        ref = _hdr(d, 0x80) + d["unit_serial_number"]
        ref[2:4] = be(ln, 2)
        b = roundtrip_dict("inq.usn%d" % n, Inquiry, d, evpd=1)
        check(b == ref, "inquiry usn: built bytes differ from the reference")
        roundtrip_bytes("inq.usnb%d" % n, Inquiry, bytearray(ref), evpd=1)
        check(Inquiry.unmarshall_datain(ref + b"junk", evpd=1) == d, "inquiry usn: trailing bytes")
    d = {"page_code": 0x80, "unit_serial_number": b"immutable"}
    ok, b = attempt("inq.usnbytes", Inquiry.marshall_datain, d)
    check(ok and Inquiry.unmarshall_datain(b, evpd=1)["unit_serial_number"] == b"immutable", "usn bytes")

    # ---- device identification
    n = 0
    combos = [[k] for k in DESIGNATOR_KINDS]
    combos += [[], DESIGNATOR_KINDS, DESIGNATOR_KINDS[::-1], [(3, 6)] * 3, [(8, 32), (2, 16), (0, 0)]]
    combos += [RNG.sample(DESIGNATOR_KINDS, 4) for _ in range(10)]
    combos += [[(4, None)] * 1500]
    for combo in combos:
        for mode in ("zero", "max", "rand", "rand"):
            n += 1
            d = rand_values(INQ_DATAIN_BITS, mode)
            d["page_code"] = INQ.VPD.DEVICE_IDENTIFICATION
            ref = _hdr(d, 0x83)
            dds = []
            for dtype, variant in combo:
                dd, r = _rand_descriptor(dtype, variant, mode)
                dds.append(dd)
                ref += r
            d["designator_descriptors"] = dds
            ref[2:4] = be(len(ref) - 4, 2)
            b = roundtrip_dict("inq.di%d" % n, Inquiry, d, evpd=1)
            check(b == ref, "inquiry devid: built bytes differ from the reference %r" % (combo[:4],))
            roundtrip_bytes("inq.dib%d" % n, Inquiry, bytearray(ref), evpd=1)
            check(
                Inquiry.unmarshall_datain(ref + rbytes(6), evpd=1) == d,
                "inquiry devid: bytes beyond the page length were parsed",
            )
    # the helper class methods on their own (used by EXTENDED COPY as well)
    for dtype, variant in DESIGNATOR_KINDS:
        for mode in ("zero", "max", "rand", "rand", "rand"):
            des, body = _rand_designator(dtype, variant, mode)
            tag = "inq.des.%s.%s" % (dtype, variant)
            ok, b = attempt(tag, Inquiry.marshall_designator, dtype, des)
            check(ok and b == body, "%s: marshall_designator differs from the reference" % tag)
            check(ok and isinstance(b, bytearray), "%s: marshall_designator returns a bytearray" % tag)
            ok, d2 = attempt(tag + "u", Inquiry.unmarshall_designator, dtype, bytearray(body))
            check(ok and d2 == des, "%s: unmarshall_designator(marshall_designator(d)) != d" % tag)
            ok, d3 = attempt(tag + "ub", Inquiry.unmarshall_designator, dtype, bytes(body))
            check(ok and d3 == des, "%s: unmarshall_designator on bytes" % tag)
            dd, r = _rand_descriptor(dtype, variant, mode)
            ok, b = attempt(tag + "dd", Inquiry.marshall_designation_descriptor, dd)
            check(ok and b == r, "%s: marshall_designation_descriptor differs" % tag)
            # the length field is computed, whatever the dictionary says
            dd2 = dict(dd)
            dd2["designator_length"] = 0
            ok, b = attempt(tag + "dd0", Inquiry.marshall_designation_descriptor, dd2)
            check(ok and b == r, "%s: designator length is not recomputed" % tag)
    # unusual designators
    attempt("inq.des.unknown", Inquiry.marshall_designator, 0x0E, {})
    attempt("inq.des.unknownu", Inquiry.unmarshall_designator, 0x0E, rbytes(8))
    attempt("inq.des.naa0", Inquiry.marshall_designator, 3, {"naa": 0})
    attempt("inq.des.naa0u", Inquiry.unmarshall_designator, 3, bytearray(8))
    attempt("inq.des.naamissing", Inquiry.marshall_designator, 3, {})
    attempt("inq.des.eui10", Inquiry.unmarshall_designator, 2, rbytes(10))
    attempt("inq.des.t10missing", Inquiry.marshall_designator, 1, {"t10_vendor_id": b"12345678"})
    attempt("inq.des.md5long", Inquiry.unmarshall_designator, 7, rbytes(20))
    attempt("inq.des.kw", Inquiry.unmarshall_designator, _type=4, data=bytearray(b"\0\0\1\2"))
    attempt("inq.des.kwm", Inquiry.marshall_designator, _type=4, data={"relative_port": 258})
    attempt("inq.di.nodesc", Inquiry.marshall_datain, {"page_code": 0x83})
    t = _hdr({}, 0x83) + bytearray(b"\x01\x03\x00\x08\x61\x62")
    t[2:4] = be(len(t) - 4, 2)
    attempt("inq.di.trunc", Inquiry.unmarshall_datain, t, evpd=1)
    attempt("inq.di.trunc2", Inquiry.unmarshall_datain, t[:6], evpd=1)

    # ---- pages that are only parsed
    for n, mode in enumerate(MODES):
        for page_code, body_layout, size, name in (
            (INQ.VPD.BLOCK_LIMITS, INQ_BLOCK_LIMITS_BITS, 64, "bl"),
            (INQ.VPD.BLOCK_DEVICE_CHARACTERISTICS, INQ_BLOCK_DEV_CHAR_BITS, 64, "bdc"),
        ):
            d = rand_values(INQ_DATAIN_BITS, mode)
            d["page_code"] = page_code
            d.update(rand_values(body_layout, mode))
            ref = _hdr(d, page_code) + bytearray(size - 4)
            ref_encode(d, body_layout, ref)
            ref[2:4] = be(size - 4, 2)
            ok, d2 = attempt("inq.%s%d" % (name, n), Inquiry.unmarshall_datain, ref, evpd=1)
            check(ok and d2 == d, "inquiry %s: parsed values differ from the reference" % name)
            attempt("inq.%sm%d" % (name, n), Inquiry.marshall_datain, d)
        # supported vpd pages
        pages = [RNG.randrange(256) for _ in range(RNG.choice((0, 1, 5, 40)))]
        d = rand_values(INQ_DATAIN_BITS, mode)
        ref = _hdr(d, 0) + bytearray(pages)
        ref[2:4] = be(len(pages), 2)
        d.update({"page_code": 0, "vpd_pages": pages})
        ok, d2 = attempt("inq.sup%d" % n, Inquiry.unmarshall_datain, ref + rbytes(3), evpd=1)
        check(ok and d2 == d, "inquiry: supported vpd pages")
        check(ok and type(d2["vpd_pages"]) is list, "inquiry: supported vpd pages is a list")
        attempt("inq.supm%d" % n, Inquiry.marshall_datain, d)
        # ATA information
        ref = _hdr(d, 0x89) + rbytes(568)
        ref[2:4] = be(568, 2)
        ok, d2 = attempt("inq.ata%d" % n, Inquiry.unmarshall_datain, ref, evpd=1)
        exp = ref_decode(ref, INQ_DATAIN_BITS)
        exp["page_code"] = 0x89
        exp.update(ref_decode(ref, INQ_ATA_INFORMATION_BITS))
        exp["signature"] = ref_decode(ref, INQ_ATA_SIGNATURE_BITS, 36)
        exp["identify"] = ref_decode(ref[60:], INQ_ATA_IDENTIFY_BITS)
        exp["identify"]["general_config"] = ref_decode(ref[60:62], INQ_ATA_IDENTIFY_GEN_CONF_BITS)
        check(ok and d2 == exp, "inquiry: ATA information")
        ok, d3 = attempt("inq.atah%d" % n, Inquiry.unmarshall_ata_information, ref)
        check(ok and d3 == {k: exp[k] for k in d3}, "inquiry: unmarshall_ata_information")
    # an unknown page
    ref = _hdr({}, 0x8F) + rbytes(12)
    ref[2:4] = be(12, 2)
    attempt("inq.unknownpage", Inquiry.unmarshall_datain, ref, evpd=1)
    attempt("inq.unknownpagem", Inquiry.marshall_datain, {"page_code": 0x8F, "peripheral_qualifier": 3})
    attempt("inq.evpd2", Inquiry.unmarshall_datain, ref, evpd=2)
    attempt("inq.evpdTrue", Inquiry.unmarshall_datain, ref, evpd=True)
    attempt("inq.evpdNone", Inquiry.unmarshall_datain, ref, evpd=None)

# ==========================================================================
# 6. MODE SENSE / MODE SELECT (6) and (10)
# ==========================================================================
#            name, page code, spf, sub page, layout, length of the page data
MODE_PAGES = [
    ("eaa", 0x1D, 0, None, MS_ELEMENT_ADDRESS_BITS, 18),
    ("control", 0x0A, 0, None, MS_CONTROL_BITS, 10),
    ("control_ext", 0x0A, 1, 1, MS_CONTROL_EXTENSION_1_BITS, 28),
    ("disconnect", 0x02, 0, None, MS_DISCONNECT_RECONNECT_BITS, 14),
]
MODE_VARIANTS = [
    (ModeSense6, ModeSelect6, MS_MODE_PARAMETER_HEADER6_BITS, 4, "ms6"),
    (ModeSense10, ModeSelect10, MS_MODE_PARAMETER_HEADER10_BITS, 8, "ms10"),
]


def _rand_mode_dict(hdr_layout, page, mode):
    name, code, spf, sub, layout, plen = page
    d = rand_values(hdr_layout, mode)
    mp = {"ps": RNG.randint(0, 1) if mode == "rand" else int(mode in ("max", "one")), "spf": spf, "page_code": code}
    if spf:
        mp["sub_page_code"] = sub
    mp.update(rand_values(layout, mode))
    d["mode_pages"] = [mp]
    return d


def _ref_mode(d, hdr_layout, hlen, pages):
    """reference bytes; pages = list of MODE_PAGES entries matching d['mode_pages']"""
    ref = ref_encode(d, hdr_layout, bytearray(hlen))
    for mp, page in zip(d["mode_pages"], pages):
        name, code, spf, sub, layout, plen = page
        if spf:
            h = ref_encode(mp, MS_SUB_PAGE_BITS, bytearray(4))
            h[2:4] = be(plen, 2)
        else:
            h = ref_encode(mp, MS_PAGE_ZERO_BITS, bytearray(2))
            h[1] = plen
        ref += h + ref_encode(mp, layout, bytearray(plen))
    if hlen == 4:
        ref[0] = len(ref) - 1
    else:
        ref[0:2] = be(len(ref) - 2, 2)
    return ref


def test_modesense():
    for sense, select, hdr_layout, hlen, vname in MODE_VARIANTS:
        for page in MODE_PAGES:
            name, code, spf, sub, layout, plen = page
            poff = hlen + (4 if spf else 2)
            for n, mode in enumerate(MODES):
                tag = "%s.%s%d" % (vname, name, n)
                d = _rand_mode_dict(hdr_layout, page, mode)
                ref = _ref_mode(d, hdr_layout, hlen, [page])
                b = roundtrip_dict(tag, sense, d)
                check(b == ref, "%s: built bytes differ from the reference" % tag)
                roundtrip_bytes(tag + "b", sense, bytearray(ref))
                # MODE SELECT sends exactly these bytes
                ok, out = attempt(tag + ".sel", select.marshall_dataout, d)
                check(ok and out == ref, "%s: ModeSelect.marshall_dataout differs" % tag)
                opc = spc.MODE_SELECT_6 if hlen == 4 else spc.MODE_SELECT_10
                cmd = select(opc, d)
                check(cmd.dataout == ref, "%s: ModeSelect dataout differs" % tag)
                note(tag + ".selcdb", cmd.cdb)
                check(
                    (cmd.cdb[4] if hlen == 4 else cmd.cdb[7] * 256 + cmd.cdb[8]) == len(ref),
                    "%s: ModeSelect parameter list length" % tag,
                )
                check(cmd.cdb[1] == 0x10, "%s: ModeSelect PF/SP bits" % tag)
                cmd = select(opc, d, pf=0, sp=1)
                check(cmd.cdb[1] == 0x01 and cmd.dataout == ref, "%s: ModeSelect pf=0 sp=1" % tag)

                # ---- read - modify - write: one field at a time
                base = sense.unmarshall_datain(bytearray(ref))
                for field, spec in layout.items():
                    mask, off = spec
                    old = base["mode_pages"][0][field]
                    top = fmax(spec)
                    for new in {0, top, old ^ 1 if top else old, RNG.randint(0, top)}:
                        if new > top:
                            continue
                        cur = sense.unmarshall_datain(bytearray(ref))
                        cur["mode_pages"][0][field] = new
                        out = sense.marshall_datain(cur)
                        note(tag + ".rmw." + field, out)
                        check(len(out) == len(ref), "%s rmw %s: length changed" % (tag, field))
                        nb = _nbytes(mask)
                        diff = int.from_bytes(bytes(a ^ b for a, b in zip(out, ref)), "big")
                        allowed = mask << (8 * (len(ref) - (poff + off) - nb))
                        check(
                            diff & ~allowed == 0,
                            "%s rmw %s: bits outside the field changed (%x)" % (tag, field, diff),
                        )
                        back = sense.unmarshall_datain(out)
                        check(back["mode_pages"][0][field] == new, "%s rmw %s: value not stored" % (tag, field))
                        exp = sense.unmarshall_datain(bytearray(ref))
                        exp["mode_pages"][0][field] = new
                        check(back == exp, "%s rmw %s: other values changed" % (tag, field))
                # header fields too
                for field, spec in hdr_layout.items():
                    cur = sense.unmarshall_datain(bytearray(ref))
                    new = fmax(spec) - cur[field]
                    cur[field] = new
                    out = sense.marshall_datain(cur)
                    diff = int.from_bytes(bytes(a ^ b for a, b in zip(out, ref)), "big")
                    allowed = spec[0] << (8 * (len(ref) - spec[1] - 1))
                    check(len(out) == len(ref) and diff & ~allowed == 0, "%s rmw header %s" % (tag, field))

        # ---- several pages in one parameter list (only built; the parser reads the first)
        for n in range(12):
            pages = [RNG.choice(MODE_PAGES) for _ in range(RNG.randint(2, 5))]
            d = rand_values(hdr_layout)
            d["mode_pages"] = [_rand_mode_dict(hdr_layout, p, "rand")["mode_pages"][0] for p in pages]
            ref = _ref_mode(d, hdr_layout, hlen, pages)
            ok, b = attempt("%s.multi%d" % (vname, n), sense.marshall_datain, d)
            check(ok and b == ref, "%s: several mode pages differ from the reference" % vname)
            ok, d2 = attempt("%s.multiu%d" % (vname, n), sense.unmarshall_datain, b)
            exp = dict(d)
            exp["mode_pages"] = d["mode_pages"][:1]
            check(ok and d2 == exp, "%s: first of several mode pages" % vname)

        # ---- header only / block descriptors / unusual input
        d = rand_values(hdr_layout)
        d["mode_pages"] = []
        ref = _ref_mode(d, hdr_layout, hlen, [])
        b = roundtrip_dict(vname + ".hdronly", sense, d)
        check(b == ref, "%s: header only differs from the reference" % vname)
        roundtrip_bytes(vname + ".hdronlyb", sense, bytearray(ref))
        # block descriptors are skipped by the parser
        page = MODE_PAGES[1]
        d = _rand_mode_dict(hdr_layout, page, "rand")
        ref = _ref_mode(d, hdr_layout, hlen, [page])
        withbd = ref[:hlen] + rbytes(8) + ref[hlen:]
        withbd[hlen - 1] = 8
        ok, d2 = attempt(vname + ".bd", sense.unmarshall_datain, withbd)
        check(ok and d2 == d, "%s: block descriptor not skipped" % vname)
        withbd = ref[:hlen] + rbytes(16)
        withbd[hlen - 1] = 16
        attempt(vname + ".bdonly", sense.unmarshall_datain, withbd)
        # padded datain buffer, as delivered by a device into a 96 byte buffer
        ok, d2 = attempt(vname + ".padded", sense.unmarshall_datain, ref + bytearray(96 - len(ref)))
        check(ok and d2 == d, "%s: padded buffer" % vname)
        # unknown pages / missing keys
        attempt(vname + ".unkpage", sense.unmarshall_datain, ref[:hlen] + bytearray(b"\x08\x12") + rbytes(18))
        attempt(vname + ".unkpagem", sense.marshall_datain, {"mode_pages": [{"spf": 0, "page_code": 8, "ps": 0}]})
        attempt(
            vname + ".unkpagem2",
            sense.marshall_datain,
            {"mode_pages": [d["mode_pages"][0], {"spf": 0, "page_code": 8, "ps": 1}]},
        )
        attempt(vname + ".nospf", sense.marshall_datain, {"mode_pages": [{"page_code": 0x0A}]})
        attempt(vname + ".nopages", sense.marshall_datain, {"medium_type": 3})
        attempt(vname + ".ctlsub2", sense.marshall_datain, {"mode_pages": [{"spf": 1, "page_code": 0x0A, "sub_page_code": 2}]})
        attempt(vname + ".ctlsub2u", sense.unmarshall_datain, ref[:hlen] + bytearray(b"\x4a\x02\x00\x04") + rbytes(4))
        attempt(vname + ".dissub", sense.unmarshall_datain, ref[:hlen] + bytearray(b"\x42\x01\x00\x04") + rbytes(4))
        attempt(vname + ".short", sense.unmarshall_datain, bytearray(2))
        attempt(vname + ".empty", sense.unmarshall_datain, bytearray())
        attempt(vname + ".bytes", sense.unmarshall_datain, bytes(ref))
        attempt(vname + ".selnone", select.unmarshall_datain, ref)
        attempt(vname + ".tuplepages", sense.marshall_datain, {"mode_pages": tuple(d["mode_pages"])})


# ==========================================================================
# 7. through the SCSI convenience class and tools/swp.py with a fake device
# ==========================================================================
class FakeDevice:
    """a block device with one saved MODE SENSE(6)/(10) response per page"""

    def __init__(self, responses, devicetype=0):
        self.opcodes = spc
        self.devicetype = None
        self._devicetype = devicetype
        self.responses = responses  # opcode value -> bytearray
        self.written = []
        self.closed = False

    def execute(self, cmd, en_raw_sense=False):
        op = cmd.cdb[0]
        if op == 0x12:
            cmd.datain[0] = self._devicetype
            return
        if op in (0x1A, 0x5A):
            r = self.responses[op]
            n = min(len(r), len(cmd.datain))
            cmd.datain[:n] = r[:n]
            return
        if op in (0x15, 0x55):
            self.written.append((bytes(cmd.cdb), bytes(cmd.dataout)))
            # the device now reports what was written
            self.responses[0x1A if op == 0x15 else 0x5A] = bytearray(cmd.dataout)
            return
        raise AssertionError("unexpected opcode %x" % op)

    def open(self):
        pass

    def close(self):
        self.closed = True


def test_scsi_class_and_swp():
    control = MODE_PAGES[1]
    for sense, select, hdr_layout, hlen, vname in MODE_VARIANTS:
        for n in range(10):
            d = _rand_mode_dict(hdr_layout, control, "rand")
            ref = _ref_mode(d, hdr_layout, hlen, [control])
            dev = FakeDevice({0x1A: bytearray(ref), 0x5A: bytearray(ref)})
            with SCSI(dev) as s:
                if hlen == 4:
                    cmd = s.modesense6(page_code=MS.PAGE_CODE.CONTROL)
                else:
                    cmd = s.modesense10(page_code=MS.PAGE_CODE.CONTROL)
                i = cmd.result
                note(vname + ".scsi.sense%d" % n, i)
                check(i == d, "%s via SCSI: parsed mode page differs" % vname)
                i["mode_pages"][0]["swp"] ^= 1
                w = s.modeselect6(i) if hlen == 4 else s.modeselect10(i)
                note(vname + ".scsi.select%d" % n, (w.cdb, w.dataout, w.result))
                check(w.result is None, "%s via SCSI: ModeSelect has no result" % vname)
            check(dev.closed, "device closed by the context manager")
            cdb, out = dev.written[-1]
            exp = bytearray(ref)
            exp[hlen + 2 + 2] ^= 0x08
            check(out == bytes(exp), "%s via SCSI: write back changed more than the SWP bit" % vname)

    # ---- tools/swp.py
    here = os.path.dirname(os.path.abspath(__file__))
    path = os.path.join(os.path.dirname(here), "tools", "swp.py")
    spec = importlib.util.spec_from_file_location("swp_tool_under_test", path)
    swp = importlib.util.module_from_spec(spec)
    spec.loader.exec_module(swp)

    def run(args, dev):
        swp.init_device = lambda *a, **k: dev
        old = sys.argv
        sys.argv = ["swp.py"] + args
        buf = io.StringIO()
        try:
            with contextlib.redirect_stdout(buf):
                swp.main()
        finally:
            sys.argv = old
        return buf.getvalue()

    for n in range(12):
        d = _rand_mode_dict(MS_MODE_PARAMETER_HEADER6_BITS, control, "rand")
        ref = _ref_mode(d, MS_MODE_PARAMETER_HEADER6_BITS, 4, [control])
        was = d["mode_pages"][0]["swp"]
        dev = FakeDevice({0x1A: bytearray(ref)})
        out = run(["/dev/fake"], dev)
        note("swp.show%d" % n, out)
        check(out == "SWP is %s\n" % ("ON" if was else "OFF"), "swp.py: wrong state shown: %r" % out)
        check(dev.written == [], "swp.py: showing the state must not write")
        for flag, bit in (("--on", 1), ("--off", 0), ("--on", 1)):
            before = bytes(dev.responses[0x1A])
            out = run([flag, "/dev/fake"], dev)
            note("swp.%s%d" % (flag, n), (out, dev.written[-1]))
            check(out == "Set SWP %s\n" % flag[2:].upper(), "swp.py: output %r" % out)
            cdb, data = dev.written[-1]
            exp = bytearray(before)
            exp[8] = (exp[8] & ~0x08) | (bit << 3)
            check(data == bytes(exp), "swp.py %s: more than the SWP bit changed" % flag)
            check(cdb == bytes([0x15, 0x10, 0, 0, len(exp), 0]), "swp.py: MODE SELECT cdb %r" % cdb)
            out = run(["/dev/fake"], dev)
            check(out == "SWP is %s\n" % ("ON" if bit else "OFF"), "swp.py: state after %s: %r" % (flag, out))
    out = run(["--help"], FakeDevice({}))
    note("swp.help", out)
    out = run([], FakeDevice({}))
    note("swp.noargs", out)

# ==========================================================================
# 8. PERSISTENT RESERVE IN
# ==========================================================================
def _rand_transport_id(proto, variant=0):
    """returns (dict, reference bytes)"""
    P = PROTOCOL_ID
    fixed = {
        P.FIBRE_CHANNEL: ("n_port_name", 8, 8),
        P.IEEE_1394: ("eui64_name", 8, 8),
        P.RDMA: ("initiator_port_identifier", 8, 16),
        P.SAS: ("sas_address", 4, 8),
        P.SOP: ("routing_id", 4, 8),
    }
    if proto in fixed:
        key, off, ln = fixed[proto]
        v = rbytes(ln)
        ref = bytearray(24)
        ref[0] = proto
        ref[off : off + ln] = v
        return {"protocol_id": proto, "tpid_format": 0, key: v}, ref
    name = "iqn.2001-04.com.example:" + "".join(RNG.choice("abcxyz0189.-") for _ in range(variant))
    d = {"protocol_id": proto, "tpid_format": 0, "iscsi_name": name}
    s = name
    if variant % 2:
        d["tpid_format"] = 1
        d["iscsi_initiator_session_id"] = "%x" % RNG.getrandbits(48)
        s = name + ",i,0x" + d["iscsi_initiator_session_id"]
    n = len(s) + 1
    n += (-n) % 4
    ref = bytearray(4 + n)
    ref[0] = (d["tpid_format"] << 6) | proto
    ref[2:4] = be(n, 2)
    ref[4 : 4 + len(s)] = s.encode("utf-8")
    return d, ref


def test_persistentreservein():
    F = PersistentReserveInReadFullStatus
    tids = []
    for proto in (0x00, 0x03, 0x04, 0x06, 0x0A):
        for n in range(6):
            tids.append(_rand_transport_id(proto))
    for variant in range(0, 40):
        tids.append(_rand_transport_id(0x05, variant))
    for n, (d, ref) in enumerate(tids):
        tag = "pr.tid%d" % n
        ok, b = attempt(tag, F.marshall_transport_id, d)
        check(ok and b == ref, "%s: TransportID differs from the reference" % tag)
        check(ok and isinstance(b, bytearray), "%s: TransportID is a bytearray" % tag)
        ok, d2 = attempt(tag + "u", F.unmarshall_transport_id, bytearray(ref))
        check(ok and d2 == d, "%s: parse(build(TransportID)) != TransportID" % tag)
        ok, b2 = attempt(tag + "m", F.marshall_transport_id, d2)
        check(ok and b2 == ref, "%s: build(parse(TransportID)) differs" % tag)
        ok, d3 = attempt(tag + "ub", F.unmarshall_transport_id, bytes(ref) + b"\x00" * 8)
        check(ok and d3 == d, "%s: parse of bytes / trailing data" % tag)
    # values longer than the field are cut
    ok, b = attempt("pr.tidlong", F.marshall_transport_id, {"protocol_id": 6, "tpid_format": 0, "sas_address": rbytes(12)})
    check(ok and len(b) == 24, "TransportID: long address")
    attempt("pr.tidbadproto", F.marshall_transport_id, {"protocol_id": 1, "tpid_format": 0})
    attempt("pr.tidbadprotou", F.unmarshall_transport_id, bytearray(b"\x01") + bytearray(23))
    attempt("pr.tidfmt2", F.unmarshall_transport_id, bytearray(b"\x85\x00\x00\x04abc\x00"))
    attempt("pr.tidnosid", F.marshall_transport_id, {"protocol_id": 5, "tpid_format": 1, "iscsi_name": "x"})
    attempt("pr.tidnofmt", F.marshall_transport_id, {"protocol_id": 5, "iscsi_name": "x", "iscsi_initiator_session_id": "1"})
    attempt("pr.tidnokey", F.marshall_transport_id, {"protocol_id": 0})
    attempt("pr.tidnoproto", F.marshall_transport_id, {})
    attempt("pr.tidsplit", F.unmarshall_transport_id, bytearray(b"\x45\x00\x00\x04abc\x00"))

    # READ KEYS
    for n, count in enumerate((0, 1, 2, 9, 1200)):
        keys = [RNG.choice((0, (1 << 64) - 1, RNG.getrandbits(64))) for _ in range(count)]
        gen = RNG.getrandbits(32)
        ref = be(gen, 4) + be(8 * count, 4)
        for k in keys:
            ref += be(k, 8)
        ok, d = attempt("pr.keys%d" % n, PersistentReserveInReadKeys.unmarshall_datain, ref + rbytes(11))
        check(ok and d == {"pr_generation": gen, "reservation_keys": keys}, "READ KEYS %d" % count)
        ok, d = attempt("pr.keysb%d" % n, PersistentReserveInReadKeys.unmarshall_datain, bytes(ref))
        check(ok and d == {"pr_generation": gen, "reservation_keys": keys}, "READ KEYS bytes %d" % count)
    attempt("pr.keyspartial", PersistentReserveInReadKeys.unmarshall_datain, be(1, 4) + be(12, 4) + rbytes(12))
    attempt("pr.keysshort", PersistentReserveInReadKeys.unmarshall_datain, bytearray(3))

    # READ RESERVATION
    for n, mode in enumerate(MODES):
        d = rand_values(PRR_BITS, mode)
        gen = RNG.getrandbits(32)
        ref = ref_encode(d, PRR_BITS, be(gen, 4) + be(16, 4) + bytearray(16))
        d["pr_generation"] = gen
        ok, d2 = attempt("pr.resv%d" % n, PersistentReserveInReadReservation.unmarshall_datain, ref)
        check(ok and d2 == d, "READ RESERVATION")
        ok, d2 = attempt("pr.resv0%d" % n, PersistentReserveInReadReservation.unmarshall_datain, be(gen, 4) + bytearray(20))
        check(ok and d2 == {"pr_generation": gen}, "READ RESERVATION without reservation")
    ok, e = attempt("pr.resvbad", PersistentReserveInReadReservation.unmarshall_datain, be(1, 4) + be(8, 4) + bytearray(16))
    check(not ok and isinstance(e, ValueError), "READ RESERVATION bad length")

    # REPORT CAPABILITIES
    for n, mode in enumerate(MODES):
        d = rand_values(PRC_BITS, mode, skip=("length", "pr_type_mask"))
        m = rand_values(PRC_PR_TYPE_MASK_BITS, mode)
        ref = ref_encode(d, PRC_BITS, bytearray(8))
        ref_encode(m, PRC_PR_TYPE_MASK_BITS, ref)
        ref[0:2] = be(8, 2)
        d["pr_type_mask"] = m
        ok, d2 = attempt("pr.cap%d" % n, PersistentReserveInReportCapabilities.unmarshall_datain, ref + rbytes(4))
        check(ok and d2 == d, "REPORT CAPABILITIES")
    ok, d2 = attempt("pr.cap0", PersistentReserveInReportCapabilities.unmarshall_datain, bytearray(8))
    check(ok and d2 == {}, "REPORT CAPABILITIES length 0")
    ok, e = attempt("pr.capbad", PersistentReserveInReportCapabilities.unmarshall_datain, bytearray(b"\x00\x09") + bytearray(8))
    check(not ok and isinstance(e, ValueError), "REPORT CAPABILITIES bad length")

    # READ FULL STATUS
    for n, count in enumerate((0, 1, 2, 5, 40, 1100)):
        gen = RNG.getrandbits(32)
        body = bytearray()
        descs = []
        for _ in range(count):
            tid, tref = RNG.choice(tids)
            sd = rand_values(PRF_FULL_STATUS_DESC_BITS, skip=("additional_desc_length",))
            body += ref_encode(sd, PRF_FULL_STATUS_DESC_BITS, bytearray(24))
            body[-4:] = be(len(tref), 4)
            body += tref
            sd["transport_id"] = tid
            descs.append(sd)
        ref = be(gen, 4) + be(len(body), 4) + body
        ok, d = attempt("pr.full%d" % n, F.unmarshall_datain, ref + rbytes(5))
        check(ok and d == {"pr_generation": gen, "full_status": descs}, "READ FULL STATUS %d" % count)
        ok, d = attempt("pr.fullb%d" % n, F.unmarshall_datain, bytes(ref))
        check(ok and d == {"pr_generation": gen, "full_status": descs}, "READ FULL STATUS bytes %d" % count)
    # a descriptor without TransportID is dropped
    ref = be(7, 4) + be(24, 4) + rbytes(20) + bytearray(4)
    attempt("pr.fullnotid", F.unmarshall_datain, ref)
    attempt("pr.fullshort", F.unmarshall_datain, bytearray(6))

    # the commands themselves
    op = spc.PERSISTENT_RESERVE_IN
    for cls in (PersistentReserveInReadKeys, PersistentReserveInReadReservation,
                PersistentReserveInReportCapabilities, PersistentReserveInReadFullStatus):
        c = cls(op, alloclen=300)
        note("pr.cdb." + cls.__name__, (c.cdb, len(c.datain), isinstance(c, PersistentReserveIn)))
        check(isinstance(c, PersistentReserveIn) and isinstance(c, SCSICommand), "PR IN class hierarchy")
    c = PersistentReserveIn(op, 2, 16)
    note("pr.cdb.base", c.cdb)
    attempt("pr.base.unmarshall", c.unmarshall)


# ==========================================================================
# 9. structures that are only parsed: READ DISC INFORMATION, READ CD,
#    and REPORT PRIORITY
# ==========================================================================
def test_parse_only():
    for n, mode in enumerate(MODES):
        for dtype, layout, size in ((0, RDI_SDI_BITS, 34), (1, RDI_TRI_BITS, 12), (2, RDI_POW_BITS, 16)):
            d = rand_values(layout, mode, skip=("disc_information_data_type",))
            d["disc_information_data_type"] = dtype
            d["disc_information_length"] = size - 2
            ref = ref_encode(d, layout, bytearray(size))
            ok, d2 = attempt("rdi.%d.%d" % (dtype, n), ReadDiscInformation.unmarshall_datain, ref + rbytes(3))
            if dtype == 0:
                for k in ("number_of_sessions", "first_track_number_in_last_session", "last_track_number_in_last_session"):
                    d[k] = d.pop(k + "_msb") * 256 + d.pop(k + "_lsb")
            check(ok and d2 == d, "READ DISC INFORMATION type %d" % dtype)
    ok, e = attempt("rdi.unknown", ReadDiscInformation.unmarshall_datain, bytearray(b"\x00\x20\x60") + bytearray(40))
    check(not ok and isinstance(e, NotImplementedError), "READ DISC INFORMATION unknown type")
    attempt("rdi.short", ReadDiscInformation.unmarshall_datain, bytearray(2))
    c = ReadDiscInformation(mmc.READ_DISC_INFORMATION, 1, alloc_len=100)
    note("rdi.cdb", (c.cdb, len(c.datain)))

    # READ CD: every combination of the selection bits on random sector data
    sizes = {1: 2352, 2: 2048, 3: 2336, 4: 2048, 5: 2324}
    for est in range(0, 7):
        for mcsb in range(32):
            for c2ei, scsb in ((0, 0), (1, 2), (2, 4), (0, 1), (3, 0)):
                data = rbytes(2 * 3072)
                tag = "readcd.%d.%d.%d.%d" % (est, mcsb, c2ei, scsb)
                ok, r = attempt(tag, ReadCd.unmarshall_datain, data, lba=5, tl=2, est=est, mcsb=mcsb, c2ei=c2ei, scsb=scsb)
                if ok:
                    check(list(r) == [5, 6], "%s: sectors" % tag)
                    # the pieces, put back in order, are a prefix of the data (minus the zero fill)
                    if est in sizes and "data" in r[5] and "sector-header" not in r[5] and "edc" not in r[5]:
                        pos = 12 if "sync" in r[5] else 0
                        pos += 8 if "sector-subheader" in r[5] else 0
                        check(r[5]["data"] == data[pos : pos + sizes[est]], "%s: user data" % tag)
    attempt("readcd.defaults", ReadCd.unmarshall_datain, rbytes(64))
    attempt("readcd.positional", ReadCd.unmarshall_datain, rbytes(6144), 0, 2, mcsb=0x1F, est=2)
    attempt("readcd.short", ReadCd.unmarshall_datain, rbytes(10), lba=0, tl=1, mcsb=0x08, est=4)
    with SCSI(FakeCd()) as s:
        r = s.readcd(lba=16, tl=2, mcsb=0x14, scsb=2)
        note("readcd.scsi", (r.cdb, r.result))

    # REPORT PRIORITY
    attempt("rp.u", ReportPriority.unmarshall_datain, be(16, 4) + rbytes(12))
    attempt("rp.u0", ReportPriority.unmarshall_datain, be(4, 4))
    attempt("rp.m", ReportPriority.marshall_datain, {})
    attempt("rp.m1", ReportPriority.marshall_datain, {"priority_descriptors": []})
    attempt("rp.m2", ReportPriority.marshall_datain, {"priority_descriptors": [{"current_priority": 1}]})


class FakeCd:
    def __init__(self):
        self.opcodes = spc
        self.devicetype = None

    def execute(self, cmd, en_raw_sense=False):
        if cmd.cdb[0] == 0x12:
            cmd.datain[0] = 5
            return
        r = random.Random(7)
        cmd.datain[:] = bytearray(r.randrange(256) for _ in range(len(cmd.datain)))

    def close(self):
        pass


# ==========================================================================
# 10. the commands: cdb and buffers (constructor signatures stay the same)
# ==========================================================================
def test_commands():
    cmds = [
        ("inq", lambda: Inquiry(spc.INQUIRY)),
        ("inq1", lambda: Inquiry(spc.INQUIRY, 1, 0x83, 255)),
        ("inqkw", lambda: Inquiry(opcode=spc.INQUIRY, evpd=1, page_code=0xB0, alloclen=64)),
        ("ms6", lambda: ModeSense6(spc.MODE_SENSE_6, 0x0A)),
        ("ms6kw", lambda: ModeSense6(spc.MODE_SENSE_6, page_code=0x1D, sub_page_code=3, dbd=1, pc=2, alloclen=200)),
        ("ms6pos", lambda: ModeSense6(spc.MODE_SENSE_6, 0x02, 1, 1, 3, 17)),
        ("ms10", lambda: ModeSense10(spc.MODE_SENSE_10, 0x0A)),
        ("ms10kw", lambda: ModeSense10(spc.MODE_SENSE_10, page_code=0x1D, sub_page_code=3, llbaa=1, dbd=1, pc=1, alloclen=3000)),
        ("ms10pos", lambda: ModeSense10(spc.MODE_SENSE_10, 0x02, 1, 1, 1, 3, 17)),
        ("rc10", lambda: ReadCapacity10(sbc.READ_CAPACITY_10)),
        ("rc10a", lambda: ReadCapacity10(sbc.READ_CAPACITY_10, alloclen=16)),
        ("rc16", lambda: ReadCapacity16(sbc.SBC_OPCODE_9E)),
        ("rc16a", lambda: ReadCapacity16(sbc.SBC_OPCODE_9E, alloclen=100)),
        ("glba", lambda: GetLBAStatus(sbc.SBC_OPCODE_9E, 0x1122334455667788)),
        ("glbaa", lambda: GetLBAStatus(sbc.SBC_OPCODE_9E, lba=5, alloclen=24)),
        ("luns", lambda: ReportLuns(spc.REPORT_LUNS)),
        ("lunsa", lambda: ReportLuns(spc.REPORT_LUNS, report=2, alloclen=4096)),
        ("rp", lambda: ReportPriority(spc.SPC_OPCODE_A3)),
        ("rpa", lambda: ReportPriority(spc.SPC_OPCODE_A3, priority=1, alloclen=64)),
        ("rtpg", lambda: ReportTargetPortGroups(spc.SPC_OPCODE_A3)),
        ("rtpga", lambda: ReportTargetPortGroups(spc.SPC_OPCODE_A3, data_format=1, alloclen=64)),
        ("res", lambda: ReadElementStatus(smc.READ_ELEMENT_STATUS, 10, 20)),
        ("resa", lambda: ReadElementStatus(smc.READ_ELEMENT_STATUS, start=1, num=2, element_type=3, voltag=1, curdata=0, dvcid=1, alloclen=999)),
        ("readcd", lambda: ReadCd(mmc.READ_CD, lba=100, tl=2, est=1, dap=1, mcsb=0x1F, c2ei=2, scsb=4)),
    ]
    for tag, make in cmds:
        ok, c = attempt("cmd." + tag, lambda: (lambda c: (c.cdb, len(c.datain), len(c.dataout), c.result))(make()))
        check(ok, "command %s could not be built: %r" % (tag, c))
    # the enumerations stay reachable from the command classes
    for cls, names in (
        (Inquiry, ("VPD", "DESIGNATOR", "NAA", "DEVICE_TYPE", "PROVISIONING_TYPE")),
        (ModeSense6, ("PAGE_CODE", "PC", "MODESENSE6")),
        (ModeSense10, ("PAGE_CODE", "PC", "MODESENSE10")),
        (ReadElementStatus, ("ELEMENT_TYPE",)),
        (ReadDiscInformation, ("DISC_INFORMATION_DATA_TYPE",)),
    ):
        for nm in names:
            check(hasattr(cls, nm), "%s.%s is missing" % (cls.__name__, nm))
    check(Inquiry.VPD is INQ.VPD and ModeSense6.PAGE_CODE is MS.PAGE_CODE, "enum identity")
    check(ModeSense6.MODESENSE6 is MS.MODESENSE6 and ModeSense10.MODESENSE10 is MS.MODESENSE10, "enum identity (mode)")
    for cls in (Inquiry, ModeSense6, ModeSense10, ModeSelect6, ModeSelect10, ReadCapacity10, ReadCapacity16,
                GetLBAStatus, ReportLuns, ReportPriority, ReportTargetPortGroups, ReadElementStatus,
                ReadDiscInformation, ReadCd, PersistentReserveIn):
        check(issubclass(cls, SCSICommand), "%s is a SCSICommand" % cls.__name__)
        check(cls.__module__.startswith("pyscsi.pyscsi.scsi_cdb_"), "%s.__module__" % cls.__name__)
    # instances can call the codecs too, and the generic unmarshall() wrapper works
    c = ReadCapacity10(sbc.READ_CAPACITY_10)
    c.datain[:] = be(77, 4) + be(512, 4)
    c.unmarshall()
    check(c.result == {"returned_lba": 77, "block_length": 512}, "unmarshall() wrapper")
    check(c.marshall_datain(c.result) == c.datain, "marshall_datain on an instance")
    c = Inquiry(spc.INQUIRY, evpd=1, page_code=0x80)
    c.datain = bytearray(b"\x00\x80\x00\x03abc")
    c.unmarshall(evpd=1)
    check(c.result["unit_serial_number"] == b"abc", "Inquiry.unmarshall(evpd=1)")

# ==========================================================================
EXPECTED_FINGERPRINT = "d89545c8c7b05854fb9be41c532e220e9267a449265bca8354fe5c1bf0f096d6"


def main():
    tests = [
        test_readcapacity,
        test_getlbastatus,
        test_reportluns,
        test_rtpg,
        test_readelementstatus,
        test_inquiry,
        test_modesense,
        test_scsi_class_and_swp,
        test_persistentreservein,
        test_parse_only,
        test_commands,
    ]
    for t in tests:
        before = len(FAILURES)
        try:
            t()
        except Exception as e:  # a crash of the checker itself is a failure as well
            import traceback

            traceback.print_exc()
            FAILURES.append("%s crashed: %r" % (t.__name__, e))
        note("end-of-" + t.__name__, len(FAILURES) - before)
        if "-v" in sys.argv:
            print("%-28s %s  (fingerprint so far %s)" % (t.__name__, "ok" if len(FAILURES) == before else "FAILED", _H.hexdigest()[:12]))
    fp = _H.hexdigest()
    if "--print-fingerprint" in sys.argv:
        print(fp)
    if fp != EXPECTED_FINGERPRINT:
        FAILURES.append("behaviour fingerprint %s differs from the recorded %s" % (fp, EXPECTED_FINGERPRINT))
    if FAILURES:
        print("FAIL (%d problems, %d checks)" % (len(FAILURES), CHECKS[0]))
        for f in FAILURES[-3:]:
            print("  ", f[:400])
        return 1
    print("PASS (%d checks, fingerprint %s)" % (CHECKS[0], fp[:16]))
    return 0


if __name__ == "__main__":
    sys.exit(main())
