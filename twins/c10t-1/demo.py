#!/usr/bin/env python
# coding: utf-8
"""
Demo for property C10 (pyscsi/utils/converter.py).

Integer-to-bytes conversion is big-endian and inverse to bytes-to-integer for
every width.  For any layout of non-overlapping fields (bit masks of any width
at any byte offset, aligned or not, and byte/word/dword blobs), encoding
writes a value into exactly the bits of its field and no others, decoding
reads exactly those bits, decoding after encoding returns the value, and the
result does not depend on the order in which fields are supplied.

Everything is checked through the public API only and compared against an
independent reference model written here with int.to_bytes/int.from_bytes.

Run as:
    cd /tmp/seed/C10t && PYTHONPATH=/tmp/seed/C10t /venv/bin/python SEED/demo.py
"""
import importlib
import inspect
import pkgutil
import random
import sys
import types

# the external bindings are optional and not installed: provide small fakes
for _name in ("sgio", "iscsi"):
    if _name not in sys.modules:
        try:
            importlib.import_module(_name)
        except Exception:
            sys.modules[_name] = types.ModuleType(_name)

import pyscsi.utils  # noqa: E402
import pyscsi.utils.converter as conv  # noqa: E402
from pyscsi.utils.converter import (  # noqa: E402
    decode_bits,
    encode_dict,
    scsi_ba_to_int,
    scsi_int_to_ba,
)

RND = random.Random(0xC10)
CHECKS = 0
FAILURES = []


def check(cond, msg):
    global CHECKS
    CHECKS += 1
    if not cond:
        FAILURES.append(msg)
        if len(FAILURES) > 25:
            finish()


def raises(exc, fn, *args, **kwargs):
    try:
        fn(*args, **kwargs)
    except exc:
        return True
    except Exception:
        return False
    return False


def finish():
    if FAILURES:
        print("FAIL (%d of %d checks)" % (len(FAILURES), CHECKS))
        for f in FAILURES[:25]:
            print("  -", f)
        sys.exit(1)
    print("PASS (%d checks)" % CHECKS)
    sys.exit(0)


# --------------------------------------------------------------------------
# reference model
# --------------------------------------------------------------------------
def ref_to_ba(value, size):
    if size <= 0:
        return bytearray()
    return bytearray((value & ((1 << (8 * size)) - 1)).to_bytes(size, "big"))


def ref_to_int(seq):
    total = 0
    for item in seq:
        total = total * 256 + item
    return total


def mask_geometry(mask):
    nbytes = max(1, (mask.bit_length() + 7) // 8)
    low = 0
    while not (mask >> low) & 1:
        low += 1
    return nbytes, low


UNIT = {"b": 1, "w": 2, "dw": 4}


def field_image(notation, buflen):
    """bytes object with exactly the bits of the field set"""
    img = bytearray(buflen)
    if len(notation) == 2:
        mask, pos = notation
        nbytes, _ = mask_geometry(mask)
        img[pos : pos + nbytes] = mask.to_bytes(nbytes, "big")
    else:
        kind, off, length = notation
        n = length * UNIT[kind]
        img[off : off + n] = b"\xff" * n
    assert len(img) == buflen
    return bytes(img)


def ref_encode_one(buf, notation, value):
    """reference: returns new bytes after encoding one field onto buf"""
    out = bytearray(buf)
    if len(notation) == 2:
        mask, pos = notation
        nbytes, low = mask_geometry(mask)
        add = ref_to_ba(value << low, nbytes)
        for i in range(nbytes):
            out[pos + i] ^= add[i]
    else:
        kind, off, length = notation
        out[off : off + length * UNIT[kind]] = value
    return bytes(out)


def ref_decode_one(buf, notation):
    if len(notation) == 2:
        mask, pos = notation
        nbytes, low = mask_geometry(mask)
        chunk = buf[pos : pos + nbytes]
        return (ref_to_int(chunk) >> low) & (mask >> low)
    kind, off, length = notation
    return buf[off : off + length * UNIT[kind]]


def b_and(a, b):
    return bytes(x & y for x, y in zip(a, b))


def b_or(a, b):
    return bytes(x | y for x, y in zip(a, b))


def b_xor(a, b):
    return bytes(x ^ y for x, y in zip(a, b))


def b_not(a):
    return bytes(x ^ 0xFF for x in a)


# --------------------------------------------------------------------------
# 0. public surface
# --------------------------------------------------------------------------
def test_surface():
    for name in (
        "scsi_int_to_ba",
        "scsi_ba_to_int",
        "decode_bits",
        "encode_dict",
        "print_data",
        "get_opcode",
        "CheckDict",
    ):
        check(hasattr(conv, name), "converter lost public name %s" % name)
        check(hasattr(pyscsi.utils, name), "pyscsi.utils lost public name %s" % name)
    sig = inspect.signature(scsi_int_to_ba)
    check(list(sig.parameters) == ["to_convert", "array_size"], "int_to_ba params")
    check(sig.parameters["to_convert"].default == 0, "int_to_ba default value")
    check(sig.parameters["array_size"].default == 4, "int_to_ba default size")
    check(list(inspect.signature(scsi_ba_to_int).parameters) == ["ba"], "ba_to_int params")
    check(
        list(inspect.signature(decode_bits).parameters)
        == ["data", "check_dict", "result_dict"],
        "decode_bits params",
    )
    check(
        list(inspect.signature(encode_dict).parameters)
        == ["data_dict", "check_dict", "result"],
        "encode_dict params",
    )
    public = sorted(n for n in vars(conv) if not n.startswith("_"))
    check(
        public
        == sorted(
            [
                "CheckDict",
                "Mapping",
                "Sequence",
                "Tuple",
                "Union",
                "decode_bits",
                "encode_dict",
                "get_opcode",
                "print_data",
                "scsi_ba_to_int",
                "scsi_int_to_ba",
            ]
        ),
        "public names of converter changed: %r" % public,
    )


# --------------------------------------------------------------------------
# 1. int <-> bytes
# --------------------------------------------------------------------------
def test_int_bytes():
    check(scsi_int_to_ba() == bytearray(4), "defaults")
    check(scsi_int_to_ba(34) == bytearray(b'\x00\x00\x00"'), "doc example default size")
    check(scsi_int_to_ba(34, 4) == bytearray(b'\x00\x00\x00"'), "doc example")
    check(
        scsi_int_to_ba(array_size=2, to_convert=0x1234) == bytearray(b"\x12\x34"),
        "keyword arguments",
    )
    check(scsi_int_to_ba(0x0102030405060708, 8) == bytearray(range(1, 9)), "8 bytes")
    check(scsi_ba_to_int(bytearray(range(1, 9))) == 0x0102030405060708, "8 bytes back")

    for size in list(range(0, 20)) + [31, 32, 33, 64, 100, 257]:
        values = {0, 1, 0x80, 0xFF, 0x100, (1 << (8 * size)) - 1 if size else 0}
        if size:
            values |= {1 << (8 * size - 1), 1 << (8 * (size - 1)), (1 << (8 * size)) >> 1}
            for _ in range(12):
                values.add(RND.getrandbits(8 * size))
        for v in values:
            ba = scsi_int_to_ba(v, size)
            check(type(ba) is bytearray, "int_to_ba type for size %d" % size)
            check(len(ba) == size, "int_to_ba length size=%d" % size)
            check(ba == ref_to_ba(v, size), "int_to_ba(%#x, %d) = %r" % (v, size, ba))
            if v < (1 << (8 * size)) or size == 0:
                back = scsi_ba_to_int(ba)
                check(type(back) is int, "ba_to_int type")
                check(
                    back == (v if size else 0),
                    "roundtrip int->ba->int %#x size %d gave %#x" % (v, size, back),
                )
        # bytes -> int -> bytes for arbitrary byte strings of that width
        for _ in range(6):
            raw = bytes(RND.getrandbits(8) for _ in range(size))
            n = scsi_ba_to_int(raw)
            check(n == int.from_bytes(raw, "big"), "ba_to_int(%r)" % raw)
            check(scsi_int_to_ba(n, size) == bytearray(raw), "roundtrip ba->int->ba %r" % raw)

    # big-endian: each byte lands at its own place
    for size in range(1, 12):
        for idx in range(size):
            v = 0xA5 << (8 * (size - 1 - idx))
            want = bytearray(size)
            want[idx] = 0xA5
            check(scsi_int_to_ba(v, size) == want, "byte place %d/%d" % (idx, size))
            check(scsi_ba_to_int(want) == v, "byte weight %d/%d" % (idx, size))

    # values wider than the array are cut to the low bytes, negatives wrap
    for size in range(0, 9):
        for _ in range(20):
            v = RND.getrandbits(8 * size + RND.randrange(1, 40))
            check(scsi_int_to_ba(v, size) == ref_to_ba(v, size), "wide value %#x/%d" % (v, size))
            check(scsi_int_to_ba(-v, size) == ref_to_ba(-v, size), "negative value %d/%d" % (-v, size))
    check(scsi_int_to_ba(-1, 3) == bytearray(b"\xff\xff\xff"), "-1")
    check(scsi_int_to_ba(-2, 2) == bytearray(b"\xff\xfe"), "-2")
    check(scsi_int_to_ba(5, 0) == bytearray(), "size 0")
    check(scsi_int_to_ba(5, -3) == bytearray(), "negative size")
    check(scsi_int_to_ba(True, 2) == bytearray(b"\x00\x01"), "bool value")
    check(scsi_int_to_ba(7, True) == bytearray(b"\x07"), "bool size")

    # every kind of sequence of byte values is accepted by ba_to_int
    for raw in (b"", b"\x00", b"\x00\x00\x01", b"\x01\x00", bytes(range(250, 256)) * 3):
        want = int.from_bytes(raw, "big")
        for form in (bytes(raw), bytearray(raw), memoryview(raw), list(raw), tuple(raw)):
            check(scsi_ba_to_int(form) == want, "ba_to_int(%r)" % (form,))
    check(scsi_ba_to_int([]) == 0, "empty list")
    check(scsi_ba_to_int([1, 256]) == 512, "elements are weighted by position")
    check(scsi_ba_to_int([300]) == 300, "single large element")
    check(scsi_ba_to_int([True, False]) == 256, "bool elements")
    check(scsi_ba_to_int(range(3)) == 0x000102, "range object")

    # wrong kinds of argument
    check(raises(TypeError, scsi_ba_to_int, (b for b in b"\x01\x02")), "generator has no len")
    check(raises(TypeError, scsi_ba_to_int, 5), "int is not a sequence")
    check(raises(TypeError, scsi_ba_to_int, None), "None is not a sequence")
    check(raises(TypeError, scsi_ba_to_int, "ab"), "str elements do not shift")
    check(raises(TypeError, scsi_int_to_ba, 1.5, 2), "float value")
    check(raises(TypeError, scsi_int_to_ba, "1", 2), "str value")
    check(raises(TypeError, scsi_int_to_ba, None, 1), "None value")
    check(raises(TypeError, scsi_int_to_ba, 1, 2.0), "float size")
    check(raises(TypeError, scsi_int_to_ba, 1, "2"), "str size")
    check(raises(TypeError, scsi_int_to_ba, 1, None), "None size")


# --------------------------------------------------------------------------
# 2. layouts
# --------------------------------------------------------------------------
def random_layout(buflen, sparse_masks=False):
    """
    cut the 8*buflen bits of a buffer into non-overlapping fields.
    bit 0 is the most significant bit of byte 0.
    returns {name: notation}
    """
    layout = {}
    nbits = 8 * buflen
    pos = 0
    n = 0
    while pos < nbits:
        roll = RND.random()
        room = nbits - pos
        if pos % 8 == 0 and roll < 0.25 and room >= 8:
            kind = RND.choice(["b", "w", "dw"])
            unit = UNIT[kind]
            maxlen = (room // 8) // unit
            if maxlen >= 1:
                length = RND.randint(1, min(maxlen, 5))
                layout["f%d_%s" % (n, kind)] = (kind, pos // 8, length)
                n += 1
                pos += 8 * unit * length
                continue
        if roll < 0.40:
            # a gap nobody owns
            pos += RND.randint(1, min(room, 11))
            continue
        style = RND.random()
        if style < 0.35:
            width = 1
        elif style < 0.7:
            width = RND.randint(1, 8)
        elif style < 0.93:
            width = RND.randint(1, 40)
        else:
            width = RND.randint(1, 130)
        width = min(width, room)
        start, end = pos, pos + width
        first = start // 8
        last = (end - 1) // 8
        bits = (1 << width) - 1
        if sparse_masks and width > 2 and RND.random() < 0.5:
            # punch holes, keep both end bits
            bits = RND.getrandbits(width) | 1 | (1 << (width - 1))
        mask = bits << (8 * (last + 1) - end)
        notation = [mask, first] if RND.random() < 0.7 else (mask, first)
        layout["f%d_m" % n] = notation
        n += 1
        pos = end
    return layout


def random_value(notation, source="bytes"):
    if len(notation) == 2:
        mask, _ = notation
        _, low = mask_geometry(mask)
        room = mask >> low
        pick = RND.random()
        if pick < 0.15:
            return room
        if pick < 0.25:
            return 0
        if pick < 0.30:
            return room & -room
        return RND.getrandbits(room.bit_length()) & room
    kind, _, length = notation
    n = length * UNIT[kind]
    raw = bytes(RND.getrandbits(8) for _ in range(n))
    form = RND.choice(["bytes", "bytearray", "list", "memoryview"])
    if form == "bytes":
        return raw
    if form == "bytearray":
        return bytearray(raw)
    if form == "list":
        return list(raw)
    return memoryview(raw)


def as_bytes(value):
    return bytes(value)


def shuffled_dict(d):
    keys = list(d.keys())
    RND.shuffle(keys)
    return {k: d[k] for k in keys}


def check_layout(layout, buflen, tag):
    images = {k: field_image(v, buflen) for k, v in layout.items()}
    # sanity of the generator: fields do not overlap
    seen = bytes(buflen)
    for k, img in images.items():
        assert not any(b_and(seen, img)), "generator produced overlap"
        seen = b_or(seen, img)
    owned = seen

    values = {k: random_value(v) for k, v in layout.items()}

    # --- expected complete buffer
    want = bytes(buflen)
    for k in layout:
        want = ref_encode_one(want, layout[k], values[k])

    # --- each field alone touches exactly its own bits
    for k, notation in layout.items():
        buf = bytearray(buflen)
        rv = encode_dict({k: values[k]}, layout, buf)
        check(rv is None, "%s: encode_dict returns None" % tag)
        check(len(buf) == buflen, "%s: buffer length changed by %s" % (tag, k))
        got = bytes(buf)
        check(
            got == b_and(want, images[k]),
            "%s: field %s %r value %r alone gave %s" % (tag, k, notation, values[k], got.hex()),
        )
        check(not any(b_and(got, b_not(images[k]))), "%s: field %s wrote outside itself" % (tag, k))
        # all ones fills exactly the field
        if len(notation) == 2:
            _, low = mask_geometry(notation[0])
            full = notation[0] >> low
        else:
            full = b"\xff" * (notation[2] * UNIT[notation[0]])
        buf = bytearray(buflen)
        encode_dict({k: full}, {k: notation}, buf)
        check(bytes(buf) == images[k], "%s: all-ones of %s %r" % (tag, k, notation))
        out = {}
        decode_bits(buf, {k: notation}, out)
        check(list(out) == [k], "%s: decode keys" % tag)
        check(
            (out[k] == full) if len(notation) == 2 else (bytes(out[k]) == full),
            "%s: all-ones decode of %s" % (tag, k),
        )
        # decoding the field out of a buffer with every OTHER bit set gives 0
        out = {}
        decode_bits(b_not(images[k]), {k: notation}, out)
        if len(notation) == 2:
            check(out[k] == 0 and type(out[k]) is int, "%s: %s reads foreign bits" % (tag, k))
        else:
            check(not any(out[k]), "%s: blob %s reads foreign bits" % (tag, k))

    # --- all together, in several orders of data_dict and of check_dict
    results = []
    for _ in range(4):
        buf = bytearray(buflen)
        encode_dict(shuffled_dict(values), shuffled_dict(layout), buf)
        results.append(bytes(buf))
    buf = bytearray(buflen)
    encode_dict(values, layout, buf)
    results.append(bytes(buf))
    buf = bytearray(buflen)
    encode_dict(dict(reversed(list(values.items()))), layout, buf)
    results.append(bytes(buf))
    # one call per field, in random order
    buf = bytearray(buflen)
    for k in shuffled_dict(values):
        encode_dict({k: values[k]}, layout, buf)
    results.append(bytes(buf))
    for got in results:
        check(got == want, "%s: encode all gave %s want %s" % (tag, got.hex(), want.hex()))
    check(not any(b_and(want, b_not(owned))), "%s: gap bits written" % tag)

    # --- decode after encode
    for data in (want, bytearray(want), memoryview(want)):
        for cd in (layout, shuffled_dict(layout)):
            out = {}
            rv = decode_bits(data, cd, out)
            check(rv is None, "%s: decode_bits returns None" % tag)
            check(list(out.keys()) == list(cd.keys()), "%s: decode key order" % tag)
            for k, notation in layout.items():
                if len(notation) == 2:
                    check(type(out[k]) is int, "%s: mask field decodes to int" % tag)
                    check(
                        out[k] == values[k],
                        "%s: roundtrip %s %r: %r != %r" % (tag, k, notation, out[k], values[k]),
                    )
                else:
                    check(type(out[k]) is type(data), "%s: blob type follows buffer" % tag)
                    check(
                        bytes(out[k]) == as_bytes(values[k]),
                        "%s: blob roundtrip %s %r" % (tag, k, notation),
                    )
    check(bytes(want) == want, "noop")

    # --- decode of arbitrary buffers reads exactly the field bits
    for _ in range(3):
        noise = bytes(RND.getrandbits(8) for _ in range(buflen))
        out = {}
        decode_bits(noise, layout, out)
        for k, notation in layout.items():
            ref = ref_decode_one(noise, notation)
            check(out[k] == ref, "%s: decode noise %s %r: %r != %r" % (tag, k, notation, out[k], ref))
            # flipping every bit outside the field changes nothing
            flipped = b_xor(noise, b_not(images[k]))
            out2 = {}
            decode_bits(flipped, {k: notation}, out2)
            check(out2[k] == out[k], "%s: %s depends on foreign bits" % (tag, k))
            # flipping one bit inside the field changes the value
            inside = [i for i in range(8 * buflen) if images[k][i // 8] & (0x80 >> (i % 8))]
            bit = RND.choice(inside)
            poked = bytearray(noise)
            poked[bit // 8] ^= 0x80 >> (bit % 8)
            out3 = {}
            decode_bits(bytes(poked), {k: notation}, out3)
            check(out3[k] != out[k], "%s: %s ignores its bit %d" % (tag, k, bit))
        # re-encoding what was decoded reproduces the owned bits
        buf = bytearray(buflen)
        encode_dict(shuffled_dict(out), layout, buf)
        check(bytes(buf) == b_and(noise, owned), "%s: decode->encode of noise" % tag)

    # --- encoding on a pre-filled buffer leaves all foreign bits alone
    noise = bytes(RND.getrandbits(8) for _ in range(buflen))
    buf = bytearray(noise)
    encode_dict(shuffled_dict(values), layout, buf)
    check(
        b_and(bytes(buf), b_not(owned)) == b_and(noise, b_not(owned)),
        "%s: prefilled buffer, gap bits changed" % tag,
    )
    ref = noise
    for k in layout:
        ref = ref_encode_one(ref, layout[k], values[k])
    check(bytes(buf) == ref, "%s: prefilled buffer content" % tag)

    # --- keys without a notation are skipped, notations without a value untouched
    some = {k: values[k] for k in list(values)[::2]}
    extra = dict(some)
    extra["not_in_layout"] = 0xFF
    extra[("tuple", "key")] = b"\xff\xff"
    buf = bytearray(buflen)
    encode_dict(extra, layout, buf)
    ref = bytes(buflen)
    for k in some:
        ref = ref_encode_one(ref, layout[k], values[k])
    check(bytes(buf) == ref, "%s: partial data_dict" % tag)
    # the arguments are not modified
    check(set(extra) == set(some) | {"not_in_layout", ("tuple", "key")}, "%s: data_dict modified" % tag)

    # --- a list of ints works as a target buffer too
    lst = [0] * buflen
    encode_dict(values, layout, lst)
    check(bytes(lst) == want, "%s: list buffer" % tag)
    out = {}
    decode_bits(list(want), layout, out)
    for k, notation in layout.items():
        if len(notation) == 2:
            check(out[k] == values[k], "%s: list data %s" % (tag, k))
        else:
            check(type(out[k]) is list and bytes(out[k]) == as_bytes(values[k]), "%s: list blob" % tag)
    out = {}
    decode_bits(tuple(want), layout, out)
    for k, notation in layout.items():
        if len(notation) == 2:
            check(out[k] == values[k], "%s: tuple data %s" % (tag, k))


def test_layouts():
    for buflen in (1, 2, 3, 4, 6, 8, 12, 16, 24, 36, 64):
        for rep in range(14):
            layout = random_layout(buflen, sparse_masks=(rep % 3 == 2))
            if layout:
                check_layout(layout, buflen, "L%d.%d" % (buflen, rep))


def test_every_mask_position():
    """every contiguous mask of every width at every bit position of 3 bytes"""
    buflen = 5
    for pos in (0, 1, 2):
        for start in range(0, 24):
            for width in range(1, 25 - start):
                end = start + width
                first, last = start // 8, (end - 1) // 8
                mask = ((1 << width) - 1) << (8 * (last + 1) - end)
                notation = [mask, pos + first]
                for value in {0, 1, (1 << width) - 1, 1 << (width - 1), RND.getrandbits(width)}:
                    buf = bytearray(buflen)
                    encode_dict({"x": value}, {"x": notation}, buf)
                    whole = value << (8 * buflen - 8 * pos - end)
                    check(
                        bytes(buf) == whole.to_bytes(buflen, "big"),
                        "mask %#x @%d value %#x -> %s" % (mask, pos + first, value, bytes(buf).hex()),
                    )
                    out = {"x": "old", "other": "kept"}
                    decode_bits(bytes(buf), {"x": notation}, out)
                    check(out == {"x": value, "other": "kept"}, "mask %#x @%d decode" % (mask, pos + first))
                    # surrounded by ones
                    ones = bytearray(b"\xff" * buflen)
                    encode_dict({"x": (1 << width) - 1}, {"x": notation}, ones)
                    out = {}
                    decode_bits(ones, {"x": notation}, out)
                    check(out["x"] == 0, "xor of all ones clears mask %#x" % mask)
                    ones2 = bytes(b ^ 0xFF for b in ones)
                    check(ones2 == bytes(field_image(notation, buflen)), "cleared bits are the field")


def test_wide_masks():
    for nbytes in (1, 2, 3, 4, 5, 7, 8, 9, 12, 16, 17, 32):
        mask = (1 << (8 * nbytes)) - 1
        for pos in (0, 1, 5):
            buflen = pos + nbytes + 2
            value = RND.getrandbits(8 * nbytes)
            buf = bytearray(buflen)
            encode_dict({"v": value}, {"v": [mask, pos]}, buf)
            want = bytes(pos) + value.to_bytes(nbytes, "big") + bytes(2)
            check(bytes(buf) == want, "full mask %d bytes at %d" % (nbytes, pos))
            out = {}
            decode_bits(want, {"v": (mask, pos)}, out)
            check(out == {"v": value}, "full mask decode %d bytes at %d" % (nbytes, pos))
        # a single bit at the very top / very bottom of a wide mask
        for mask in (1 << (8 * nbytes - 1), 1 << (8 * (nbytes - 1)), (1 << (8 * (nbytes - 1))) | 1):
            n, low = mask_geometry(mask)
            check(n == nbytes, "geometry")
            buf = bytearray(nbytes + 1)
            v = mask >> low
            encode_dict({"v": v}, {"v": [mask, 1]}, buf)
            check(bytes(buf) == b"\x00" + mask.to_bytes(nbytes, "big"), "sparse wide mask %#x" % mask)
            out = {}
            decode_bits(buf, {"v": [mask, 1]}, out)
            check(out["v"] == v, "sparse wide mask decode %#x" % mask)


def test_unusual():
    # bool flags and bool masks
    buf = bytearray(2)
    encode_dict({"a": True, "b": False, "c": True}, {"a": [0x80, 0], "b": [0x40, 0], "c": [True, 1]}, buf)
    check(bytes(buf) == b"\x80\x01", "bool values: %s" % bytes(buf).hex())
    out = {}
    decode_bits(b"\x80\x01", {"a": [0x80, 0], "b": [0x40, 0], "c": [True, 1]}, out)
    check(out == {"a": 1, "b": 0, "c": 1}, "bool decode %r" % out)

    # a value wider than its field spills upward inside the bytes of the mask
    # and is cut at the first byte of the mask (this is what the code does today)
    for mask, pos, value in (
        (0x0F, 1, 0x1F),
        (0x0F, 1, 0xFFF),
        (0x3C, 0, 0xFF),
        (0x0FF0, 1, 0xFFFF),
        (0x01, 2, 0x100),
        (0x7FFE, 0, 1 << 20),
    ):
        buf = bytearray(4)
        encode_dict({"v": value}, {"v": [mask, pos]}, buf)
        check(
            bytes(buf) == ref_encode_one(bytes(4), [mask, pos], value),
            "oversized value %#x in %#x" % (value, mask),
        )
        nbytes, _ = mask_geometry(mask)
        check(not any(buf[:pos]) and not any(buf[pos + nbytes :]), "oversized value stays in mask bytes")
    # negative values wrap inside the bytes of the mask
    buf = bytearray(3)
    encode_dict({"v": -1}, {"v": [0xFF, 1]}, buf)
    check(bytes(buf) == b"\x00\xff\x00", "negative value")

    # encoding twice toggles (xor)
    buf = bytearray(3)
    cd = {"v": [0x0FF0, 1]}
    encode_dict({"v": 0xA5}, cd, buf)
    encode_dict({"v": 0xA5}, cd, buf)
    check(bytes(buf) == bytes(3), "encoding twice")

    # empty inputs
    buf = bytearray(b"\x12\x34")
    encode_dict({}, {"v": [0xFF, 0]}, buf)
    encode_dict({"v": 1}, {}, buf)
    check(bytes(buf) == b"\x12\x34", "empty dicts")
    out = {"keep": 1}
    decode_bits(b"\x12\x34", {}, out)
    check(out == {"keep": 1}, "empty check dict")

    # fields that run off the end of the buffer
    check(raises(IndexError, encode_dict, {"v": 1}, {"v": [0xFF, 2]}, bytearray(2)), "encode past end")
    check(raises(IndexError, encode_dict, {"v": 1}, {"v": [0xFFFF, 1]}, bytearray(2)), "encode across end")
    for data, notation in (
        (b"\xab", [0xFFFF, 0]),
        (b"\xab\xcd", [0x0FF0, 1]),
        (b"\xab\xcd", [0xFF, 2]),
        (b"\xab\xcd", [0xFFFFFF, 0]),
        (b"\xab\xcd\xef", [0x00FFFF00FF, 1][:1] + [1]),
        (b"", [0x01, 0]),
    ):
        out = {}
        decode_bits(data, {"v": notation}, out)
        check(out["v"] == ref_decode_one(data, notation), "decode past end %r %r -> %r" % (data, notation, out))
    for data, notation in ((b"\xab\xcd", ("b", 1, 4)), (b"\xab\xcd", ("w", 1, 1)), (b"\xab", ("dw", 3, 1))):
        out = {}
        decode_bits(data, {"v": notation}, out)
        check(out["v"] == ref_decode_one(data, notation), "blob past end %r %r" % (data, notation))

    # negative offsets count from the end, like any index
    buf = bytearray(4)
    encode_dict({"v": 0x1234}, {"v": [0xFFFF, -2]}, buf)
    check(bytes(buf) == b"\x00\x00\x12\x34", "negative position encode")
    out = {}
    decode_bits(b"\x01\x02\x03\x04", {"a": [0xFF, -2], "b": ("b", -3, 2), "c": [0xFFFF, -2]}, out)
    check(out == {"a": 3, "b": b"\x02\x03", "c": 0}, "negative position decode %r" % out)

    # blob values of another length resize a bytearray, exactly like slice assignment
    for value in (b"", b"\x01", b"\x01\x02\x03\x04\x05"):
        buf = bytearray(b"\xaa" * 6)
        encode_dict({"v": value}, {"v": ("b", 2, 2)}, buf)
        ref = bytearray(b"\xaa" * 6)
        ref[2:4] = value
        check(buf == ref, "blob of other length %r" % value)
    buf = bytearray(8)
    encode_dict(
        {"w": b"\x01\x02\x03\x04", "d": bytearray(b"\x05\x06\x07\x08")},
        {"w": ("w", 0, 2), "d": ("dw", 4, 1)},
        buf,
    )
    check(bytes(buf) == bytes(range(1, 9)), "word and dword blobs")
    out = {}
    decode_bits(buf, {"w": ("w", 2, 1), "d": ("dw", 0, 2), "b": ("b", 7, 1), "z": ("b", 3, 0)}, out)
    check(
        out == {"w": bytearray(b"\x03\x04"), "d": bytearray(range(1, 9)), "b": bytearray(b"\x08"), "z": bytearray()},
        "word and dword decode %r" % out,
    )
    # lists are fine as notations for blobs as well
    out = {}
    decode_bits(b"\x01\x02\x03\x04", {"w": ["w", 1, 1]}, out)
    check(out == {"w": b"\x02\x03"}, "list notation for blob")
    # a memoryview target
    backing = bytearray(6)
    encode_dict({"m": 0x155, "b": b"\x01\x02"}, {"m": [0x0FF8, 0], "b": ("b", 3, 2)}, memoryview(backing))
    check(bytes(backing) == b"\x0a\xa8\x00\x01\x02\x00", "memoryview target %s" % bytes(backing).hex())

    # wrong kinds of value
    check(raises(TypeError, encode_dict, {"v": 1.0}, {"v": [0xFF, 0]}, bytearray(1)), "float value unshifted")
    check(raises(TypeError, encode_dict, {"v": 1.0}, {"v": [0xF0, 0]}, bytearray(1)), "float value shifted")
    check(raises(TypeError, encode_dict, {"v": "1"}, {"v": [0xFF, 0]}, bytearray(1)), "str value")
    check(raises(TypeError, encode_dict, {"v": None}, {"v": [0x10, 0]}, bytearray(1)), "None value")
    check(raises(TypeError, encode_dict, {"v": b"\x01"}, {"v": [0x10, 0]}, bytearray(1)), "bytes for mask")
    check(raises(TypeError, encode_dict, {"v": 1}, {"v": [0xFF, 0]}, bytes(1)), "immutable target")
    check(raises(TypeError, decode_bits, None, {"v": [0xFF, 0]}, {}), "None data")
    check(raises(TypeError, decode_bits, 5, {"v": ("b", 0, 1)}, {}), "int data")
    check(raises(ValueError, decode_bits, b"ab", {"v": ("b", 0, 1, 2)}, {}), "4-tuple blob decode")
    check(raises(ValueError, encode_dict, {"v": b""}, {"v": ("w", 0, 1, 2)}, bytearray(2)), "4-tuple blob encode")
    # a failed encode of the second field leaves the first one written
    buf = bytearray(2)
    check(
        raises(IndexError, encode_dict, {"a": 0xFF, "b": 1}, {"a": [0xFF, 0], "b": [0xFF, 9]}, buf),
        "second field out of range",
    )
    check(bytes(buf) == b"\xff\x00", "first field stays")

    # mapping types other than dict
    from collections import OrderedDict
    from types import MappingProxyType

    cd = OrderedDict([("hi", [0xF0, 0]), ("lo", [0x0F, 0]), ("blob", ("b", 1, 2))])
    buf = bytearray(3)
    encode_dict(OrderedDict([("blob", b"xy"), ("lo", 3), ("hi", 9)]), MappingProxyType(cd), buf)
    check(bytes(buf) == b"\x93xy", "other mapping types")
    out = OrderedDict()
    decode_bits(bytes(buf), MappingProxyType(cd), out)
    check(list(out.items()) == [("hi", 9), ("lo", 3), ("blob", b"xy")], "other mapping types decode")


# --------------------------------------------------------------------------
# 3. the layouts the library itself uses
# --------------------------------------------------------------------------
def looks_like_check_dict(obj):
    if not isinstance(obj, dict) or not obj:
        return False
    for k, v in obj.items():
        if not isinstance(k, str) or not isinstance(v, (list, tuple)):
            return False
        if len(v) == 2:
            if not (type(v[0]) is int and type(v[1]) is int and v[0] > 0 and v[1] >= 0):
                return False
        elif len(v) == 3:
            if v[0] not in UNIT or type(v[1]) is not int or type(v[2]) is not int:
                return False
        else:
            return False
    return True


def harvest_library_layouts():
    import pyscsi.pyscsi as pkg

    found = {}
    for info in pkgutil.iter_modules(pkg.__path__):
        try:
            mod = importlib.import_module("pyscsi.pyscsi." + info.name)
        except Exception:
            continue
        holders = [(info.name, mod)]
        for cname, cls in vars(mod).items():
            if inspect.isclass(cls) and cls.__module__ == mod.__name__:
                holders.append((info.name + "." + cname, cls))
        for hname, holder in holders:
            for aname, obj in list(vars(holder).items()):
                if looks_like_check_dict(obj):
                    found[hname + "." + aname] = obj
    return found


def test_library_layouts():
    layouts = harvest_library_layouts()
    check(len(layouts) >= 30, "expected to find the library's own layouts, got %d" % len(layouts))
    for name, layout in sorted(layouts.items()):
        buflen = 0
        for v in layout.values():
            if len(v) == 2:
                buflen = max(buflen, v[1] + mask_geometry(v[0])[0])
            else:
                buflen = max(buflen, v[1] + v[2] * UNIT[v[0]])
        # keep a maximal set of mutually non-overlapping fields
        seen = bytes(buflen)
        clean = {}
        for k, v in layout.items():
            img = field_image(v, buflen)
            if any(b_and(seen, img)):
                continue
            seen = b_or(seen, img)
            clean[k] = v
        for _ in range(3):
            values = {k: random_value(v) for k, v in clean.items()}
            want = bytes(buflen)
            for k in clean:
                want = ref_encode_one(want, clean[k], values[k])
            buf = bytearray(buflen)
            encode_dict(shuffled_dict(values), layout, buf)
            check(bytes(buf) == want, "library layout %s encode" % name)
            out = {}
            decode_bits(buf, layout, out)
            check(list(out) == list(layout), "library layout %s key order" % name)
            for k in clean:
                ok = out[k] == values[k] if len(clean[k]) == 2 else bytes(out[k]) == bytes(values[k])
                check(ok, "library layout %s field %s" % (name, k))
            # every field of the full layout (overlapping or not) reads its own bits
            noise = bytes(RND.getrandbits(8) for _ in range(buflen))
            out = {}
            decode_bits(noise, layout, out)
            for k, v in layout.items():
                check(out[k] == ref_decode_one(noise, v), "library layout %s noise %s" % (name, k))


def test_commands():
    """the same through a few command classes"""
    from pyscsi.pyscsi.scsi_cdb_inquiry import Inquiry
    from pyscsi.pyscsi.scsi_cdb_read10 import Read10
    from pyscsi.pyscsi.scsi_cdb_read16 import Read16
    from pyscsi.pyscsi.scsi_cdb_write16 import Write16
    from pyscsi.pyscsi.scsi_enum_command import sbc, spc

    for _ in range(40):
        lba = RND.getrandbits(64)
        tl = RND.getrandbits(RND.choice([1, 8, 20]))
        rd, dpo, fua, rarc, group = (
            RND.getrandbits(3),
            RND.getrandbits(1),
            RND.getrandbits(1),
            RND.getrandbits(1),
            RND.getrandbits(5),
        )
        r = Read16(sbc.READ_16, 512, lba, tl, rd, dpo, fua, rarc, group)
        want = (
            bytes([0x88, rd << 5 | dpo << 4 | fua << 3 | rarc << 2])
            + lba.to_bytes(8, "big")
            + tl.to_bytes(4, "big")
            + bytes([group, 0])
        )
        check(bytes(r.cdb) == want, "Read16 cdb %s != %s" % (bytes(r.cdb).hex(), want.hex()))
        back = r.unmarshall_cdb(r.cdb)
        check(
            back
            == {
                "opcode": 0x88,
                "rdprotect": rd,
                "dpo": dpo,
                "fua": fua,
                "rarc": rarc,
                "lba": lba,
                "group": group,
                "tl": tl,
            },
            "Read16 unmarshall %r" % back,
        )
        check(bytes(r.marshall_cdb(back)) == want, "Read16 marshall(unmarshall)")

        lba32 = RND.getrandbits(32)
        tl16 = RND.getrandbits(16)
        r = Read10(sbc.READ_10, 512, lba32, tl16, rd, dpo, fua, rarc, group)
        want = (
            bytes([0x28, rd << 5 | dpo << 4 | fua << 3 | rarc << 2])
            + lba32.to_bytes(4, "big")
            + bytes([group])
            + tl16.to_bytes(2, "big")
            + b"\x00"
        )
        check(bytes(r.cdb) == want, "Read10 cdb %s != %s" % (bytes(r.cdb).hex(), want.hex()))
        back = r.unmarshall_cdb(r.cdb)
        check(back["lba"] == lba32 and back["tl"] == tl16 and back["group"] == group, "Read10 unmarshall")

        data = bytearray(RND.getrandbits(8) for _ in range(512 * 2))
        w = Write16(sbc.WRITE_16, 512, lba, 2, data, rd, dpo, fua, group)
        back = w.unmarshall_cdb(w.cdb)
        check(back["lba"] == lba and back["tl"] == 2 and back["wrprotect"] == rd, "Write16 unmarshall %r" % back)
        check(bytes(w.marshall_cdb(back)) == bytes(w.cdb), "Write16 marshall(unmarshall)")

        evpd = RND.getrandbits(1)
        page = RND.getrandbits(8) if evpd else 0
        alloc = RND.getrandbits(16)
        i = Inquiry(spc.INQUIRY, evpd, page, alloc)
        want = bytes([0x12, evpd, page]) + alloc.to_bytes(2, "big") + b"\x00"
        check(bytes(i.cdb) == want, "Inquiry cdb %s != %s" % (bytes(i.cdb).hex(), want.hex()))
        back = i.unmarshall_cdb(i.cdb)
        check(
            back["evpd"] == evpd and back["page_code"] == page and back["alloc_len"] == alloc,
            "Inquiry unmarshall %r" % back,
        )


def main():
    test_surface()
    test_int_bytes()
    test_every_mask_position()
    test_wide_masks()
    test_layouts()
    test_unusual()
    test_library_layouts()
    test_commands()
    finish()


if __name__ == "__main__":
    main()
