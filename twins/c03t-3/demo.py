# Demo / checker for property C03:
#   data-in buffer length == transfer the CDB allows, data-out buffer == the
#   bytes the CDB announces, no-data commands carry empty buffers, and both
#   buffers are always byte buffers a transport can take len() of.
#
# run:  cd /tmp/seed/C03t && PYTHONPATH=/tmp/seed/C03t /venv/bin/python SEED/demo.py
import itertools
import os
import random
import sys
import types

# --------------------------------------------------------------------------
# fake transport bindings (sgio / iscsi are not installed)
# --------------------------------------------------------------------------
SG_CALLS = []
SG_RAISE = []

_sgio = types.ModuleType("sgio")


class _CheckConditionError(Exception):
    def __init__(self, sense):
        Exception.__init__(self, "check condition")
        self.sense = sense


def _sg_execute(fileobj, cdb, dataout, datain, *args, **kwargs):
    # a real transport takes the length of both buffers
    SG_CALLS.append((fileobj, cdb, dataout, datain, len(dataout), len(datain)))
    if SG_RAISE:
        raise _CheckConditionError(SG_RAISE.pop(0))
    return 0


_sgio.execute = _sg_execute
_sgio.CheckConditionError = _CheckConditionError
sys.modules["sgio"] = _sgio

ISCSI_LOG = []
ISCSI_NEXT = {"status": 0, "sense": "unset"}

_iscsi = types.ModuleType("iscsi")
_iscsi.SCSI_XFER_NONE = 0
_iscsi.SCSI_XFER_READ = 1
_iscsi.SCSI_XFER_WRITE = 2
_iscsi.ISCSI_SESSION_NORMAL = 2
_iscsi.ISCSI_HEADER_DIGEST_NONE_CRC32C = 1


class _Context(object):
    def __init__(self, name):
        self.name = name
        self.log = [("ctx", name)]
        ISCSI_LOG.append(("ctx", name))

    def set_targetname(self, t):
        self.log.append(("target", t))

    def set_session_type(self, t):
        self.log.append(("session", t))

    def set_header_digest(self, d):
        self.log.append(("digest", d))

    def connect(self, portal, lun):
        self.log.append(("connect", portal, lun))

    def disconnect(self):
        self.log.append(("disconnect",))

    def command(self, lun, task, dataout, datain):
        ISCSI_LOG.append(("command", lun, task, dataout, datain, len(dataout), len(datain)))
        task.status = ISCSI_NEXT["status"]
        if ISCSI_NEXT["sense"] != "unset":
            task.raw_sense = ISCSI_NEXT["sense"]


class _URL(object):
    def __init__(self, ctx, url):
        self.ctx = ctx
        self.url = url
        self.target = "iqn.fake:target"
        self.portal = "127.0.0.1:3260"
        self.lun = 7


class _Task(object):
    def __init__(self, cdb, direction, xferlen):
        self.cdb = cdb
        self.direction = direction
        self.xferlen = xferlen
        self.status = None


_iscsi.Context = _Context
_iscsi.URL = _URL
_iscsi.Task = _Task
sys.modules["iscsi"] = _iscsi

# --------------------------------------------------------------------------
# library imports (public API only)
# --------------------------------------------------------------------------
from pyscsi.pyiscsi.iscsi_device import ISCSIDevice  # noqa: E402
from pyscsi.pyscsi.scsi import SCSI  # noqa: E402
from pyscsi.pyscsi.scsi_cdb_atapassthrough12 import ATAPassThrough12  # noqa: E402
from pyscsi.pyscsi.scsi_cdb_atapassthrough16 import ATAPassThrough16  # noqa: E402
from pyscsi.pyscsi.scsi_cdb_exchangemedium import ExchangeMedium  # noqa: E402
from pyscsi.pyscsi.scsi_cdb_extended_copy_spc4 import ExtendedCopy as ExtendedCopy4  # noqa: E402
from pyscsi.pyscsi.scsi_cdb_extended_copy_spc5 import ExtendedCopy as ExtendedCopy5  # noqa: E402
from pyscsi.pyscsi.scsi_cdb_getlbastatus import GetLBAStatus  # noqa: E402
from pyscsi.pyscsi.scsi_cdb_initelementstatus import InitializeElementStatus  # noqa: E402
from pyscsi.pyscsi.scsi_cdb_initelementstatuswithrange import (  # noqa: E402
    InitializeElementStatusWithRange,
)
from pyscsi.pyscsi.scsi_cdb_inquiry import Inquiry  # noqa: E402
from pyscsi.pyscsi.scsi_cdb_modesense6 import ModeSelect6, ModeSense6  # noqa: E402
from pyscsi.pyscsi.scsi_cdb_modesense10 import ModeSelect10, ModeSense10  # noqa: E402
from pyscsi.pyscsi.scsi_cdb_movemedium import MoveMedium  # noqa: E402
from pyscsi.pyscsi.scsi_cdb_openclose_exportimport_element import (  # noqa: E402
    OpenCloseImportExportElement,
)
from pyscsi.pyscsi.scsi_cdb_persistentreservein import (  # noqa: E402
    PersistentReserveIn,
    PersistentReserveInReadFullStatus,
    PersistentReserveInReadKeys,
    PersistentReserveInReadReservation,
    PersistentReserveInReportCapabilities,
)
from pyscsi.pyscsi.scsi_cdb_persistentreserveout import PersistentReserveOut  # noqa: E402
from pyscsi.pyscsi.scsi_cdb_positiontoelement import PositionToElement  # noqa: E402
from pyscsi.pyscsi.scsi_cdb_preventallow_mediumremoval import (  # noqa: E402
    PreventAllowMediumRemoval,
)
from pyscsi.pyscsi.scsi_cdb_read10 import Read10  # noqa: E402
from pyscsi.pyscsi.scsi_cdb_read12 import Read12  # noqa: E402
from pyscsi.pyscsi.scsi_cdb_read16 import Read16  # noqa: E402
from pyscsi.pyscsi.scsi_cdb_readcapacity10 import ReadCapacity10  # noqa: E402
from pyscsi.pyscsi.scsi_cdb_readcapacity16 import ReadCapacity16  # noqa: E402
from pyscsi.pyscsi.scsi_cdb_readcd import ReadCd  # noqa: E402
from pyscsi.pyscsi.scsi_cdb_readdiscinformation import ReadDiscInformation  # noqa: E402
from pyscsi.pyscsi.scsi_cdb_readelementstatus import ReadElementStatus  # noqa: E402
from pyscsi.pyscsi.scsi_cdb_report_luns import ReportLuns  # noqa: E402
from pyscsi.pyscsi.scsi_cdb_report_priority import ReportPriority  # noqa: E402
from pyscsi.pyscsi.scsi_cdb_report_target_port_groups import (  # noqa: E402
    ReportTargetPortGroups,
)
from pyscsi.pyscsi.scsi_cdb_synchronize_cache10 import SynchronizeCache10  # noqa: E402
from pyscsi.pyscsi.scsi_cdb_synchronize_cache16 import SynchronizeCache16  # noqa: E402
from pyscsi.pyscsi.scsi_cdb_testunitready import TestUnitReady  # noqa: E402
from pyscsi.pyscsi.scsi_cdb_write10 import Write10  # noqa: E402
from pyscsi.pyscsi.scsi_cdb_write12 import Write12  # noqa: E402
from pyscsi.pyscsi.scsi_cdb_write16 import Write16  # noqa: E402
from pyscsi.pyscsi.scsi_cdb_writesame10 import WriteSame10  # noqa: E402
from pyscsi.pyscsi.scsi_cdb_writesame16 import WriteSame16  # noqa: E402
from pyscsi.pyscsi.scsi_command import SCSICommand  # noqa: E402
from pyscsi.pyscsi.scsi_device import SCSIDevice  # noqa: E402
from pyscsi.pyscsi.scsi_enum_command import (  # noqa: E402
    SCSI_STATUS,
    mmc,
    sbc,
    smc,
    spc,
    ssc,
)
from pyscsi.pyscsi.scsi_opcode import OpCode  # noqa: E402
from pyscsi.pyscsi.scsi_sense import SCSICheckCondition  # noqa: E402

FAILURES = []
CHECKS = [0]


def ok(cond, msg):
    CHECKS[0] += 1
    if not cond:
        FAILURES.append(msg)
        if len(FAILURES) < 40:
            print("FAIL:", msg)


def be(buf):
    """big endian int of a byte slice"""
    v = 0
    for b in buf:
        v = (v << 8) | b
    return v


def raises(exc_type, fn, label, exact=True):
    try:
        fn()
    except BaseException as e:  # noqa
        if exact:
            ok(type(e) is exc_type, "%s: raised %r, wanted exactly %r" % (label, type(e), exc_type))
        else:
            ok(isinstance(e, exc_type), "%s: raised %r, wanted %r" % (label, type(e), exc_type))
        return e
    ok(False, "%s: did not raise %r" % (label, exc_type))
    return None


# --------------------------------------------------------------------------
# devices
# --------------------------------------------------------------------------
class RecordingDevice(object):
    """plain duck-typed device used through the SCSI front end"""

    def __init__(self, opcodes):
        self.opcodes = opcodes
        self.devicetype = None
        self.seen = []

    def execute(self, cmd, en_raw_sense=False):
        self.seen.append((cmd, bytes(cmd.cdb), len(cmd.dataout), len(cmd.datain)))

    def open(self):
        pass

    def close(self):
        pass


SG_DEV = SCSIDevice("/dev/null")
SG_DEV_NOREPLUG = SCSIDevice("/dev/null", readwrite=False, detect_replugged=False)
ISCSI_DEV = ISCSIDevice("iscsi://127.0.0.1/iqn.fake:target/7")
ISCSI_DEV_NAMED = ISCSIDevice("iscsi://127.0.0.1/iqn.fake:target/7", "iqn.fake:me")


def through_transports(cmd, label):
    """send the command through both real device classes (fake bindings) and
    check what the binding was handed"""
    out, inn, cdb = cmd.dataout, cmd.datain, cmd.cdb
    for dev in (SG_DEV, SG_DEV_NOREPLUG):
        del SG_CALLS[:]
        r = dev.execute(cmd)
        ok(r is None, label + ": sg execute returns None")
        ok(len(SG_CALLS) == 1, label + ": one sgio call")
        if SG_CALLS:
            f, c, o, i, lo, li = SG_CALLS[0]
            ok(getattr(f, "name", None) == "/dev/null" and not f.closed, label + ": sg file")
            ok(c is cdb and o is out and i is inn, label + ": sgio got the command's own buffers")
            ok(lo == len(out) and li == len(inn), label + ": sgio lens")
    for dev in (ISCSI_DEV, ISCSI_DEV_NAMED):
        del ISCSI_LOG[:]
        ISCSI_NEXT["status"] = SCSI_STATUS.GOOD
        ISCSI_NEXT["sense"] = "unset"
        r = dev.execute(cmd)
        ok(r is None, label + ": iscsi execute returns None")
        ok(len(ISCSI_LOG) == 1, label + ": one iscsi command")
        if ISCSI_LOG:
            _, lun, task, o, i, lo, li = ISCSI_LOG[0]
            ok(lun == 7, label + ": lun")
            ok(task.cdb is cdb and o is out and i is inn, label + ": iscsi got own buffers")
            if len(out):
                exp = (_iscsi.SCSI_XFER_WRITE, len(out))
            elif len(inn):
                exp = (_iscsi.SCSI_XFER_READ, len(inn))
            else:
                exp = (_iscsi.SCSI_XFER_NONE, 0)
            ok((task.direction, task.xferlen) == exp,
               "%s: iscsi task dir/xferlen %r != %r" % (label, (task.direction, task.xferlen), exp))
    ok(cmd.dataout is out and cmd.datain is inn and cmd.cdb is cdb, label + ": buffers untouched by execute")


def verify(cmd, label, out_len, in_len, cdb_len, out_is=None, in_is=None,
           out_zero=True, out_bytes=None, transports=True):
    """core check of the property for one command instance"""
    CH = (bytes, bytearray)
    ok(type(cmd.cdb) is bytearray, label + ": cdb is bytearray")
    ok(len(cmd.cdb) == cdb_len, "%s: cdb len %d != %d" % (label, len(cmd.cdb), cdb_len))
    ok(cmd.cdb[0] == cmd.opcode.value, label + ": cdb[0] opcode")
    # data out
    if out_is is not None:
        ok(cmd.dataout is out_is, label + ": dataout is the caller's object")
    else:
        ok(type(cmd.dataout) is bytearray, "%s: dataout type %r" % (label, type(cmd.dataout)))
        if out_zero:
            ok(not any(cmd.dataout), label + ": fresh dataout zeroed")
    if out_bytes is not None:
        ok(bytes(cmd.dataout) == bytes(out_bytes), label + ": dataout bytes")
    try:
        lo = len(cmd.dataout)
    except TypeError:
        lo = None
    ok(lo == out_len, "%s: dataout len %r != %r" % (label, lo, out_len))
    # data in
    if in_is is not None:
        ok(cmd.datain is in_is, label + ": datain is the caller's object")
    else:
        ok(type(cmd.datain) is bytearray, "%s: datain type %r" % (label, type(cmd.datain)))
        ok(not any(cmd.datain), label + ": fresh datain zeroed")
    try:
        li = len(cmd.datain)
    except TypeError:
        li = None
    ok(li == in_len, "%s: datain len %r != %r" % (label, li, in_len))
    ok(cmd.dataout is not cmd.datain or (out_is is not None and out_is is in_is),
       label + ": distinct buffers")
    ok(cmd.result == {} and cmd.sense is None and cmd.raw_sense_data is None,
       label + ": fresh result/sense")
    ok(cmd.pagecode is None, label + ": pagecode")
    # class-level cdb codec is primed for this command
    ok(cmd.marshall_cdb(cmd.unmarshall_cdb(cmd.cdb)) == cmd.cdb, label + ": cdb roundtrip")
    ok(type(cmd).marshall_cdb(type(cmd).unmarshall_cdb(cmd.cdb)) == cmd.cdb, label + ": cdb roundtrip (cls)")
    ok(repr(cmd) == type(cmd).__name__, label + ": repr")
    if transports and isinstance(cmd.dataout, CH + (memoryview,)) and isinstance(cmd.datain, CH + (memoryview,)):
        through_transports(cmd, label)
    return cmd


# --------------------------------------------------------------------------
# 1. allocation-length (data-in) commands
# --------------------------------------------------------------------------
PRIN = spc.PERSISTENT_RESERVE_IN
ALLOC_CMDS = [
    # label, factory(alloclen or None for default), cdb len, (off, n) of the field, default
    ("inquiry", lambda a: Inquiry(spc.INQUIRY) if a is None else Inquiry(spc.INQUIRY, 0, 0, a), 6, (3, 2), 96),
    ("inquiry-vpd", lambda a: Inquiry(spc.INQUIRY, evpd=1, page_code=0x83) if a is None
        else Inquiry(spc.INQUIRY, evpd=1, page_code=0x83, alloclen=a), 6, (3, 2), 96),
    ("modesense6", lambda a: ModeSense6(spc.MODE_SENSE_6, 0x0A) if a is None
        else ModeSense6(spc.MODE_SENSE_6, 0x0A, 0, 1, 2, a), 6, (4, 1), 96),
    ("modesense10", lambda a: ModeSense10(spc.MODE_SENSE_10, 0x1D) if a is None
        else ModeSense10(spc.MODE_SENSE_10, 0x1D, sub_page_code=1, llbaa=1, alloclen=a), 10, (7, 2), 96),
    ("getlbastatus", lambda a: GetLBAStatus(sbc.SBC_OPCODE_9E, 17) if a is None
        else GetLBAStatus(sbc.SBC_OPCODE_9E, 2 ** 40 + 3, a), 16, (10, 4), 16384),
    ("readcapacity10", lambda a: ReadCapacity10(sbc.READ_CAPACITY_10) if a is None
        else ReadCapacity10(sbc.READ_CAPACITY_10, a), 10, None, 8),
    ("readcapacity16", lambda a: ReadCapacity16(sbc.SBC_OPCODE_9E) if a is None
        else ReadCapacity16(sbc.SBC_OPCODE_9E, alloclen=a), 16, (10, 4), 32),
    ("readdiscinformation", lambda a: ReadDiscInformation(mmc.READ_DISC_INFORMATION, 0) if a is None
        else ReadDiscInformation(mmc.READ_DISC_INFORMATION, 1, a), 10, (7, 2), 4096),
    ("readelementstatus", lambda a: ReadElementStatus(smc.READ_ELEMENT_STATUS, 1, 2) if a is None
        else ReadElementStatus(smc.READ_ELEMENT_STATUS, 300, 40, voltag=1, dvcid=1, alloclen=a), 12, (7, 3), 16384),
    ("reportluns", lambda a: ReportLuns(spc.REPORT_LUNS) if a is None
        else ReportLuns(spc.REPORT_LUNS, 2, a), 12, (6, 4), 96),
    ("reportpriority", lambda a: ReportPriority(spc.SPC_OPCODE_A3) if a is None
        else ReportPriority(spc.SPC_OPCODE_A3, 1, a), 12, (6, 4), 16384),
    ("reporttpg", lambda a: ReportTargetPortGroups(spc.SPC_OPCODE_A3) if a is None
        else ReportTargetPortGroups(spc.SPC_OPCODE_A3, alloclen=a), 12, (6, 4), 16384),
    ("prin-base", lambda a: PersistentReserveIn(PRIN, 0) if a is None
        else PersistentReserveIn(PRIN, 3, a), 10, (7, 2), 1024),
    ("prin-keys", lambda a: PersistentReserveInReadKeys(PRIN) if a is None
        else PersistentReserveInReadKeys(PRIN, a), 10, (7, 2), 1024),
    ("prin-resv", lambda a: PersistentReserveInReadReservation(PRIN) if a is None
        else PersistentReserveInReadReservation(PRIN, alloclen=a), 10, (7, 2), 1024),
    ("prin-caps", lambda a: PersistentReserveInReportCapabilities(PRIN) if a is None
        else PersistentReserveInReportCapabilities(PRIN, alloclen=a, ignored=1), 10, (7, 2), 1024),
    ("prin-full", lambda a: PersistentReserveInReadFullStatus(PRIN) if a is None
        else PersistentReserveInReadFullStatus(PRIN, a), 10, (7, 2), 1024),
]

for label, make, cdblen, field, default in ALLOC_CMDS:
    fmax = (1 << (8 * field[1])) - 1 if field else 300
    lens = [None, 0, 1, 2, 4, 8, 95, 96, 97, 255, True, False]
    if fmax > 255:
        lens += [256, 1000, 16384, min(fmax, 70001)]
    for a in lens:
        cmd = make(a)
        n = default if a is None else int(a)
        lab = "%s(alloclen=%r)" % (label, a)
        verify(cmd, lab, 0, n, cdblen, transports=(a in (None, 0, 1, 255, True)))
        if field:
            got = be(cmd.cdb[field[0]:field[0] + field[1]])
            ok(got == n, "%s: cdb alloc field %d != datain %d" % (lab, got, n))
    # one value beyond what the field can hold: buffer follows the argument,
    # the cdb keeps the low bytes
    if field and field[1] <= 2:
        a = fmax + 6
        cmd = make(a)
        ok(len(cmd.datain) == a and len(cmd.dataout) == 0, label + ": oversize alloclen buffer")
        ok(be(cmd.cdb[field[0]:field[0] + field[1]]) == (a & fmax), label + ": oversize alloclen cdb")
    # bad lengths
    raises(ValueError, lambda: make(-1), label + "(alloclen=-1)")
    raises(TypeError, lambda: make(8.0), label + "(alloclen=8.0)")
    raises(TypeError, lambda: make("12"), label + "(alloclen='12')")
    if field:
        raises(TypeError, lambda: make([1, 2]), label + "(alloclen=list)", exact=False)
    else:
        c = make([1, 2])  # no length field in this cdb: bytearray() semantics of the argument
        ok(type(c.datain) is bytearray and c.datain == b"\x01\x02" and len(c.dataout) == 0, label + "(alloclen=list)")
    raises(OverflowError, lambda: make(2 ** 70), label + "(alloclen=2**70)", exact=False)

# --------------------------------------------------------------------------
# 2. block reads: transfer length x block size
# --------------------------------------------------------------------------
READS = [
    ("read10", Read10, sbc.READ_10, 10, (7, 2)),
    ("read12", Read12, sbc.READ_12, 12, (6, 4)),
    ("read16", Read16, sbc.READ_16, 16, (10, 4)),
]
for label, cls, opc, cdblen, field in READS:
    fmax = (1 << (8 * field[1])) - 1
    for bs, tl in [(512, 0), (512, 1), (512, 8), (520, 3), (4096, 2), (1, 1), (1, 255), (3, 7),
                   (1, 65535), (2, 65535), (True, 5), (512, True), (512, False), (4160, 16)]:
        lab = "%s(bs=%r,tl=%r)" % (label, bs, tl)
        cmd = cls(opc, bs, 1234, tl)
        verify(cmd, lab, 0, int(bs) * int(tl), cdblen, transports=(int(bs) * int(tl) < 5000))
        ok(be(cmd.cdb[field[0]:field[0] + field[1]]) == int(tl), lab + ": cdb tl")
        ok(len(cmd.datain) == be(cmd.cdb[field[0]:field[0] + field[1]]) * int(bs), lab + ": datain == tl*bs")
    # keyword / flag forms
    cmd = cls(opcode=opc, blocksize=512, lba=9, tl=4, rdprotect=1, dpo=1, fua=1, rarc=1, group=3)
    verify(cmd, label + "(kw)", 0, 2048, cdblen)
    cmd = cls(opc, 512, 9, tl=4, group=31)
    verify(cmd, label + "(mixed)", 0, 2048, cdblen)
    # missing block size: the exception of the base class, before anything else
    for bs in (0, False, 0.0):
        for tl in (0, 1, -1):
            e = raises(SCSICommand.MissingBlocksizeException, lambda: cls(opc, bs, 0, tl),
                       "%s(bs=%r,tl=%r)" % (label, bs, tl))
    raises(SCSICommand.MissingBlocksizeException, lambda: cls(opc, blocksize=0, lba=0, tl=1), label + "(kw bs=0)")
    ok(cls.MissingBlocksizeException is not SCSICommand.MissingBlocksizeException, label + ": per-class exc distinct")
    raises(ValueError, lambda: cls(opc, 512, 0, -1), label + "(tl=-1)")
    raises(ValueError, lambda: cls(opc, -512, 0, 1), label + "(bs=-512)")
    raises(TypeError, lambda: cls(opc, None, 0, 1), label + "(bs=None)")
    raises(TypeError, lambda: cls(opc, 512.0, 0, 1), label + "(bs=512.0)")
    raises(TypeError, lambda: cls(opc, 512, 0, None), label + "(tl=None)")
    raises(TypeError, lambda: cls(opc, 512, 0, "2"), label + "(tl='2')")
    raises(TypeError, lambda: cls(opc, 512, 0), label + "(missing tl)")
    raises(TypeError, lambda: cls(opc), label + "(missing all)")
    raises(TypeError, lambda: cls(opc, 0), label + "(bs=0, missing lba/tl)")
    raises(TypeError, lambda: cls(opc, 0, 0), label + "(bs=0, missing tl)")
    raises(TypeError, lambda: cls(opc, 512, 0, 1, bogus=1), label + "(bogus kw)")
    raises(TypeError, lambda: cls(opc, 0, 0, 1, bogus=1), label + "(bs=0, bogus kw)")

# READ CD: 3 KiB per block
for lba, tl in [(0, 0), (0, 1), (16, 2), (100, 7), (5, True)]:
    lab = "readcd(lba=%r,tl=%r)" % (lba, tl)
    cmd = ReadCd(mmc.READ_CD, lba, tl, est=1, mcsb=0x02)
    verify(cmd, lab, 0, int(tl) * 3072, 12)
    ok(be(cmd.cdb[6:9]) == int(tl), lab + ": cdb tl")
cmd = ReadCd(mmc.READ_CD)
verify(cmd, "readcd(defaults)", 0, 0, 12)
cmd = ReadCd(opcode=mmc.READ_CD, tl=3, lba=2)
verify(cmd, "readcd(kw)", 0, 9216, 12)
raises(ValueError, lambda: ReadCd(mmc.READ_CD, 0, -1), "readcd(tl=-1)")
raises(TypeError, lambda: ReadCd(mmc.READ_CD, 0, 1.0), "readcd(tl=1.0)")
raises(TypeError, lambda: ReadCd(mmc.READ_CD, 0, None), "readcd(tl=None)")

# --------------------------------------------------------------------------
# 3. block writes: data-out is the caller's write data
# --------------------------------------------------------------------------
WRITES = [
    ("write10", Write10, sbc.WRITE_10, 10, (7, 2)),
    ("write12", Write12, sbc.WRITE_12, 12, (6, 4)),
    ("write16", Write16, sbc.WRITE_16, 16, (10, 4)),
]
rnd = random.Random(3)
for label, cls, opc, cdblen, field in WRITES:
    for bs, tl in [(512, 1), (512, 4), (520, 2), (1, 9), (4096, 1), (512, 0), (True, 3)]:
        n = int(bs) * int(tl)
        payload = bytes(rnd.getrandbits(8) for _ in range(n))
        for data in (bytearray(payload), payload, memoryview(payload), bytearray(n)):
            lab = "%s(bs=%r,tl=%r,%s)" % (label, bs, tl, type(data).__name__)
            cmd = cls(opc, bs, 77, tl, data)
            verify(cmd, lab, n, 0, cdblen, out_is=data, out_bytes=bytes(data))
            ok(be(cmd.cdb[field[0]:field[0] + field[1]]) * int(bs) == len(cmd.dataout), lab + ": tl*bs == len(dataout)")
    # the caller's object is used whatever its size
    odd = bytearray(b"\x01\x02\x03")
    cmd = cls(opc, 512, 5, 2, odd)
    verify(cmd, label + "(odd data)", 3, 0, cdblen, out_is=odd)
    cmd = cls(opcode=opc, blocksize=512, lba=5, tl=1, data=odd, wrprotect=2, dpo=1, fua=1, group=7)
    verify(cmd, label + "(kw)", 3, 0, cdblen, out_is=odd)
    cmd = cls(opc, 512, 5, 1, None)
    ok(cmd.dataout is None and type(cmd.datain) is bytearray and len(cmd.datain) == 0, label + "(data=None) keeps None")
    lst = [1, 2, 3]
    cmd = cls(opc, 512, 5, 1, lst)
    ok(cmd.dataout is lst and len(cmd.datain) == 0, label + "(data=list) keeps object")
    for bs in (0, False, 0.0):
        raises(SCSICommand.MissingBlocksizeException, lambda: cls(opc, bs, 0, 1, b"x"), "%s(bs=%r)" % (label, bs))
        raises(SCSICommand.MissingBlocksizeException, lambda: cls(opc, bs, 0, -1, None), "%s(bs=%r,tl=-1)" % (label, bs))
    raises(ValueError, lambda: cls(opc, 512, 0, -1, b"x"), label + "(tl=-1)")
    raises(TypeError, lambda: cls(opc, 512, 0, None, b"x"), label + "(tl=None)")
    raises(TypeError, lambda: cls(opc, None, 0, 1, b"x"), label + "(bs=None)")
    raises(TypeError, lambda: cls(opc, 512, 0, 1), label + "(missing data)")
    raises(TypeError, lambda: cls(opc, 0, 0, 1), label + "(bs=0, missing data)")
    raises(TypeError, lambda: cls(opc, 512, 0, 1, b"x", nope=1), label + "(bogus kw)")

# WRITE SAME: one block of data
blk = bytearray(range(256)) * 2
for nb in (0, 1, 100, 65535):
    cmd = WriteSame10(sbc.WRITE_SAME_10, 512, 40, nb, blk)
    verify(cmd, "writesame10(nb=%d)" % nb, 512, 0, 10, out_is=blk)
    ok(be(cmd.cdb[7:9]) == nb, "writesame10 nb field")
cmd = WriteSame10(opcode=sbc.WRITE_SAME_10, blocksize=4096, lba=1, nb=2, data=b"ab", wrprotect=1, anchor=1, unmap=1, group=2)
ok(cmd.dataout == b"ab" and type(cmd.dataout) is bytes, "writesame10 keeps caller bytes")
verify(cmd, "writesame10(kw)", 2, 0, 10, out_is=cmd.dataout)
cmd = WriteSame10(sbc.WRITE_SAME_10, 512, 1, 2, None)
ok(cmd.dataout is None and len(cmd.datain) == 0, "writesame10(data=None)")
for bs in (0, False, 0.0):
    raises(SCSICommand.MissingBlocksizeException, lambda: WriteSame10(sbc.WRITE_SAME_10, bs, 0, 1, blk), "writesame10(bs=%r)" % bs)
raises(ValueError, lambda: WriteSame10(sbc.WRITE_SAME_10, -1, 0, 1, blk), "writesame10(bs=-1)")
raises(TypeError, lambda: WriteSame10(sbc.WRITE_SAME_10, None, 0, 1, blk), "writesame10(bs=None)")
raises(TypeError, lambda: WriteSame10(sbc.WRITE_SAME_10, 1.5, 0, 1, blk), "writesame10(bs=1.5)")
raises(TypeError, lambda: WriteSame10(sbc.WRITE_SAME_10, 0, 0, 1), "writesame10(missing data)")

for nb in (0, 1, 2 ** 32 - 1):
    cmd = WriteSame16(sbc.WRITE_SAME_16, 512, 2 ** 33, nb, blk)
    verify(cmd, "writesame16(nb=%d)" % nb, 512, 0, 16, out_is=blk)
    ok(be(cmd.cdb[10:14]) == nb and cmd.cdb[1] & 1 == 0, "writesame16 nb/ndob field")
for bs in (0, 512, 4096, False):
    for data in (None, blk, b""):
        for ndob in (1, True, 2):
            cmd = WriteSame16(sbc.WRITE_SAME_16, bs, 3, 4, data, ndob=ndob)
            lab = "writesame16(bs=%r,ndob=%r,data=%s)" % (bs, ndob, type(data).__name__)
            # no data-out buffer: nothing is sent, the caller's data is not used
            if ndob == 2:
                # the two-bit value does not fit the one-bit field; buffers only
                ok(type(cmd.dataout) is bytearray and len(cmd.dataout) == 0 and len(cmd.datain) == 0, lab)
            else:
                verify(cmd, lab, 0, 0, 16)
                ok(cmd.cdb[1] & 1 == 1, lab + ": ndob bit")
cmd = WriteSame16(opcode=sbc.WRITE_SAME_16, blocksize=520, lba=1, nb=2, data=blk, wrprotect=1, anchor=1, unmap=1, ndob=0, group=2)
verify(cmd, "writesame16(kw)", 512, 0, 16, out_is=blk)
cmd = WriteSame16(sbc.WRITE_SAME_16, 512, 1, 2, None)
ok(cmd.dataout is None, "writesame16(data=None, ndob=0)")
for bs in (0, False, 0.0):
    for ndob in (0, False, None):
        raises(SCSICommand.MissingBlocksizeException,
               lambda: WriteSame16(sbc.WRITE_SAME_16, bs, 0, 1, blk, ndob=ndob), "writesame16(bs=%r,ndob=%r)" % (bs, ndob))
raises(ValueError, lambda: WriteSame16(sbc.WRITE_SAME_16, -1, 0, 1, blk), "writesame16(bs=-1)")
raises(TypeError, lambda: WriteSame16(sbc.WRITE_SAME_16, None, 0, 1, blk), "writesame16(bs=None)")
cmd = WriteSame16(sbc.WRITE_SAME_16, None, 0, 1, blk, ndob=1)
ok(len(cmd.dataout) == 0 and len(cmd.datain) == 0, "writesame16(bs=None, ndob=1)")
cmd = WriteSame16(sbc.WRITE_SAME_16, -5, 0, 1, blk, ndob=1)
ok(len(cmd.dataout) == 0 and len(cmd.datain) == 0, "writesame16(bs=-5, ndob=1)")

# --------------------------------------------------------------------------
# 4. commands without a data phase
# --------------------------------------------------------------------------
NODATA = [
    ("testunitready", lambda: TestUnitReady(spc.TEST_UNIT_READY), 6),
    ("testunitready-kw", lambda: TestUnitReady(opcode=sbc.TEST_UNIT_READY), 6),
    ("exchangemedium", lambda: ExchangeMedium(smc.EXCHANGE_MEDIUM, 1, 2, 3, 4), 12),
    ("exchangemedium-kw", lambda: ExchangeMedium(smc.EXCHANGE_MEDIUM, xfer=1, source=2, dest1=3, dest2=4, inv1=1, inv2=1), 12),
    ("initelementstatus", lambda: InitializeElementStatus(smc.INITIALIZE_ELEMENT_STATUS), 6),
    ("initelementstatusrange", lambda: InitializeElementStatusWithRange(smc.INITIALIZE_ELEMENT_STATUS_WITH_RANGE, 10, 5), 10),
    ("initelementstatusrange-kw", lambda: InitializeElementStatusWithRange(smc.INITIALIZE_ELEMENT_STATUS_WITH_RANGE, 10, 5, rng=1, fast=1), 10),
    ("movemedium", lambda: MoveMedium(smc.MOVE_MEDIUM, 1, 2, 3), 12),
    ("movemedium-kw", lambda: MoveMedium(smc.MOVE_MEDIUM, 1, 2, 3, invert=1), 12),
    ("openclose", lambda: OpenCloseImportExportElement(smc.OPEN_CLOSE_IMPORT_EXPORT_ELEMENT, 32, 1), 6),
    ("openclose-kw", lambda: OpenCloseImportExportElement(smc.OPEN_CLOSE_IMPORT_EXPORT_ELEMENT, 32, 0, whatever=5), 6),
    ("positiontoelement", lambda: PositionToElement(smc.POSITION_TO_ELEMENT, 15, 32), 10),
    ("positiontoelement-kw", lambda: PositionToElement(smc.POSITION_TO_ELEMENT, 15, 32, invert=1), 10),
    ("preventallow", lambda: PreventAllowMediumRemoval(spc.PREVENT_ALLOW_MEDIUM_REMOVAL), 6),
    ("preventallow-kw", lambda: PreventAllowMediumRemoval(spc.PREVENT_ALLOW_MEDIUM_REMOVAL, prevent=3), 6),
    ("synccache10", lambda: SynchronizeCache10(sbc.SYNCHRONIZE_CACHE_10, 1024, 27), 10),
    ("synccache10-kw", lambda: SynchronizeCache10(sbc.SYNCHRONIZE_CACHE_10, 1024, 65535, immed=1, group=19), 10),
    ("synccache16", lambda: SynchronizeCache16(sbc.SYNCHRONIZE_CACHE_16, 2 ** 40, 2 ** 31), 16),
    ("synccache16-kw", lambda: SynchronizeCache16(sbc.SYNCHRONIZE_CACHE_16, 0, 0, immed=1, group=19), 16),
]
for label, make, cdblen in NODATA:
    a, b = make(), make()
    verify(a, label, 0, 0, cdblen)
    ok(a.dataout is not b.dataout and a.datain is not b.datain, label + ": buffers not shared between instances")
    a.dataout.extend(b"zz")
    ok(len(b.dataout) == 0 and len(make().dataout) == 0, label + ": buffers are per instance")


# --------------------------------------------------------------------------
# 5. parameter-list (data-out) commands
# --------------------------------------------------------------------------
MODE_DATA = [
    {"mode_pages": []},
    {"medium_type": 1, "mode_pages": [{"page_code": 0x0A, "spf": 0, "tst": 1, "d_sense": 1}]},
    {"mode_pages": [{"page_code": 0x0A, "spf": 1, "sub_page_code": 1, "tcmos": 1}]},
    {"mode_pages": [{"page_code": 0x1D, "spf": 0, "first_storage": 9, "num_storage": 4}]},
    {"mode_pages": [{"page_code": 0x02, "spf": 0, "bus_inactivity_limit": 5},
                    {"page_code": 0x0A, "spf": 0}]},
]
for i, data in enumerate(MODE_DATA):
    for pf, sp in ((1, 0), (0, 1)):
        exp6 = ModeSelect6.marshall_dataout(data)
        cmd = ModeSelect6(spc.MODE_SELECT_6, data, pf, sp)
        lab = "modeselect6[%d]" % i
        verify(cmd, lab, len(exp6), 0, 6, out_zero=False, out_bytes=exp6)
        ok(cmd.cdb[4] == len(cmd.dataout), lab + ": parameter list length == len(dataout)")
        ok(exp6[0] == len(exp6) - 1, lab + ": mode data length")
        exp10 = ModeSelect10.marshall_dataout(data)
        cmd = ModeSelect10(spc.MODE_SELECT_10, data, pf=pf, sp=sp)
        lab = "modeselect10[%d]" % i
        verify(cmd, lab, len(exp10), 0, 10, out_zero=False, out_bytes=exp10)
        ok(be(cmd.cdb[7:9]) == len(cmd.dataout), lab + ": parameter list length == len(dataout)")
raises(KeyError, lambda: ModeSelect6(spc.MODE_SELECT_6, {}), "modeselect6(no mode_pages)")
raises(KeyError, lambda: ModeSelect10(spc.MODE_SELECT_10, {}), "modeselect10(no mode_pages)")

PROUT = spc.PERSISTENT_RESERVE_OUT
TID_ISCSI = {"protocol_id": 5, "tpid_format": 0, "iscsi_name": "iqn.1993-08.org.debian:01:90c27cf89279"}
TID_FC = {"protocol_id": 0, "tpid_format": 0, "n_port_name": bytearray(b"\x01\x02\x03\x04\x05\x06\x07\x08")}
PROUT_CASES = [
    (0x00, {}, 24),
    (0x00, {"service_action_reservation_key": 0xABCDEFAABBCCDDEE}, 24),
    (0x00, {"service_action_reservation_key": 1, "spec_i_pt": 1}, 28),
    (0x00, {"service_action_reservation_key": 1, "spec_i_pt": 1, "transport_ids": [TID_FC]}, None),
    (0x00, {"service_action_reservation_key": 1, "spec_i_pt": 1, "transport_ids": [TID_FC, TID_ISCSI]}, None),
    (0x01, {"reservation_key": 5}, 24),
    (0x02, {"reservation_key": 5}, 24),
    (0x03, {"reservation_key": 5}, 24),
    (0x04, {"reservation_key": 5, "service_action_reservation_key": 6}, 24),
    (0x06, {"reservation_key": 5, "aptpl": 1, "all_tg_pt": 1}, 24),
    (0x07, {"reservation_key": 5, "service_action_reservation_key": 6, "unreg": 1, "relative_target_port_id": 0xAABB}, 24),
    (0x07, {"reservation_key": 5, "relative_target_port_id": 1, "transport_id": TID_ISCSI}, 68),
    (0x07, {"reservation_key": 5, "relative_target_port_id": 1, "transport_id": TID_FC}, 48),
]
for sa, kw, explen in PROUT_CASES:
    lab = "prout(sa=%d,%s)" % (sa, sorted(kw))
    exp = PersistentReserveOut.marshall_dataout(PROUT, sa, dict(kw))
    cmd = PersistentReserveOut(PROUT, sa, 1, 3, **kw)
    verify(cmd, lab, len(exp) if explen is None else explen, 0, 10, out_zero=False, out_bytes=exp)
    ok(be(cmd.cdb[5:9]) == len(cmd.dataout), lab + ": parameter list length == len(dataout)")
    ok(cmd.cdb[1] & 0x1F == sa and cmd.cdb[2] == 0x13, lab + ": sa/scope/type")
    cmd = PersistentReserveOut(opcode=PROUT, service_action=sa, **kw)
    ok(bytes(cmd.dataout) == bytes(exp) and be(cmd.cdb[5:9]) == len(exp) and len(cmd.datain) == 0, lab + " kw form")

for maker, cdb_sa, base in ((ExtendedCopy4, 0, 16), (ExtendedCopy5, 1, 48)):
    name = "xcopy%d" % (4 if maker is ExtendedCopy4 else 5)
    tgt_key = "target_descriptor_list" if maker is ExtendedCopy4 else "cscd_descriptor_list"
    TGT = {
        "descriptor_type_code": "Identification descriptor target descriptor" if maker is ExtendedCopy4
        else "Identification Descriptor CSCD descriptor",
        "peripheral_device_type": 0x00,
        "relative_initiator_port_identifier": 42,
        ("target_descriptor_parameters" if maker is ExtendedCopy4 else "cscd_descriptor_parameters"): {
            "designator_type": 0,
            "designator": {"vendor_specific": bytearray.fromhex("deadbeef")},
        },
        "device_type_specific_parameters": {"disk_block_length": 512},
    }
    SEG = {
        "descriptor_type_code": "Copy from block device to block device",
        "dc": 1,
        ("source_target_descriptor_id" if maker is ExtendedCopy4 else "source_cscd_descriptor_id"): 0,
        ("destination_target_descriptor_id" if maker is ExtendedCopy4 else "destination_cscd_descriptor_id"): 1,
        "block_device_number_of_blocks": 1024,
        "source_block_device_logical_block_address": 2048,
        "destination_block_device_logical_block_address": 4096,
    }
    import copy as _copy
    for tg, sg, inline in [([], [], bytearray(0)), ([], [], bytearray.fromhex("deadbeef")),
                           ([TGT], [], bytearray(0)), ([TGT, TGT], [SEG], bytearray(0)),
                           ([TGT], [SEG, SEG], bytearray(b"0123456789")), ([], [SEG], b"")]:
        lab = "%s(t=%d,s=%d,i=%d)" % (name, len(tg), len(sg), len(inline))
        try:
            if maker is ExtendedCopy4:
                cmd = maker(spc.EXTENDED_COPY, 7, 1, 0, 3, _copy.deepcopy(tg), _copy.deepcopy(sg), inline)
            else:
                cmd = maker(spc.EXTENDED_COPY, 1, 0, 3, 0, 0, 7, _copy.deepcopy(tg), _copy.deepcopy(sg), inline)
        except Exception as e:  # noqa
            ok(False, "%s raised %r" % (lab, e))
            continue
        explen = base + 32 * len(tg) + 28 * len(sg) + len(inline)
        verify(cmd, lab, explen, 0, 16, out_zero=False)
        ok(be(cmd.cdb[10:14]) == len(cmd.dataout), lab + ": parameter list length == len(dataout)")
        ok(cmd.cdb[1] & 0x1F == cdb_sa, lab + ": service action")
        if len(inline):
            ok(bytes(cmd.dataout[-len(inline):]) == bytes(inline), lab + ": inline data at the tail")
    cmd = maker(spc.EXTENDED_COPY)
    verify(cmd, name + "(defaults)", base, 0, 16, out_zero=False)
    ok(be(cmd.cdb[10:14]) == base, name + "(defaults) pll")

# --------------------------------------------------------------------------
# 6. ATA PASS-THROUGH transfer rules
# --------------------------------------------------------------------------
def ata_expected(t_length, byte_block, t_type, t_dir, fetures, count, blocksize, extra_tl):
    """independent statement of the SAT transfer rules; returns 'missing' or nbytes"""
    if t_length == 1:
        n = fetures
    elif t_length == 2:
        n = count
    elif t_length == 3:
        n = extra_tl if extra_tl is not None else 0
    else:
        n = 0
    if not t_length:
        unit = 0
    elif not byte_block:
        unit = 1
    elif not t_type:
        unit = 512
    else:
        if blocksize == 0:
            return "missing"
        unit = blocksize
    return n * unit


def ata12_lba(lba):
    return ((lba & 0xFF) << 16) | (((lba >> 8) & 0xFF) << 8) | ((lba >> 16) & 0xFF)


def ata16_lba(lba):
    b = [(lba >> (8 * i)) & 0xFF for i in range(6)]
    return (b[0] << 32) | (b[1] << 16) | b[2] | (b[3] << 40) | (b[4] << 24) | (b[5] << 8)


ATA = [
    ("ata12", ATAPassThrough12, sbc.ATA_PASS_THROUGH_12, 12),
    ("ata16", ATAPassThrough16, sbc.ATA_PASS_THROUGH_16, 16),
]
buf7 = bytearray(b"\x11" * 7)
n_ata = 0
for label, cls, opc, cdblen in ATA:
    for t_length, byte_block, t_type, t_dir in itertools.product((0, 1, 2, 3), (0, 1), (0, 1), (0, 1)):
        for fetures, count in ((0, 0), (3, 5), (1, 2)):
            for blocksize, extra_tl in ((None, None), (0, None), (4096, None), (520, 4), (0, 0), (1, 9)):
                for data in (None, b"", bytearray(0), buf7, bytes(buf7)):
                    kw = {}
                    if blocksize is not None:
                        kw["blocksize"] = blocksize
                    if extra_tl is not None:
                        kw["extra_tl"] = extra_tl
                    if data is not None:
                        kw["data"] = data
                    lab = "%s(tl=%d,bb=%d,tt=%d,dir=%d,f=%d,c=%d,%r)" % (
                        label, t_length, byte_block, t_type, t_dir, fetures, count,
                        sorted((k, v if k != "data" else type(v).__name__ + str(len(v))) for k, v in kw.items()))
                    exp = ata_expected(t_length, byte_block, t_type, t_dir, fetures, count,
                                       0 if blocksize is None else blocksize, extra_tl)
                    if exp == "missing":
                        raises(SCSICommand.MissingBlocksizeException,
                               lambda: cls(opc, 4, t_length, byte_block, t_dir, t_type, 0, fetures, count, 0x123456, 0xEC, **kw), lab)
                        continue
                    cmd = cls(opc, 4, t_length, byte_block, t_dir, t_type, 0, fetures, count, 0x123456, 0xEC, **kw)
                    n_ata += 1
                    supplied = data is not None and len(data) > 0
                    if t_dir == 0:
                        out_len, in_len = (len(data) if supplied else exp), 0
                        verify(cmd, lab, out_len, in_len, cdblen, out_is=data if supplied else None,
                               transports=(n_ata % 7 == 0))
                    else:
                        out_len, in_len = 0, (len(data) if supplied else exp)
                        verify(cmd, lab, out_len, in_len, cdblen, in_is=data if supplied else None,
                               transports=(n_ata % 7 == 0))
                    # cdb says the same thing
                    ok((cmd.cdb[2] & 0x03, (cmd.cdb[2] >> 2) & 1, (cmd.cdb[2] >> 3) & 1, (cmd.cdb[2] >> 4) & 1)
                       == (t_length, byte_block, t_dir, t_type), lab + ": cdb flags")
                    if cls is ATAPassThrough12:
                        ok(cmd.cdb[3] == fetures and cmd.cdb[4] == count, lab + ": cdb features/count")
                        ok(be(cmd.cdb[5:8]) == ata12_lba(0x123456), lab + ": cdb lba")
                    else:
                        ok(be(cmd.cdb[3:5]) == fetures and be(cmd.cdb[5:7]) == count, lab + ": cdb features/count")
                        ok(be(cmd.cdb[7:13]) == ata16_lba(0x123456), lab + ": cdb lba")
                        ok(cmd.cdb[1] & 1 == 1, lab + ": extend default")
    # keyword call, extend, ck_cond, device, control
    cmd = cls(opcode=opc, protocal=6, t_length=2, byte_block=1, t_dir=1, t_type=0, off_line=1,
              fetures=1, count=3, lba=7, command=0x25, ck_cond=1, device=0x40, control=2)
    verify(cmd, label + "(kw)", 0, 1536, cdblen)
    # unusual length selectors and values
    cmd = cls(opc, 4, 4, 1, 1, 0, 0, 9, 9, 0, 0xEC)  # t_length outside 0..3
    ok(len(cmd.datain) == 0 and len(cmd.dataout) == 0, label + "(t_length=4) empty buffers")
    cmd = cls(opc, 4, True, True, True, False, 0, 2, 9, 0, 0xEC)
    verify(cmd, label + "(bool args)", 0, 1024, cdblen)
    raises(ValueError, lambda: cls(opc, 4, 1, 0, 1, 0, 0, -2, 9, 0, 0xEC), label + "(features=-2)")
    raises(ValueError, lambda: cls(opc, 4, 3, 0, 0, 0, 0, 1, 1, 0, 0xEC, extra_tl=-1), label + "(extra_tl=-1)")
    raises(TypeError, lambda: cls(opc, 4, 2, 1, 1, 1, 0, 1, 1, 0, 0xEC, blocksize=None), label + "(blocksize=None)")
    raises(TypeError, lambda: cls(opc, 4, 2, 1, 1, 1, 0, 1, 1.5, 0, 0xEC, blocksize=512), label + "(count=1.5)", exact=False)
    raises(TypeError, lambda: cls(opc, 4, 2, 1, 1, 1, 0, 1), label + "(missing args)")
    for bs in (0, False, 0.0):
        raises(SCSICommand.MissingBlocksizeException,
               lambda: cls(opc, 4, 2, 1, 1, 1, 0, 1, -1, 0, 0xEC, blocksize=bs), label + "(bs=%r, count=-1)" % bs)
    # t_dir values other than 0 mean "from device"
    for t_dir in (1, 2, True, None, "x"):
        try:
            cmd = cls(opc, 4, 2, 0, t_dir, 0, 0, 0, 6, 0, 0xEC)
        except TypeError:
            # the cdb cannot encode it; fine as long as it is what happens everywhere
            ok(t_dir in (None, "x"), label + "(t_dir=%r) TypeError" % (t_dir,))
            continue
        ok(len(cmd.datain) == 6 and len(cmd.dataout) == 0, label + "(t_dir=%r) is a read" % (t_dir,))
    for t_dir in (0, False, 0.0):
        try:
            cmd = cls(opc, 4, 2, 0, t_dir, 0, 0, 0, 6, 0, 0xEC, data=buf7)
        except TypeError:
            ok(t_dir == 0.0 and type(t_dir) is float, label + "(t_dir=%r) TypeError" % (t_dir,))
            continue
        ok(cmd.dataout is buf7 and len(cmd.datain) == 0, label + "(t_dir=%r) is a write" % (t_dir,))
    # lba conversion (public static helper)
    for lba in [0, 1, 0xFF, 0x100, 0xABCDEF, 0x123456789ABC, 2 ** 48 - 1, 2 ** 48 + 5, rnd.getrandbits(48), rnd.getrandbits(60), -1, -300]:
        if cls is ATAPassThrough12:
            ok(cls.scsi_to_ata_lba_convert(lba) == ata12_lba(lba), label + " lba convert %x" % lba)
        else:
            ok(cls.scsi_to_ata_lba_convert(lba) == ata16_lba(lba), label + " lba convert %x" % lba)
    raises(TypeError, lambda: cls.scsi_to_ata_lba_convert(1.5), label + " lba convert float")
    raises(TypeError, lambda: cls.scsi_to_ata_lba_convert(None), label + " lba convert None")
# ATA12 has no 'extend' argument
raises(TypeError, lambda: ATAPassThrough12(sbc.ATA_PASS_THROUGH_12, 4, 0, 0, 0, 0, 0, 0, 0, 0, 0xEC, extend=0), "ata12(extend)")
cmd = ATAPassThrough16(sbc.ATA_PASS_THROUGH_16, 4, 2, 1, 1, 0, 0, 0x1FF, 0x101, 0, 0x25, extend=0)
verify(cmd, "ata16(extend=0, 16-bit count)", 0, 0x101 * 512, 16)
ok(cmd.cdb[1] & 1 == 0, "ata16 extend=0")
cmd = ATAPassThrough16(sbc.ATA_PASS_THROUGH_16, 4, 1, 1, 0, 0, 0, 0x102, 0, 0, 0x25)
verify(cmd, "ata16(16-bit features as length)", 0x102 * 512, 0, 16)


# --------------------------------------------------------------------------
# 7. the base class itself
# --------------------------------------------------------------------------
for out_n, in_n in [(0, 0), (3, 5), (0, 96), (512, 0), (True, False), (b"abc", 2), ([1, 2], bytearray(b"xy"))]:
    cmd = SCSICommand(spc.INQUIRY, out_n, in_n)
    ok(type(cmd.dataout) is bytearray and type(cmd.datain) is bytearray, "base: bytearray buffers")
    ok(cmd.dataout == bytearray(out_n) and cmd.datain == bytearray(in_n), "base: bytearray(n) semantics %r %r" % (out_n, in_n))
    ok(cmd.cdb == bytearray(6) and cmd.opcode is spc.INQUIRY and cmd.result == {}, "base: cdb/opcode/result")
    ok(cmd.pagecode is None and cmd.sense is None and cmd.raw_sense_data is None, "base: None fields")
raises(ValueError, lambda: SCSICommand(spc.INQUIRY, -1, 0), "base(out=-1)")
raises(ValueError, lambda: SCSICommand(spc.INQUIRY, 0, -1), "base(in=-1)")
raises(TypeError, lambda: SCSICommand(spc.INQUIRY, 1.0, 0), "base(out=1.0)")
raises(TypeError, lambda: SCSICommand(spc.INQUIRY, 0, None), "base(in=None)")
raises(ValueError, lambda: SCSICommand(spc.INQUIRY, -1, None), "base: data-out is sized first")
raises(TypeError, lambda: SCSICommand(spc.INQUIRY, None, -1), "base: data-out is sized first (2)")
raises(TypeError, lambda: SCSICommand(spc.INQUIRY, 0), "base(missing)")
cmd = SCSICommand(opcode=spc.INQUIRY, dataout_alloclen=1, datain_alloclen=2)
ok((len(cmd.dataout), len(cmd.datain)) == (1, 2), "base(kw)")

# all public properties are plain read/write properties storing what they get
cmd = TestUnitReady(spc.TEST_UNIT_READY)
for name in ("result", "cdb", "datain", "dataout", "sense", "raw_sense_data", "pagecode", "opcode"):
    prop = getattr(SCSICommand, name)
    ok(isinstance(prop, property) and prop.fget is not None and prop.fset is not None and prop.fdel is None,
       "base: %s is a get/set property" % name)
    marker = object()
    setattr(cmd, name, marker)
    ok(getattr(cmd, name) is marker, "base: %s stores the object given" % name)
    ok(prop.fget(cmd) is marker, "base: %s fget" % name)
    prop.fset(cmd, None)
    ok(getattr(cmd, name) is None, "base: %s fset" % name)
    raises(AttributeError, lambda: delattr(cmd, name), "base: %s cannot be deleted" % name)
other = TestUnitReady(spc.TEST_UNIT_READY)
ok(len(other.dataout) == 0 and other.opcode is spc.TEST_UNIT_READY, "base: state is per instance")
ok(SCSICommand.datain.fget(other) is other.datain, "base: class property reads instance")

# cdb size classes and opcode rejection
for value, size in [(0x00, 6), (0x12, 6), (0x1F, 6), (0x20, 10), (0x28, 10), (0x5F, 10), (0x80, 16),
                    (0x88, 16), (0x9F, 16), (0xA0, 12), (0xA8, 12), (0xBF, 12)]:
    opc = OpCode("X", value, {})
    c = SCSICommand.init_cdb(opc)
    ok(type(c) is bytearray and len(c) == size and not any(c), "init_cdb(%#x) -> %d" % (value, size))
    t = TestUnitReady(opc)
    verify(t, "tur(opcode=%#x)" % value, 0, 0, size, transports=False)
for value in (0x60, 0x7E, 0x7F, 0xC0, 0xFF, 0x100, -1, 0x5F + 0.5, 0x1F + 0.5):
    opc = OpCode("X", value, {})
    raises(SCSICommand.OpcodeException, lambda: SCSICommand.init_cdb(opc), "init_cdb(%r)" % value)
    raises(SCSICommand.OpcodeException, lambda: TestUnitReady(opc), "tur(opcode=%r)" % value)
    raises(SCSICommand.OpcodeException, lambda: Read10(opc, 512, 0, 1), "read10(opcode=%r)" % value)
    raises(SCSICommand.OpcodeException, lambda: SCSICommand(opc, -1, None), "base: opcode checked before sizes (%r)" % value)
raises(SCSICommand.MissingBlocksizeException, lambda: Read10(OpCode("X", 0x60, {}), 0, 0, 1), "read10: blocksize before opcode")
raises(AttributeError, lambda: SCSICommand.init_cdb(None), "init_cdb(None)")
raises(TypeError, lambda: SCSICommand.init_cdb(OpCode("X", None, {})), "init_cdb(value=None)")
raises(TypeError, lambda: SCSICommand.init_cdb(OpCode("X", "a", {})), "init_cdb(value=str)")

# build_cdb / marshall_cdb / print_cdb
cmd = Read10(sbc.READ_10, 512, 0x01020304, 0x0506)
ok(cmd.build_cdb(opcode=0x28, lba=0x01020304, tl=0x0506) == bytearray.fromhex("28000102030400050600"), "build_cdb")
ok(cmd.build_cdb() == bytearray(10), "build_cdb()")
ok(cmd.build_cdb(unknown=1, tl=1) == bytearray.fromhex("00000000000000000100"), "build_cdb ignores unknown")
import io
import contextlib
_o = io.StringIO()
with contextlib.redirect_stdout(_o):
    r = cmd.print_cdb()
ok(r is None and _o.getvalue() == "".join("0x%02X \n" % b for b in cmd.cdb), "print_cdb output")
# unmarshall wrapper
i = Inquiry(spc.INQUIRY)
i.unmarshall()
ok(i.result["peripheral_device_type"] == 0 and "t10_vendor_identification" in i.result, "unmarshall() default")
i = Inquiry(spc.INQUIRY, evpd=1, page_code=0x80, alloclen=8)
i.datain[1] = 0x80
i.datain[3] = 2
i.datain[4:6] = b"AB"
i.unmarshall(evpd=1)
ok(i.result["unit_serial_number"] == b"AB", "unmarshall(evpd=1)")
e = raises(NotImplementedError, lambda: TestUnitReady(spc.TEST_UNIT_READY).unmarshall(), "unmarshall without decoder")
ok(str(e) == "TestUnitReady has no method to unmarshall datain data", "unmarshall error text")

# --------------------------------------------------------------------------
# 8. device classes: construction, error paths, replug
# --------------------------------------------------------------------------
e = raises(NotImplementedError, lambda: SCSIDevice("dev/null"), "scsidevice(bad path)")
ok(str(e) == "No backend implemented for dev/null", "scsidevice error text")
e = raises(NotImplementedError, lambda: SCSIDevice("iscsi://x"), "scsidevice(iscsi url)")
e = raises(NotImplementedError, lambda: ISCSIDevice("/dev/null"), "iscsidevice(bad url)")
ok(str(e) == "No backend implemented for /dev/null", "iscsidevice error text")
raises(NotImplementedError, lambda: ISCSIDevice("iscsi:/x"), "iscsidevice(short)")
raises(FileNotFoundError, lambda: SCSIDevice("/dev/does-not-exist-c03"), "scsidevice(missing)")
ok(repr(SG_DEV) == "SCSIDevice", "scsidevice repr")
ok(SG_DEV.opcodes is spc and ISCSI_DEV.opcodes is spc, "default opcodes")
for d in (SG_DEV, ISCSI_DEV):
    d.opcodes = sbc
    ok(d.opcodes is sbc, "opcodes setter")
    d.opcodes = spc
    d.devicetype = 5
    ok(d.devicetype == 5, "devicetype setter")
raises(AttributeError, lambda: SCSIDevice("/dev/null").devicetype, "devicetype unset")

# iscsi connect sequence
del ISCSI_LOG[:]
d1 = ISCSIDevice("iscsi://h/t/1")
d2 = ISCSIDevice("iscsi://h/t/1", initiator_name="iqn.me")
ok(ISCSI_LOG == [("ctx", "iscsi://h/t/1"), ("ctx", "iqn.me")], "iscsi context names %r" % (ISCSI_LOG,))
with ISCSIDevice("iscsi://h/t/2") as d3:
    ctx = ISCSI_LOG[-1]
    ok(isinstance(d3, ISCSIDevice), "iscsi context manager")
del ISCSI_LOG[:]

# sgio check condition
SENSE = bytearray.fromhex("70000500000000 0a 00000000 2400 00000000".replace(" ", ""))
cmd = Inquiry(spc.INQUIRY)
del SG_CALLS[:]
SG_RAISE.append(SENSE)
e = raises(SCSIDevice.CheckCondition, lambda: SG_DEV.execute(cmd), "sg check condition")
ok(isinstance(e, SCSICheckCondition) and e.asc == 0x24 and e.ascq == 0, "sg check condition decoded")
ok(isinstance(e.__context__, _CheckConditionError), "sg check condition chained from binding error")
ok(cmd.raw_sense_data is None and cmd.sense is None, "sg: no raw sense unless asked")
SG_RAISE.append(SENSE)
r = SG_DEV.execute(cmd, en_raw_sense=True)
ok(r is None and cmd.raw_sense_data is SENSE, "sg: raw sense stored")
SG_RAISE.append(SENSE)
r = SG_DEV.execute(cmd, True)
ok(r is None and cmd.raw_sense_data is SENSE, "sg: raw sense stored (positional)")
ok(len(SG_CALLS) == 3 and all(c[2] is cmd.dataout and c[3] is cmd.datain for c in SG_CALLS), "sg: buffers passed on error paths")

# replug detection: the file is reopened when its inode changes
if os.access("/dev/shm", os.W_OK):
    path = "/dev/shm/c03_demo_%d" % os.getpid()
    open(path, "wb").write(b"one")
    try:
        dev = SCSIDevice(path)
        dev2 = SCSIDevice(path, False, False)
        del SG_CALLS[:]
        dev.execute(cmd)
        f1 = SG_CALLS[-1][0]
        dev.execute(cmd)
        ok(SG_CALLS[-1][0] is f1 and not f1.closed, "replug: same handle while inode unchanged")
        open(path + ".new", "wb").write(b"two")
        os.rename(path + ".new", path)
        dev.execute(cmd)
        f2 = SG_CALLS[-1][0]
        ok(f2 is not f1 and f1.closed and not f2.closed, "replug: reopened")
        ok(os.fstat(f2.fileno()).st_ino == os.stat(path).st_ino, "replug: new inode")
        ok(f2.mode == "rb", "replug: mode kept")
        dev2.execute(cmd)
        f3 = SG_CALLS[-1][0]
        dev2.execute(cmd)
        ok(SG_CALLS[-1][0] is f3 and os.fstat(f3.fileno()).st_ino != os.stat(path).st_ino, "no replug detection when disabled")
        with SCSIDevice(path, readwrite=True, buffering=0) as dev3:
            dev3.execute(cmd)
            f4 = SG_CALLS[-1][0]
            ok(f4.mode in ("rb+", "r+b", "w+b", "wb+") and os.stat(path).st_size == 0, "readwrite mode %r" % f4.mode)
        ok(f4.closed, "context manager closes")
        dev.close()
        dev2.close()
    finally:
        os.unlink(path)

# iscsi statuses
cmd = Inquiry(spc.INQUIRY)
STAT = [
    (SCSI_STATUS.RESERVATION_CONFLICT, "ReservationConflict"),
    (SCSI_STATUS.TASK_ABORTED, "TaskAborted"),
    (SCSI_STATUS.BUSY, "BusyStatus"),
    (SCSI_STATUS.TASK_SET_FULL, "TaskSetFull"),
    (SCSI_STATUS.ACA_ACTIVE, "ACAActive"),
    (SCSI_STATUS.CONDITIONS_MET, "ConditionsMet"),
]
for status, name in STAT:
    ISCSI_NEXT["status"] = status
    ISCSI_NEXT["sense"] = "unset"
    e = raises(getattr(ISCSIDevice, name), lambda: ISCSI_DEV.execute(cmd), "iscsi status %#x" % status)
    ok(e is not None and e.args == (), "iscsi status exception has no args")
    ok(cmd.sense is None and cmd.raw_sense_data is None, "iscsi: no sense on plain status")
for status in (SCSI_STATUS.SGIO_ERROR, 0x01, 0x99, None, -1):
    ISCSI_NEXT["status"] = status
    raises(RuntimeError, lambda: ISCSI_DEV.execute(cmd), "iscsi unknown status %r" % (status,))
for status in (0, False, 0.0):
    ISCSI_NEXT["status"] = status
    ok(ISCSI_DEV.execute(cmd) is None, "iscsi good %r" % (status,))
ISCSI_NEXT["status"] = SCSI_STATUS.CHECK_CONDITION
ISCSI_NEXT["sense"] = SENSE
c1 = Inquiry(spc.INQUIRY)
e = raises(ISCSIDevice.CheckCondition, lambda: ISCSI_DEV.execute(c1), "iscsi check condition")
ok(e.asc == 0x24 and c1.sense is SENSE and c1.raw_sense_data is None, "iscsi check condition sense")
c2 = Inquiry(spc.INQUIRY)
e = raises(ISCSIDevice.CheckCondition, lambda: ISCSI_DEV.execute(c2, en_raw_sense=True), "iscsi check condition raw")
ok(c2.sense is SENSE and c2.raw_sense_data is SENSE, "iscsi raw sense copy")
ISCSI_NEXT["sense"] = "unset"
c3 = Inquiry(spc.INQUIRY)
e = raises(ISCSIDevice.CheckCondition, lambda: ISCSI_DEV.execute(c3, True), "iscsi check condition without sense")
ok(c3.sense is None and c3.raw_sense_data is None and e.asc == 0 and e.ascq == 0, "iscsi: missing sense -> None")
ISCSI_NEXT["status"] = 0
# a write takes precedence over a read for the iscsi direction
both = TestUnitReady(spc.TEST_UNIT_READY)
both.dataout = bytearray(3)
both.datain = bytearray(9)
del ISCSI_LOG[:]
ISCSI_DEV.execute(both)
t = ISCSI_LOG[0][2]
ok((t.direction, t.xferlen) == (_iscsi.SCSI_XFER_WRITE, 3), "iscsi: write wins")
# buffers a transport cannot take the length of are rejected by the iscsi device
bad = TestUnitReady(spc.TEST_UNIT_READY)
bad.datain = None
bad.dataout = bytearray(2)
del ISCSI_LOG[:]
raises(TypeError, lambda: ISCSI_DEV.execute(bad), "iscsi: datain None")
ok(ISCSI_LOG == [], "iscsi: nothing sent for an unusable datain")
bad.datain = bytearray(2)
bad.dataout = None
raises(TypeError, lambda: ISCSI_DEV.execute(bad), "iscsi: dataout None")
ok(ISCSI_LOG == [], "iscsi: nothing sent for an unusable dataout")

# --------------------------------------------------------------------------
# 9. the SCSI front end hands the same buffers to whatever device it has
# --------------------------------------------------------------------------
for opcodes, dev_factory in ((sbc, lambda: RecordingDevice(sbc)),):
    dev = dev_factory()
    s = SCSI(dev, 512)
    ok(dev.devicetype == 0 and dev.opcodes is sbc, "front end probed the device with INQUIRY")
    probe = dev.seen[0][0]
    ok(isinstance(probe, Inquiry) and len(probe.datain) == 96 and len(probe.dataout) == 0, "probe inquiry buffers")
    calls = [
        (lambda: s.inquiry(), 0, 96),
        (lambda: s.inquiry(alloclen=200), 0, 200),
        (lambda: s.testunitready(), 0, 0),
        (lambda: s.read10(0, 4), 0, 2048),
        (lambda: s.read12(0, 1, fua=1), 0, 512),
        (lambda: s.read16(2 ** 33, 2), 0, 1024),
        (lambda: s.write10(0, 1, bytearray(512)), 512, 0),
        (lambda: s.write12(0, 2, bytes(1024)), 1024, 0),
        (lambda: s.write16(0, 1, bytearray(512), fua=1), 512, 0),
        (lambda: s.writesame10(0, 8, bytearray(512)), 512, 0),
        (lambda: s.writesame16(0, 8, bytearray(512)), 512, 0),
        (lambda: s.writesame16(0, 8, None, ndob=1), 0, 0),
        (lambda: s.readcapacity10(), 0, 8),
        (lambda: s.readcapacity16(), 0, 32),
        (lambda: s.readcapacity16(alloclen=64), 0, 64),
        (lambda: s.getlbastatus(0, alloclen=24), 0, 24),
        (lambda: s.synchronizecache10(0, 0), 0, 0),
        (lambda: s.synchronizecache16(0, 0), 0, 0),
        (lambda: s.modesense6(0x0A), 0, 96),
        (lambda: s.modesense10(0x0A, alloclen=255), 0, 255),
        (lambda: s.modeselect6(MODE_DATA[1]), 16, 0),
        (lambda: s.modeselect10(MODE_DATA[1]), 20, 0),
        (lambda: s.reportluns(), 0, 96),
        (lambda: s.reportpriority(alloclen=32), 0, 32),
        (lambda: s.reporttargetportgroups(alloclen=32), 0, 32),
        (lambda: s.preventallowmediumremoval(prevent=1), 0, 0),
        (lambda: s.persistentreservein(0, alloclen=64), 0, 64),
        (lambda: s.persistentreservein(3), 0, 1024),
        (lambda: s.persistentreserveout(0, service_action_reservation_key=3), 24, 0),
        (lambda: s.extendedcopy4(), 16, 0),
        (lambda: s.extendedcopy5(inline_data=bytearray(b"abcd")), 52, 0),
        (lambda: s.atapassthrough12(4, 2, 1, 1, 0, 0, 0, 1, 0, 0xEC), 0, 512),
        (lambda: s.atapassthrough16(4, 2, 1, 0, 0, 0, 0, 2, 0, 0x35, data=bytearray(1024)), 1024, 0),
        (lambda: s.atapassthrough16(3, 0, 0, 1, 0, 0, 0, 0, 0, 0xE5), 0, 0),
    ]
    for fn, out_len, in_len in calls:
        before = len(dev.seen)
        cmd = fn()
        ok(len(dev.seen) == before + 1 and dev.seen[-1][0] is cmd, "front end executed exactly the returned command")
        ok(dev.seen[-1][2:] == (out_len, in_len), "front end %s: device saw %r, wanted %r"
           % (type(cmd).__name__, dev.seen[-1][2:], (out_len, in_len)))
        ok(dev.seen[-1][1] == bytes(cmd.cdb), "front end: cdb unchanged after execute")
    s.blocksize = 0
    raises(SCSICommand.MissingBlocksizeException, lambda: s.read10(0, 1), "front end read10 without blocksize")
    raises(SCSICommand.MissingBlocksizeException, lambda: s.write16(0, 1, b""), "front end write16 without blocksize")
    raises(SCSICommand.MissingBlocksizeException, lambda: s.writesame10(0, 1, b""), "front end writesame10 without blocksize")
    raises(SCSICommand.MissingBlocksizeException,
           lambda: s.atapassthrough16(4, 2, 1, 1, 1, 0, 0, 1, 0, 0x25), "front end ata16 without blocksize")
    ok(len(dev.seen) == len(calls) + 1, "nothing executed for rejected commands")

for opcodes, cls_dev in ((smc, RecordingDevice), (mmc, RecordingDevice)):
    dev = cls_dev(opcodes)
    s = SCSI(None)
    s.device = dev
    if opcodes is smc:
        calls = [
            (lambda: s.exchangemedium(1, 2, 3, 4), 0, 0),
            (lambda: s.initializeelementstatus(), 0, 0),
            (lambda: s.initializeelementstatuswithrange(1, 2, rng=1), 0, 0),
            (lambda: s.movemedium(1, 2, 3), 0, 0),
            (lambda: s.opencloseimportexportelement(1, 0), 0, 0),
            (lambda: s.positiontoelement(1, 2), 0, 0),
            (lambda: s.readelementstatus(0, 10, alloclen=4096), 0, 4096),
        ]
    else:
        calls = [
            (lambda: s.readdiscinformation(0), 0, 4096),
            (lambda: s.readdiscinformation(0, alloc_len=34), 0, 34),
        ]
    for fn, out_len, in_len in calls:
        cmd = fn()
        ok(dev.seen[-1][0] is cmd and dev.seen[-1][2:] == (out_len, in_len),
           "front end %s: device saw %r, wanted %r" % (type(cmd).__name__, dev.seen[-1][2:], (out_len, in_len)))

# the front end on top of the real device classes
for dev in (SG_DEV, ISCSI_DEV):
    ISCSI_NEXT["status"] = 0
    ISCSI_NEXT["sense"] = "unset"
    del SG_CALLS[:]
    del ISCSI_LOG[:]
    s = SCSI(dev, 4096)
    ok(dev.devicetype == 0 and dev.opcodes is sbc, "front end + device: probed")
    c = s.read16(5, 3)
    w = s.write10(5, 1, bytearray(4096))
    log = SG_CALLS if dev is SG_DEV else ISCSI_LOG
    ok(len(log) == 3, "front end + device: three commands sent")
    ok(log[1][-1] == 3 * 4096 and log[1][-2] == 0 and log[2][-2] == 4096 and log[2][-1] == 0, "front end + device: lengths")
    dev.opcodes = spc

SG_DEV.close()
SG_DEV_NOREPLUG.close()
ISCSI_DEV.close()

print("checks: %d" % CHECKS[0])
if FAILURES:
    print("FAILED (%d failures)" % len(FAILURES))
    sys.exit(1)
print("PASS")
sys.exit(0)
