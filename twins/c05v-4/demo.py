# coding: utf-8
"""
Demo / oracle for property C05:

For every command with a data-out phase that the library composes itself
(MODE SELECT 6/10, PERSISTENT RESERVE OUT basic and register-and-move lists
with TransportIDs, EXTENDED COPY LID1/LID4) the parameter list places each
supplied value at the position the standard assigns, every embedded length
field equals the number of bytes that actually follow, and the CDB's
parameter list length equals the length of the list.  Each such command can be
constructed for every valid parameter dictionary.

The expected bytes are computed by an independent, hand written reference
encoder in this file (layouts transcribed from SPC), and the produced lists are
additionally re-parsed structurally (walking the embedded length fields).

Run:  cd /tmp/seed/C05v && PYTHONPATH=/tmp/seed/C05v /venv/bin/python SEED/demo.py
"""
import copy
import importlib.util
import random
import sys
import types

for _name in ("sgio", "iscsi"):
    try:
        _missing = importlib.util.find_spec(_name) is None
    except (ImportError, ValueError):
        _missing = True
    if _missing:
        sys.modules[_name] = types.ModuleType(_name)

from pyscsi.pyscsi.scsi import SCSI  # noqa: E402
from pyscsi.pyscsi.scsi_cdb_extended_copy_spc4 import (  # noqa: E402
    ExtendedCopy as ExtendedCopy4,
)
from pyscsi.pyscsi.scsi_cdb_extended_copy_spc5 import (  # noqa: E402
    ExtendedCopy as ExtendedCopy5,
)
from pyscsi.pyscsi.scsi_cdb_inquiry import Inquiry  # noqa: E402
from pyscsi.pyscsi.scsi_cdb_modesense6 import ModeSelect6, ModeSense6  # noqa: E402
from pyscsi.pyscsi.scsi_cdb_modesense10 import ModeSelect10, ModeSense10  # noqa: E402
from pyscsi.pyscsi.scsi_cdb_persistentreservein import (  # noqa: E402
    PersistentReserveInReadFullStatus,
)
from pyscsi.pyscsi.scsi_cdb_persistentreserveout import (  # noqa: E402
    PersistentReserveOut,
)
from pyscsi.pyscsi.scsi_enum_command import sbc, smc, spc, ssc  # noqa: E402
from pyscsi.pyscsi.scsi_enum_persistentreserve import PROTOCOL_ID  # noqa: E402

RNG = random.Random(0xC05)
CHECKS = 0


def check(cond, msg):
    global CHECKS
    CHECKS += 1
    if not cond:
        raise AssertionError(msg)


def eq(got, want, msg):
    global CHECKS
    CHECKS += 1
    if got != want:
        if isinstance(got, (bytes, bytearray)) and isinstance(want, (bytes, bytearray)):
            raise AssertionError(
                "%s\n   got: %s\n  want: %s" % (msg, bytes(got).hex(), bytes(want).hex())
            )
        raise AssertionError("%s\n   got: %r\n  want: %r" % (msg, got, want))


def raises(exc, fn, *args, **kwargs):
    global CHECKS
    CHECKS += 1
    try:
        fn(*args, **kwargs)
    except exc:
        return
    except Exception as e:  # pragma: no cover
        raise AssertionError(
            "expected %s, got %s: %s" % (exc.__name__, type(e).__name__, e)
        )
    raise AssertionError("expected %s, nothing was raised" % exc.__name__)


def is_buffer(b):
    return isinstance(b, (bytes, bytearray))


# ----------------------------------------------------------------------------
# a device that records what is executed, and two ways to get a SCSI facade
# ----------------------------------------------------------------------------
class RecordingDevice(object):
    def __init__(self, opcodes=None):
        self.opcodes = opcodes
        self.executed = []
        self.devicetype = None

    def execute(self, cmd, en_raw_sense=False):
        self.executed.append(cmd)

    def open(self):
        pass

    def close(self):
        pass


class BareSCSI(SCSI):
    """like tests.mock_device.MockSCSI: no INQUIRY on construction"""

    def __init__(self, dev):
        self.device = dev


def facades():
    out = []
    for table in (spc, sbc, ssc, smc):
        out.append(BareSCSI(RecordingDevice(table)))
    # the real constructor: issues an INQUIRY, all-zero datain -> sbc opcodes
    out.append(SCSI(RecordingDevice(spc)))
    return out


# ----------------------------------------------------------------------------
# reference bit packer
# ----------------------------------------------------------------------------
def put(buf, off, nbytes, shift, width, value):
    cur = int.from_bytes(buf[off : off + nbytes], "big")
    cur |= (value & ((1 << width) - 1)) << shift
    buf[off : off + nbytes] = cur.to_bytes(nbytes, "big")


def be(value, n):
    return value.to_bytes(n, "big")


def only_nonzero(buf, allowed):
    """every byte outside the allowed offsets must be zero"""
    for i, b in enumerate(buf):
        if i not in allowed and b:
            return False
    return True


# ----------------------------------------------------------------------------
# MODE SELECT (6) / (10)
# ----------------------------------------------------------------------------
# (name, offset, nbytes, shift, width) inside the page body (after page header)
ELEMENT_ADDRESS = [
    ("first_medium_transport_element_address", 0, 2, 0, 16),
    ("num_medium_transport_elements", 2, 2, 0, 16),
    ("first_storage_element_address", 4, 2, 0, 16),
    ("num_storage_elements", 6, 2, 0, 16),
    ("first_import_element_address", 8, 2, 0, 16),
    ("num_import_elements", 10, 2, 0, 16),
    ("first_data_transfer_element_address", 12, 2, 0, 16),
    ("num_data_transfer_elements", 14, 2, 0, 16),
]
CONTROL = [
    ("tst", 0, 1, 5, 3),
    ("tmf_only", 0, 1, 4, 1),
    ("dpicz", 0, 1, 3, 1),
    ("d_sense", 0, 1, 2, 1),
    ("gltsd", 0, 1, 1, 1),
    ("rlec", 0, 1, 0, 1),
    ("queue_algorithm_modifier", 1, 1, 4, 4),
    ("nuar", 1, 1, 3, 1),
    ("qerr", 1, 1, 1, 2),
    ("vs", 2, 1, 7, 1),
    ("rac", 2, 1, 6, 1),
    ("ua_intlck_ctrl", 2, 1, 4, 2),
    ("swp", 2, 1, 3, 1),
    ("ato", 3, 1, 7, 1),
    ("tas", 3, 1, 6, 1),
    ("atmpe", 3, 1, 5, 1),
    ("rwwp", 3, 1, 4, 1),
    ("autoload_mode", 3, 1, 0, 3),
    ("busy_timeout_period", 6, 2, 0, 16),
    ("extended_self_test_completion_time", 8, 2, 0, 16),
]
CONTROL_EXT = [
    ("tcmos", 0, 1, 2, 1),
    ("scsip", 0, 1, 1, 1),
    ("ialuae", 0, 1, 0, 1),
    ("initial_command_priority", 1, 1, 0, 4),
    ("maximum_sense_data_length", 2, 1, 0, 8),
]
DISCONNECT = [
    ("buffer_full_ratio", 0, 1, 0, 8),
    ("buffer_empty_ratio", 1, 1, 0, 8),
    ("bus_inactivity_limit", 2, 2, 0, 16),
    ("disconnect_time_limit", 4, 2, 0, 16),
    ("connect_time_limit", 6, 2, 0, 16),
    ("maximum_burst_size", 8, 2, 0, 16),
    ("emdp", 10, 1, 7, 1),
    ("fair_arbitration", 10, 1, 4, 3),
    ("dimm", 10, 1, 3, 1),
    ("dtdc", 10, 1, 0, 3),
    ("first_burst_size", 12, 2, 0, 16),
]
# (page_code, spf, sub_page_code) -> (layout, body length)
PAGES = {
    (0x1D, 0, None): (ELEMENT_ADDRESS, 18),
    (0x0A, 0, None): (CONTROL, 10),
    (0x0A, 1, 1): (CONTROL_EXT, 28),
    (0x02, 0, None): (DISCONNECT, 14),
}


def random_fields(layout, mode):
    out = {}
    for name, _o, _n, _s, width in layout:
        if mode == "max":
            out[name] = (1 << width) - 1
        elif mode == "zero":
            out[name] = 0
        elif mode == "sparse":
            if RNG.random() < 0.4:
                out[name] = RNG.randrange(1 << width)
        else:
            out[name] = RNG.randrange(1 << width)
    return out


def random_mode_page(mode="random"):
    (code, spf, sub), (layout, _blen) = RNG.choice(sorted(PAGES.items(), key=repr))
    mp = {"ps": RNG.randrange(2) if mode != "zero" else 0, "spf": spf, "page_code": code}
    if mode == "max":
        mp["ps"] = 1
    if spf:
        mp["sub_page_code"] = sub
    fields = random_fields(layout, mode)
    items = list(fields.items())
    RNG.shuffle(items)
    mp.update(items)
    return mp


def ref_mode_page(mp):
    key = (mp["page_code"], 1 if mp["spf"] else 0, mp.get("sub_page_code") if mp["spf"] else None)
    layout, blen = PAGES[key]
    if mp["spf"]:
        hdr = bytearray(4)
        hdr[0] = (mp.get("ps", 0) << 7) | 0x40 | mp["page_code"]
        hdr[1] = mp["sub_page_code"]
        hdr[2:4] = be(blen, 2)
    else:
        hdr = bytearray(2)
        hdr[0] = (mp.get("ps", 0) << 7) | mp["page_code"]
        hdr[1] = blen
    body = bytearray(blen)
    for name, off, n, shift, width in layout:
        if name in mp:
            put(body, off, n, shift, width, mp[name])
    return hdr + body


def ref_mode_list(data, ten):
    pages = b"".join(bytes(ref_mode_page(mp)) for mp in data["mode_pages"])
    if ten:
        hdr = bytearray(8)
        hdr[2] = data.get("medium_type", 0)
        hdr[3] = data.get("device_specific_parameter", 0)
        hdr[4] = data.get("longlba", 0) & 1
        out = hdr + pages
        out[0:2] = be(len(out) - 2, 2)
    else:
        hdr = bytearray(4)
        hdr[1] = data.get("medium_type", 0)
        hdr[2] = data.get("device_specific_parameter", 0)
        out = hdr + pages
        out[0] = len(out) - 1
    return out


def walk_mode_list(buf, ten):
    """structural re-parse: returns list of (page_code, spf, subpage, body)"""
    if ten:
        check(int.from_bytes(buf[0:2], "big") == len(buf) - 2, "mode data length (10)")
        bdl = int.from_bytes(buf[6:8], "big")
        pos = 8
    else:
        check(buf[0] == len(buf) - 1, "mode data length (6)")
        bdl = buf[3]
        pos = 4
    check(bdl == 0, "block descriptor length must be zero")
    pages = []
    while pos < len(buf):
        spf = (buf[pos] >> 6) & 1
        code = buf[pos] & 0x3F
        if spf:
            sub = buf[pos + 1]
            plen = int.from_bytes(buf[pos + 2 : pos + 4], "big")
            pos += 4
        else:
            sub = None
            plen = buf[pos + 1]
            pos += 2
        check(pos + plen <= len(buf), "page length runs past the end of the list")
        pages.append((code, spf, sub, bytes(buf[pos : pos + plen])))
        pos += plen
    check(pos == len(buf), "pages do not tile the parameter list")
    return pages


def check_modeselect(s, data, ten, pf=None, sp=None):
    before = copy.deepcopy(data)
    kwargs = {}
    if pf is not None:
        kwargs["pf"] = pf
    if sp is not None:
        kwargs["sp"] = sp
    n_before = len(s.device.executed)
    cmd = (s.modeselect10 if ten else s.modeselect6)(data, **kwargs)
    check(isinstance(cmd, ModeSelect10 if ten else ModeSelect6), "command class")
    eq(len(s.device.executed), n_before + 1, "command was executed once")
    check(s.device.executed[-1] is cmd, "executed command is the returned one")
    eq(data, before, "MODE SELECT must not modify the caller's dict")
    want = ref_mode_list(data, ten)
    check(is_buffer(cmd.dataout), "dataout is a byte buffer")
    eq(cmd.dataout, want, "MODE SELECT(%d) parameter list" % (10 if ten else 6))
    pages = walk_mode_list(cmd.dataout, ten)
    eq(len(pages), len(data["mode_pages"]), "number of pages")
    for (code, spf, sub, body), mp in zip(pages, data["mode_pages"]):
        eq(code, mp["page_code"], "page code position")
        eq(spf, 1 if mp["spf"] else 0, "spf position")
        if spf:
            eq(sub, mp["sub_page_code"], "sub page code position")
        key = (code, spf, sub)
        eq(len(body), PAGES[key][1], "page length")
    # CDB
    epf = 1 if pf is None else pf
    esp = 0 if sp is None else sp
    if ten:
        want_cdb = bytearray(10)
        want_cdb[0] = 0x55
        want_cdb[1] = (epf << 4) | esp
        want_cdb[7:9] = be(len(want), 2)
    else:
        want_cdb = bytearray(6)
        want_cdb[0] = 0x15
        want_cdb[1] = (epf << 4) | esp
        want_cdb[4] = len(want)
    eq(cmd.cdb, want_cdb, "MODE SELECT CDB")
    ucdb = cmd.unmarshall_cdb(cmd.cdb)
    eq(ucdb["parameter_list_length"], len(cmd.dataout), "cdb parameter list length")
    # the static/class level marshallers agree
    klass_sel, klass_sense = (ModeSelect10, ModeSense10) if ten else (ModeSelect6, ModeSense6)
    eq(klass_sel.marshall_dataout(copy.deepcopy(data)), want, "marshall_dataout")
    eq(klass_sense.marshall_datain(copy.deepcopy(data)), want, "marshall_datain")
    # direct construction gives the same thing
    opcode = s.device.opcodes.MODE_SELECT_10 if ten else s.device.opcodes.MODE_SELECT_6
    direct = klass_sel(opcode, copy.deepcopy(data), **kwargs)
    eq(direct.dataout, want, "direct construction dataout")
    eq(direct.cdb, want_cdb, "direct construction cdb")
    # decode with the library: the first page must come back
    if data["mode_pages"]:
        back = klass_sense.unmarshall_datain(cmd.dataout)
        eq(back["medium_type"], data.get("medium_type", 0), "roundtrip medium_type")
        eq(
            back["device_specific_parameter"],
            data.get("device_specific_parameter", 0),
            "roundtrip device specific parameter",
        )
        first = data["mode_pages"][0]
        got = back["mode_pages"][0]
        layout = PAGES[
            (first["page_code"], 1 if first["spf"] else 0, first.get("sub_page_code") if first["spf"] else None)
        ][0]
        for name, _o, _n, _s, _w in layout:
            eq(got[name], first.get(name, 0), "roundtrip of %s" % name)
        eq(got["page_code"], first["page_code"], "roundtrip page code")
    return cmd


def run_modeselect(s):
    for ten in (False, True):
        # every page kind, zero / max / random / sparse
        for key in sorted(PAGES, key=repr):
            layout, _blen = PAGES[key]
            for mode in ("zero", "max", "random", "sparse"):
                mp = {"ps": 1 if mode == "max" else 0, "spf": key[1], "page_code": key[0]}
                if key[1]:
                    mp["sub_page_code"] = key[2]
                mp.update(random_fields(layout, mode))
                data = {
                    "medium_type": 0xFF if mode == "max" else RNG.randrange(256),
                    "device_specific_parameter": 0xFF if mode == "max" else RNG.randrange(256),
                    "mode_pages": [mp],
                }
                if ten and mode != "sparse":
                    data["longlba"] = 1 if mode == "max" else RNG.randrange(2)
                check_modeselect(s, data, ten)
        # header only
        check_modeselect(s, {"mode_pages": []}, ten)
        check_modeselect(
            s, {"medium_type": 3, "device_specific_parameter": 0x90, "mode_pages": []}, ten
        )
        # mode_pages given as a tuple, spf given as bool
        mp = {"ps": 0, "spf": False, "page_code": 0x0A, "swp": 1, "d_sense": 1}
        check_modeselect(s, {"medium_type": 1, "mode_pages": (mp,)}, ten)
        # several pages in one list
        for _ in range(25):
            n = RNG.randrange(2, 6)
            data = {
                "medium_type": RNG.randrange(256),
                "device_specific_parameter": RNG.randrange(256),
                "mode_pages": [
                    random_mode_page(RNG.choice(["random", "sparse", "max"])) for _ in range(n)
                ],
            }
            check_modeselect(s, data, ten, pf=RNG.randrange(2), sp=RNG.randrange(2))
        # pf / sp combinations
        for pf in (0, 1):
            for sp in (0, 1):
                check_modeselect(s, {"mode_pages": [random_mode_page()]}, ten, pf=pf, sp=sp)
        # same page repeated, the very same dict object twice
        mp = random_mode_page()
        check_modeselect(s, {"mode_pages": [mp, mp, mp]}, ten)
    # MODE SELECT(6): the largest list that still fits the one byte length
    # 4 + 7 * 32 = 228 bytes
    mp = {"ps": 0, "spf": 1, "page_code": 0x0A, "sub_page_code": 1, "maximum_sense_data_length": 252}
    check_modeselect(s, {"mode_pages": [dict(mp) for _ in range(7)]}, False)
    # MODE SELECT(10): a long list (two byte lengths in use): 8 + 40 * 32
    cmd = check_modeselect(s, {"mode_pages": [dict(mp) for _ in range(40)]}, True)
    eq(len(cmd.dataout), 8 + 40 * 32, "long MODE SELECT(10) list")


# ----------------------------------------------------------------------------
# TransportIDs and PERSISTENT RESERVE OUT
# ----------------------------------------------------------------------------
def rbytes(n):
    return bytes(RNG.randrange(256) for _ in range(n))


def pad4(n):
    """bytes needed for n characters plus a NUL, rounded up to a multiple of 4"""
    n += 1
    while n % 4:
        n += 1
    return n


IQN_CHARS = "abcdefghijklmnopqrstuvwxyz0123456789.-:"


def random_iqn(n=None):
    if n is None:
        n = RNG.randrange(1, 80)
    return "".join(RNG.choice(IQN_CHARS) for _ in range(n))


def random_transport_id(kind=None):
    kind = kind or RNG.choice(["fc", "1394", "rdma", "iscsi0", "iscsi1", "sas", "sop"])
    if kind == "fc":
        return {"protocol_id": PROTOCOL_ID.FIBRE_CHANNEL, "tpid_format": 0, "n_port_name": rbytes(8)}
    if kind == "1394":
        return {"protocol_id": PROTOCOL_ID.IEEE_1394, "tpid_format": 0, "eui64_name": bytearray(rbytes(8))}
    if kind == "rdma":
        return {"protocol_id": PROTOCOL_ID.RDMA, "tpid_format": 0, "initiator_port_identifier": rbytes(16)}
    if kind == "iscsi0":
        d = {"protocol_id": PROTOCOL_ID.ISCSI, "iscsi_name": random_iqn()}
        if RNG.random() < 0.5:
            d["tpid_format"] = 0
        return d
    if kind == "iscsi1":
        return {
            "protocol_id": PROTOCOL_ID.ISCSI,
            "tpid_format": 1,
            "iscsi_name": random_iqn(),
            "iscsi_initiator_session_id": "%012x" % RNG.randrange(1 << 48),
        }
    if kind == "sas":
        d = {"protocol_id": PROTOCOL_ID.SAS, "sas_address": rbytes(8)}
        if RNG.random() < 0.5:
            d["tpid_format"] = 0
        return d
    if kind == "sop":
        return {"protocol_id": PROTOCOL_ID.SOP, "tpid_format": 0, "routing_id": rbytes(8)}
    raise AssertionError(kind)


def ref_transport_id(t):
    pid = t["protocol_id"]
    fmt = t.get("tpid_format", 0)
    if pid == 0x05:
        if fmt:
            s = t["iscsi_name"] + ",i,0x" + t["iscsi_initiator_session_id"]
        else:
            s = t["iscsi_name"]
        raw = s.encode("ascii")
        body = raw + bytes(pad4(len(raw)) - len(raw))
        return bytes([(fmt << 6) | pid, 0]) + be(len(body), 2) + body
    out = bytearray(24)
    out[0] = (fmt << 6) | pid
    if pid == 0x00:
        out[8:16] = t["n_port_name"][:8]
    elif pid == 0x03:
        out[8:16] = t["eui64_name"][:8]
    elif pid == 0x04:
        out[8:24] = t["initiator_port_identifier"][:16]
    elif pid == 0x06:
        out[4:12] = t["sas_address"][:8]
    elif pid == 0x0A:
        out[4:12] = t["routing_id"][:8]
    return bytes(out)


def walk_transport_ids(buf):
    """split a run of TransportIDs using only their own length information"""
    out = []
    pos = 0
    while pos < len(buf):
        pid = buf[pos] & 0x0F
        if pid == 0x05:
            alen = int.from_bytes(buf[pos + 2 : pos + 4], "big")
            check(alen % 4 == 0, "iSCSI additional length multiple of 4")
            size = 4 + alen
        else:
            size = 24
        check(pos + size <= len(buf), "TransportID runs past the end")
        out.append(bytes(buf[pos : pos + size]))
        pos += size
    check(pos == len(buf), "TransportIDs do not tile the additional parameter data")
    return out


def check_transport_id(t):
    before = copy.deepcopy(t)
    got = PersistentReserveInReadFullStatus.marshall_transport_id(t)
    eq(t, before, "marshall_transport_id must not modify its input")
    check(is_buffer(got), "TransportID is a byte buffer")
    want = ref_transport_id(t)
    eq(got, want, "TransportID bytes for %r" % (t,))
    eq(len(got) % 4, 0, "TransportID length multiple of four")
    if t["protocol_id"] == 0x05:
        eq(int.from_bytes(got[2:4], "big"), len(got) - 4, "iSCSI additional length")
        name_end = bytes(got[4:]).find(b"\0")
        check(name_end >= 0, "iSCSI name is NUL terminated")
        check(not any(got[4 + name_end :]), "iSCSI name is NUL padded")
    back = PersistentReserveInReadFullStatus.unmarshall_transport_id(bytearray(got))
    eq(back["protocol_id"], t["protocol_id"], "roundtrip protocol id")
    eq(back["tpid_format"], t.get("tpid_format", 0), "roundtrip tpid format")
    for k in (
        "n_port_name",
        "eui64_name",
        "initiator_port_identifier",
        "sas_address",
        "routing_id",
        "iscsi_name",
        "iscsi_initiator_session_id",
    ):
        if k in t:
            want_v = t[k]
            if is_buffer(want_v):
                want_v = bytes(want_v)[: 16 if k == "initiator_port_identifier" else 8]
                eq(bytes(back[k]), want_v, "roundtrip %s" % k)
            else:
                eq(back[k], want_v, "roundtrip %s" % k)
    return got


def ref_pr_cdb(sa, scope, pr_type, plen):
    cdb = bytearray(10)
    cdb[0] = 0x5F
    cdb[1] = sa & 0x1F
    cdb[2] = ((scope & 0xF) << 4) | (pr_type & 0xF)
    cdb[5:9] = be(plen, 4)
    return cdb


def ref_pr_list(sa, kw):
    if sa == 0x07:
        out = bytearray(24)
        out[0:8] = be(kw.get("reservation_key", 0), 8)
        out[8:16] = be(kw.get("service_action_reservation_key", 0), 8)
        out[17] = (kw.get("unreg", 0) << 1) | kw.get("aptpl", 0)
        out[18:20] = be(kw.get("relative_target_port_id", 0), 2)
        tid = ref_transport_id(kw["transport_id"]) if kw.get("transport_id") else b""
        out[20:24] = be(len(tid), 4)
        return out + tid
    out = bytearray(24)
    out[0:8] = be(kw.get("reservation_key", 0), 8)
    out[8:16] = be(kw.get("service_action_reservation_key", 0), 8)
    out[20] = (kw.get("spec_i_pt", 0) << 3) | (kw.get("all_tg_pt", 0) << 2) | kw.get("aptpl", 0)
    if sa == 0x00 and kw.get("spec_i_pt"):
        tids = b"".join(ref_transport_id(t) for t in kw.get("transport_ids", []))
        out += be(len(tids), 4) + tids
    return out


def check_pr_out(s, sa, scope=None, pr_type=None, **kw):
    before = copy.deepcopy(kw)
    args = {}
    if scope is not None:
        args["scope"] = scope
    if pr_type is not None:
        args["pr_type"] = pr_type
    n_before = len(s.device.executed)
    cmd = s.persistentreserveout(sa, **args, **kw)
    check(isinstance(cmd, PersistentReserveOut), "command class")
    eq(len(s.device.executed), n_before + 1, "executed once")
    check(s.device.executed[-1] is cmd, "executed command is the returned one")
    eq(kw, before, "PERSISTENT RESERVE OUT must not modify the caller's dicts")
    want = ref_pr_list(sa, kw)
    check(is_buffer(cmd.dataout), "dataout is a byte buffer")
    eq(cmd.dataout, want, "PR OUT parameter list sa=%d %r" % (sa, kw))
    eq(cmd.cdb, ref_pr_cdb(sa, scope or 0, pr_type or 0, len(want)), "PR OUT CDB")
    eq(cmd.unmarshall_cdb(cmd.cdb)["parameter_list_length"], len(cmd.dataout), "cdb list length")
    d = cmd.dataout
    # structure
    if sa == 0x07:
        tl = int.from_bytes(d[20:24], "big")
        eq(tl, len(d) - 24, "TRANSPORTID PARAMETER DATA LENGTH")
        ids = walk_transport_ids(d[24:])
        eq(len(ids), 1 if kw.get("transport_id") else 0, "at most one TransportID")
        eq(d[16], 0, "reserved byte 16")
        check(d[17] & ~0x03 == 0, "reserved bits byte 17")
    else:
        check(not any(d[16:20]), "obsolete bytes 16..19")
        check(not any(d[21:24]), "reserved bytes 21..23")
        if sa == 0 and kw.get("spec_i_pt"):
            al = int.from_bytes(d[24:28], "big")
            eq(al, len(d) - 28, "TRANSPORTID PARAMETER DATA LENGTH (basic)")
            ids = walk_transport_ids(d[28:])
            eq(len(ids), len(kw.get("transport_ids", [])), "number of TransportIDs")
            for got, t in zip(ids, kw.get("transport_ids", [])):
                eq(got, ref_transport_id(t), "TransportID in list")
        else:
            eq(len(d), 24, "basic list is 24 bytes")
    # the class level marshaller and direct construction agree
    opcode = s.device.opcodes.PERSISTENT_RESERVE_OUT
    eq(
        PersistentReserveOut.marshall_dataout(opcode, sa, copy.deepcopy(kw)),
        want,
        "marshall_dataout",
    )
    direct = PersistentReserveOut(opcode, sa, scope or 0, pr_type or 0, **copy.deepcopy(kw))
    eq(direct.dataout, want, "direct dataout")
    eq(direct.cdb, cmd.cdb, "direct cdb")
    return cmd


KEYS = [0, 1, 0xDEADBEEF, 0xABCDEFAABBCCDDEE, 0xFFFFFFFFFFFFFFFF, 0x8000000000000000, 0x0102030405060708]


def run_pr_out(s):
    # TransportIDs on their own
    for kind in ("fc", "1394", "rdma", "iscsi0", "iscsi1", "sas", "sop"):
        for _ in range(12):
            check_transport_id(random_transport_id(kind))
    # iSCSI names of every length around the padding boundaries, incl. empty
    for n in list(range(0, 40)) + [223]:
        got = check_transport_id({"protocol_id": PROTOCOL_ID.ISCSI, "tpid_format": 0, "iscsi_name": random_iqn(n)})
        eq(len(got), 4 + pad4(n), "iSCSI TransportID size for %d chars" % n)
        check_transport_id(
            {
                "protocol_id": 5,
                "tpid_format": 1,
                "iscsi_name": random_iqn(n),
                "iscsi_initiator_session_id": "0023d0000" + "%03x" % n,
            }
        )
    # longer than needed identifiers are cut to the field width
    check_transport_id({"protocol_id": 0, "tpid_format": 0, "n_port_name": rbytes(12)})
    check_transport_id({"protocol_id": 6, "tpid_format": 0, "sas_address": bytearray(rbytes(9))})
    check_transport_id({"protocol_id": 4, "tpid_format": 0, "initiator_port_identifier": rbytes(20)})
    check_transport_id({"protocol_id": 3, "tpid_format": 0, "eui64_name": rbytes(8), "unrelated": 1})
    check_transport_id({"protocol_id": 10, "routing_id": rbytes(8)})
    # invalid iSCSI combinations are refused
    raises(
        ValueError,
        PersistentReserveInReadFullStatus.marshall_transport_id,
        {"protocol_id": 5, "tpid_format": 1, "iscsi_name": "iqn.x"},
    )
    raises(
        ValueError,
        PersistentReserveInReadFullStatus.marshall_transport_id,
        {"protocol_id": 5, "tpid_format": 0, "iscsi_name": "iqn.x", "iscsi_initiator_session_id": "abc"},
    )
    raises(
        ValueError,
        PersistentReserveInReadFullStatus.marshall_transport_id,
        {"protocol_id": 5, "iscsi_name": "iqn.x", "iscsi_initiator_session_id": "abc"},
    )
    raises(KeyError, PersistentReserveInReadFullStatus.marshall_transport_id, {"protocol_id": 0})
    raises(KeyError, PersistentReserveInReadFullStatus.marshall_transport_id, {"tpid_format": 0})

    # basic list: all service actions except REGISTER AND MOVE
    check_pr_out(s, 0)
    for sa in (0, 1, 2, 3, 4, 5, 6, 8):
        for _ in range(8):
            kw = {}
            if RNG.random() < 0.8:
                kw["reservation_key"] = RNG.choice(KEYS + [RNG.randrange(1 << 64)])
            if RNG.random() < 0.8:
                kw["service_action_reservation_key"] = RNG.choice(KEYS + [RNG.randrange(1 << 64)])
            for flag in ("all_tg_pt", "aptpl"):
                if RNG.random() < 0.5:
                    kw[flag] = RNG.randrange(2)
            if sa != 0 and RNG.random() < 0.3:
                kw["spec_i_pt"] = 1  # only meaningful for REGISTER: no additional data
            check_pr_out(s, sa, scope=RNG.randrange(16), pr_type=RNG.randrange(16), **kw)
        check_pr_out(
            s,
            sa,
            reservation_key=0xFFFFFFFFFFFFFFFF,
            service_action_reservation_key=0xFFFFFFFFFFFFFFFF,
            all_tg_pt=1,
            aptpl=1,
        )
    # single flags
    for flag in ("spec_i_pt", "all_tg_pt", "aptpl"):
        check_pr_out(s, 0, service_action_reservation_key=0xABCDEFAABBCCDDEE, **{flag: 1})
        check_pr_out(s, 0, **{flag: 0})
    # REGISTER with SPEC_I_PT and TransportIDs
    check_pr_out(s, 0, spec_i_pt=1)
    check_pr_out(s, 0, spec_i_pt=1, transport_ids=[])
    check_pr_out(s, 0, spec_i_pt=True, transport_ids=[random_transport_id("iscsi0")])
    for _ in range(40):
        n = RNG.randrange(0, 7)
        tids = [random_transport_id() for _ in range(n)]
        kw = {"spec_i_pt": 1, "transport_ids": tids}
        if RNG.random() < 0.7:
            kw["service_action_reservation_key"] = RNG.randrange(1 << 64)
        if RNG.random() < 0.5:
            kw["reservation_key"] = RNG.randrange(1 << 64)
        if RNG.random() < 0.5:
            kw["all_tg_pt"] = RNG.randrange(2)
        if RNG.random() < 0.5:
            kw["aptpl"] = RNG.randrange(2)
        check_pr_out(s, 0, scope=RNG.randrange(16), pr_type=RNG.randrange(16), **kw)
    # transport_ids as tuple; the same dict twice
    t = random_transport_id("iscsi1")
    check_pr_out(s, 0, spec_i_pt=1, transport_ids=(t, t, random_transport_id("fc")))
    # TransportIDs without SPEC_I_PT / with another service action are not sent
    check_pr_out(s, 0, spec_i_pt=0, transport_ids=[random_transport_id()])
    check_pr_out(s, 0, transport_ids=[random_transport_id()])
    check_pr_out(s, 1, spec_i_pt=1, transport_ids=[random_transport_id()])
    check_pr_out(s, 0, transport_id=random_transport_id())
    check_pr_out(s, 0, unreg=1, relative_target_port_id=5, something_else=7)
    # a broken TransportID is reported, not silently dropped
    raises(
        ValueError,
        s.persistentreserveout,
        0,
        spec_i_pt=1,
        transport_ids=[{"protocol_id": 5, "tpid_format": 1, "iscsi_name": "iqn.a"}],
    )

    # REGISTER AND MOVE
    check_pr_out(s, 7)
    check_pr_out(s, 7, transport_id=None)
    check_pr_out(s, 7, transport_id={})
    for kind in ("fc", "1394", "rdma", "iscsi0", "iscsi1", "sas", "sop", None):
        for _ in range(6):
            kw = {}
            if RNG.random() < 0.85:
                kw["reservation_key"] = RNG.choice(KEYS + [RNG.randrange(1 << 64)])
            if RNG.random() < 0.85:
                kw["service_action_reservation_key"] = RNG.choice(KEYS + [RNG.randrange(1 << 64)])
            if RNG.random() < 0.6:
                kw["unreg"] = RNG.randrange(2)
            if RNG.random() < 0.6:
                kw["aptpl"] = RNG.randrange(2)
            if RNG.random() < 0.8:
                kw["relative_target_port_id"] = RNG.choice([0, 1, 0xAABB, 0xFFFF, RNG.randrange(1 << 16)])
            if kind:
                kw["transport_id"] = random_transport_id(kind)
            check_pr_out(s, 7, scope=RNG.randrange(16), pr_type=RNG.randrange(16), **kw)
    # the length field is computed, a caller supplied one is not trusted
    check_pr_out(s, 7, transportid_length=99)
    check_pr_out(s, 7, transportid_length=99, transport_id=random_transport_id("iscsi0"))
    # basic-only keys are ignored by REGISTER AND MOVE
    check_pr_out(s, 7, spec_i_pt=1, all_tg_pt=1, transport_ids=[random_transport_id()])
    check_pr_out(
        s,
        7,
        reservation_key=0xFFFFFFFFFFFFFFFF,
        service_action_reservation_key=0xFFFFFFFFFFFFFFFF,
        unreg=1,
        aptpl=1,
        relative_target_port_id=0xFFFF,
        transport_id={"protocol_id": 5, "tpid_format": 0, "iscsi_name": random_iqn(223)},
    )
    raises(
        ValueError,
        s.persistentreserveout,
        7,
        transport_id={"protocol_id": 5, "iscsi_name": "iqn.a", "iscsi_initiator_session_id": "1"},
    )
    # known vectors from the test-suite
    r = s.persistentreserveout(
        service_action=0x07,
        reservation_key=0xABCDEFAABBCCDDEE,
        service_action_reservation_key=0x0102030405060708,
        unreg=1,
        aptpl=1,
        relative_target_port_id=0xAABB,
        transport_id={
            "protocol_id": PROTOCOL_ID.ISCSI,
            "tpid_format": 0,
            "iscsi_name": "iqn.1993-08.org.debian:01:90c27cf89279",
        },
    )
    eq(r.cdb.hex(), "5f070000000000004400", "known RAM cdb")
    eq(
        r.dataout.hex(),
        "abcdefaabbccddee01020304050607080003aabb0000002c"
        "0500002869716e2e313939332d30382e6f72672e64656269616e3a30313a3930633237636638393237390000",
        "known RAM list",
    )


# ----------------------------------------------------------------------------
# designators (used by the EXTENDED COPY identification descriptor)
# ----------------------------------------------------------------------------
def random_designator():
    """returns (designator_type, designator dict, reference bytes)"""
    kind = RNG.choice(
        [
            "vendor",
            "t10",
            "eui8",
            "eui12",
            "eui16",
            "naa2",
            "naa3",
            "naa5",
            "naa6",
            "relport",
            "tpg",
            "lug",
            "md5",
            "name",
            "pcie",
        ]
    )
    if kind == "vendor":
        v = rbytes(RNG.randrange(0, 21))
        return 0, {"vendor_specific": v}, v
    if kind == "t10":
        a, b = rbytes(8), rbytes(RNG.randrange(0, 13))
        return 1, {"t10_vendor_id": a, "vendor_specific_id": b}, a + b
    if kind == "eui8":
        c, e = RNG.randrange(1 << 24), rbytes(5)
        return 2, {"ieee_company_id": c, "vendor_specific_extension_id": e}, be(c, 3) + e
    if kind == "eui12":
        c, e, d = RNG.randrange(1 << 24), rbytes(5), rbytes(4)
        return (
            2,
            {"ieee_company_id": c, "vendor_specific_extension_id": e, "directory_id": d},
            be(c, 3) + e + d,
        )
    if kind == "eui16":
        x, c, e = rbytes(8), RNG.randrange(1 << 24), rbytes(5)
        return (
            2,
            {"identifier_extension": x, "ieee_company_id": c, "vendor_specific_extension_id": e},
            x + be(c, 3) + e,
        )
    if kind == "naa2":
        a, c, b = RNG.randrange(1 << 12), RNG.randrange(1 << 24), RNG.randrange(1 << 24)
        ref = be((2 << 60) | (a << 48) | (c << 24) | b, 8)
        return (
            3,
            {"naa": 2, "vendor_specific_identifier_a": a, "ieee_company_id": c, "vendor_specific_identifier_b": b},
            ref,
        )
    if kind == "naa3":
        v = RNG.randrange(1 << 60)
        return 3, {"naa": 3, "locally_administered_value": v}, be((3 << 60) | v, 8)
    if kind == "naa5":
        c, v = RNG.randrange(1 << 24), RNG.randrange(1 << 36)
        return (
            3,
            {"naa": 5, "ieee_company_id": c, "vendor_specific_identifier": v},
            be((5 << 60) | (c << 36) | v, 8),
        )
    if kind == "naa6":
        c, v, x = RNG.randrange(1 << 24), RNG.randrange(1 << 36), RNG.randrange(1 << 64)
        return (
            3,
            {
                "naa": 6,
                "ieee_company_id": c,
                "vendor_specific_identifier": v,
                "vendor_specific_identifier_extension": x,
            },
            be((6 << 60) | (c << 36) | v, 8) + be(x, 8),
        )
    if kind == "relport":
        v = RNG.randrange(1 << 16)
        return 4, {"relative_port": v}, bytes(2) + be(v, 2)
    if kind == "tpg":
        v = RNG.randrange(1 << 16)
        return 5, {"target_portal_group": v}, bytes(2) + be(v, 2)
    if kind == "lug":
        v = RNG.randrange(1 << 16)
        return 6, {"logical_unit_group": v}, bytes(2) + be(v, 2)
    if kind == "md5":
        v = rbytes(16)
        return 7, {"md5_logical_identifier": v}, v
    if kind == "name":
        v = random_iqn(RNG.randrange(1, 20)).encode("ascii")
        return 8, {"scsi_name_string": v}, v
    if kind == "pcie":
        v = RNG.randrange(1 << 16)
        return 9, {"pci_express_routing_id": v}, be(v, 2) + bytes(6)
    raise AssertionError(kind)


def run_designators():
    for _ in range(300):
        dtype, d, ref = random_designator()
        before = copy.deepcopy(d)
        got = Inquiry.marshall_designator(dtype, d)
        eq(d, before, "marshall_designator must not modify its input")
        eq(bytes(got), bytes(ref), "designator type %d %r" % (dtype, d))
        back = Inquiry.unmarshall_designator(dtype, bytearray(got))
        for k, v in d.items():
            if is_buffer(v):
                if dtype == 0 or dtype == 8 or k == "vendor_specific_id":
                    eq(bytes(back[k]), bytes(v), "designator roundtrip %s" % k)
            else:
                eq(back[k], v, "designator roundtrip %s" % k)
        # the INQUIRY designation descriptor around it
        desc = {
            "protocol_identifier": RNG.randrange(16),
            "code_set": RNG.randrange(1, 4),
            "piv": RNG.randrange(2),
            "association": RNG.randrange(3),
            "designator_type": dtype,
            "designator_length": RNG.randrange(256),
            "designator": d,
        }
        got = Inquiry.marshall_designation_descriptor(desc)
        want = bytes(
            [
                (desc["protocol_identifier"] << 4) | desc["code_set"],
                (desc["piv"] << 7) | (desc["association"] << 4) | dtype,
                0,
                len(ref),
            ]
        ) + bytes(ref)
        eq(bytes(got), want, "designation descriptor")
    eq(Inquiry.marshall_designator(3, {"naa": 1}), None, "unknown NAA yields nothing")
    eq(Inquiry.marshall_designator(0x0F, {}), None, "unknown designator type yields nothing")
    raises(KeyError, Inquiry.marshall_designator, 3, {})
    raises(KeyError, Inquiry.marshall_designator, 1, {"t10_vendor_id": b"12345678"})


# ----------------------------------------------------------------------------
# EXTENDED COPY (LID1: SPC-4 flavour, LID4: SPC-5 flavour)
# ----------------------------------------------------------------------------
BLOCK_TYPES4 = [0x00, 0x04, 0x05, 0x07, 0x0E]
BLOCK_TYPES5 = [0x00, 0x05, 0x0E]
E4_NAME4 = "Identification descriptor target descriptor"
E4_NAME5 = "Identification Descriptor CSCD descriptor"
TYPE_NAMES4 = {
    0x00: ["Direct access block device (e.g., magnetic disk)", "Block"],
    0x01: ["Stream or Tape", "Sequential access device (e.g., magnetic tape)"],
    0x03: ["Stream", "Processor device"],
    0x04: ["Write-once device (e.g., some optical disks)"],
    0x05: ["CD/DVD device"],
    0x07: ["Optical memory device (e.g., some optical disks)"],
    0x0E: ["Simplified direct access device (e.g., magnetic disk)"],
}
TYPE_NAMES5 = {k: v for k, v in TYPE_NAMES4.items() if k not in (0x04, 0x07)}
SEG_NAMES = {
    0x00: ["block -> stream", "Copy from block device to stream device"],
    0x01: ["stream -> block", "Copy from stream device to block device"],
    0x02: ["block -> block", "Copy from block device to block device"],
    0x0B: [
        "block -> stream&application client",
        "Copy from block device to stream device and hold a copy of processed data for the application client",
    ],
    0x0C: [
        "stream -> block&application client",
        "Copy from stream device to block device and hold a copy of processed data for the application client",
    ],
    0x0D: [
        "block -> block&application client",
        "Copy from block device to block device and hold a copy of processed data for the application client",
    ],
}


def random_target(five):
    """returns (dict for the library, reference bytes)"""
    types = TYPE_NAMES5 if five else TYPE_NAMES4
    pdt = RNG.choice(sorted(types))
    dtype, desig, dref = random_designator()
    while len(dref) > 20:
        dtype, desig, dref = random_designator()
    params = {
        "code_set": RNG.randrange(1, 4),
        "association": RNG.randrange(3),
        "designator_type": dtype,
        "designator": desig,
    }
    if RNG.random() < 0.5:
        params["designator_length"] = RNG.choice([len(dref), 0, 16, 255])
    t = {}
    r = RNG.random()
    if r < 0.5:
        t["descriptor_type_code"] = 0xE4
    else:
        t["descriptor_type_code"] = E4_NAME5 if five else E4_NAME4
    r = RNG.random()
    if r < 0.6:
        t["peripheral_device_type"] = pdt
    else:
        name = RNG.choice(types[pdt])
        # "Block" / "Stream ..." names are shared by several codes: the first wins
        t["peripheral_device_type"] = name
        if name == "Block":
            pdt = 0x00
    rip = 0
    if RNG.random() < 0.6:
        rip = RNG.choice([0, 1, 0xFFFF, RNG.randrange(1 << 16)])
        t["relative_initiator_port_identifier"] = rip
    if RNG.random() < 0.3:
        t["lu_id_type"] = 0
    t["cscd_descriptor_parameters" if five else "target_descriptor_parameters"] = params
    ref = bytearray(32)
    ref[0] = 0xE4
    ref[1] = pdt
    ref[2:4] = be(rip, 2)
    ref[4] = params["code_set"]
    ref[5] = (params["association"] << 4) | dtype
    ref[7] = len(dref)
    ref[8 : 8 + len(dref)] = dref
    if RNG.random() < 0.85:
        dsp = {}
        block = BLOCK_TYPES5 if five else BLOCK_TYPES4
        if pdt in block:
            if RNG.random() < 0.7:
                dsp["pad"] = RNG.randrange(2)
            if RNG.random() < 0.8:
                dsp["disk_block_length"] = RNG.choice([0, 512, 4096, 0xFFFFFF, RNG.randrange(1 << 24)])
            ref[28] = dsp.get("pad", 0) << 2
            ref[29:32] = be(dsp.get("disk_block_length", 0), 3)
        elif pdt == 0x01:
            if RNG.random() < 0.7:
                dsp["pad"] = RNG.randrange(2)
            if RNG.random() < 0.7:
                dsp["fixed"] = RNG.randrange(2)
            if RNG.random() < 0.8:
                dsp["stream_block_length"] = RNG.choice([0, 65536, 0xFFFFFF, RNG.randrange(1 << 24)])
            ref[28] = (dsp.get("pad", 0) << 2) | dsp.get("fixed", 0)
            ref[29:32] = be(dsp.get("stream_block_length", 0), 3)
        else:
            if RNG.random() < 0.7:
                dsp["pad"] = RNG.randrange(2)
            ref[28] = dsp.get("pad", 0) << 2
        t["device_type_specific_parameters"] = dsp
    items = list(t.items())
    RNG.shuffle(items)
    return dict(items), bytes(ref)


def random_segment(five):
    code = RNG.choice(sorted(SEG_NAMES))
    src_k = "source_cscd_descriptor_id" if five else "source_target_descriptor_id"
    dst_k = "destination_cscd_descriptor_id" if five else "destination_target_descriptor_id"
    seg = {}
    r = RNG.random()
    seg["descriptor_type_code"] = code if r < 0.5 else RNG.choice(SEG_NAMES[code])
    src = dst = 0
    if RNG.random() < 0.8:
        src = RNG.randrange(1 << 16)
        seg[src_k] = src
    if RNG.random() < 0.8:
        dst = RNG.randrange(1 << 16)
        seg[dst_k] = dst
    cat = 0
    if RNG.random() < 0.5:
        cat = RNG.randrange(2)
        seg["cat"] = cat
    if code in (0x02, 0x0D):
        ref = bytearray(28)
        flags = cat
        if RNG.random() < 0.5:
            dc = RNG.randrange(2)
            seg["dc"] = dc
            flags |= dc << 1
        if five and RNG.random() < 0.5:
            fco = RNG.randrange(2)
            seg["fco"] = fco
            flags |= fco << 2
        ref[1] = flags
        ref[2:4] = be(24, 2)
        if RNG.random() < 0.9:
            v = RNG.choice([0, 1, 0xFFFF, RNG.randrange(1 << 16)])
            seg["block_device_number_of_blocks"] = v
            ref[10:12] = be(v, 2)
        if RNG.random() < 0.9:
            v = RNG.choice([0, 1, (1 << 64) - 1, RNG.randrange(1 << 64)])
            seg["source_block_device_logical_block_address"] = v
            ref[12:20] = be(v, 8)
        if RNG.random() < 0.9:
            v = RNG.choice([0, 10, (1 << 64) - 1, RNG.randrange(1 << 64)])
            seg["destination_block_device_logical_block_address"] = v
            ref[20:28] = be(v, 8)
    else:
        ref = bytearray(24)
        ref[1] = cat
        ref[2:4] = be(20, 2)
        if RNG.random() < 0.9:
            v = RNG.choice([0, 1, 0xFFFFFF, RNG.randrange(1 << 24)])
            seg["stream_device_transfer_length"] = v
            ref[9:12] = be(v, 3)
        if RNG.random() < 0.9:
            v = RNG.choice([0, 1, 0xFFFF, RNG.randrange(1 << 16)])
            seg["block_device_number_of_blocks"] = v
            ref[14:16] = be(v, 2)
        if RNG.random() < 0.9:
            v = RNG.choice([0, 1, (1 << 64) - 1, RNG.randrange(1 << 64)])
            seg["block_device_logical_block_address"] = v
            ref[16:24] = be(v, 8)
    ref[0] = code
    ref[4:6] = be(src, 2)
    ref[6:8] = be(dst, 2)
    items = list(seg.items())
    RNG.shuffle(items)
    return dict(items), bytes(ref), code


def walk_xcopy(d, five):
    """structural re-parse using only the embedded lengths"""
    if five:
        eq(d[0], 1, "PARAMETER LIST FORMAT")
        eq(int.from_bytes(d[2:4], "big"), 0x20, "HEADER CSCD DESCRIPTOR LIST LENGTH")
        eq(d[16], 0xFF, "HEADER CSCD DESCRIPTOR TYPE CODE")
        tl = int.from_bytes(d[42:44], "big")
        sl = int.from_bytes(d[44:46], "big")
        il = int.from_bytes(d[46:48], "big")
        pos = 48
    else:
        tl = int.from_bytes(d[2:4], "big")
        sl = int.from_bytes(d[8:12], "big")
        il = int.from_bytes(d[12:16], "big")
        pos = 16
    eq(pos + tl + sl + il, len(d), "the three embedded lengths add up to the list")
    check(tl % 32 == 0, "descriptor list length multiple of 32")
    targets = [bytes(d[pos + i : pos + i + 32]) for i in range(0, tl, 32)]
    pos += tl
    segs = []
    end = pos + sl
    while pos < end:
        dl = int.from_bytes(d[pos + 2 : pos + 4], "big")
        check(pos + 4 + dl <= end, "segment descriptor runs past the segment list")
        segs.append(bytes(d[pos : pos + 4 + dl]))
        pos += 4 + dl
    eq(pos, end, "segment descriptors tile the segment list")
    inline = bytes(d[pos:])
    eq(len(inline), il, "INLINE DATA LENGTH")
    return targets, segs, inline


def check_xcopy(s, five, targets, segs, inline, **hdr):
    tdicts = [t for t, _r in targets]
    trefs = [r for _t, r in targets]
    sdicts = [x[0] for x in segs]
    srefs = [x[1] for x in segs]
    scodes = [x[2] for x in segs]
    t_before = copy.deepcopy(tdicts)
    s_before = copy.deepcopy(sdicts)
    kw = dict(hdr)
    if tdicts or RNG.random() < 0.5:
        kw["cscd_descriptor_list" if five else "target_descriptor_list"] = tdicts
    if sdicts or RNG.random() < 0.5:
        kw["segment_descriptor_list"] = sdicts
    if inline is not None:
        kw["inline_data"] = inline
    n_before = len(s.device.executed)
    cmd = (s.extendedcopy5 if five else s.extendedcopy4)(**kw)
    check(isinstance(cmd, ExtendedCopy5 if five else ExtendedCopy4), "command class")
    eq(len(s.device.executed), n_before + 1, "executed once")
    check(s.device.executed[-1] is cmd, "executed command is the returned one")
    eq(tdicts, t_before, "target/CSCD descriptor dicts are not modified")
    # segment dicts are normalised in place: numeric type code, descriptor length
    for sd, sb, code, ref in zip(sdicts, s_before, scodes, srefs):
        want_sd = dict(sb)
        want_sd["descriptor_type_code"] = code
        want_sd["descriptor_length"] = len(ref) - 4
        eq(sd, want_sd, "segment dict after marshalling")
    body = b"".join(trefs) + b"".join(srefs) + bytes(inline or b"")
    if five:
        h = bytearray(48)
        h[0] = 1
        h[1] = (
            (hdr.get("sequential_striped", 0) << 5)
            | (hdr.get("list_id_usage", 0) << 3)
            | hdr.get("priority", 0)
        )
        h[2:4] = be(0x20, 2)
        h[15] = (hdr.get("g_sense", 0) << 1) | hdr.get("immed", 0)
        h[16] = 0xFF
        h[20:24] = be(hdr.get("list_identifier", 0), 4)
        h[42:44] = be(32 * len(trefs), 2)
        h[44:46] = be(sum(map(len, srefs)), 2)
        h[46:48] = be(len(inline or b""), 2)
    else:
        h = bytearray(16)
        h[0] = hdr.get("list_identifier", 0)
        h[1] = (
            (hdr.get("sequential_striped", 0) << 5) | (hdr.get("nrcr", 0) << 4) | hdr.get("priority", 0)
        )
        h[2:4] = be(32 * len(trefs), 2)
        h[8:12] = be(sum(map(len, srefs)), 4)
        h[12:16] = be(len(inline or b""), 4)
    want = bytes(h) + body
    check(is_buffer(cmd.dataout), "dataout is a byte buffer")
    eq(cmd.dataout, want, "EXTENDED COPY parameter list (%s)" % ("LID4" if five else "LID1"))
    got_t, got_s, got_i = walk_xcopy(cmd.dataout, five)
    eq(got_t, trefs, "target descriptors in place")
    eq(got_s, srefs, "segment descriptors in place")
    eq(got_i, bytes(inline or b""), "inline data in place")
    for t in got_t:
        eq(t[0], 0xE4, "identification descriptor type code")
        check(t[7] <= 20, "designator fits the descriptor")
    cdb = bytearray(16)
    cdb[0] = 0x83
    cdb[1] = 1 if five else 0
    cdb[10:14] = be(len(want), 4)
    eq(cmd.cdb, cdb, "EXTENDED COPY CDB")
    eq(cmd.unmarshall_cdb(cmd.cdb)["parameter_list_length"], len(cmd.dataout), "cdb list length")
    # direct construction from the untouched copies
    opcode = s.device.opcodes.EXTENDED_COPY
    if five:
        direct = ExtendedCopy5(
            opcode,
            hdr.get("sequential_striped", 0),
            hdr.get("list_id_usage", 0),
            hdr.get("priority", 0),
            hdr.get("g_sense", 0),
            hdr.get("immed", 0),
            hdr.get("list_identifier", 0),
            copy.deepcopy(t_before),
            copy.deepcopy(s_before),
            inline if inline is not None else bytearray(0),
        )
    else:
        direct = ExtendedCopy4(
            opcode,
            hdr.get("list_identifier", 0),
            hdr.get("sequential_striped", 0),
            hdr.get("nrcr", 0),
            hdr.get("priority", 0),
            copy.deepcopy(t_before),
            copy.deepcopy(s_before),
            inline if inline is not None else bytearray(0),
        )
    eq(direct.dataout, want, "direct construction")
    eq(direct.cdb, cdb, "direct construction cdb")
    return cmd


def random_header(five, mode="random"):
    hdr = {}
    if five:
        spec = [
            ("sequential_striped", 1),
            ("list_id_usage", 2),
            ("priority", 3),
            ("g_sense", 1),
            ("immed", 1),
            ("list_identifier", 32),
        ]
    else:
        spec = [("list_identifier", 8), ("sequential_striped", 1), ("nrcr", 1), ("priority", 3)]
    for name, width in spec:
        if mode == "max":
            hdr[name] = (1 << width) - 1
        elif RNG.random() < 0.7:
            hdr[name] = RNG.randrange(1 << width)
    return hdr


def run_xcopy(s):
    for five in (False, True):
        klass = ExtendedCopy5 if five else ExtendedCopy4
        fn = s.extendedcopy5 if five else s.extendedcopy4
        tkey = "cscd_descriptor_list" if five else "target_descriptor_list"
        pkey = "cscd_descriptor_parameters" if five else "target_descriptor_parameters"
        marshall_t = klass.marshall_cscd if five else klass.marshall_target
        # empty command
        cmd = fn()
        eq(len(cmd.dataout), 48 if five else 16, "empty list is just the header")
        check_xcopy(s, five, [], [], None)
        check_xcopy(s, five, [], [], None, **random_header(five, "max"))
        # header fields one at a time
        for name, width in (
            [("sequential_striped", 1), ("list_id_usage", 2), ("priority", 3), ("g_sense", 1), ("immed", 1), ("list_identifier", 32)]
            if five
            else [("list_identifier", 8), ("sequential_striped", 1), ("nrcr", 1), ("priority", 3)]
        ):
            for v in sorted({0, 1, (1 << width) - 1, RNG.randrange(1 << width)}):
                check_xcopy(s, five, [], [], None, **{name: v})
        # inline data only, several buffer types
        for inline in (b"", b"\x01", bytes(range(200)), bytearray(b"inline!!"), rbytes(1000)):
            check_xcopy(s, five, [], [], inline, **random_header(five))
        # single descriptors of every kind
        for _ in range(120):
            t = random_target(five)
            eq(bytes(marshall_t(copy.deepcopy(t[0]))), t[1], "marshall target/CSCD %r" % (t[0],))
            seg = random_segment(five)
            eq(bytes(klass.marshall_segment(copy.deepcopy(seg[0]))), seg[1], "marshall segment %r" % (seg[0],))
        # full commands
        for _ in range(60):
            nt = RNG.randrange(0, 6)
            ns = RNG.randrange(0, 8)
            inline = RNG.choice([None, b"", rbytes(RNG.randrange(1, 64))])
            check_xcopy(
                s,
                five,
                [random_target(five) for _ in range(nt)],
                [random_segment(five) for _ in range(ns)],
                inline,
                **random_header(five),
            )
        # many descriptors
        check_xcopy(
            s,
            five,
            [random_target(five) for _ in range(64)],
            [random_segment(five) for _ in range(100)],
            rbytes(4096),
            **random_header(five, "max"),
        )
        # the example from the documentation / test-suite
        src_k = "source_cscd_descriptor_id" if five else "source_target_descriptor_id"
        dst_k = "destination_cscd_descriptor_id" if five else "destination_target_descriptor_id"
        tl = [
            {
                "descriptor_type_code": E4_NAME5 if five else E4_NAME4,
                "device_type_specific_parameters": {"disk_block_length": 512},
                "peripheral_device_type": 0,
                pkey: {
                    "association": 0,
                    "code_set": 1,
                    "designator": {
                        "ieee_company_id": 5807356,
                        "naa": 6,
                        "vendor_specific_identifier": vs,
                        "vendor_specific_identifier_extension": ext,
                    },
                    "designator_length": 16,
                    "designator_type": 3,
                },
            }
            for vs, ext in ((3140, 14160104652988484981), (3809, 17655255278882869693))
        ]
        sl = [
            {
                "block_device_number_of_blocks": 4,
                "dc": 1,
                "descriptor_type_code": "Copy from block device to block device",
                "destination_block_device_logical_block_address": 10,
                dst_k: 1,
                "source_block_device_logical_block_address": 1,
                src_k: 0,
            }
        ]
        cmd = fn(priority=1, list_identifier=0x34, segment_descriptor_list=sl, **{tkey: tl})
        d = cmd.dataout
        got_t, got_s, got_i = walk_xcopy(d, five)
        eq(len(got_t), 2, "two descriptors")
        for (vs, ext), got in zip(((3140, 14160104652988484981), (3809, 17655255278882869693)), got_t):
            ref = bytearray(32)
            ref[0] = 0xE4
            ref[4] = 1
            ref[5] = 3
            ref[7] = 16
            ref[8:24] = be((6 << 60) | (5807356 << 36) | vs, 8) + be(ext, 8)
            ref[29:32] = be(512, 3)
            eq(got, bytes(ref), "documented identification descriptor")
        eq(
            got_s[0].hex(),
            "02020018" "0000" "0001" "0000" "0004" "0000000000000001" "000000000000000a",
            "documented block to block segment",
        )
        eq(int.from_bytes(cmd.cdb[10:14], "big"), len(d), "documented example cdb length")

        # things that must be refused
        e4 = 0xE4
        good_params = {"code_set": 1, "association": 0, "designator_type": 3, "designator": {"naa": 3, "locally_administered_value": 5}}
        raises(ValueError, fn, **{tkey: [{"descriptor_type_code": e4, "peripheral_device_type": 0, pkey: good_params, "bogus": 1}]})
        raises(ValueError, fn, **{tkey: [{"descriptor_type_code": 0x42, "peripheral_device_type": 0, pkey: good_params}]})
        raises(ValueError, fn, **{tkey: [{"descriptor_type_code": "no such descriptor", "peripheral_device_type": 0, pkey: good_params}]})
        raises(ValueError, fn, **{tkey: [{"peripheral_device_type": 0, pkey: good_params}]})
        raises(ValueError, fn, **{tkey: [{"descriptor_type_code": e4, pkey: good_params}]})
        raises(ValueError, fn, **{tkey: [{"descriptor_type_code": e4, "peripheral_device_type": 0x1F, pkey: good_params}]})
        raises(ValueError, fn, **{tkey: [{"descriptor_type_code": e4, "peripheral_device_type": 0, "lu_id_type": 1, pkey: good_params}]})
        for code in (0xE0, 0xE1, 0xE2, 0xE3, 0xE5, 0xE6, 0xE7, 0xE8, 0xE9, 0xEA):
            exc = ValueError if code == 0xE3 else NotImplementedError
            raises(exc, fn, **{tkey: [{"descriptor_type_code": code, "peripheral_device_type": 0}]})
        raises(NotImplementedError, fn, **{tkey: [{"descriptor_type_code": "IPv6 CSCD descriptor" if five else "IPv6 target descriptor", "peripheral_device_type": 0}]})
        raises(ValueError, fn, segment_descriptor_list=[{"descriptor_type_code": 2, "bogus": 1}])
        raises(ValueError, fn, segment_descriptor_list=[{"descriptor_type_code": 0, "dc": 1}])
        raises(ValueError, fn, segment_descriptor_list=[{"descriptor_type_code": 2, "stream_device_transfer_length": 1}])
        raises(ValueError, fn, segment_descriptor_list=[{"descriptor_type_code": 0x77}])
        raises(ValueError, fn, segment_descriptor_list=[{"descriptor_type_code": "no such segment"}])
        raises(ValueError, fn, segment_descriptor_list=[{}])
        for code in (0x03, 0x04, 0x05, 0x06, 0x07, 0x08, 0x09, 0x0A, 0x0E, 0x0F, 0x10, 0x13, 0x14, 0x15):
            raises(NotImplementedError, fn, segment_descriptor_list=[{"descriptor_type_code": code}])
        raises(NotImplementedError, fn, segment_descriptor_list=[{"descriptor_type_code": "stream -> stream"}])
        if five:
            raises(ValueError, fn, segment_descriptor_list=[{"descriptor_type_code": 2, "source_target_descriptor_id": 1}])
            raises(ValueError, fn, **{tkey: [{"descriptor_type_code": e4, "peripheral_device_type": 4, pkey: good_params}]})
            raises(ValueError, fn, **{tkey: [{"descriptor_type_code": e4, "peripheral_device_type": 0, "target_descriptor_parameters": good_params}]})
        else:
            raises(ValueError, fn, segment_descriptor_list=[{"descriptor_type_code": 2, "fco": 1}])
            raises(ValueError, fn, segment_descriptor_list=[{"descriptor_type_code": 2, "source_cscd_descriptor_id": 1}])
            raises(ValueError, fn, **{tkey: [{"descriptor_type_code": e4, "peripheral_device_type": 0, "cscd_descriptor_parameters": good_params}]})
        # get_code_int is a public helper
        eq(klass.get_code_int("k", {"k": 2}, klass._segment_descriptor_type_codes), 2, "get_code_int by number")
        eq(klass.get_code_int("k", {"k": "block -> block"}, klass._segment_descriptor_type_codes), 2, "get_code_int by name")
        eq(
            klass.get_code_int("k", {"k": "Copy from block device to block device"}, klass._segment_descriptor_type_codes),
            2,
            "get_code_int by description",
        )
        eq(klass.get_code_int("k", {"k": "Block"}, klass._device_type_codes), 0, "first match wins")
        eq(klass.get_code_int("k", {"k": "Stream"}, klass._device_type_codes), 3, "exact name match")
        raises(ValueError, klass.get_code_int, "k", {}, klass._device_type_codes)
        raises(ValueError, klass.get_code_int, "k", {"k": None}, klass._device_type_codes)
        raises(ValueError, klass.get_code_int, "k", {"k": "block"}, klass._device_type_codes)


def main():
    ran_xcopy = 0
    for s in facades():
        run_modeselect(s)
        run_pr_out(s)
        if hasattr(s.device.opcodes, "EXTENDED_COPY"):  # not part of the smc table
            run_xcopy(s)
            ran_xcopy += 1
    check(ran_xcopy >= 4, "EXTENDED COPY was exercised")
    run_designators()
    print("PASS (%d checks)" % CHECKS)
    return 0


if __name__ == "__main__":
    sys.exit(main())
