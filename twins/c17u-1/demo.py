# coding: utf-8
"""
Demo / regression script for property C17:

  A block transfer requested without a block size, an operation code without a
  fixed CDB length, an unknown PERSISTENT RESERVE IN service action, an EXTENDED
  COPY descriptor with unknown keys or type codes, and an inconsistent
  TransportID are each refused with their specific error.  In all these cases no
  command reaches the device and no partially initialised command object is
  returned.

Run as:
    cd /tmp/seed/C17u && PYTHONPATH=/tmp/seed/C17u /venv/bin/python SEED/demo.py
"""
import copy
import re
import sys
import traceback

from pyscsi.pyscsi.scsi import SCSI
from pyscsi.pyscsi.scsi_cdb_atapassthrough16 import ATAPassThrough16
from pyscsi.pyscsi.scsi_cdb_extended_copy_spc4 import ExtendedCopy as ExtendedCopy4
from pyscsi.pyscsi.scsi_cdb_extended_copy_spc5 import ExtendedCopy as ExtendedCopy5
from pyscsi.pyscsi.scsi_cdb_persistentreservein import (
    PersistentReserveIn,
    PersistentReserveInReadFullStatus,
    PersistentReserveInReadKeys,
    PersistentReserveInReadReservation,
    PersistentReserveInReportCapabilities,
)
from pyscsi.pyscsi.scsi_cdb_persistentreserveout import PersistentReserveOut
from pyscsi.pyscsi.scsi_cdb_read10 import Read10
from pyscsi.pyscsi.scsi_cdb_write10 import Write10
from pyscsi.pyscsi.scsi_cdb_writesame16 import WriteSame16
from pyscsi.pyscsi.scsi_command import SCSICommand
from pyscsi.pyscsi.scsi_enum_command import sbc, spc
from pyscsi.pyscsi.scsi_enum_inquiry import DESIGNATOR
from pyscsi.pyscsi.scsi_enum_persistentreserve import PROTOCOL_ID
from pyscsi.pyscsi.scsi_opcode import OpCode
from pyscsi.utils.enum import Enum

FAILURES = []
CHECKS = [0]


def check(cond, what):
    CHECKS[0] += 1
    if not cond:
        FAILURES.append(what)
        print("FAIL:", what)


class RecordingDevice(object):
    """A device that records every command that reaches it."""

    def __init__(self, opcodes):
        self.opcodes = opcodes
        self.devicetype = None
        self.seen = []

    def execute(self, cmd, en_raw_sense=False):
        self.seen.append(cmd)

    def open(self):
        pass

    def close(self):
        pass


def make_scsi(opcodes, blocksize=0):
    s = SCSI(None, blocksize)
    s.device = RecordingDevice(opcodes)
    return s


_SENTINEL = object()


def refused(what, exc_type, fn, dev=None, args=_SENTINEL, msg_re=None):
    """
    fn() must raise exactly exc_type (type identity), return nothing, and if a
    device is given no command must have reached it.
    """
    before = len(dev.seen) if dev is not None else 0
    returned = _SENTINEL
    caught = None
    try:
        returned = fn()
    except BaseException as e:  # noqa
        caught = e
    check(returned is _SENTINEL, "%s: returned %r instead of raising" % (what, returned))
    check(
        caught is not None and type(caught) is exc_type,
        "%s: expected %s got %r" % (what, exc_type, caught),
    )
    if caught is not None and args is not _SENTINEL:
        check(caught.args == args, "%s: args %r != %r" % (what, caught.args, args))
    if caught is not None and msg_re is not None:
        check(
            re.match(msg_re, str(caught), re.S) is not None,
            "%s: message %r !~ %r" % (what, str(caught), msg_re),
        )
    if dev is not None:
        check(len(dev.seen) == before, "%s: a command reached the device" % what)
    return caught


def accepted(what, fn, dev=None, n=1):
    before = len(dev.seen) if dev is not None else 0
    try:
        r = fn()
    except BaseException as e:  # noqa
        check(False, "%s: unexpectedly raised %r" % (what, e))
        traceback.print_exc()
        return None
    if dev is not None:
        check(
            len(dev.seen) == before + n,
            "%s: expected %d command(s) to reach the device" % (what, n),
        )
        if n:
            check(dev.seen[-1] is r, "%s: returned object is not the one executed" % what)
    return r


# ---------------------------------------------------------------------------
# 1. block transfers without a block size
# ---------------------------------------------------------------------------
def test_blocksize():
    MBE = SCSICommand.MissingBlocksizeException
    check(issubclass(MBE, Exception), "MissingBlocksizeException is an Exception")
    check(MBE.__name__ == "MissingBlocksizeException", "MBE name")
    check(MBE is not SCSICommand.OpcodeException, "distinct exception classes")
    # every command class has its own (different) exception classes; the one
    # raised is SCSICommand's
    check(Read10.MissingBlocksizeException is not MBE, "per class exception classes")

    # prime the class level cdb state with a successful 10 byte command so we
    # can observe that failed constructions do not touch it.
    s512 = make_scsi(sbc, 512)
    r = accepted("read10 ok", lambda: s512.read10(0x1234, 2), s512.device)
    check(isinstance(r, Read10), "read10 type")
    check(r.cdb == bytearray.fromhex("28000000123400000200"), "read10 cdb %s" % r.cdb.hex())
    check(len(r.datain) == 1024 and len(r.dataout) == 0, "read10 buffers")
    check(len(SCSICommand.marshall_cdb({})) == 10, "class level cdb is 10 bytes")

    for bs in (0, 0.0, False, 0j):
        s = make_scsi(sbc, bs)
        dev = s.device
        for tl in (1, 0, 7, 65535, None, "x", -1):
            refused("read10 bs=%r tl=%r" % (bs, tl), MBE, lambda: s.read10(0, tl), dev, args=())
            refused(
                "write10 bs=%r tl=%r" % (bs, tl),
                MBE,
                lambda: s.write10(0, tl, bytearray(512)),
                dev,
                args=(),
            )
        refused("read10 kw", MBE, lambda: s.read10(lba=5, tl=1, rdprotect=1, dpo=1, fua=1, rarc=1, group=3), dev)
        refused("write10 kw", MBE, lambda: s.write10(lba=5, tl=1, data=None, wrprotect=1, group=3), dev)
        refused("read10 bad lba", MBE, lambda: s.read10(None, 1), dev)
        for nb in (1, 0, 100, None):
            refused(
                "writesame16 bs=%r nb=%r" % (bs, nb),
                MBE,
                lambda: s.writesame16(0, nb, bytearray(512)),
                dev,
                args=(),
            )
            refused(
                "writesame16 ndob=0 bs=%r" % (bs,),
                MBE,
                lambda: s.writesame16(0, nb, bytearray(512), ndob=0, unmap=1, anchor=1),
                dev,
            )
        # with ndob set no block size is needed
        r = accepted(
            "writesame16 ndob=1", lambda: s.writesame16(0x10, 4, None, ndob=1), dev
        )
        if r is not None:
            check(isinstance(r, WriteSame16), "writesame16 type")
            check(
                r.cdb == bytearray.fromhex("93010000000000000010000000040000"),
                "writesame16 ndob cdb %s" % r.cdb.hex(),
            )
            check(r.dataout == bytearray(0), "writesame16 ndob dataout")
        # reset the class level cdb to 10 bytes again
        accepted("read10 again", lambda: s512.read10(0, 1), s512.device)

        # direct construction
        refused("Read10()", MBE, lambda: Read10(sbc.READ_10, bs, 0, 1))
        refused("Read10() kw", MBE, lambda: Read10(opcode=sbc.READ_10, blocksize=bs, lba=0, tl=1))
        refused("Write10()", MBE, lambda: Write10(sbc.WRITE_10, bs, 0, 1, bytearray(512)))
        refused("WriteSame16()", MBE, lambda: WriteSame16(sbc.WRITE_SAME_16, bs, 0, 1, bytearray(512)))
        refused("Read10(None opcode)", MBE, lambda: Read10(None, bs, 0, 1))
        refused("Write10(None opcode)", MBE, lambda: Write10(None, bs, 0, 1, None))
        refused("WriteSame16(None opcode)", MBE, lambda: WriteSame16(None, bs, 0, 1, None))
        # the block size check comes before the opcode check
        bad = OpCode("BAD", 0x7F, {})
        refused("Read10(bad opcode, bs 0)", MBE, lambda: Read10(bad, bs, 0, 1))
        refused("Write10(bad opcode, bs 0)", MBE, lambda: Write10(bad, bs, 0, 1, None))
        refused("WriteSame16(bad opcode, bs 0)", MBE, lambda: WriteSame16(bad, bs, 0, 1, None))
        check(len(SCSICommand.marshall_cdb({})) == 10, "class level cdb untouched (bs=%r)" % (bs,))

    # ATA PASS-THROUGH(16): only byte_block=1, t_type=1, t_length!=0 needs a
    # block size
    s = make_scsi(sbc, 0)
    dev = s.device
    for t_length in (1, 2, 3):
        for t_dir in (0, 1):
            for kw in ({}, {"blocksize": 0}, {"blocksize": 0, "extra_tl": 4}, {"blocksize": 0.0}, {"blocksize": False, "data": bytearray(4)}):
                refused(
                    "ata16 t_length=%d t_dir=%d %r" % (t_length, t_dir, kw),
                    MBE,
                    lambda: s.atapassthrough16(4, t_length, 1, t_dir, 1, 0, 1, 1, 0, 0x25, **kw),
                    dev,
                    args=(),
                )
            refused(
                "ATAPassThrough16() t_length=%d" % t_length,
                MBE,
                lambda: ATAPassThrough16(sbc.ATA_PASS_THROUGH_16, 4, t_length, 1, t_dir, 1, 0, 1, 1, 0, 0x25),
            )
            refused(
                "ATAPassThrough16(None opcode) t_length=%d" % t_length,
                MBE,
                lambda: ATAPassThrough16(None, 4, t_length, 1, t_dir, 1, 0, 1, 1, 0, 0x25),
            )
    check(len(SCSICommand.marshall_cdb({})) == 10, "class level cdb untouched (ata)")
    # combinations that do not need a block size
    expect = {
        # (t_length, byte_block, t_dir, t_type): (len dataout, len datain)
        (0, 1, 1, 1): (0, 0),
        (0, 0, 0, 0): (0, 0),
        (1, 1, 1, 0): (0, 3 * 512),
        (1, 1, 0, 0): (3 * 512, 0),
        (2, 1, 1, 0): (0, 2 * 512),
        (2, 0, 1, 1): (0, 2),
        (2, 0, 0, 1): (2, 0),
        (1, 0, 1, 0): (0, 3),
        (3, 1, 1, 0): (0, 0),
        (3, 0, 1, 0): (0, 0),
    }
    for (t_length, byte_block, t_dir, t_type), (lo, li) in sorted(expect.items()):
        r = accepted(
            "ata16 ok %r" % ((t_length, byte_block, t_dir, t_type),),
            lambda: s.atapassthrough16(4, t_length, byte_block, t_dir, t_type, 0, 3, 2, 0x010203040506, 0x25),
            dev,
        )
        if r is not None:
            check(isinstance(r, ATAPassThrough16), "ata16 type")
            check(
                (len(r.dataout), len(r.datain)) == (lo, li),
                "ata16 buffers %r: %r" % ((t_length, byte_block, t_dir, t_type), (len(r.dataout), len(r.datain))),
            )
            check(len(r.cdb) == 16 and r.cdb[0] == 0x85 and r.cdb[14] == 0x25, "ata16 cdb")
    r = accepted(
        "ata16 with block size",
        lambda: s.atapassthrough16(4, 2, 1, 1, 1, 0, 0, 2, 0x010203040506, 0x25, blocksize=4096),
        dev,
    )
    if r is not None:
        check(len(r.datain) == 8192, "ata16 blocksize datain")
        check(r.cdb == bytearray.fromhex("85091e00000002030602050104002500"), "ata16 cdb %s" % r.cdb.hex())
    r = accepted(
        "ata16 extra_tl",
        lambda: s.atapassthrough16(4, 3, 1, 1, 1, 0, 0, 2, 0, 0x25, blocksize=512, extra_tl=3),
        dev,
    )
    if r is not None:
        check(len(r.datain) == 1536, "ata16 extra_tl datain")

    # a block size makes everything work
    s = make_scsi(sbc, 512)
    dev = s.device
    r = accepted("write10 ok", lambda: s.write10(1, 2, bytearray(b"\x55" * 1024), fua=1), dev)
    if r is not None:
        check(r.cdb == bytearray.fromhex("2a080000000100000200"), "write10 cdb %s" % r.cdb.hex())
        check(r.dataout == bytearray(b"\x55" * 1024) and len(r.datain) == 0, "write10 buffers")
    r = accepted("writesame16 ok", lambda: s.writesame16(1, 2, bytearray(b"\x55" * 512), unmap=1), dev)
    if r is not None:
        check(r.cdb == bytearray.fromhex("93080000000000000001000000020000"), "writesame16 cdb %s" % r.cdb.hex())
        check(r.dataout == bytearray(b"\x55" * 512), "writesame16 buffers")
    s.blocksize = 0
    refused("read10 after blocksize reset", MBE, lambda: s.read10(0, 1), dev, args=())


# ---------------------------------------------------------------------------
# 2. operation codes without a fixed cdb length
# ---------------------------------------------------------------------------
def test_opcode():
    OE = SCSICommand.OpcodeException
    check(issubclass(OE, Exception) and OE.__name__ == "OpcodeException", "OpcodeException")
    check(Read10.OpcodeException is not OE, "per class OpcodeException")
    sizes = {}
    for v in range(0x00, 0x20):
        sizes[v] = 6
    for v in range(0x20, 0x60):
        sizes[v] = 10
    for v in range(0x80, 0xA0):
        sizes[v] = 16
    for v in range(0xA0, 0xC0):
        sizes[v] = 12
    for v in list(range(-3, 0x104)) + [0x1FF, 1000, 1 << 40, -(1 << 40), 31.5, 95.5, 0x7F + 0.5, 191.25]:
        op = OpCode("OP_%s" % v, v, {})
        if v in sizes:
            r = accepted("init_cdb(%r)" % v, lambda: SCSICommand.init_cdb(op))
            check(
                type(r) is bytearray and r == bytearray(sizes[v]),
                "init_cdb(%r) -> %r" % (v, r),
            )
            r2 = accepted("init_cdb(%r) via subclass" % v, lambda: Read10.init_cdb(op))
            check(r2 == r and r2 is not r, "init_cdb fresh array")
        else:
            refused("init_cdb(%r)" % (v,), OE, lambda: SCSICommand.init_cdb(op), args=())
            refused("Read10.init_cdb(%r)" % (v,), OE, lambda: Read10.init_cdb(op), args=())
    # float values inside a range are sized like the ints
    check(SCSICommand.init_cdb(OpCode("F", 16.0, {})) == bytearray(6), "float opcode value")
    check(SCSICommand.init_cdb(OpCode("F", 0x90 + 0.5, {})) == bytearray(16), "float opcode value 2")

    # through command constructors and through the SCSI facade
    for v in (0x60, 0x6A, 0x7E, 0x7F, 0xC0, 0xD5, 0xFF, 0x100, -1):
        bad = OpCode("BAD", v, {})
        refused("Read10(bad %x)" % v, OE, lambda: Read10(bad, 512, 0, 1), args=())
        refused("Write10(bad %x)" % v, OE, lambda: Write10(bad, 512, 0, 1, bytearray(512)), args=())
        refused("WriteSame16(bad %x)" % v, OE, lambda: WriteSame16(bad, 512, 0, 1, bytearray(512)), args=())
        refused("WriteSame16(bad %x, ndob)" % v, OE, lambda: WriteSame16(bad, 0, 0, 1, None, ndob=1), args=())
        refused("ATAPassThrough16(bad %x)" % v, OE, lambda: ATAPassThrough16(bad, 4, 2, 1, 1, 0, 0, 0, 1, 0, 0x25), args=())
        refused("PersistentReserveIn(bad %x)" % v, OE, lambda: PersistentReserveIn(bad, 0), args=())
        refused("ExtendedCopy4(bad %x)" % v, OE, lambda: ExtendedCopy4(bad), args=())
        refused("ExtendedCopy5(bad %x)" % v, OE, lambda: ExtendedCopy5(bad), args=())
        refused("SCSICommand(bad %x)" % v, OE, lambda: SCSICommand(bad, 0, 0), args=())
        badsa = OpCode("BAD", v, {"READ_KEYS": 0, "READ_RESERVATION": 1, "REPORT_CAPABILITIES": 2, "READ_FULL_STATUS": 3})
        opcodes = Enum(
            {
                "READ_10": bad,
                "WRITE_10": bad,
                "WRITE_SAME_16": bad,
                "ATA_PASS_THROUGH_16": bad,
                "EXTENDED_COPY": bad,
                "PERSISTENT_RESERVE_IN": badsa,
            }
        )
        s = make_scsi(opcodes, 512)
        dev = s.device
        refused("scsi.read10 bad opcode", OE, lambda: s.read10(0, 1), dev, args=())
        refused("scsi.write10 bad opcode", OE, lambda: s.write10(0, 1, bytearray(512)), dev, args=())
        refused("scsi.writesame16 bad opcode", OE, lambda: s.writesame16(0, 1, bytearray(512)), dev, args=())
        refused("scsi.atapassthrough16 bad opcode", OE, lambda: s.atapassthrough16(4, 2, 1, 1, 0, 0, 0, 1, 0, 0x25), dev, args=())
        refused("scsi.extendedcopy4 bad opcode", OE, lambda: s.extendedcopy4(), dev, args=())
        refused("scsi.extendedcopy5 bad opcode", OE, lambda: s.extendedcopy5(), dev, args=())
        for sa in range(4):
            refused("scsi.persistentreservein bad opcode", OE, lambda: s.persistentreservein(sa), dev, args=())
        refused("scsi.persistentreservein bad opcode+sa", ValueError, lambda: s.persistentreservein(9), dev, args=("Invalid Service Action",))

    # good opcode, unusual cdb sizes
    weird = OpCode("WEIRD", 0x08, {})
    r = accepted("Read10 with 6 byte group opcode", lambda: SCSICommand(weird, 2, 3))
    if r is not None:
        check(len(r.dataout) == 2 and len(r.datain) == 3 and r.opcode is weird, "SCSICommand init")
        check(r.result == {} and r.pagecode is None, "SCSICommand init 2")


# ---------------------------------------------------------------------------
# 3. PERSISTENT RESERVE IN service actions
# ---------------------------------------------------------------------------
def test_prin():
    s = make_scsi(spc)
    dev = s.device
    classes = [
        PersistentReserveInReadKeys,
        PersistentReserveInReadReservation,
        PersistentReserveInReportCapabilities,
        PersistentReserveInReadFullStatus,
    ]
    for sa, klass in enumerate(classes):
        for val in (sa, float(sa), complex(sa)) + ((bool(sa),) if sa < 2 else ()):
            r = accepted("prin %r" % (val,), lambda: s.persistentreservein(val, alloclen=256), dev)
            if r is not None:
                check(type(r) is klass, "prin %r -> %r" % (val, type(r)))
                check(r.cdb == bytearray([0x5E, sa, 0, 0, 0, 0, 0, 1, 0, 0]), "prin cdb %s" % r.cdb.hex())
                check(len(r.datain) == 256, "prin datain")
                check(isinstance(r.result, dict), "prin result unmarshalled")
        r = accepted("prin kw %d" % sa, lambda: s.persistentreservein(service_action=sa), dev)
        if r is not None:
            check(type(r) is klass and len(r.datain) == 1024, "prin default alloclen")

    bad = list(range(4, 40)) + [
        -1, -4, 255, 256, 1 << 33, 0.5, 3.0001, None, "0", "READ_KEYS", b"\x00", (0,), [0], [], {}, {0}, object(), float("nan"), float("inf"), PersistentReserveInReadKeys,
    ]
    for val in bad:
        e = refused(
            "prin invalid %r" % (val,),
            ValueError,
            lambda: s.persistentreservein(val),
            dev,
            args=("Invalid Service Action",),
        )
        refused(
            "prin invalid kw %r" % (val,),
            ValueError,
            lambda: s.persistentreservein(service_action=val, alloclen=16),
            dev,
            args=("Invalid Service Action",),
        )
    # also for other device types that know the opcode
    for opcodes in (sbc,):
        s2 = make_scsi(opcodes)
        refused("prin invalid sbc", ValueError, lambda: s2.persistentreservein(4), s2.device, args=("Invalid Service Action",))
        accepted("prin ok sbc", lambda: s2.persistentreservein(3), s2.device)
    # an unknown keyword for a valid action is a TypeError from the constructor
    # of the base class (alloclen is the only one), nothing reaches the device
    accepted("prin extra kwargs are swallowed", lambda: s.persistentreservein(0, foo=1), dev)


# ---------------------------------------------------------------------------
# 4. EXTENDED COPY descriptors
# ---------------------------------------------------------------------------
KEY_RE = r"^Invalid key supplied: (\S*) \(should be one of \{(.*)\}\)$"


def check_key_error(what, e, provided, valid):
    if e is None:
        return
    m = re.match(KEY_RE, str(e), re.S)
    check(m is not None, "%s: message %r" % (what, str(e)))
    if m:
        check(m.group(1) in provided, "%s: named key %r not a supplied key" % (what, m.group(1)))
        listed = set(x.strip().strip("'") for x in m.group(2).split(","))
        check(listed == set(valid), "%s: listed keys %r" % (what, listed))


def test_xcopy():
    variants = [
        dict(
            name="spc4",
            klass=ExtendedCopy4,
            call=lambda s, t=[], g=[], **kw: s.extendedcopy4(target_descriptor_list=t, segment_descriptor_list=g, **kw),
            marshall=ExtendedCopy4.marshall_target,
            params=ExtendedCopy4.marshall_target_descriptor_parameters,
            pkey="target_descriptor_parameters",
            ident="Identification descriptor target descriptor",
            suffix="target descriptor",
            hdr=16,
            src="source_target_descriptor_id",
            dst="destination_target_descriptor_id",
            bad_types=[0x00, 0x01, 0xDF, 0xEB, 0xEC, 0xFE, 0xFF, 0x100, -1, "", "nonsense", "Identification Descriptor CSCD descriptor", 228.5, b"\xe4", (0xE4,)],
            good_pdt=[0x00, 0x01, 0x03, 0x04, 0x05, 0x07, 0x0E],
            bad_pdt=[0x02, 0x06, 0x08, 0x0D, 0x0F, 0x1F, -1, "disk", "", 0.5],
            bad_seg=[0x16, 0x17, 0x18, 0x19, 0xBE, 0xBF, 0xFF, 0x20, -1, "bogus", "", "Verify CSCD", 2.5],
            unimpl_seg=[0x03, 0x04, 0x05, 0x06, 0x07, 0x08, 0x09, 0x0A, 0x0E, 0x0F, 0x10, 0x11, 0x12, 0x13, 0x14, 0x15],
            b2b_extra=[],
        ),
        dict(
            name="spc5",
            klass=ExtendedCopy5,
            call=lambda s, t=[], g=[], **kw: s.extendedcopy5(cscd_descriptor_list=t, segment_descriptor_list=g, **kw),
            marshall=ExtendedCopy5.marshall_cscd,
            params=ExtendedCopy5.marshall_cscd_descriptor_parameters,
            pkey="cscd_descriptor_parameters",
            ident="Identification Descriptor CSCD descriptor",
            suffix="CSCD descriptor",
            hdr=48,
            src="source_cscd_descriptor_id",
            dst="destination_cscd_descriptor_id",
            bad_types=[0x00, 0x01, 0xDF, 0xE3, 0xED, 0xFD, 0xFF, 0x100, -1, "", "nonsense", "Identification descriptor target descriptor", 228.5, b"\xe4", (0xE4,)],
            good_pdt=[0x00, 0x01, 0x03, 0x05, 0x0E],
            bad_pdt=[0x02, 0x04, 0x07, 0x06, 0x08, 0x0D, 0x0F, 0x1F, -1, "disk", "", 0.5],
            bad_seg=[0x11, 0x12, 0x1A, 0xBD, 0xC0, 0xFF, 0x20, -1, "bogus", "", "space -> tape", "Verify block or stream device operation", 2.5],
            unimpl_seg=[0x03, 0x04, 0x05, 0x06, 0x07, 0x08, 0x09, 0x0A, 0x0E, 0x0F, 0x10, 0x13, 0x14, 0x15, 0x16, 0x17, 0x18, 0x19, 0xBE, 0xBF],
            b2b_extra=["fco"],
        ),
    ]
    for v in variants:
        name = v["name"]
        klass = v["klass"]
        s = make_scsi(spc)
        dev = s.device
        call = v["call"]
        pkey = v["pkey"]
        valid_tkeys = [
            "descriptor_type_code",
            "peripheral_device_type",
            "lu_id_type",
            "relative_initiator_port_identifier",
            pkey,
            "device_type_specific_parameters",
        ]

        def good_target(**over):
            d = {
                "descriptor_type_code": 0xE4,
                "peripheral_device_type": 0x00,
                "relative_initiator_port_identifier": 42,
                pkey: {
                    "designator_type": DESIGNATOR.VENDOR_SPECIFIC,
                    "designator": {"vendor_specific": bytearray.fromhex("deadbeef")},
                },
                "device_type_specific_parameters": {"pad": 1, "disk_block_length": 512},
            }
            d.update(over)
            return d

        good_hex = "e400002a00000004deadbeef" + "00" * 16 + "04000200"

        # sanity: a good descriptor reaches the device
        r = accepted("%s good target" % name, lambda: call(s, [good_target()]), dev)
        if r is not None:
            check(type(r) is klass, "%s type" % name)
            check(r.dataout[v["hdr"]:].hex() == good_hex, "%s good target bytes %s" % (name, r.dataout.hex()))
            check(len(r.dataout) == v["hdr"] + 32, "%s good target len" % name)
            check(r.cdb[0] == 0x83 and r.cdb[13] == v["hdr"] + 32, "%s cdb" % name)
        r = accepted(
            "%s good target by name" % name,
            lambda: call(s, [good_target(descriptor_type_code=v["ident"], peripheral_device_type="Direct access block device (e.g., magnetic disk)")]),
            dev,
        )
        if r is not None:
            check(r.dataout[v["hdr"]:].hex() == good_hex, "%s good target by name bytes" % name)
        check(v["marshall"](good_target()).hex() == good_hex, "%s marshall direct" % name)

        # --- unknown keys in a target / CSCD descriptor
        for extra in (
            {"bogus": 1},
            {"Descriptor_type_code": 0xE4},
            {"pad": 1},
            {"cscd_descriptor_parameters" if name == "spc4" else "target_descriptor_parameters": {}},
            {"": 0},
            {"a": 1, "b": 2, "c": 3},
            {"descriptor_length": 28},
        ):
            t = good_target(**extra)
            e = refused("%s target extra keys %r" % (name, sorted(extra)), ValueError, lambda: call(s, [t]), dev)
            check_key_error("%s target extra keys %r" % (name, sorted(extra)), e, set(t), valid_tkeys)
            e = refused("%s marshall extra keys %r" % (name, sorted(extra)), ValueError, lambda: v["marshall"](t))
            check_key_error("%s marshall extra keys" % name, e, set(t), valid_tkeys)
            # second in the list, after a good one
            e = refused("%s 2nd target extra keys" % name, ValueError, lambda: call(s, [good_target(), t]), dev)
            # only bogus keys
            e = refused("%s only bogus keys" % name, ValueError, lambda: call(s, [dict(extra)]), dev)
            check_key_error("%s only bogus" % name, e, set(extra), valid_tkeys)
        # key check comes before the value checks
        e = refused(
            "%s bad key and bad type" % name,
            ValueError,
            lambda: call(s, [good_target(bogus=1, descriptor_type_code=0)]),
            dev,
            msg_re=KEY_RE,
        )

        # --- unknown descriptor type codes
        for code in v["bad_types"]:
            refused(
                "%s bad descriptor type %r" % (name, code),
                ValueError,
                lambda: call(s, [good_target(descriptor_type_code=code)]),
                dev,
                args=("Invalid descriptor_type_code provided: %s" % (code,),),
            )
            refused(
                "%s marshall bad descriptor type %r" % (name, code),
                ValueError,
                lambda: v["marshall"](good_target(descriptor_type_code=code)),
                args=("Invalid descriptor_type_code provided: %s" % (code,),),
            )
        t = good_target()
        del t["descriptor_type_code"]
        refused("%s missing descriptor type" % name, ValueError, lambda: call(s, [t]), dev, args=("Invalid descriptor_type_code provided: None",))
        refused("%s None descriptor type" % name, ValueError, lambda: call(s, [good_target(descriptor_type_code=None)]), dev, args=("Invalid descriptor_type_code provided: None",))
        refused("%s empty descriptor" % name, ValueError, lambda: call(s, [{}]), dev, args=("Invalid descriptor_type_code provided: None",))

        # --- unknown peripheral device types
        for pdt in v["bad_pdt"]:
            refused(
                "%s bad pdt %r" % (name, pdt),
                ValueError,
                lambda: call(s, [good_target(peripheral_device_type=pdt)]),
                dev,
                args=("Invalid peripheral_device_type provided: %s" % (pdt,),),
            )
        t = good_target()
        del t["peripheral_device_type"]
        refused("%s missing pdt" % name, ValueError, lambda: call(s, [t]), dev, args=("Invalid peripheral_device_type provided: None",))
        for pdt in v["good_pdt"]:
            r = accepted("%s pdt %r" % (name, pdt), lambda: call(s, [good_target(peripheral_device_type=pdt, device_type_specific_parameters={"pad": 1, "fixed": 1, "stream_block_length": 0x010203, "disk_block_length": 0x040506})]), dev)
            if r is not None:
                tail = r.dataout[v["hdr"] + 28 : v["hdr"] + 32].hex()
                want = {0x01: "05010203", 0x03: "04000000"}.get(pdt, "04040506")
                check(tail == want, "%s pdt %r device specific bytes %s" % (name, pdt, tail))
                check(r.dataout[v["hdr"] + 1] == pdt, "%s pdt byte" % name)
        # type code is checked before the device type
        refused(
            "%s bad type and bad pdt" % name,
            ValueError,
            lambda: call(s, [good_target(descriptor_type_code=1, peripheral_device_type=2)]),
            dev,
            args=("Invalid descriptor_type_code provided: 1",),
        )

        # --- lu_id_type
        for lu in (1, 2, 3, -1):
            refused(
                "%s lu_id_type %r" % (name, lu),
                ValueError,
                lambda: call(s, [good_target(lu_id_type=lu)]),
                dev,
                args=("Invalid lu_id_type provided: %d" % lu,),
            )
        accepted("%s lu_id_type 0" % name, lambda: call(s, [good_target(lu_id_type=0)]), dev)

        # --- known type codes without parameter support
        names = klass.__dict__.get("_target_descriptor_type_codes") or klass.__dict__.get("_cscd_descriptor_type_codes") or getattr(klass, "_target_descriptor_type_codes", None) or getattr(klass, "_cscd_descriptor_type_codes")
        for code in sorted(names):
            if code == 0xE4:
                continue
            if code == 0xE3:
                refused(
                    "%s E3 parameters" % name,
                    ValueError,
                    lambda: call(s, [good_target(descriptor_type_code=code)]),
                    dev,
                    args=("Invalid descriptor type code: 227",),
                )
                continue
            refused(
                "%s unimplemented %x" % (name, code),
                NotImplementedError,
                lambda: call(s, [good_target(descriptor_type_code=code)]),
                dev,
                args=("CSCD descriptor parameter not yet implemented for %s (%s)" % (hex(code), names[code]["name"]),),
            )
            refused(
                "%s unimplemented by name %x" % (name, code),
                NotImplementedError,
                lambda: call(s, [good_target(descriptor_type_code=names[code]["name"])]),
                dev,
                args=("CSCD descriptor parameter not yet implemented for %s (%s)" % (hex(code), names[code]["name"]),),
            )
        for code in (0x00, 0xDF, 0xE3, 0xED, 0xFD, 0xFF, -1, None, "E4"):
            refused(
                "%s params invalid code %r" % (name, code),
                ValueError,
                lambda: v["params"](code, bytearray(32), {}),
                args=("Invalid descriptor type code: %s" % (code,),),
            )

        # --- segment descriptors
        def b2b(**over):
            d = {
                "descriptor_type_code": 0x02,
                "dc": 1,
                "cat": 1,
                v["src"]: 0,
                v["dst"]: 1,
                "block_device_number_of_blocks": 4,
                "source_block_device_logical_block_address": 1,
                "destination_block_device_logical_block_address": 10,
            }
            d.update(over)
            return d

        def b2s(code=0x00, **over):
            d = {
                "descriptor_type_code": code,
                "cat": 1,
                v["src"]: 2,
                v["dst"]: 3,
                "stream_device_transfer_length": 0x010203,
                "block_device_number_of_blocks": 4,
                "block_device_logical_block_address": 0x0102030405060708,
            }
            d.update(over)
            return d

        b2b_hex = "02030018000000010000000400000000000000010000000000" + "00000a"
        b2s_hex = "%02x01001400020003000102030000000401020304050607" + "08"
        r = accepted("%s b2b" % name, lambda: call(s, [], [b2b()]), dev)
        if r is not None:
            check(r.dataout[v["hdr"]:].hex() == b2b_hex, "%s b2b bytes %s" % (name, r.dataout[v["hdr"]:].hex()))
        seg = b2b(descriptor_type_code="Copy from block device to block device")
        r = accepted("%s b2b by description" % name, lambda: call(s, [], [seg]), dev)
        if r is not None:
            check(r.dataout[v["hdr"]:].hex() == b2b_hex, "%s b2b by description bytes" % name)
            check(seg["descriptor_type_code"] == 0x02 and seg["descriptor_length"] == 24, "%s segment dict updated" % name)
        for code, nm in ((0x00, "block -> stream"), (0x0B, "block -> stream&application client"), (0x01, "stream -> block"), (0x0C, "stream -> block&application client")):
            for c in (code, nm):
                r = accepted("%s b2s %r" % (name, c), lambda: call(s, [], [b2s(c)]), dev)
                if r is not None:
                    check(r.dataout[v["hdr"]:].hex() == b2s_hex % code, "%s b2s %r bytes %s" % (name, c, r.dataout[v["hdr"]:].hex()))
        r = accepted("%s b2b 0x0d" % name, lambda: call(s, [], [b2b(descriptor_type_code=0x0D)]), dev)
        if r is not None:
            check(r.dataout[v["hdr"]:].hex() == "0d" + b2b_hex[2:], "%s b2b 0d bytes" % name)
        for k in v["b2b_extra"]:
            accepted("%s b2b with %s" % (name, k), lambda: call(s, [], [b2b(**{k: 1})]), dev)

        for code in v["bad_seg"]:
            refused(
                "%s bad segment type %r" % (name, code),
                ValueError,
                lambda: call(s, [good_target()], [b2b(descriptor_type_code=code)]),
                dev,
                args=("Invalid descriptor_type_code provided: %s" % (code,),),
            )
            refused(
                "%s marshall_segment bad type %r" % (name, code),
                ValueError,
                lambda: klass.marshall_segment(b2b(descriptor_type_code=code)),
                args=("Invalid descriptor_type_code provided: %s" % (code,),),
            )
        seg = b2b()
        del seg["descriptor_type_code"]
        refused("%s segment without type" % name, ValueError, lambda: call(s, [], [seg]), dev, args=("Invalid descriptor_type_code provided: None",))
        refused("%s empty segment" % name, ValueError, lambda: call(s, [], [{}]), dev, args=("Invalid descriptor_type_code provided: None",))
        segnames = klass._segment_descriptor_type_codes
        for code in v["unimpl_seg"]:
            refused(
                "%s unimplemented segment %x" % (name, code),
                NotImplementedError,
                lambda: call(s, [], [b2b(descriptor_type_code=code)]),
                dev,
                args=("segment descriptor parameter not yet implemented for %s (%s)" % (hex(code), segnames[code]["name"]),),
            )

        valid_b2b = list(b2b()) + ["descriptor_length"] + v["b2b_extra"]
        valid_b2s = list(b2s()) + ["descriptor_length"]
        for extra in ({"bogus": 1}, {"block_device_logical_block_address": 1}, {"fco": 1} if name == "spc4" else {"FCO": 1}, {"": None}, {"x": 1, "y": 2}):
            seg = b2b(**extra)
            e = refused("%s b2b extra keys %r" % (name, sorted(extra)), ValueError, lambda: call(s, [good_target()], [seg]), dev)
            check_key_error("%s b2b extra keys %r" % (name, sorted(extra)), e, set(seg), valid_b2b)
            seg = b2b(**extra)
            e = refused("%s marshall_segment extra keys" % name, ValueError, lambda: klass.marshall_segment(seg))
            check_key_error("%s marshall_segment extra keys" % name, e, set(seg), valid_b2b)
            seg = b2b(**extra)
            e = refused("%s 2nd segment extra keys" % name, ValueError, lambda: call(s, [], [b2b(), seg]), dev)
        for extra in ({"bogus": 1}, {"dc": 1}, {"source_block_device_logical_block_address": 1}):
            for code in (0x00, 0x01, 0x0B, 0x0C):
                seg = b2s(code, **extra)
                e = refused("%s b2s extra keys %r" % (name, sorted(extra)), ValueError, lambda: call(s, [], [seg]), dev)
                check_key_error("%s b2s extra keys %r" % (name, sorted(extra)), e, set(seg), valid_b2s)
        # wrong id key names for the other standard
        other = {"spc4": ("source_cscd_descriptor_id", "destination_cscd_descriptor_id"), "spc5": ("source_target_descriptor_id", "destination_target_descriptor_id")}[name]
        seg = b2b(**{other[0]: 1})
        e = refused("%s other standard's key" % name, ValueError, lambda: call(s, [], [seg]), dev, msg_re=KEY_RE)
        # encode_segment_dict directly
        e = refused(
            "%s encode_segment_dict" % name,
            ValueError,
            lambda: klass.encode_segment_dict({"a": 1}, {"b": [0xFF, 0]}, 8),
            msg_re=KEY_RE,
        )
        check(klass.encode_segment_dict({"b": 3}, {"b": [0xFF, 0], "descriptor_length": [0xFFFF, 2]}, 8) == bytearray.fromhex("0300000400000000"), "%s encode_segment_dict ok" % name)

        # get_code_int directly
        tbl = {1: {"name": "one", "description": "uno"}, 2: {"name": "two"}, 3: {"description": "one"}}
        check(klass.get_code_int("k", {"k": 1}, tbl) == 1, "get_code_int key")
        check(klass.get_code_int("k", {"k": "one"}, tbl) == 1, "get_code_int name")
        check(klass.get_code_int("k", {"k": "uno"}, tbl) == 1, "get_code_int description")
        check(klass.get_code_int("k", {"k": "two"}, tbl) == 2, "get_code_int name 2")
        check(klass.get_code_int("k", {"k": 2.0}, tbl) == 2.0, "get_code_int float")
        for bad in ("three", 0, 4, None, "", "ONE"):
            refused("get_code_int %r" % (bad,), ValueError, lambda: klass.get_code_int("k", {"k": bad}, tbl), args=("Invalid k provided: %s" % (bad,),))
        refused("get_code_int missing", ValueError, lambda: klass.get_code_int("k", {}, tbl), args=("Invalid k provided: None",))
        refused("get_code_int empty table", ValueError, lambda: klass.get_code_int("zz", {"zz": 1}, {}), args=("Invalid zz provided: 1",))

        # empty lists -> fine
        r = accepted("%s empty" % name, lambda: call(s), dev)
        if r is not None:
            check(len(r.dataout) == v["hdr"], "%s empty dataout" % name)


# ---------------------------------------------------------------------------
# 5. TransportIDs
# ---------------------------------------------------------------------------
def test_transport_id():
    M = PersistentReserveInReadFullStatus.marshall_transport_id
    U = PersistentReserveInReadFullStatus.unmarshall_transport_id
    iqn = "iqn.1993-08.org.debian:01:abcdef"

    NEED_ISID = ("Must specify iscsi_initiator_session_id",)
    NEED_FMT = ("Must specify tpid_format=1",)
    inconsistent = [
        ({"protocol_id": PROTOCOL_ID.ISCSI, "tpid_format": 1, "iscsi_name": iqn}, NEED_ISID),
        ({"protocol_id": PROTOCOL_ID.ISCSI, "tpid_format": 1}, NEED_ISID),
        ({"protocol_id": PROTOCOL_ID.ISCSI, "tpid_format": 1, "iscsi_name": iqn, "iscsi_initiator_session_id": ""}, NEED_ISID),
        ({"protocol_id": PROTOCOL_ID.ISCSI, "tpid_format": 1, "iscsi_name": iqn, "iscsi_initiator_session_id": None}, NEED_ISID),
        ({"protocol_id": PROTOCOL_ID.ISCSI, "tpid_format": 2, "iscsi_name": iqn}, NEED_ISID),
        ({"protocol_id": PROTOCOL_ID.ISCSI, "tpid_format": 3, "iscsi_name": iqn, "iscsi_initiator_session_id": 0}, NEED_ISID),
        ({"protocol_id": 5.0, "tpid_format": True, "iscsi_name": iqn}, NEED_ISID),
        ({"protocol_id": PROTOCOL_ID.ISCSI, "iscsi_name": iqn, "iscsi_initiator_session_id": "00023d000001"}, NEED_FMT),
        ({"protocol_id": PROTOCOL_ID.ISCSI, "tpid_format": 0, "iscsi_name": iqn, "iscsi_initiator_session_id": "00023d000001"}, NEED_FMT),
        ({"protocol_id": PROTOCOL_ID.ISCSI, "tpid_format": None, "iscsi_name": iqn, "iscsi_initiator_session_id": "1"}, NEED_FMT),
        ({"protocol_id": PROTOCOL_ID.ISCSI, "iscsi_initiator_session_id": "1"}, NEED_FMT),
        ({"protocol_id": 5, "tpid_format": False, "iscsi_name": iqn, "iscsi_initiator_session_id": b"1"}, NEED_FMT),
    ]
    s = make_scsi(spc)
    dev = s.device
    pro = spc.PERSISTENT_RESERVE_OUT
    for tid, args in inconsistent:
        orig = copy.deepcopy(tid)
        refused("marshall_transport_id %r" % (tid,), ValueError, lambda: M(tid), args=args)
        check(tid == orig, "transport id dict not modified")
        refused(
            "pr out register and move %r" % (tid,),
            ValueError,
            lambda: s.persistentreserveout(pro.serviceaction.REGISTER_AND_MOVE, reservation_key=1, transport_id=tid),
            dev,
            args=args,
        )
        refused(
            "pr out register %r" % (tid,),
            ValueError,
            lambda: s.persistentreserveout(pro.serviceaction.REGISTER, spec_i_pt=1, transport_ids=[tid]),
            dev,
            args=args,
        )
        good = {"protocol_id": PROTOCOL_ID.SAS, "sas_address": bytearray(range(8))}
        refused(
            "pr out register, bad second %r" % (tid,),
            ValueError,
            lambda: s.persistentreserveout(pro.serviceaction.REGISTER, spec_i_pt=1, transport_ids=[good, tid]),
            dev,
            args=args,
        )
        refused(
            "PersistentReserveOut() %r" % (tid,),
            ValueError,
            lambda: PersistentReserveOut(pro, pro.serviceaction.REGISTER_AND_MOVE, transport_id=tid),
            args=args,
        )
    refused("marshall_transport_id without protocol", KeyError, lambda: M({}), args=("protocol_id",))
    refused("marshall_transport_id iscsi without name", KeyError, lambda: M({"protocol_id": 5}), args=("iscsi_name",))

    # consistent ones
    cases = [
        ({"protocol_id": PROTOCOL_ID.ISCSI, "iscsi_name": iqn}, "0500002469716e2e313939332d30382e6f72672e64656269616e3a30313a61626364656600000000"),
        ({"protocol_id": PROTOCOL_ID.ISCSI, "tpid_format": 0, "iscsi_name": "abc"}, "0500000461626300"),
        ({"protocol_id": PROTOCOL_ID.ISCSI, "tpid_format": 1, "iscsi_name": "abc", "iscsi_initiator_session_id": "00023d000001"}, "450000186162632c692c3078303030323364303030303031000000" + "00"),
        ({"protocol_id": PROTOCOL_ID.FIBRE_CHANNEL, "n_port_name": bytearray(range(1, 9))}, "00" * 8 + "0102030405060708" + "00" * 8),
        ({"protocol_id": PROTOCOL_ID.IEEE_1394, "eui64_name": bytearray(range(1, 12))}, "03" + "00" * 7 + "0102030405060708" + "00" * 8),
        ({"protocol_id": PROTOCOL_ID.RDMA, "initiator_port_identifier": bytearray(range(1, 17))}, "04" + "00" * 7 + "0102030405060708090a0b0c0d0e0f10"),
        ({"protocol_id": PROTOCOL_ID.SAS, "sas_address": bytearray(range(1, 9))}, "06000000" + "0102030405060708" + "00" * 12),
        ({"protocol_id": PROTOCOL_ID.SOP, "routing_id": bytearray(range(1, 9)), "tpid_format": 1}, "4a000000" + "0102030405060708" + "00" * 12),
        ({"protocol_id": 1}, "01" + "00" * 23),
        ({"protocol_id": 0x0F, "tpid_format": 3, "sas_address": b"12345678"}, "cf" + "00" * 23),
    ]
    for tid, want in cases:
        r = accepted("marshall_transport_id ok %r" % (tid,), lambda: M(tid))
        if r is not None:
            check(type(r) is bytearray and r.hex() == want, "marshall_transport_id %r -> %s" % (tid, r.hex()))
            if tid["protocol_id"] in (0, 3, 4, 5, 6, 0x0A):
                back = U(r)
                for k in tid:
                    check(back.get(k, 0) == (tid[k][:16] if isinstance(tid[k], bytearray) and k != "eui64_name" else (tid[k][:8] if k == "eui64_name" else tid[k])), "round trip %s of %r: %r" % (k, tid, back))
        r = accepted(
            "pr out ok %r" % (tid,),
            lambda: s.persistentreserveout(pro.serviceaction.REGISTER_AND_MOVE, reservation_key=1, transport_id=tid),
            dev,
        )
        if r is not None:
            check(r.dataout[24:].hex() == want, "pr out dataout")
            check(r.dataout[23] == len(want) // 2, "pr out transportid_length")
    r = accepted(
        "pr out register list",
        lambda: s.persistentreserveout(pro.serviceaction.REGISTER, spec_i_pt=1, transport_ids=[c[0] for c in cases]),
        dev,
    )
    if r is not None:
        check(r.dataout[28:].hex() == "".join(c[1] for c in cases), "pr out register list dataout")

    # decoding: inconsistent TransportIDs
    for fmt in (2, 3):
        data = bytearray(24)
        data[0] = (fmt << 6) | PROTOCOL_ID.ISCSI
        data[3] = 8
        data[4:8] = b"abc\0"
        refused("unmarshall iscsi tpid_format %d" % fmt, ValueError, lambda: U(data), args=("Invalid TPID FORMAT: %d" % fmt,))
    for pid in (1, 2, 7, 8, 9, 0x0B, 0x0C, 0x0D, 0x0E, 0x0F):
        for fmt in (0, 1, 2, 3):
            data = bytearray(24)
            data[0] = (fmt << 6) | pid
            refused("unmarshall protocol %d" % pid, ValueError, lambda: U(data), args=("Invalid PROTOCOL ID: %d" % pid,))
            # embedded in a READ FULL STATUS response
            full = bytearray(8) + bytearray(24) + data
            full[7] = 48
            full[8 + 23] = 24
            refused(
                "read full status protocol %d" % pid,
                ValueError,
                lambda: PersistentReserveInReadFullStatus.unmarshall_datain(full),
                args=("Invalid PROTOCOL ID: %d" % pid,),
            )
    data = bytearray(b"\x45\x00\x00\x08abcdefgh")
    refused("unmarshall iscsi format 1 without separator", ValueError, lambda: U(data))
    # decoding: good ones
    check(U(bytearray.fromhex("0500000461626300")) == {"tpid_format": 0, "protocol_id": 5, "iscsi_name": "abc"}, "unmarshall iscsi 0")
    check(
        U(bytearray.fromhex("450000186162632c692c307830303032336430303030303100000000"))
        == {"tpid_format": 1, "protocol_id": 5, "iscsi_name": "abc", "iscsi_initiator_session_id": "00023d000001"},
        "unmarshall iscsi 1",
    )
    d = bytearray(range(24))
    for pid, key, sl in ((0, "n_port_name", slice(8, 16)), (3, "eui64_name", slice(8, 16)), (4, "initiator_port_identifier", slice(8, 24)), (6, "sas_address", slice(4, 12)), (0x0A, "routing_id", slice(4, 12))):
        for fmt in (0, 1, 2, 3):
            d[0] = (fmt << 6) | pid
            check(U(d) == {"tpid_format": fmt, "protocol_id": pid, key: d[sl]}, "unmarshall protocol %d fmt %d" % (pid, fmt))
    full = bytearray(8) + bytearray(24) + bytearray.fromhex("0500000461626300")
    full[3] = 7
    full[7] = 32
    full[8 + 7] = 0x99
    full[8 + 12] = 0x03
    full[8 + 13] = 0x15
    full[8 + 23] = 8
    r = PersistentReserveInReadFullStatus.unmarshall_datain(full)
    check(
        r == {"pr_generation": 7, "full_status": [{"reservation_key": 0x99, "r_holder": 1, "all_tg_pt": 1, "scope": 1, "type": 5, "relative_target_port_id": 0, "transport_id": {"tpid_format": 0, "protocol_id": 5, "iscsi_name": "abc"}}]},
        "read full status decode %r" % (r,),
    )


def main():
    for t in (test_blocksize, test_opcode, test_prin, test_xcopy, test_transport_id):
        try:
            t()
        except BaseException:  # noqa
            traceback.print_exc()
            FAILURES.append("%s crashed" % t.__name__)
    if FAILURES:
        print("FAILED: %d of %d checks" % (len(FAILURES), CHECKS[0]))
        for f in FAILURES[:40]:
            print("  -", f)
        return 1
    print("PASS (%d checks)" % CHECKS[0])
    return 0


if __name__ == "__main__":
    sys.exit(main())
